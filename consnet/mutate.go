package consnet

import (
	"fmt"
	"time"

	"github.com/dappledger/AnnChain/gemmill/consensus/pbft"
	"github.com/dappledger/AnnChain/gemmill/types"
)

// BlockMutations lists the single mutations a Byzantine proposer applies to an
// otherwise valid block (C02).  "+fix" variants recompute the header hashes that
// commit to the mutated part, so that deeper validation is reached.
func BlockMutations(height int64) []string {
	m := []string{
		"none",
		"chainid", "height+1", "height-1", "time-zero", "numtxs+1", "numtxs-1",
		"lastblockid-hash", "lastblockid-parts-total", "lastblockid-parts-hash", "lastblockid-zero",
		"lastcommithash", "datahash", "validatorshash", "validatorshash-nil", "apphash", "apphash-empty", "receiptshash",
		"proposer-other-validator", "proposer-non-validator", "proposer-empty", "extra",
		"tx-added", "tx-added+fix", "tx-removed", "tx-removed+fix", "extx-added", "extx-added+fix",
	}
	if height > 1 {
		for _, c := range []string{"drop-one", "drop-two", "dup-entry", "foreign-height", "foreign-round", "nil-block-vote", "two-nil-block-votes",
			"bad-signature", "wrong-index-field", "truncated", "extended", "all-nil", "blockid-other", "votes-other-block", "prevote-type", "empty",
			"only-0", "only-1", "only-2", "only-3", "without-0", "without-1", "without-2", "without-3"} {
			m = append(m, "commit-"+c, "commit-"+c+"+fix")
		}
	} else {
		m = append(m, "commit-nonempty", "commit-nonempty+fix")
	}
	return m
}

func flip(b []byte) []byte {
	c := append([]byte(nil), b...)
	if len(c) == 0 {
		return []byte{1}
	}
	c[0] ^= 0x40
	return c
}

// makeMutant builds the Byzantine proposer's block for (h, r) with one mutation.
func (nt *Net) makeMutant(n *Node, e *Emitted, mut string) *altBlock {
	st := n.cs.VerifState()
	rs := n.cs.VerifRoundState()
	var commit *types.Commit
	if e.Height == 1 {
		commit = &types.Commit{}
	} else if rs.LastCommit != nil && rs.LastCommit.HasTwoThirdsMajority() {
		commit = rs.LastCommit.MakeCommit()
	} else {
		return nil
	}
	fix := false
	if len(mut) > 4 && mut[len(mut)-4:] == "+fix" {
		fix = true
		mut = mut[:len(mut)-4]
	}
	// deep copy of the commit votes so that mutations do not touch the node's own votes
	cp := &types.Commit{BlockID: commit.BlockID}
	for _, v := range commit.Precommits {
		if v == nil {
			cp.Precommits = append(cp.Precommits, nil)
		} else {
			c := *v
			cp.Precommits = append(cp.Precommits, &c)
		}
	}
	commit = cp
	txs := []types.Tx{types.Tx(fmt.Sprintf("mut-tx-n%d-h%d-r%d", n.Idx, e.Height, e.Round))}
	block, _ := types.MakeBlock(e.Height, ChainID, txs, nil, commit, n.key.PubKey().Address(), st.LastBlockID, st.Validators.Hash(), st.AppHash, st.ReceiptsHash, nt.Sc.partSize())
	block.Header.Time = time.Unix(1600000000+e.Height*100+e.Round, 0)
	h := block.Header
	first := func() *types.Vote {
		for _, v := range commit.Precommits {
			if v != nil {
				return v
			}
		}
		return nil
	}
	nth := func(k int) (int, *types.Vote) {
		c := 0
		for i, v := range commit.Precommits {
			if v != nil {
				if c == k {
					return i, v
				}
				c++
			}
		}
		return -1, nil
	}
	resign := func(i int, v *types.Vote) {
		v.Signature = nt.Nodes[i].key.Sign(types.SignBytes(ChainID, v))
	}
	switch mut {
	case "none":
	case "chainid":
		h.ChainID = ChainID + "x"
	case "height+1":
		h.Height++
	case "height-1":
		h.Height--
	case "time-zero":
		h.Time = time.Time{}
	case "numtxs+1":
		h.NumTxs++
	case "numtxs-1":
		h.NumTxs--
	case "lastblockid-hash":
		h.LastBlockID.Hash = flip(h.LastBlockID.Hash)
	case "lastblockid-parts-total":
		h.LastBlockID.PartsHeader.Total++
	case "lastblockid-parts-hash":
		h.LastBlockID.PartsHeader.Hash = flip(h.LastBlockID.PartsHeader.Hash)
	case "lastblockid-zero":
		h.LastBlockID = types.BlockID{}
	case "lastcommithash":
		h.LastCommitHash = flip(h.LastCommitHash)
	case "datahash":
		h.DataHash = flip(h.DataHash)
	case "validatorshash":
		h.ValidatorsHash = flip(h.ValidatorsHash)
	case "validatorshash-nil":
		h.ValidatorsHash = nil
	case "apphash":
		h.AppHash = flip(h.AppHash)
	case "apphash-empty":
		h.AppHash = nil
	case "receiptshash":
		h.ReceiptsHash = []byte{7, 7, 7}
	case "proposer-other-validator":
		h.ProposerAddress = nt.Vals[(n.Idx+1)%len(nt.Vals)].Address
	case "proposer-non-validator":
		h.ProposerAddress = flip(h.ProposerAddress)
	case "proposer-empty":
		h.ProposerAddress = nil
	case "extra":
		h.Extra = []byte("extra")
	case "tx-added":
		block.Data = &types.Data{Txs: append(append(types.Txs{}, block.Data.Txs...), types.Tx("sneaked")), ExTxs: block.Data.ExTxs}
		if fix {
			h.DataHash = block.Data.Hash()
		}
	case "tx-removed":
		block.Data = &types.Data{Txs: types.Txs{}, ExTxs: block.Data.ExTxs}
		if fix {
			h.DataHash = block.Data.Hash()
		}
	case "extx-added":
		block.Data = &types.Data{Txs: block.Data.Txs, ExTxs: types.Txs{types.Tx("sneaked-ex")}}
		if fix {
			h.DataHash = block.Data.Hash()
		}
	case "commit-nonempty":
		v := nt.forgeVote(n, types.VoteTypePrecommit, 1, 0, types.BlockID{Hash: []byte{1}, PartsHeader: types.PartSetHeader{Total: 1, Hash: []byte{2}}})
		commit.Precommits = []*types.Vote{v}
	case "commit-drop-one":
		if i, _ := nth(0); i >= 0 {
			commit.Precommits[i] = nil
		}
	case "commit-drop-two":
		if i, _ := nth(0); i >= 0 {
			commit.Precommits[i] = nil
		}
		if i, _ := nth(0); i >= 0 {
			commit.Precommits[i] = nil
		}
	case "commit-dup-entry":
		if i, v := nth(0); i >= 0 {
			j := (i + 1) % len(commit.Precommits)
			c := *v
			commit.Precommits[j] = &c
		}
	case "commit-foreign-height":
		if i, v := nth(1); i >= 0 {
			v.Height++
			resign(i, v)
		}
	case "commit-foreign-round":
		if i, v := nth(1); i >= 0 {
			v.Round++
			resign(i, v)
		}
	case "commit-nil-block-vote":
		if i, v := nth(1); i >= 0 {
			v.BlockID = types.BlockID{}
			resign(i, v)
		}
	case "commit-two-nil-block-votes":
		for k := 0; k < 2; k++ {
			if i, v := nth(k); i >= 0 {
				v.BlockID = types.BlockID{}
				resign(i, v)
			}
		}
	case "commit-bad-signature":
		if i, v := nth(1); i >= 0 {
			_ = i
			v.Signature = n.key.Sign([]byte("garbage"))
		}
	case "commit-wrong-index-field":
		if i, v := nth(1); i >= 0 {
			_ = i
			v.ValidatorIndex = (v.ValidatorIndex + 1) % len(nt.Vals)
		}
	case "commit-truncated":
		commit.Precommits = commit.Precommits[:len(commit.Precommits)-1]
	case "commit-extended":
		commit.Precommits = append(commit.Precommits, nil)
	case "commit-all-nil":
		for i := range commit.Precommits {
			commit.Precommits[i] = nil
		}
	case "commit-blockid-other":
		commit.BlockID = types.BlockID{Hash: flip(commit.BlockID.Hash), PartsHeader: commit.BlockID.PartsHeader}
	case "commit-votes-other-block":
		for i, v := range commit.Precommits {
			if v != nil {
				v.BlockID = types.BlockID{Hash: flip(v.BlockID.Hash), PartsHeader: v.BlockID.PartsHeader}
				resign(i, v)
			}
		}
	case "commit-prevote-type":
		if i, v := nth(1); i >= 0 {
			v.Type = types.VoteTypePrevote
			resign(i, v)
		}
	case "commit-only-0", "commit-only-1", "commit-only-2", "commit-only-3":
		keep := int(mut[len(mut)-1] - '0')
		for i := range commit.Precommits {
			if i != keep {
				commit.Precommits[i] = nil
			}
		}
	case "commit-without-0", "commit-without-1", "commit-without-2", "commit-without-3":
		drop := int(mut[len(mut)-1] - '0')
		if drop < len(commit.Precommits) {
			commit.Precommits[drop] = nil
		}
	case "commit-empty":
		commit.Precommits = nil
	default:
		return nil
	}
	_ = first
	if len(mut) > 7 && mut[:7] == "commit-" {
		block.LastCommit = commit
		if fix {
			h.LastCommitHash = nil
			block.LastCommit = &types.Commit{BlockID: commit.BlockID, Precommits: commit.Precommits}
			h.LastCommitHash = block.LastCommit.Hash()
		}
	}
	var parts *types.PartSet
	var prop *types.Proposal
	func() {
		defer func() { recover() }() // a mutant the harness itself cannot serialise is skipped
		parts = block.MakePartSet(nt.Sc.partSize())
		prop = types.NewProposal(e.Height, e.Round, parts.Header(), -1, types.BlockID{})
		prop.Signature = n.key.Sign(types.SignBytes(ChainID, prop))
	}()
	if parts == nil || prop == nil {
		return nil
	}
	if bh := block.Hash(); len(bh) > 0 {
		nt.Blocks[nt.name(bh)] = block
	}
	return &altBlock{block: block, parts: parts, prop: prop}
}

// routeMutant replaces the Byzantine proposer's proposal (and parts) by the mutant for everybody.
func (nt *Net) routeMutant(n *Node, e *Emitted, i int, r Rule) bool {
	if msgClass(e.Kind) != "proposal" {
		return false
	}
	nt.fired[i]++
	e.targets = map[int]bool{}
	if e.Kind != "proposal" {
		return true // parts of the real proposal go nowhere
	}
	alt := nt.makeMutant(n, e, r.Alt)
	if alt == nil {
		nt.Trace = append(nt.Trace, "mutant "+r.Alt+" could not be built; proposer stays silent")
		return true
	}
	nt.altBlock[fmt.Sprintf("%d/%d", e.Height, e.Round)] = alt
	fp := nt.forge(n, "proposal", e.Height, e.Round, &pbft.ProposalMessage{Proposal: alt.prop})
	fp.Parts = alt.prop.BlockPartsHeader
	nt.send(n.Idx, fp, nil)
	for k := 0; k < alt.parts.Total(); k++ {
		pm := nt.forge(n, "part", e.Height, e.Round, &pbft.BlockPartMessage{Height: e.Height, Round: e.Round, Part: alt.parts.GetPart(k)})
		pm.Parts = alt.prop.BlockPartsHeader
		nt.send(n.Idx, pm, nil)
	}
	nt.Trace = append(nt.Trace, fmt.Sprintf("n%d proposes mutant %q at h%d r%d", n.Idx, r.Alt, e.Height, e.Round))
	return true
}

// ProposerAt returns the index of the round-r proposer of height h in scenario sc
// (by the monitor's own replica of the validator-set history).
func ProposerAt(sc *Scenario, h, r int64) int {
	nt := &Net{Sc: sc}
	keys := Keys(len(sc.Powers))
	for i, k := range keys {
		nt.Vals = append(nt.Vals, &types.Validator{Address: k.PubKey().Address(), PubKey: k.PubKey(), VotingPower: sc.Powers[i], IsCA: true})
	}
	vs := nt.refValidators(h)
	if r > 0 {
		vs.IncrementAccum(r)
	}
	addr := vs.Proposer().Address
	for i, v := range nt.Vals {
		if string(v.Address) == string(addr) {
			return i
		}
	}
	return -1
}
