package consnet

import (
	"fmt"
	"strings"
	"time"

	"github.com/dappledger/AnnChain/gemmill/consensus/pbft"
	"github.com/dappledger/AnnChain/gemmill/types"
)

// Rule is one deviation from the fair default schedule (DESIGN §4.3).
type Rule struct {
	Kind   string `json:"kind"`             // hold | mute | early | dup | lifo | byz-silent | byz-equiv | byz-split | byz-skip | byz-fresh | crash
	Node   int    `json:"node"`             // receiver (hold,dup,lifo,early,crash) or sender (mute)
	Msg    string `json:"msg,omitempty"`    // proposal | prevote | precommit
	Height int64  `json:"height,omitempty"` // height the rule applies to (default 1)
	Round  int64  `json:"round"`
	Step   string `json:"step,omitempty"` // early: propose | prevote-wait | precommit-wait | new-height
	Set    []int  `json:"set,omitempty"`  // byz rules: the honest nodes that get the first variant
	Alt    string `json:"alt,omitempty"`  // byz-split: what the others get: nil | alt | none
	K      int    `json:"k,omitempty"`    // crash: die at the k-th durable write of that height
	Delay  int    `json:"delay,omitempty"`
	Trunc  int    `json:"trunc,omitempty"` // crash: additionally cut this many bytes off the WAL head before the restart
}

func (r Rule) String() string {
	switch r.Kind {
	case "hold", "dup":
		return fmt.Sprintf("%s(to n%d,%s,h%d r%d)", r.Kind, r.Node, r.Msg, r.h(), r.Round)
	case "mute":
		return fmt.Sprintf("mute(from n%d,%s,h%d r%d)", r.Node, r.Msg, r.h(), r.Round)
	case "early":
		return fmt.Sprintf("early(n%d,%s,h%d r%d)", r.Node, r.Step, r.h(), r.Round)
	case "lifo":
		return fmt.Sprintf("lifo(n%d)", r.Node)
	case "crash":
		return fmt.Sprintf("crash(n%d,h%d,write %d,restart+%d)", r.Node, r.h(), r.K, r.Delay)
	case "crash2":
		return fmt.Sprintf("second-crash(n%d,write %d after the restart)", r.Node, r.K)
	case "byz-silent":
		return fmt.Sprintf("byz-silent(%s,h%d r%d)", r.Msg, r.h(), r.Round)
	case "byz-equiv":
		return fmt.Sprintf("byz-equiv-proposal(h%d r%d,A->%v)", r.h(), r.Round, r.Set)
	case "byz-split":
		return fmt.Sprintf("byz-split(%s,h%d r%d,real->%v,others %s)", r.Msg, r.h(), r.Round, r.Set, r.Alt)
	case "byz-skip":
		return fmt.Sprintf("byz-future-votes(h%d r%d->r%d)", r.h(), r.Round, r.Round+1)
	case "byz-fresh":
		return fmt.Sprintf("byz-fresh-proposal(h%d r%d)", r.h(), r.Round)
	case "dev":
		return fmt.Sprintf("deviate(decision %d,alt %d)", r.K, r.Delay)
	case "byz-mutate":
		return fmt.Sprintf("byz-proposes-mutant(h%d r%d,%s)", r.h(), r.Round, r.Alt)
	}
	return r.Kind
}

func (r Rule) h() int64 {
	if r.Height == 0 {
		return 1
	}
	return r.Height
}

// Scenario is one execution to run.
type Scenario struct {
	ID       int         `json:"id"`
	Powers   []int64     `json:"powers"`
	Byz      int         `json:"byz"` // index of the Byzantine validator, -1 none
	Rules    []Rule      `json:"rules"`
	Heights  int64       `json:"heights"`
	MaxSteps int         `json:"max_steps,omitempty"`
	WalLight bool        `json:"wal_light,omitempty"`
	PartSize int         `json:"part_size,omitempty"`
	Mode     string      `json:"mode,omitempty"`
	Extra    string      `json:"extra,omitempty"`
	Inject   *InjectSpec `json:"inject,omitempty"`
	Solo     *SoloSpec   `json:"solo,omitempty"`
	// ValChange: the application changes one validator's voting power in EndBlock of
	// block Height (the new set is in force from Height+1 on)
	ValChange *ValChange `json:"val_change,omitempty"`
	// NoProposerFix: do NOT put the right cached proposer back after a node reloaded its state
	// (see the known finding "proposer-differs-after-reload"); violations that follow carry cause=...
	NoProposerFix bool `json:"no_proposer_fix,omitempty"`
	ViaSwitch     bool `json:"via_switch,omitempty"` // nodes start their consensus through ConsensusReactor.SwitchToConsensus (the default fast_sync start path of a node) instead of a bare Start
}

// ValChange describes one validator-set change.
type ValChange struct {
	Height int64 `json:"height"`
	Index  int   `json:"index"`
	Power  int64 `json:"power"`
}

func (sc *Scenario) partSize() int {
	if sc.PartSize > 0 {
		return sc.PartSize
	}
	return 4096
}

func (sc *Scenario) String() string {
	if sc.Solo != nil {
		return fmt.Sprintf("solo node %d script %v", sc.Solo.Node, sc.Solo.Steps)
	}
	s := fmt.Sprintf("powers=%v byz=%d heights=%d rules=[", sc.Powers, sc.Byz, sc.Heights)
	if sc.ValChange != nil {
		s = fmt.Sprintf("powers=%v (validator %d -> power %d in block %d) byz=%d heights=%d rules=[", sc.Powers, sc.ValChange.Index, sc.ValChange.Power, sc.ValChange.Height, sc.Byz, sc.Heights)
	}
	for i, r := range sc.Rules {
		if i > 0 {
			s += " "
		}
		s += r.String()
	}
	return s + "]"
}

func inSet(s []int, x int) bool {
	for _, y := range s {
		if y == x {
			return true
		}
	}
	return false
}

func msgClass(kind string) string {
	if kind == "part" {
		return "proposal"
	}
	return kind
}

// leftRound: has node n moved past (h, r)?
func leftRound(n *Node, h, r int64) bool {
	rs := n.cs.VerifRoundState()
	return rs.Height > h || (rs.Height == h && rs.Round > r)
}

// withheld: is delivery of e to n currently blocked by a hold/mute rule?
func (nt *Net) withheld(n *Node, e *Emitted) bool {
	for i, r := range nt.Sc.Rules {
		switch r.Kind {
		case "hold":
			if r.Node == n.Idx && r.Msg == msgClass(e.Kind) && r.h() == e.Height && r.Round == e.Round && !leftRound(n, e.Height, e.Round) {
				nt.fired[i]++
				return true
			}
		case "mute":
			if r.Node == e.From && r.Msg == msgClass(e.Kind) && r.h() == e.Height && r.Round == e.Round && !leftRound(n, e.Height, e.Round) {
				nt.fired[i]++
				return true
			}
		}
	}
	return false
}

func (nt *Net) lifo(n *Node) bool {
	for i, r := range nt.Sc.Rules {
		if r.Kind == "lifo" && r.Node == n.Idx {
			nt.fired[i]++
			return true
		}
	}
	return false
}

func (nt *Net) dupRule(n *Node, e *Emitted) bool {
	for i, r := range nt.Sc.Rules {
		if r.Kind == "dup" && r.Node == n.Idx && r.Msg == msgClass(e.Kind) && r.h() == e.Height && r.Round == e.Round {
			nt.fired[i]++
			return true
		}
	}
	return false
}

func stepOf(s string) pbft.RoundStepType {
	switch s {
	case "propose":
		return pbft.RoundStepPropose
	case "prevote-wait":
		return pbft.RoundStepPrevoteWait
	case "precommit-wait":
		return pbft.RoundStepPrecommitWait
	case "new-height":
		return pbft.RoundStepNewHeight
	}
	return 0
}

// earlyTimeout returns the index of a pending timeout of n that an early rule
// lets fire now, or -1.
func (nt *Net) earlyTimeout(n *Node) int {
	p := n.ticker.Pending()
	for i, r := range nt.Sc.Rules {
		if r.Kind != "early" || r.Node != n.Idx {
			continue
		}
		for j, to := range p {
			if to.Height == r.h() && to.Round == r.Round && to.Step == stepOf(r.Step) {
				nt.fired[i]++
				return j
			}
		}
	}
	return -1
}

// armCrash sets the crash point of n for its next life (first life only).
func (nt *Net) armCrash(n *Node) {
	n.crashAt = 0
	if n.restarts > 0 {
		for _, r := range nt.Sc.Rules {
			if r.Kind == "crash2" && r.Node == n.Idx && n.restarts == 1 {
				n.crashAt = r.K
			}
		}
		return
	}
	for _, r := range nt.Sc.Rules {
		if r.Kind == "crash" && r.Node == n.Idx {
			n.crashAt = r.K
		}
	}
}

// restartDue restarts dead nodes: immediately when Delay==0, otherwise when the
// rest of the network has nothing else to do (progress==false) or Delay sweeps
// have passed.
func (nt *Net) restartDue(progress bool) bool {
	did := false
	for _, n := range nt.Nodes {
		if n.alive || n.startErr != nil {
			continue
		}
		delay := 0
		for _, r := range nt.Sc.Rules {
			if (r.Kind == "crash" && n.restarts == 0) || (r.Kind == "crash2" && n.restarts == 1) {
				if r.Node == n.Idx {
					delay = r.Delay
				}
			}
		}
		if delay > 0 && progress {
			continue // wait until the others are quiescent
		}
		n.restarts++
		if n.restarts > 3 {
			continue
		}
		nt.Trace = append(nt.Trace, fmt.Sprintf("n%d RESTART #%d", n.Idx, n.restarts))
		nt.armCrash(n)
		for _, r := range nt.Sc.Rules {
			if r.Kind == "crash" && r.Node == n.Idx && n.restarts == 1 && r.Trunc > 0 {
				cut, ll := truncateWAL(n, r.Trunc)
				nt.Trace = append(nt.Trace, fmt.Sprintf("n%d WAL head cut by %d bytes: %v (last line %d bytes)", n.Idx, r.Trunc, cut, ll))
				if cut {
					nt.fired[-1]++
				}
			}
		}
		if nt.startNode(n) {
			nt.Mon.onRestart(n)
			nt.requeue(n)
		} else {
			nt.Trace = append(nt.Trace, fmt.Sprintf("n%d died/failed during restart: %v %s", n.Idx, n.startErr, n.diedAt))
			nt.Mon.onCrash(n)
			nt.discard(n)
		}
		did = true
	}
	return did
}

// requeue models gossip towards a reconnected peer: everything ever sent to n
// for its current height or later becomes deliverable again.
func (nt *Net) requeue(n *Node) {
	rs := n.cs.VerifRoundState()
	n.pending = nil
	// what peers had told or served this node before it died is gone with its memory:
	// majority claims and block catch-up towards it start afresh
	for k := range nt.claimed {
		if strings.HasPrefix(k, fmt.Sprintf("parts>%d:", n.Idx)) || strings.Contains(k, fmt.Sprintf(">%d:", n.Idx)) {
			delete(nt.claimed, k)
		}
	}
	for _, e := range nt.Ledger {
		if e.From == n.Idx || e.Height < rs.Height-1 {
			continue
		}
		if e.targets != nil && !e.targets[n.Idx] {
			continue
		}
		n.pending = append(n.pending, &delivery{e: e})
	}
}

// ------------------------------------------------------------------ Byzantine routing

func (nt *Net) byzRules(e *Emitted) []int {
	var out []int
	for i, r := range nt.Sc.Rules {
		if len(r.Kind) > 4 && r.Kind[:4] == "byz-" && r.h() == e.Height && r.Round == e.Round {
			out = append(out, i)
		}
	}
	return out
}

// route creates the deliveries of e (emitted by n) to the other nodes.
func (nt *Net) route(n *Node, e *Emitted) {
	if !n.Byz || !nt.rulesOn {
		nt.send(n.Idx, e, nil)
		return
	}
	handled := false
	for _, i := range nt.byzRules(e) {
		r := nt.Sc.Rules[i]
		switch r.Kind {
		case "byz-mutate":
			if nt.routeMutant(n, e, i, r) {
				handled = true
			}
		case "byz-silent":
			if r.Msg == msgClass(e.Kind) {
				nt.fired[i]++
				e.targets = map[int]bool{}
				handled = true
			}
		case "byz-equiv", "byz-fresh":
			if msgClass(e.Kind) != "proposal" {
				continue
			}
			nt.fired[i]++
			key := fmt.Sprintf("%d/%d", e.Height, e.Round)
			if e.Kind == "proposal" {
				alt := nt.makeAlt(n, e)
				if alt == nil {
					continue
				}
				nt.altBlock[key] = alt
				set := r.Set
				if r.Kind == "byz-fresh" {
					set = nil // nobody gets the state machine's own proposal
				}
				e.targets = toSet(set)
				nt.send(n.Idx, e, func(to int) bool { return inSet(set, to) })
				// forged proposal + parts for the others
				fp := nt.forge(n, "proposal", e.Height, e.Round, &pbft.ProposalMessage{Proposal: alt.prop})
				fp.Parts = alt.prop.BlockPartsHeader
				fp.targets = complement(nt, n.Idx, set)
				nt.send(n.Idx, fp, func(to int) bool { return !inSet(set, to) })
				for k := 0; k < alt.parts.Total(); k++ {
					pm := nt.forge(n, "part", e.Height, e.Round, &pbft.BlockPartMessage{Height: e.Height, Round: e.Round, Part: alt.parts.GetPart(k)})
					pm.Parts = alt.prop.BlockPartsHeader
					pm.targets = fp.targets
					nt.send(n.Idx, pm, func(to int) bool { return !inSet(set, to) })
				}
				handled = true
			} else { // parts of the real proposal follow the real proposal
				set := r.Set
				if r.Kind == "byz-fresh" {
					set = nil
				}
				e.targets = toSet(set)
				nt.send(n.Idx, e, func(to int) bool { return inSet(set, to) })
				handled = true
			}
		case "byz-split":
			if r.Msg != e.Kind {
				continue
			}
			nt.fired[i]++
			vm := e.Msg.(*pbft.VoteMessage)
			e.targets = toSet(r.Set)
			nt.send(n.Idx, e, func(to int) bool { return inSet(r.Set, to) })
			if r.Alt != "none" {
				var bid types.BlockID
				if r.Alt == "alt" {
					// the other block of this height: the alternative proposal if one exists,
					// else the first block of this height that differs from the real vote
					bid = nt.otherBlock(e.Height, vm.Vote.BlockID)
				}
				if !(r.Alt == "alt" && bid.IsZero()) {
					v := nt.forgeVote(n, vm.Vote.Type, e.Height, e.Round, bid)
					fv := nt.forge(n, e.Kind, e.Height, e.Round, &pbft.VoteMessage{Vote: v})
					fv.Block = nt.name(bid.Hash)
					fv.targets = complement(nt, n.Idx, r.Set)
					nt.send(n.Idx, fv, func(to int) bool { return !inSet(r.Set, to) })
				}
			}
			handled = true
		case "byz-skip":
			if e.Kind != "prevote" {
				continue
			}
			nt.fired[i]++
			vm := e.Msg.(*pbft.VoteMessage)
			for _, t := range []byte{types.VoteTypePrevote, types.VoteTypePrecommit} {
				v := nt.forgeVote(n, t, e.Height, e.Round+1, vm.Vote.BlockID)
				k := "prevote"
				if t == types.VoteTypePrecommit {
					k = "precommit"
				}
				fv := nt.forge(n, k, e.Height, e.Round+1, &pbft.VoteMessage{Vote: v})
				fv.Block = nt.name(vm.Vote.BlockID.Hash)
				nt.send(n.Idx, fv, nil)
			}
		}
	}
	if !handled {
		nt.send(n.Idx, e, nil)
	}
}

func toSet(s []int) map[int]bool {
	m := map[int]bool{}
	for _, x := range s {
		m[x] = true
	}
	return m
}

func complement(nt *Net, self int, s []int) map[int]bool {
	m := map[int]bool{}
	for _, o := range nt.Nodes {
		if o.Idx != self && !inSet(s, o.Idx) {
			m[o.Idx] = true
		}
	}
	return m
}

func (nt *Net) forge(n *Node, kind string, h, r int64, msg pbft.ConsensusMessage) *Emitted {
	nt.seq++
	e := &Emitted{Seq: nt.seq, From: n.Idx, Kind: kind, Height: h, Round: r, Msg: msg, Forged: true}
	nt.Ledger = append(nt.Ledger, e)
	return e
}

// forgeVote signs a vote directly with the Byzantine key (bypassing its signer file).
func (nt *Net) forgeVote(n *Node, typ byte, h, r int64, bid types.BlockID) *types.Vote {
	v := &types.Vote{ValidatorAddress: n.key.PubKey().Address(), ValidatorIndex: n.Idx, Height: h, Round: r, Type: typ, BlockID: bid}
	v.Signature = n.key.Sign(types.SignBytes(ChainID, v))
	return v
}

// makeAlt builds a second, different but valid block for the (h, r) of the real
// proposal e, signed by the Byzantine proposer.
func (nt *Net) makeAlt(n *Node, e *Emitted) *altBlock {
	st := n.cs.VerifState()
	rs := n.cs.VerifRoundState()
	var commit *types.Commit
	if e.Height == 1 {
		commit = &types.Commit{}
	} else if rs.LastCommit != nil && rs.LastCommit.HasTwoThirdsMajority() {
		commit = rs.LastCommit.MakeCommit()
	} else {
		return nil
	}
	txs := []types.Tx{types.Tx(fmt.Sprintf("alt-tx-n%d-h%d-r%d", n.Idx, e.Height, e.Round))}
	block, parts := types.MakeBlock(e.Height, ChainID, txs, nil, commit, n.key.PubKey().Address(), st.LastBlockID, st.Validators.Hash(), st.AppHash, st.ReceiptsHash, nt.Sc.partSize())
	block.Header.Time = time.Unix(1600000000+e.Height*100+e.Round, 0)
	block.Header.DataHash = nil
	block.FillHeader()
	parts = block.MakePartSet(nt.Sc.partSize())
	prop := types.NewProposal(e.Height, e.Round, parts.Header(), -1, types.BlockID{})
	prop.Signature = n.key.Sign(types.SignBytes(ChainID, prop))
	nt.Blocks[nt.name(block.Hash())] = block
	return &altBlock{block: block, parts: parts, prop: prop}
}

// otherBlock picks a block id of height h different from bid: the Byzantine
// alternative proposal if there is one, else any other proposed block, else the
// real proposal when bid is nil.
func (nt *Net) otherBlock(h int64, bid types.BlockID) types.BlockID {
	for r := int64(0); r < 8; r++ {
		if a, ok := nt.altBlock[fmt.Sprintf("%d/%d", h, r)]; ok {
			id := types.BlockID{Hash: a.block.Hash(), PartsHeader: a.parts.Header()}
			if !id.Equals(bid) {
				return id
			}
		}
	}
	for _, id := range nt.Mon.proposed[h] {
		if !id.Equals(bid) {
			return id
		}
	}
	return types.BlockID{}
}
