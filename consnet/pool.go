package consnet

import (
	"bufio"
	"bytes"
	"encoding/json"
	"fmt"
	"io"
	"os"
	"os/exec"
	"path/filepath"
	"strings"
	"sync"
	"time"
)

// WorkerMain is the body of a worker subprocess: read scenarios (JSON lines) on
// stdin, run each, write one result line on stdout.
func WorkerMain(workDir string, runFn func(sc *Scenario, dir string) *Result) {
	in := bufio.NewReaderSize(os.Stdin, 1<<20)
	out := bufio.NewWriter(os.Stdout)
	n := 0
	for {
		line, err := in.ReadBytes('\n')
		if len(line) > 0 {
			var sc Scenario
			if e := json.Unmarshal(line, &sc); e != nil {
				fmt.Fprintf(os.Stderr, "worker: bad scenario: %v\n", e)
				os.Exit(3)
			}
			fmt.Fprintf(os.Stderr, "##CASE %d\n", sc.ID)
			res := runFn(&sc, filepath.Join(workDir, "net"))
			b, _ := json.Marshal(res)
			out.Write(b)
			out.WriteByte('\n')
			out.Flush()
			n++
		}
		if err != nil {
			return
		}
	}
}

// DefaultRun runs one scenario on a fresh network.
func DefaultRun(sc *Scenario, dir string) *Result {
	if sc.Solo != nil {
		return RunSolo(sc, dir)
	}
	nt := NewNet(sc, dir)
	res := nt.Run()
	nt.StopAll()
	return res
}

type worker struct {
	cmd    *exec.Cmd
	stdin  io.WriteCloser
	stdout *bufio.Reader
	stderr *tailBuf
	count  int
}

type tailBuf struct {
	mu  sync.Mutex
	buf []byte
}

func (t *tailBuf) Write(p []byte) (int, error) {
	t.mu.Lock()
	t.buf = append(t.buf, p...)
	if len(t.buf) > 1<<16 {
		t.buf = t.buf[len(t.buf)-(1<<15):]
	}
	t.mu.Unlock()
	return len(p), nil
}

func (t *tailBuf) String() string {
	t.mu.Lock()
	defer t.mu.Unlock()
	return string(t.buf)
}

// PoolOpts configures RunPool.
type PoolOpts struct {
	Workers     int
	WorkBase    string        // scratch root; each worker gets WorkBase/w<i>
	PerCase     time.Duration // wall-clock guard per case (expiry = inconclusive, never a verdict)
	RecycleEach int           // restart a worker after this many cases
	WorkerArgs  []string      // argv of the worker (default: os.Args[0] "worker")
	Env         []string
}

// CaseOutcome is what RunPool reports per scenario.
type CaseOutcome struct {
	Sc        *Scenario
	Res       *Result // nil if the worker died or timed out
	Died      bool    // worker process died while running this case
	TimedOut  bool
	Stderr    string
	PanicLine string
	PanicSite string
}

func spawn(i int, o *PoolOpts) (*worker, error) {
	dir := filepath.Join(o.WorkBase, fmt.Sprintf("w%d", i))
	os.RemoveAll(dir) // the previous worker process of this slot has exited: its executions' directories can go
	os.MkdirAll(dir, 0755)
	args := o.WorkerArgs
	if args == nil {
		args = []string{os.Args[0], "worker"}
	}
	cmd := exec.Command(args[0], args[1:]...)
	cmd.Env = append(os.Environ(), "VERIF_WORKER_DIR="+dir, "GOMAXPROCS=2")
	cmd.Env = append(cmd.Env, o.Env...)
	in, _ := cmd.StdinPipe()
	out, _ := cmd.StdoutPipe()
	tb := &tailBuf{}
	cmd.Stderr = tb
	if err := cmd.Start(); err != nil {
		return nil, err
	}
	return &worker{cmd: cmd, stdin: in, stdout: bufio.NewReaderSize(out, 1<<20), stderr: tb}, nil
}

func (w *worker) kill() {
	w.stdin.Close()
	w.cmd.Process.Kill()
	w.cmd.Wait()
}

// RunPool runs all scenarios on a pool of worker subprocesses and calls handle
// (serialised) for each outcome.
func RunPool(scs []*Scenario, o PoolOpts, handle func(CaseOutcome)) error {
	if o.Workers <= 0 {
		o.Workers = 16
	}
	if o.PerCase == 0 {
		o.PerCase = 120 * time.Second
	}
	if o.RecycleEach == 0 {
		o.RecycleEach = 100
	}
	if o.Workers > len(scs) {
		o.Workers = len(scs)
	}
	var mu sync.Mutex
	next := 0
	var hmu sync.Mutex
	var wg sync.WaitGroup
	var firstErr error
	for wi := 0; wi < o.Workers; wi++ {
		wg.Add(1)
		go func(wi int) {
			defer wg.Done()
			var w *worker
			defer func() {
				if w != nil {
					w.kill()
				}
			}()
			for {
				mu.Lock()
				if next >= len(scs) {
					mu.Unlock()
					return
				}
				sc := scs[next]
				next++
				mu.Unlock()
				if w == nil || w.count >= o.RecycleEach {
					if w != nil {
						w.kill()
					}
					var err error
					w, err = spawn(wi, &o)
					if err != nil {
						mu.Lock()
						firstErr = err
						mu.Unlock()
						return
					}
				}
				b, _ := json.Marshal(sc)
				w.stdin.Write(append(b, '\n'))
				w.count++
				type rd struct {
					line []byte
					err  error
				}
				ch := make(chan rd, 1)
				go func(r *bufio.Reader) {
					l, e := r.ReadBytes('\n')
					ch <- rd{l, e}
				}(w.stdout)
				out := CaseOutcome{Sc: sc}
				select {
				case r := <-ch:
					if r.err != nil || len(bytes.TrimSpace(r.line)) == 0 {
						out.Died = true
						w.cmd.Wait()
						out.Stderr = w.stderr.String()
						out.PanicLine, out.PanicSite = parsePanic(out.Stderr)
						w = nil
					} else {
						var res Result
						if e := json.Unmarshal(r.line, &res); e != nil {
							out.Died = true
							out.Stderr = "unparsable result: " + string(r.line)
							w.kill()
							w = nil
						} else {
							out.Res = &res
						}
					}
				case <-time.After(o.PerCase):
					out.TimedOut = true
					out.Stderr = w.stderr.String()
					w.kill()
					w = nil
				}
				hmu.Lock()
				handle(out)
				hmu.Unlock()
			}
		}(wi)
	}
	wg.Wait()
	return firstErr
}

// parsePanic extracts the panic message and the innermost repository frame from
// a Go crash dump.
func parsePanic(stderr string) (line, site string) {
	idx := strings.LastIndex(stderr, "\npanic: ")
	if idx < 0 {
		if strings.HasPrefix(stderr, "panic: ") {
			idx = 0
		} else if j := strings.LastIndex(stderr, "fatal error: "); j >= 0 {
			idx = j
		} else {
			return "", ""
		}
	}
	rest := stderr[idx:]
	rest = strings.TrimPrefix(rest, "\n")
	if j := strings.IndexByte(rest, '\n'); j >= 0 {
		line = rest[:j]
	} else {
		line = rest
	}
	if len(line) > 300 {
		line = line[:300]
	}
	for _, l := range strings.Split(rest, "\n") {
		if strings.HasPrefix(l, "github.com/dappledger/AnnChain/") && !strings.Contains(l, "go-common.Panic") && !strings.Contains(l, "utils/verifhook") {
			fn := l
			if j := strings.LastIndex(fn, "("); j > 0 {
				fn = fn[:j]
			}
			site = strings.TrimPrefix(fn, "github.com/dappledger/AnnChain/")
			break
		}
	}
	return
}
