package consnet

import (
	"bytes"
	"fmt"
	"math"
	"os"
	"reflect"
	"time"

	"github.com/dappledger/AnnChain/gemmill/consensus/pbft"
	crypto "github.com/dappledger/AnnChain/gemmill/go-crypto"
	"github.com/dappledger/AnnChain/gemmill/go-wire"
	gcmn "github.com/dappledger/AnnChain/gemmill/modules/go-common"
	"github.com/dappledger/AnnChain/gemmill/types"
)

// InjectSpec (C08): when node Node first satisfies the state predicate State,
// the harness feeds it adversarial inputs through the real
// ConsensusReactor.Receive, one after the other, as long as each leaves the
// round state untouched.
type InjectSpec struct {
	Node   int    `json:"node"`
	State  string `json:"state"`
	Family string `json:"family"` // structured | bytes | bytes2
	Shard  int    `json:"shard"`
	Shards int    `json:"shards"`
	Skip   int    `json:"skip"` // skip cases with index < Skip (resume after a crashing case)
}

type injCase struct {
	desc   string
	typ    string // message type name
	field  string // mutated field / byte class
	ch     byte
	bz     []byte
	from   int
	always bool // must leave the consensus state unchanged whatever it contains (state/bits channels)
}

// InjStats is returned in Result.Extra (JSON).
type InjStats struct {
	Cases          int            `json:"cases"`
	Ran            int            `json:"ran"`
	Rejected       int            `json:"rejected_state_unchanged"`
	Accepted       int            `json:"accepted_state_changed"`
	ReceivePanics  int            `json:"panics_contained_in_receive"`
	ByType         map[string]int `json:"by_type"`
	Triggered      bool           `json:"triggered"`
	NextSkip       int            `json:"next_skip"` // -1 = all done
	AcceptedSample []string       `json:"accepted_sample,omitempty"`
}

func statePredicate(name string, rs *pbft.RoundState, inputs int) bool {
	switch name {
	case "start":
		return true
	case "new-height-2":
		return rs.Height == 2 && rs.Step == pbft.RoundStepNewHeight
	case "propose-no-proposal":
		return rs.Step == pbft.RoundStepPropose && rs.Proposal == nil
	case "proposal-no-block":
		return rs.Step == pbft.RoundStepPropose && rs.Proposal != nil && rs.ProposalBlock == nil
	case "prevote":
		return rs.Step == pbft.RoundStepPrevote
	case "precommit":
		return rs.Step == pbft.RoundStepPrecommit
	case "precommit-wait":
		return rs.Step == pbft.RoundStepPrecommitWait
	case "commit-wait-block":
		return rs.Step == pbft.RoundStepCommit && rs.ProposalBlock == nil
	case "locked-round1":
		return rs.LockedBlock != nil && rs.Round >= 1
	}
	return false
}

// InjectStates lists the receiver states of C08.
var InjectStates = []string{"start", "propose-no-proposal", "proposal-no-block", "prevote", "precommit", "commit-wait-block", "locked-round1", "new-height-2"}

func encodeMsg(m pbft.ConsensusMessage) (bz []byte, ok bool) {
	defer func() {
		if recover() != nil {
			bz, ok = nil, false
		}
	}()
	return wire.BinaryBytes(struct{ pbft.ConsensusMessage }{m}), true
}

func chanOf(m pbft.ConsensusMessage) byte {
	switch m.(type) {
	case *pbft.NewRoundStepMessage, *pbft.CommitStepMessage, *pbft.HasVoteMessage, *pbft.VoteSetMaj23Message:
		return pbft.StateChannel
	case *pbft.ProposalMessage, *pbft.ProposalPOLMessage, *pbft.BlockPartMessage:
		return pbft.DataChannel
	case *pbft.VoteMessage:
		return pbft.VoteChannel
	case *pbft.VoteSetBitsMessage:
		return pbft.VoteSetBitsChannel
	}
	return pbft.StateChannel
}

var intBoundary = []int64{math.MinInt64, -65, -64, -1, 0, 1, 2, 3, 4, 5, 63, 64, 65, 1 << 31, math.MaxInt64}

// mutateField applies mutation k to the field at path in a deep copy; returns
// nil when k is out of range for that field kind.
func fieldMutations(v reflect.Value, path string, out *[]func(root reflect.Value) string, index []interface{}) {
	switch v.Kind() {
	case reflect.Ptr:
		idx := append(append([]interface{}{}, index...), "*")
		*out = append(*out, func(root reflect.Value) string {
			f := walk(root, index)
			if f.CanSet() {
				f.Set(reflect.Zero(f.Type()))
			}
			return path + "=nil"
		})
		if !v.IsNil() {
			fieldMutations(v.Elem(), path, out, idx)
		}
	case reflect.Struct:
		for i := 0; i < v.NumField(); i++ {
			sf := v.Type().Field(i)
			if sf.PkgPath != "" { // unexported
				continue
			}
			fieldMutations(v.Field(i), path+"."+sf.Name, out, append(append([]interface{}{}, index...), i))
		}
	case reflect.Int, reflect.Int64, reflect.Int8, reflect.Uint8:
		for _, b := range intBoundary {
			b := b
			*out = append(*out, func(root reflect.Value) string {
				f := walk(root, index)
				if f.Kind() == reflect.Uint8 {
					f.SetUint(uint64(byte(b)))
				} else if f.Kind() == reflect.Int8 {
					f.SetInt(int64(int8(b)))
				} else {
					f.SetInt(b)
				}
				return fmt.Sprintf("%s=%d", path, b)
			})
		}
	case reflect.Slice:
		if v.Type().Elem().Kind() == reflect.Uint8 {
			for _, kind := range []string{"nil", "empty", "one", "flip", "long"} {
				kind := kind
				*out = append(*out, func(root reflect.Value) string {
					f := walk(root, index)
					switch kind {
					case "nil":
						f.Set(reflect.Zero(f.Type()))
					case "empty":
						f.Set(reflect.MakeSlice(f.Type(), 0, 0))
					case "one":
						f.SetBytes([]byte{0x42})
					case "flip":
						b := append([]byte(nil), f.Bytes()...)
						if len(b) > 0 {
							b[len(b)/2] ^= 0x10
						}
						f.SetBytes(b)
					case "long":
						f.SetBytes(bytes.Repeat([]byte{0xAB}, 300))
					}
					return path + "=" + kind
				})
			}
		} else if v.Type().Elem().Kind() == reflect.Uint64 { // BitArray.Elems
			for _, kind := range []string{"nil", "short", "long"} {
				kind := kind
				*out = append(*out, func(root reflect.Value) string {
					f := walk(root, index)
					switch kind {
					case "nil":
						f.Set(reflect.Zero(f.Type()))
					case "short":
						if f.Len() > 0 {
							f.Set(f.Slice(0, f.Len()-1))
						}
					case "long":
						f.Set(reflect.AppendSlice(f, reflect.ValueOf([]uint64{^uint64(0), ^uint64(0)})))
					}
					return path + "=" + kind
				})
			}
		} else if v.Type().Elem().Kind() == reflect.Slice { // [][]byte (aunts)
			for _, kind := range []string{"nil", "drop", "dup", "append"} {
				kind := kind
				*out = append(*out, func(root reflect.Value) string {
					f := walk(root, index)
					switch kind {
					case "nil":
						f.Set(reflect.Zero(f.Type()))
					case "drop":
						if f.Len() > 0 {
							f.Set(f.Slice(0, f.Len()-1))
						}
					case "dup":
						if f.Len() > 0 {
							f.Set(reflect.Append(f, f.Index(0)))
						}
					case "append":
						f.Set(reflect.Append(f, reflect.ValueOf(bytes.Repeat([]byte{9}, 20))))
					}
					return path + "=" + kind
				})
			}
		}
	case reflect.Interface: // crypto.Signature
		for _, kind := range []string{"nil", "garbage", "secp"} {
			kind := kind
			*out = append(*out, func(root reflect.Value) string {
				f := walk(root, index)
				switch kind {
				case "nil":
					f.Set(reflect.Zero(f.Type()))
				case "garbage":
					var s crypto.SignatureEd25519
					for i := range s {
						s[i] = byte(i)
					}
					f.Set(reflect.ValueOf(s))
				case "secp":
					f.Set(reflect.ValueOf(crypto.SignatureSecp256k1([]byte{1, 2, 3})))
				}
				return path + "=" + kind
			})
		}
	}
}

func walk(root reflect.Value, index []interface{}) reflect.Value {
	v := root
	for _, i := range index {
		switch x := i.(type) {
		case string:
			v = v.Elem()
		case int:
			v = v.Field(x)
		}
	}
	return v
}

// deepCopy clones a message through its wire encoding.
func deepCopy(m pbft.ConsensusMessage) pbft.ConsensusMessage {
	bz, ok := encodeMsg(m)
	if !ok {
		return nil
	}
	_, c, err := pbft.DecodeMessage(bz)
	if err != nil {
		return nil
	}
	return c
}

// baseMessages builds one valid instance of each of the nine consensus
// messages for the receiver's current state.
func (nt *Net) baseMessages(n *Node) []pbft.ConsensusMessage {
	rs := n.cs.VerifRoundState()
	byz := nt.Nodes[nt.Sc.Byz]
	var out []pbft.ConsensusMessage
	// real proposal / part / votes of this height from the ledger
	var prop *pbft.ProposalMessage
	var part *pbft.BlockPartMessage
	for _, e := range nt.Ledger {
		if e.Height != rs.Height {
			continue
		}
		switch m := e.Msg.(type) {
		case *pbft.ProposalMessage:
			if prop == nil || m.Proposal.Round == rs.Round {
				prop = m
			}
		case *pbft.BlockPartMessage:
			if part == nil || m.Round == rs.Round {
				part = m
			}
		}
	}
	if prop == nil {
		// nothing proposed yet: the Byzantine validator signs a proposal for a block of its own
		e := &Emitted{Height: rs.Height, Round: rs.Round}
		if alt := nt.makeAlt(byz, e); alt != nil {
			prop = &pbft.ProposalMessage{Proposal: alt.prop}
			part = &pbft.BlockPartMessage{Height: rs.Height, Round: rs.Round, Part: alt.parts.GetPart(0)}
		}
	}
	bid := types.BlockID{}
	if prop != nil {
		for _, id := range nt.Mon.proposed[rs.Height] {
			if id.PartsHeader.Equals(prop.Proposal.BlockPartsHeader) {
				bid = id
			}
		}
		out = append(out, prop)
	}
	if part != nil {
		out = append(out, part)
	}
	for _, t := range []byte{types.VoteTypePrevote, types.VoteTypePrecommit} {
		out = append(out, &pbft.VoteMessage{Vote: nt.forgeVote(byz, t, rs.Height, rs.Round, bid)})
	}
	nv := len(nt.Vals)
	ba := gcmn.NewBitArray(nv)
	ba.SetIndex(0, true)
	pba := gcmn.NewBitArray(1)
	out = append(out,
		&pbft.NewRoundStepMessage{Height: rs.Height, Round: rs.Round, Step: pbft.RoundStepPrevote, SecondsSinceStartTime: 1, LastCommitRound: 0},
		&pbft.CommitStepMessage{Height: rs.Height, BlockPartsHeader: types.PartSetHeader{Total: 1, Hash: bytes.Repeat([]byte{1}, 20)}, BlockParts: pba},
		&pbft.ProposalPOLMessage{Height: rs.Height, ProposalPOLRound: 0, ProposalPOL: ba.Copy()},
		&pbft.HasVoteMessage{Height: rs.Height, Round: rs.Round, Type: types.VoteTypePrevote, Index: 1},
		&pbft.VoteSetMaj23Message{Height: rs.Height, Round: rs.Round, Type: types.VoteTypePrevote, BlockID: bid},
		&pbft.VoteSetBitsMessage{Height: rs.Height, Round: rs.Round, Type: types.VoteTypePrevote, BlockID: bid, Votes: ba.Copy()},
	)
	return out
}

func typeName(m pbft.ConsensusMessage) string {
	t := reflect.TypeOf(m)
	if t.Kind() == reflect.Ptr {
		t = t.Elem()
	}
	return t.Name()
}

// genCases enumerates the adversarial inputs for node n in its current state.
func (nt *Net) genCases(n *Node, family string) []injCase {
	byz := nt.Nodes[nt.Sc.Byz]
	var cases []injCase
	bases := nt.baseMessages(n)
	alwaysUnchanged := func(m pbft.ConsensusMessage) bool {
		switch m.(type) {
		case *pbft.ProposalMessage, *pbft.BlockPartMessage, *pbft.VoteMessage:
			return false
		}
		return true
	}
	switch family {
	case "structured":
		for _, b := range bases {
			tn := typeName(b)
			if bz, ok := encodeMsg(b); ok {
				cases = append(cases, injCase{desc: tn + " valid", typ: tn, field: "valid", ch: chanOf(b), bz: bz, from: byz.Idx, always: alwaysUnchanged(b)})
			}
			var muts []func(root reflect.Value) string
			fieldMutations(reflect.ValueOf(b), tn, &muts, nil)
			for _, mu := range muts {
				for _, resign := range []bool{false, true} {
					c := deepCopy(b)
					if c == nil {
						continue
					}
					var desc string
					func() {
						defer func() {
							if recover() != nil {
								desc = ""
							}
						}()
						desc = mu(reflect.ValueOf(c))
					}()
					if desc == "" {
						continue
					}
					if resign {
						// the Byzantine validator signs the mutated value properly where it is the signer
						switch m := c.(type) {
						case *pbft.VoteMessage:
							if m.Vote == nil {
								continue
							}
							func() {
								defer func() { recover() }()
								m.Vote.Signature = byz.key.Sign(types.SignBytes(ChainID, m.Vote))
							}()
						case *pbft.ProposalMessage:
							if m.Proposal == nil {
								continue
							}
							func() {
								defer func() { recover() }()
								m.Proposal.Signature = byz.key.Sign(types.SignBytes(ChainID, m.Proposal))
							}()
						default:
							continue
						}
						desc += " (re-signed by the Byzantine validator)"
					}
					bz, ok := encodeMsg(c)
					if !ok {
						continue
					}
					// wrong-channel delivery as well for the first few
					cases = append(cases, injCase{desc: desc, typ: tn, field: fieldOf(desc), ch: chanOf(b), bz: bz, from: byz.Idx, always: alwaysUnchanged(b)})
				}
			}
		}
		// every valid message on every wrong channel
		for _, b := range bases {
			if bz, ok := encodeMsg(b); ok {
				for _, ch := range []byte{pbft.StateChannel, pbft.DataChannel, pbft.VoteChannel, pbft.VoteSetBitsChannel, 0x7f} {
					if ch != chanOf(b) {
						cases = append(cases, injCase{desc: fmt.Sprintf("%s valid on channel %X", typeName(b), ch), typ: typeName(b), field: "wrong-channel", ch: ch, bz: bz, from: byz.Idx, always: true})
					}
				}
			}
		}
	case "bytes":
		for _, b := range bases {
			bz, ok := encodeMsg(b)
			if !ok {
				continue
			}
			tn := typeName(b)
			for pos := 0; pos < len(bz); pos++ {
				for _, v := range []byte{0x00, 0x01, 0x7f, 0x80, 0xff} {
					if bz[pos] == v {
						continue
					}
					m := append([]byte(nil), bz...)
					m[pos] = v
					cases = append(cases, injCase{desc: fmt.Sprintf("%s byte %d of %d := %02X", tn, pos, len(bz), v), typ: tn, field: "byte-substitution", ch: chanOf(b), bz: m, from: byz.Idx})
				}
			}
			for l := 1; l < len(bz); l++ {
				cases = append(cases, injCase{desc: fmt.Sprintf("%s truncated to %d of %d bytes", tn, l, len(bz)), typ: tn, field: "truncation", ch: chanOf(b), bz: append([]byte(nil), bz[:l]...), from: byz.Idx})
			}
		}
		for _, ch := range []byte{pbft.StateChannel, pbft.DataChannel, pbft.VoteChannel, pbft.VoteSetBitsChannel} {
			for a := 0; a < 256; a++ {
				cases = append(cases, injCase{desc: fmt.Sprintf("raw %02X on channel %X", a, ch), typ: "raw", field: "raw-1", ch: ch, bz: []byte{byte(a)}, from: byz.Idx})
			}
		}
	case "bytes2":
		for _, ch := range []byte{pbft.StateChannel, pbft.DataChannel, pbft.VoteChannel, pbft.VoteSetBitsChannel} {
			for a := 0; a < 256; a++ {
				for b := 0; b < 256; b++ {
					cases = append(cases, injCase{desc: fmt.Sprintf("raw %02X%02X on channel %X", a, b, ch), typ: "raw", field: "raw-2", ch: ch, bz: []byte{byte(a), byte(b)}, from: byz.Idx})
				}
			}
		}
	}
	return cases
}

func fieldOf(desc string) string {
	for i := 0; i < len(desc); i++ {
		if desc[i] == '=' {
			return desc[:i]
		}
	}
	return desc
}

// definitelyInvalid: reference predicate — true when the property demands that
// the message leaves the consensus state untouched.
func (nt *Net) definitelyInvalid(n *Node, c injCase) bool {
	if c.always {
		return true
	}
	var msg pbft.ConsensusMessage
	var err error
	func() {
		defer func() {
			if recover() != nil {
				err = fmt.Errorf("decode panic")
			}
		}()
		_, msg, err = pbft.DecodeMessage(c.bz)
	}()
	if err != nil || msg == nil {
		return true
	}
	rs := n.cs.VerifRoundState()
	ok := false
	func() {
		defer func() { recover() }() // a predicate that cannot even be evaluated means invalid
		switch m := msg.(type) {
		case *pbft.VoteMessage:
			if c.ch != pbft.VoteChannel || m.Vote == nil {
				return
			}
			v := m.Vote
			vals := rs.Validators
			if v.Height+1 == rs.Height {
				vals = rs.LastValidators
			}
			if vals == nil || v.ValidatorIndex < 0 || v.ValidatorIndex >= vals.Size() {
				return
			}
			addr, val := vals.GetByIndex(v.ValidatorIndex)
			if !bytes.Equal(addr, v.ValidatorAddress) || v.Signature == nil {
				return
			}
			ok = val.PubKey.VerifyBytes(types.SignBytes(ChainID, v), v.Signature)
		case *pbft.ProposalMessage:
			if c.ch != pbft.DataChannel || m.Proposal == nil || m.Proposal.Signature == nil {
				return
			}
			ok = rs.Validators.Proposer().PubKey.VerifyBytes(types.SignBytes(ChainID, m.Proposal), m.Proposal.Signature)
		case *pbft.BlockPartMessage:
			if c.ch != pbft.DataChannel || m.Part == nil || rs.ProposalBlockParts == nil || m.Height != rs.Height {
				return
			}
			p := m.Part
			if p.Index < 0 || p.Index >= rs.ProposalBlockParts.Total() {
				return
			}
			ok = p.Proof.Verify(p.Index, rs.ProposalBlockParts.Total(), p.Hash(), rs.ProposalBlockParts.Hash())
		}
	}()
	return !ok
}

// runInjections is called when the receiver reached the wanted state.
func (nt *Net) runInjections(n *Node) {
	sp := nt.Sc.Inject
	st := nt.injStats
	st.Triggered = true
	cases := nt.genCases(n, sp.Family)
	st.Cases = len(cases)
	st.NextSkip = -1
	for idx, c := range cases {
		if idx < sp.Skip || (sp.Shards > 1 && idx%sp.Shards != sp.Shard) {
			continue
		}
		fmt.Fprintf(os.Stderr, "##INJ %d %s|%s|%s\n", idx, c.typ, c.field, c.desc)
		before := nt.Mon.Digest(n)
		invalid := nt.definitelyInvalid(n, c)
		panicked := false
		recvDone := make(chan struct{})
		go func() {
			defer close(recvDone)
			defer func() {
				if recover() != nil {
					panicked = true // contained by MConnection._recover in a real node: "disconnects that peer"
				}
			}()
			n.conR.Receive(c.ch, n.peers[c.from], c.bz)
		}()
		wedged := ""
		select {
		case <-recvDone:
			// Receive returned; the consensus mutex must be free again (a handler that returns
			// with it held wedges the node for good without any panic)
			probe := make(chan struct{})
			go func() { n.cs.GetRoundState(); close(probe) }()
			select {
			case <-probe:
			case <-time.After(wedgeTimeout):
				wedged = "after Reactor.Receive returned, the consensus state's mutex is still held"
			}
		case <-time.After(wedgeTimeout):
			wedged = "Reactor.Receive does not return"
		}
		if wedged != "" {
			nt.Mon.report("C08", map[string]string{"kind": "node-wedged", "type": c.typ, "field": c.field},
				fmt.Sprintf("node %d in state %q: %s: %s (no progress possible any more, no panic, peer not disconnected)", n.Idx, sp.State, c.desc, wedged))
			st.Ran++
			st.NextSkip = idx + 1 // the remaining cases need a fresh execution
			nt.wedged = true
			n.alive = false
			return
		}
		st.Ran++
		st.ByType[c.typ]++
		if panicked {
			st.ReceivePanics++
		}
		died := false
		for {
			p, _ := n.cs.VerifQueueLens()
			if p == 0 {
				break
			}
			nt.Steps++
			n.gate.Go <- struct{}{}
			select {
			case <-n.gate.Idle:
			case <-n.dead:
				died = true
			}
			if died {
				break
			}
		}
		if died {
			return
		}
		nt.collect(n)
		after := nt.Mon.Digest(n)
		if after == before {
			st.Rejected++
			continue
		}
		st.Accepted++
		if len(st.AcceptedSample) < 5 {
			st.AcceptedSample = append(st.AcceptedSample, c.desc)
		}
		nt.Trace = append(nt.Trace, fmt.Sprintf("n%d state changed by injected %s", n.Idx, c.desc))
		if invalid {
			nt.Mon.report("C08", map[string]string{"kind": "invalid-message-changed-consensus-state", "type": c.typ, "field": c.field},
				fmt.Sprintf("node %d in state %q: %s fails validation but changed the round state\n   before: %s\n   after:  %s", n.Idx, sp.State, c.desc, before, after))
		}
		nt.Mon.afterStep(n)
		// the state moved: the remaining cases need a fresh execution
		st.NextSkip = idx + 1
		return
	}
}

// wedgeTimeout: how long a single lock acquisition / handler call may take before the
// node counts as wedged.  A mutex left locked is never released, so the value only has
// to be far above any scheduling delay of a loaded machine.
var wedgeTimeout = 40 * time.Second
