package consnet

import (
	"bufio"
	"encoding/json"
	"fmt"
	"io/ioutil"
	"os"
	"path/filepath"
	"sort"
	"strings"
)

// RefDigests holds, per node and height, the round-state digest at the start of
// the height and after each input processed at that height (C07 oracle 2).
type RefDigests struct {
	Start map[string]string   `json:"start"` // "n/h"
	After map[string][]string `json:"after"` // "n/h" -> digest after i-th input logged at height h
	// own messages emitted but not yet processed at the same points (what a replay must re-emit)
	StartOwn map[string][]string   `json:"start_own"`
	AfterOwn map[string][][]string `json:"after_own"`
}

func newRef() *RefDigests {
	return &RefDigests{Start: map[string]string{}, After: map[string][]string{}, StartOwn: map[string][]string{}, AfterOwn: map[string][][]string{}}
}

func (nt *Net) pname(h []byte) string {
	if len(h) == 0 {
		return ""
	}
	if nt.pnames == nil {
		nt.pnames = map[string]string{}
	}
	k := fmt.Sprintf("%X", h)
	if v, ok := nt.pnames[k]; ok {
		return v
	}
	v := fmt.Sprintf("p%d", len(nt.pnames)+1)
	nt.pnames[k] = v
	return v
}

func (m *Monitors) ref() *RefDigests {
	if m.digests == nil {
		m.digests = newRef()
	}
	return m.digests
}

func (m *Monitors) recordDigest(n *Node, hBefore int64) {
	if m.nt.Sc.Mode != "c07" {
		return
	}
	d := m.Digest(n)
	if m.selfDigest == nil {
		m.selfDigest = map[int]string{}
	}
	m.selfDigest[n.Idx] = d
	k := fmt.Sprintf("%d/%d", n.Idx, hBefore)
	r := m.ref()
	r.After[k] = append(r.After[k], d)
	r.AfterOwn[k] = append(r.AfterOwn[k], ownDesc(n))
	if h := n.cs.VerifRoundState().Height; h != hBefore {
		r.Start[fmt.Sprintf("%d/%d", n.Idx, h)] = d
		r.StartOwn[fmt.Sprintf("%d/%d", n.Idx, h)] = ownDesc(n)
	}
}

func (m *Monitors) noteStart(n *Node) {
	if m.nt.Sc.Mode != "c07" {
		return
	}
	if m.selfDigest == nil {
		m.selfDigest = map[int]string{}
	}
	if n.restarts == 0 {
		m.selfDigest[n.Idx] = m.Digest(n)
	}
	if n.restarts == 0 {
		m.ref().Start[fmt.Sprintf("%d/%d", n.Idx, n.cs.VerifRoundState().Height)] = m.Digest(n)
		m.ref().StartOwn[fmt.Sprintf("%d/%d", n.Idx, n.cs.VerifRoundState().Height)] = ownDesc(n)
	}
}

// walInputs counts the complete input records (messages and timeouts) that
// follow the last complete "#HEIGHT: h" marker in node n's WAL files.
func walInputs(n *Node, h int64) (count int, markerFound bool, lastComplete bool) {
	dir := filepath.Join(n.dir, "cswal")
	files, _ := filepath.Glob(filepath.Join(dir, "wal.*"))
	sort.Strings(files)
	files = append(files, filepath.Join(dir, "wal"))
	var data []byte
	for _, f := range files {
		b, err := ioutil.ReadFile(f)
		if err == nil {
			data = append(data, b...)
		}
	}
	lastComplete = len(data) == 0 || data[len(data)-1] == '\n'
	lines := strings.Split(string(data), "\n")
	if len(lines) > 0 {
		lines = lines[:len(lines)-1] // the element after the last newline is incomplete (or empty)
	}
	marker := fmt.Sprintf("#HEIGHT: %d", h)
	start := -1
	for i, l := range lines {
		if l == marker && start < 0 {
			// the FIRST marker of the height: a node that starts through SwitchToConsensus appends
			// another marker of the same height on every start, and what was logged before it still counts
			start = i
		}
	}
	if start < 0 {
		return 0, false, lastComplete
	}
	for _, l := range lines[start+1:] {
		var rec struct {
			Msg []json.RawMessage `json:"msg"`
		}
		if json.Unmarshal([]byte(l), &rec) != nil || len(rec.Msg) < 2 {
			continue
		}
		t := strings.TrimSpace(string(rec.Msg[0]))
		if t == "2" || t == "3" {
			count++
		}
	}
	return count, true, lastComplete
}

// truncateWAL cuts t bytes off the end of the WAL head file (a torn last write).
func truncateWAL(n *Node, t int) (cut bool, lastLineLen int) {
	p := filepath.Join(n.dir, "cswal", "wal")
	f, err := os.Open(p)
	if err != nil {
		return false, 0
	}
	var last string
	sc := bufio.NewScanner(f)
	sc.Buffer(make([]byte, 1<<22), 1<<22)
	for sc.Scan() {
		last = sc.Text()
	}
	f.Close()
	st, err := os.Stat(p)
	if err != nil {
		return false, 0
	}
	lastLineLen = len(last) + 1
	if t <= 0 || t > lastLineLen || int64(t) > st.Size() {
		return false, lastLineLen
	}
	return os.Truncate(p, st.Size()-int64(t)) == nil, lastLineLen
}

// onRestart is the C07 replay-equivalence oracle: right after the real Start()
// (marker search + catchupReplay) the round state must equal the state the
// uncrashed reference run had when the last completely logged input had been
// processed.
func (m *Monitors) onRestart(n *Node) {
	nt := m.nt
	if nt.Ref == nil {
		return
	}
	defer func() {
		// the state this life of the node begins with (after the comparisons above)
		if m.selfDigest == nil {
			m.selfDigest = map[int]string{}
		}
		m.selfDigest[n.Idx] = m.Digest(n)
	}()
	if n.restarts >= 2 {
		// second crash: the uncrashed reference no longer matches this node's history. When the crash
		// hit the WAL record of the input itself, every earlier input had been processed and logged
		// completely, so the replay must restore the state this node itself had after its last input.
		if n.diedFirstWrite && m.selfDigest[n.Idx] != "" {
			got := m.Digest(n)
			m.compared++
			if got != m.selfDigest[n.Idx] {
				m.report("C07", m.claimLabel(n, map[string]string{"kind": "replay-state-differs", "site": "catchupReplay", "crash": "second"}),
					fmt.Sprintf("node %d killed a second time at %q (before the record of a new input was written) and restarted: the round state after WAL replay is not the state it had when its last input had been processed.\n   after replay: %s\n   before crash: %s", n.Idx, n.diedAt, got, m.selfDigest[n.Idx]))
			}
		}
		return
	}
	h := n.cs.VerifRoundState().Height
	stH := n.cs.VerifState().LastBlockHeight + 1
	cnt, found, _ := walInputs(n, stH)
	k := fmt.Sprintf("%d/%d", n.Idx, stH)
	var want string
	var have bool
	if cnt == 0 || !found {
		want, have = nt.Ref.Start[k]
	} else if lst := nt.Ref.After[k]; cnt <= len(lst) {
		want, have = lst[cnt-1], true
	}
	got := m.Digest(n)
	nt.Trace = append(nt.Trace, fmt.Sprintf("n%d after replay: H%d (state height %d), %d logged inputs (marker %v)", n.Idx, h, stH, cnt, found))
	if !have {
		nt.Trace = append(nt.Trace, fmt.Sprintf("n%d: no reference digest for %s #%d (reference has %d) — not compared", n.Idx, k, cnt, len(nt.Ref.After[k])))
		m.uncompared++
		return
	}
	m.compared++
	// own proposals/votes that were signed but not yet processed at that point must be
	// emitted again by the replay (they were never logged, only the signer file knows them)
	var wantOwn []string
	if cnt == 0 || !found {
		wantOwn = nt.Ref.StartOwn[k]
	} else if lst := nt.Ref.AfterOwn[k]; cnt <= len(lst) {
		wantOwn = lst[cnt-1]
	}
	have2 := map[string]int{}
	for _, d := range ownDesc(n) {
		have2[d]++
	}
	for _, w := range wantOwn {
		if strings.HasPrefix(w, "proposal") || strings.HasPrefix(w, "part") {
			continue // a proposal cannot be rebuilt (new block, same HRS): documented loss, the signer forbids a second one
		}
		if have2[w] == 0 {
			m.report("C07", map[string]string{"kind": "own-vote-lost-by-replay", "site": "catchupReplay"},
				fmt.Sprintf("node %d killed at %q: before the crash it had signed %q (not yet processed, hence not in the WAL); after restart and replay that vote is not emitted again, so it is never cast", n.Idx, n.diedAt, w))
		} else {
			have2[w]--
		}
	}
	if got != want {
		m.report("C07", m.claimLabel(n, map[string]string{"kind": "replay-state-differs", "site": "catchupReplay", "died": siteClass(n.diedAt)}),
			fmt.Sprintf("node %d killed at %q and restarted: round state after WAL replay differs from the state when the last logged input (#%d of height %d) had been processed.\n   after replay: %s\n   expected:     %s", n.Idx, n.diedAt, cnt, stH, got, want))
	}
}

func siteClass(site string) string {
	if i := strings.Index(site, ":"); i >= 0 {
		return site[:i]
	}
	return site
}

// RunC07 runs the scenario without its crash rules as reference, then with them.
func RunC07(sc *Scenario, dir string) *Result {
	ref := *sc
	ref.Rules = nil
	for _, r := range sc.Rules {
		if r.Kind != "crash" && r.Kind != "crash2" {
			ref.Rules = append(ref.Rules, r)
		}
	}
	ref.Mode = "c07"
	key := ref.String()
	digests, cached := refCache[key]
	if !cached || len(ref.Rules) == len(sc.Rules) {
		rn := NewNet(&ref, dir)
		rres := rn.Run()
		rn.StopAll()
		digests = rn.Mon.ref()
		refCache[key] = digests
		if len(ref.Rules) == len(sc.Rules) {
			rres.Extra = map[string]string{"writes": writeCounts(rn)}
			return rres
		}
	}
	c := *sc
	c.Mode = "c07"
	nt := NewNet(&c, dir)
	nt.Ref = digests
	res := nt.Run()
	nt.StopAll()
	res.Extra = map[string]string{"compared": fmt.Sprint(nt.Mon.compared), "uncompared": fmt.Sprint(nt.Mon.uncompared)}
	return res
}

var refCache = map[string]*RefDigests{}

func writeCounts(nt *Net) string {
	// per node: number of durable writes until the node stored each height, "n:h=w,..."
	var parts []string
	for _, n := range nt.Nodes {
		parts = append(parts, fmt.Sprintf("%d=%d", n.Idx, n.writes))
	}
	return strings.Join(parts, ",")
}

// ownDesc describes the own messages node n has emitted but not yet processed.
func ownDesc(n *Node) []string {
	out := make([]string, 0, len(n.ownMeta))
	for _, e := range n.ownMeta {
		out = append(out, fmt.Sprintf("%s h%d r%d %s", e.Kind, e.Height, e.Round, e.Block))
	}
	sort.Strings(out)
	return out
}

// claimLabel marks a replay difference of a node that, in the life the crash ended, had been told
// by a peer that a block has +2/3 (VoteSetMaj23) while a Byzantine validator equivocates in the
// scenario: such a claim lets the vote set admit the equivocator's second vote, and claims are
// handled by the reactor outside the WAL, so the replay cannot admit that vote again.
func (m *Monitors) claimLabel(n *Node, sig map[string]string) map[string]string {
	if n.claimsPrev == 0 {
		return sig
	}
	for _, r := range m.nt.Sc.Rules {
		if r.Kind == "byz-split" || r.Kind == "byz-equiv" {
			sig["after"] = "peer-maj23-claim-with-an-equivocating-validator"
			return sig
		}
	}
	return sig
}
