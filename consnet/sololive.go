package consnet

import (
	"fmt"

	"verif/core"
)

// Long heights (C12): ONE real validator, the harness plays the other three.
// k rounds fail (nobody proposes, everybody prevotes and precommits nil), then
// two rounds are delivered completely (proposal, all prevotes and precommits
// for it).  Whatever k is, the node must commit in one of them.  Variants put
// one stray vote of a far future round (q rounds ahead, prevote or precommit,
// for a block or nil) in front: a peer may send that at any time, and the node
// later walks through that round by ordinary round changes.

func soloIdleRound(r int64) []SoloStep {
	return []SoloStep{
		{Kind: "timeout", Round: r, Arg: "propose"},
		{Kind: "prevotes", Round: r, Arg: "NNN"},
		{Kind: "precommits", Round: r, Arg: "NNN"},
	}
}

func soloGoodRound(r int64) []SoloStep {
	return []SoloStep{
		{Kind: "proposal", Round: r, Arg: "A"},
		{Kind: "prevotes", Round: r, Arg: "AAA"},
		{Kind: "precommits", Round: r, Arg: "AAA"},
		{Kind: "timeout", Round: r, Arg: "1"},
		{Kind: "precommits", Round: r, Arg: "NNN"}, // ends the round if the node proposed a block of its own in it
		{Kind: "timeout", Round: r, Arg: "2"},
		{Kind: "timeout", Round: r, Arg: "3"},
	}
}

type soloLiveCase struct {
	Idle  int        `json:"idle_rounds"`
	Stray string     `json:"stray"` // "" | "<prevotes|precommits>@+<q>:<pattern>"
	Steps []SoloStep `json:"steps"`
}

func soloLiveCases(maxIdle int) []soloLiveCase {
	var out []soloLiveCase
	type stray struct {
		kind string
		q    int64
		arg  string
	}
	strays := []stray{{}}
	for _, kind := range []string{"prevotes", "precommits"} {
		for _, q := range []int64{2, 3} {
			for _, arg := range []string{"A--", "N--"} {
				strays = append(strays, stray{kind, q, arg})
			}
		}
	}
	for k := 0; k <= maxIdle; k++ {
		for _, s := range strays {
			if s.kind != "" && int(s.q) > k+1 {
				continue // the node never walks through that round in this case
			}
			var steps []SoloStep
			name := ""
			if s.kind != "" {
				steps = append(steps, SoloStep{Kind: s.kind, Round: s.q, Arg: s.arg})
				name = fmt.Sprintf("%s@+%d:%s", s.kind, s.q, s.arg)
			}
			for r := 0; r < k; r++ {
				steps = append(steps, soloIdleRound(int64(r))...)
			}
			steps = append(steps, soloGoodRound(int64(k))...)
			steps = append(steps, soloGoodRound(int64(k+1))...)
			out = append(out, soloLiveCase{Idle: k, Stray: name, Steps: steps})
		}
	}
	return out
}

// RunSoloLivenessDriver enumerates the long-height cases and reports C12 violations.
func RunSoloLivenessDriver(run *core.Run, cov core.Coverage) { runSoloLiveness(run, cov, false) }

// RunSoloStrayVoteDriver runs only the cases that start with a peer's stray vote of a
// far future round (C08: whatever a peer sends, the node neither panics nor stops).
func RunSoloStrayVoteDriver(run *core.Run, cov core.Coverage) { runSoloLiveness(run, cov, true) }

func runSoloLiveness(run *core.Run, cov core.Coverage, strayOnly bool) {
	maxIdle := run.Pick(11, 14)
	cases := soloLiveCases(maxIdle)
	if strayOnly {
		var sel []soloLiveCase
		for _, c := range cases {
			if c.Stray != "" {
				sel = append(sel, c)
			}
		}
		cases = sel
	}
	var scs []*Scenario
	for i, c := range cases {
		scs = append(scs, &Scenario{ID: i, Powers: []int64{1, 1, 1, 1}, Byz: -1, Heights: 1, Mode: "nohash", Extra: "solo-long-height", Solo: &SoloSpec{Node: 2, Steps: c.Steps}})
	}
	committed, stuck, died := 0, 0, 0
	outcomes := map[string]int{}
	RunPool(scs, PoolOpts{WorkBase: run.WorkDir() + "/sololive"}, func(o CaseOutcome) {
		c := cases[o.Sc.ID]
		shape := "plain"
		if c.Stray != "" {
			shape = "after-stray-future-round-vote"
		}
		switch {
		case o.Res == nil && o.Died && o.PanicLine != "":
			died++
			outcomes["panic"]++
			run.Report(map[string]string{"kind": "node-goroutine-panic", "site": o.PanicSite, "driver": "solo-long-height", "shape": shape}, o.Sc,
				fmt.Sprintf("after %d failed rounds (stray vote: %q) the node's consensus goroutine panicked: %s", c.Idle, c.Stray, o.PanicLine))
		case o.Res == nil:
			outcomes["inconclusive"]++
			run.Notes = append(run.Notes, fmt.Sprintf("solo long-height case idle=%d stray=%q: worker died or timed out without a panic line; inconclusive", c.Idle, c.Stray))
		case len(o.Res.Commits) > 0:
			committed++
			outcomes[fmt.Sprintf("committed-after-%d-failed-rounds", c.Idle)]++
		default:
			stuck++
			outcomes["no-commit"]++
			for _, v := range o.Res.Viols {
				if v.Prop == "C12" {
					v.Sig["shape"] = shape
					run.Report(v.Sig, o.Sc, fmt.Sprintf("after %d failed rounds (stray vote: %q): %s", c.Idle, c.Stray, v.Detail))
				}
			}
		}
	})
	cov["solo_long_height_cases"] = len(cases)
	cov["solo_long_height_max_failed_rounds"] = maxIdle
	cov["solo_long_height_committed"] = committed
	cov["solo_long_height_outcomes"] = outcomes
	if e, ok := cov["evaluations"].(int); ok {
		cov["evaluations"] = e + len(cases)
	}
}
