package consnet

import (
	"errors"
	"fmt"
	"sync"
	"time"

	"verif/core"

	"github.com/dappledger/AnnChain/gemmill/consensus/pbft"
	"github.com/dappledger/AnnChain/gemmill/types"
)

// Real-goroutine drivers for the two pieces of the liveness machinery that the
// gated CONSNET executions replace by harness objects: the real timeoutTicker
// (CONSNET uses a recording ticker) and types.Hook (CONSNET answers the hook
// events itself).  The CASE space is enumerated exhaustively; the goroutine
// schedule inside each case is the Go runtime's.  Oracles are progress-based:
// "never happens" is decided by a long deadline and a candidate is reported
// only when it reproduces 5 times out of 5.

type tickCase struct {
	Seq []pbft.VerifTimeout `json:"seq"`
}

type hrs struct {
	h, r int64
	s    pbft.RoundStepType
}

func less(a, b hrs) bool {
	if a.h != b.h {
		return a.h < b.h
	}
	if a.r != b.r {
		return a.r < b.r
	}
	return a.s < b.s
}

// runTickerCase feeds a schedule sequence to a fresh real ticker. Returns "" or a complaint.
func runTickerCase(seq []pbft.VerifTimeout, deadline time.Duration) string {
	t := pbft.NewTimeoutTicker()
	t.Start()
	defer t.Stop()
	var max hrs
	sched := map[hrs]bool{}
	for i, v := range seq {
		k := hrs{v.Height, v.Round, v.Step}
		sched[k] = true
		if i == 0 || less(max, k) {
			max = k
		}
		pbft.VerifScheduleTimeout(t, v)
	}
	var last *hrs
	start := time.Now()
	for {
		v, ok := pbft.VerifNextTock(t, deadline-time.Since(start))
		if !ok {
			return fmt.Sprintf("the newest scheduled timeout (h%d r%d step %d) never fired", max.h, max.r, max.s)
		}
		k := hrs{v.Height, v.Round, v.Step}
		if !sched[k] {
			return fmt.Sprintf("a timeout fired that was never scheduled (h%d r%d step %d)", k.h, k.r, k.s)
		}
		if last != nil && !less(*last, k) {
			return fmt.Sprintf("timeouts fired out of order: (h%d r%d step %d) after (h%d r%d step %d)", k.h, k.r, k.s, last.h, last.r, last.s)
		}
		kk := k
		last = &kk
		if k == max {
			break
		}
	}
	// after the newest one nothing may fire any more
	if v, ok := pbft.VerifNextTock(t, 30*time.Millisecond); ok {
		return fmt.Sprintf("a timeout (h%d r%d step %d) fired after the newest one", v.Height, v.Round, v.Step)
	}
	return ""
}

type hookCase struct {
	Ops []string `json:"ops"` // sync-ok | sync-err | async-ok | async-err (each followed by Result())
}

// runHookCase: the usage pattern of Angine.ConnectApp — Sync (or Async) followed by
// Result() — must terminate whatever the callback returns, and Result must be the
// value of that very call.
func runHookCase(ops []string, deadline time.Duration) string {
	calls := 0
	var fail bool
	h := types.NewHook(func(height, round int64, b *types.Block) (interface{}, error) {
		calls++
		if fail {
			return nil, errors.New("application error")
		}
		return fmt.Sprintf("res-%d", height), nil
	})
	for i, op := range ops {
		done := make(chan string, 1)
		go func(i int, op string) {
			fail = op == "sync-err" || op == "async-err"
			want := interface{}(fmt.Sprintf("res-%d", i+1))
			if fail {
				want = nil
			}
			switch op {
			case "sync-ok", "sync-err":
				res, err := h.Sync(int64(i+1), 0, nil)
				if (err != nil) != fail {
					done <- fmt.Sprintf("op %d %s: Sync returned err=%v", i, op, err)
					return
				}
				if res != want {
					done <- fmt.Sprintf("op %d %s: Sync returned %v, want %v", i, op, res, want)
					return
				}
				if got := h.Result(); got != want {
					done <- fmt.Sprintf("op %d %s: Result() = %v, want the result of this call %v", i, op, got, want)
					return
				}
			case "async-ok", "async-err":
				var wg sync.WaitGroup
				wg.Add(1)
				h.Async(int64(i+1), 0, nil, func(interface{}) { wg.Done() }, func(error) { wg.Done() })
				wg.Wait()
				h.Result() // waits for completion only
			}
			done <- ""
		}(i, op)
		select {
		case msg := <-done:
			if msg != "" {
				return msg
			}
		case <-time.After(deadline):
			return fmt.Sprintf("op %d (%s) followed by Result() never returned: the hook caller is blocked for good", i, op)
		}
	}
	return ""
}

// RunTickerAndHookDriver enumerates the cases and reports C12 violations.
func RunTickerAndHookDriver(run *core.Run, cov core.Coverage) {
	steps := []pbft.RoundStepType{pbft.RoundStepNewHeight, pbft.RoundStepPropose, pbft.RoundStepPrevoteWait, pbft.RoundStepPrecommitWait}
	var letters []pbft.VerifTimeout
	for h := int64(1); h <= 2; h++ {
		for r := int64(0); r <= 1; r++ {
			for _, s := range steps {
				letters = append(letters, pbft.VerifTimeout{Duration: time.Millisecond, Height: h, Round: r, Step: s})
			}
		}
	}
	maxLen := run.Pick(2, 3)
	var seqs [][]pbft.VerifTimeout
	var rec func(cur []pbft.VerifTimeout)
	rec = func(cur []pbft.VerifTimeout) {
		if len(cur) > 0 {
			seqs = append(seqs, append([]pbft.VerifTimeout{}, cur...))
		}
		if len(cur) == maxLen {
			return
		}
		for _, l := range letters {
			rec(append(cur, l))
		}
	}
	rec(nil)
	deadline := 20 * time.Second
	var mu sync.Mutex
	tickFail := 0
	sem := make(chan struct{}, 64)
	var wg sync.WaitGroup
	for _, sq := range seqs {
		wg.Add(1)
		sem <- struct{}{}
		go func(sq []pbft.VerifTimeout) {
			defer wg.Done()
			defer func() { <-sem }()
			msg := runTickerCase(sq, deadline)
			if msg == "" {
				return
			}
			// candidate: must reproduce 5 out of 5
			for k := 0; k < 4; k++ {
				if runTickerCase(sq, deadline) == "" {
					return
				}
			}
			mu.Lock()
			tickFail++
			shape := "same-height"
			if sq[len(sq)-1].Height != sq[0].Height {
				shape = "across-heights"
			}
			run.Report(map[string]string{"site": "timeoutTicker", "kind": "scheduled-timeout-not-delivered-correctly", "shape": shape}, map[string]interface{}{"ticker": tickCase{sq}}, msg+fmt.Sprintf(" | schedule sequence %v", sq))
			mu.Unlock()
		}(sq)
	}
	wg.Wait()
	// hook sequences
	hl := []string{"sync-ok", "sync-err", "async-ok", "async-err"}
	var hseqs [][]string
	var hrec func(cur []string)
	hlen := run.Pick(3, 4)
	hrec = func(cur []string) {
		if len(cur) > 0 {
			hseqs = append(hseqs, append([]string{}, cur...))
		}
		if len(cur) == hlen {
			return
		}
		for _, l := range hl {
			hrec(append(cur, l))
		}
	}
	hrec(nil)
	hookFail := 0
	for _, hs := range hseqs {
		wg.Add(1)
		sem <- struct{}{}
		go func(hs []string) {
			defer wg.Done()
			defer func() { <-sem }()
			msg := runHookCase(hs, deadline)
			if msg == "" {
				return
			}
			for k := 0; k < 4; k++ {
				if runHookCase(hs, deadline) == "" {
					return
				}
			}
			mu.Lock()
			hookFail++
			run.Report(map[string]string{"site": "types.Hook", "kind": "hook-caller-blocked-or-wrong-result"}, map[string]interface{}{"hook": hookCase{hs}}, msg+fmt.Sprintf(" | sequence %v", hs))
			mu.Unlock()
		}(hs)
	}
	wg.Wait()
	cov["real_ticker_schedule_sequences"] = len(seqs)
	cov["real_ticker_max_sequence_length"] = maxLen
	cov["hook_call_sequences"] = len(hseqs)
	if e, ok := cov["evaluations"].(int); ok {
		cov["evaluations"] = e + len(seqs) + len(hseqs)
	}
}

// ReplayTickerOrHook re-runs a recorded ticker/hook case; returns false if the artefact is not one.
func ReplayTickerOrHook(run *core.Run) bool {
	var c struct {
		Ticker *tickCase `json:"ticker"`
		Hook   *hookCase `json:"hook"`
	}
	if err := run.ReplayCase(&c); err != nil || (c.Ticker == nil && c.Hook == nil) {
		return false
	}
	if c.Ticker != nil {
		if msg := runTickerCase(c.Ticker.Seq, 20*time.Second); msg != "" {
			run.Report(map[string]string{"site": "timeoutTicker", "kind": "scheduled-timeout-not-delivered-correctly"}, c, msg)
		}
	}
	if c.Hook != nil {
		if msg := runHookCase(c.Hook.Ops, 20*time.Second); msg != "" {
			run.Report(map[string]string{"site": "types.Hook", "kind": "hook-caller-blocked-or-wrong-result"}, c, msg)
		}
	}
	return true
}
