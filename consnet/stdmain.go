package consnet

import (
	"fmt"
	"os"
	"sort"
	"time"

	"verif/core"
)

// StdCheck is the common main of the CONSNET-based property checks.
type StdCheck struct {
	ID        string
	Level     string
	Focus     []string
	DeathProp string
	Build     func(run *core.Run) (scs []*Scenario, rule string, bounds map[string]interface{})
	Budget    func(run *core.Run) time.Duration
	Assume    []string
	Extra     func(run *core.Run, cov core.Coverage) // additional drivers run after the campaign
	RunFn     func(sc *Scenario, dir string) *Result
}

// Main runs the check (or acts as a pool worker / replays one scenario).
func (c *StdCheck) Main() {
	runFn := c.RunFn
	if runFn == nil {
		runFn = DefaultRun
	}
	if IsWorker() {
		WorkerMain(os.Getenv("VERIF_WORKER_DIR"), runFn)
		return
	}
	run := core.Start(c.ID, c.Level, "CONSNET")
	focus := map[string]bool{}
	for _, f := range c.Focus {
		focus[f] = true
	}
	if run.ReplayPath != "" {
		var sc Scenario
		if err := run.ReplayCase(&sc); err != nil {
			core.Fatal("cannot load replay: %v", err)
		}
		res := runFn(&sc, run.WorkDir()+"/replay")
		for _, l := range res.Trace {
			fmt.Println("  ", l)
		}
		for _, v := range res.Viols {
			if focus[v.Prop] {
				run.Report(v.Sig, &sc, v.Detail)
			}
		}
		run.Finish(nil, nil)
	}
	scs, rule, bounds := c.Build(run)
	var budget time.Duration
	if c.Budget != nil {
		budget = c.Budget(run)
	}
	if v := os.Getenv("VERIF_BUDGET_S"); v != "" {
		var secs int
		fmt.Sscanf(v, "%d", &secs)
		if secs > 0 {
			budget = time.Duration(secs) * time.Second
		}
	}
	sum := RunCampaign(run, scs, CampaignOpts{Focus: focus, DeathProp: c.DeathProp, Budget: budget})
	cov := sum.Coverage(rule, bounds)
	if c.Extra != nil {
		c.Extra(run, cov)
	}
	run.Finish(cov, c.Assume)
}

// Product builds scenarios: every rule subset × every (powers, byz) configuration.
func Product(cfgs []Scenario, menuFor func(cfg Scenario) []Rule, d int) []*Scenario {
	var out []*Scenario
	for _, cfg := range cfgs {
		menu := menuFor(cfg)
		for _, rs := range Subsets(menu, d) {
			sc := cfg
			sc.Rules = rs
			c := sc
			out = append(out, &c)
		}
	}
	// fewest deviations first: a budget cut keeps the lower bounds complete
	sort.SliceStable(out, func(i, j int) bool { return len(out[i].Rules) < len(out[j].Rules) })
	return out
}
