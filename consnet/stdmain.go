package consnet

import (
	"fmt"
	"os"
	"sort"
	"strings"
	"time"

	"verif/core"
)

// StdCheck is the common main of the CONSNET-based property checks.
type StdCheck struct {
	ID        string
	Level     string
	Focus     []string
	DeathProp string
	Build     func(run *core.Run) (scs []*Scenario, rule string, bounds map[string]interface{})
	Budget    func(run *core.Run) time.Duration
	Assume    []string
	Extra     func(run *core.Run, cov core.Coverage) // additional drivers run after the campaign
	RunFn     func(sc *Scenario, dir string) *Result
}

// Main runs the check (or acts as a pool worker / replays one scenario).
func (c *StdCheck) Main() {
	runFn := c.RunFn
	if runFn == nil {
		runFn = DefaultRun
	}
	if IsWorker() {
		WorkerMain(os.Getenv("VERIF_WORKER_DIR"), runFn)
		return
	}
	run := core.Start(c.ID, c.Level, "CONSNET")
	focus := map[string]bool{}
	for _, f := range c.Focus {
		focus[f] = true
	}
	if run.ReplayPath != "" {
		if ReplayTickerOrHook(run) {
			run.Finish(nil, nil)
		}
		var sc Scenario
		if err := run.ReplayCase(&sc); err != nil {
			core.Fatal("cannot load replay: %v", err)
		}
		res := runFn(&sc, run.WorkDir()+"/replay")
		for _, l := range res.Trace {
			fmt.Println("  ", l)
		}
		for _, v := range res.Viols {
			if focus[v.Prop] {
				run.Report(v.Sig, &sc, v.Detail)
			}
		}
		run.Finish(nil, nil)
	}
	scs, rule, bounds := c.Build(run)
	scs = Interleave(scs)
	var budget time.Duration
	if c.Budget != nil {
		budget = c.Budget(run)
	}
	if v := os.Getenv("VERIF_BUDGET_S"); v != "" {
		var secs int
		fmt.Sscanf(v, "%d", &secs)
		if secs > 0 {
			budget = time.Duration(secs) * time.Second
		}
	}
	sum := RunCampaign(run, scs, CampaignOpts{Focus: focus, DeathProp: c.DeathProp, Budget: budget})
	cov := sum.Coverage(rule, bounds)
	if c.Extra != nil {
		c.Extra(run, cov)
	}
	run.Finish(cov, c.Assume)
}

// Product builds scenarios: every rule subset × every (powers, byz) configuration.
func Product(cfgs []Scenario, menuFor func(cfg Scenario) []Rule, d int) []*Scenario {
	var out []*Scenario
	for _, cfg := range cfgs {
		menu := menuFor(cfg)
		for _, rs := range Subsets(menu, d) {
			sc := cfg
			sc.Rules = rs
			if sc.Extra == "" {
				sc.Extra = "menu"
				if sc.ValChange != nil {
					sc.Extra = "menu+valchange"
				}
			}
			c := sc
			out = append(out, &c)
		}
	}
	// fewest deviations first: a budget cut keeps the lower bounds complete
	sort.SliceStable(out, func(i, j int) bool { return len(out[i].Rules) < len(out[j].Rules) })
	return out
}

// DeviationScenarios implements delay-bounded scheduling on top of the default
// schedule: each base is first run in "decisions" mode to learn how many
// alternatives every scheduling decision has; then every set of <= d (decision,
// alternative) deviations becomes a scenario (d = 1 or 2).
func DeviationScenarios(bases []Scenario, d int, workBase string, maxPairs int) ([]*Scenario, map[string]int) {
	var refs []*Scenario
	for i := range bases {
		b := bases[i]
		b.Mode = "decisions"
		b.ID = i
		refs = append(refs, &b)
	}
	alts := map[int][]int{}
	RunPool(refs, PoolOpts{WorkBase: workBase}, func(o CaseOutcome) {
		if o.Res == nil {
			return
		}
		for _, f := range strings.Split(o.Res.Extra["decisions"], ",") {
			n := 0
			fmt.Sscanf(f, "%d", &n)
			alts[o.Sc.ID] = append(alts[o.Sc.ID], n)
		}
	})
	var out []*Scenario
	info := map[string]int{}
	for bi, b := range bases {
		a := alts[bi]
		info[fmt.Sprintf("base%d_decisions", bi)] = len(a)
		type dv struct{ k, alt int }
		var singles []dv
		for k, n := range a {
			for x := 0; x < n; x++ {
				singles = append(singles, dv{k, x})
			}
		}
		info[fmt.Sprintf("base%d_single_deviations", bi)] = len(singles)
		mk := func(ds ...dv) *Scenario {
			sc := b
			sc.Extra = "delay-bounded"
			sc.Rules = append([]Rule{}, b.Rules...)
			for _, x := range ds {
				sc.Rules = append(sc.Rules, Rule{Kind: "dev", K: x.k, Delay: x.alt})
			}
			return &sc
		}
		for _, s := range singles {
			out = append(out, mk(s))
		}
		if d >= 2 {
			pairs := 0
			for i := 0; i < len(singles) && pairs < maxPairs; i++ {
				for j := i + 1; j < len(singles) && pairs < maxPairs; j++ {
					if singles[i].k == singles[j].k {
						continue
					}
					out = append(out, mk(singles[i], singles[j]))
					pairs++
				}
			}
			info[fmt.Sprintf("base%d_pair_deviations", bi)] = pairs
		}
	}
	return out, info
}

// CrashScenarios: every base is run once to count the durable writes of each
// node; then the base is combined with a crash of each honest node at every
// stepK-th write (restart at once, and after the others went on).
func CrashScenarios(bases []Scenario, workBase string, stepK int, delays []int) ([]*Scenario, map[string]int) {
	var refs []*Scenario
	for i := range bases {
		b := bases[i]
		b.Mode = "nohash"
		b.ID = i
		refs = append(refs, &b)
	}
	writes := map[int]map[string]int{}
	RunPool(refs, PoolOpts{WorkBase: workBase}, func(o CaseOutcome) {
		if o.Res != nil {
			writes[o.Sc.ID] = o.Res.Writes
		}
	})
	var out []*Scenario
	info := map[string]int{}
	for bi, b := range bases {
		for n := range b.Powers {
			if n == b.Byz {
				continue
			}
			w := writes[bi][fmt.Sprintf("n%d", n)]
			info[fmt.Sprintf("base%d_n%d_writes", bi, n)] = w
			for k := 1; k <= w; k += stepK {
				for _, d := range delays {
					sc := b
					sc.Extra = "crash"
					if b.NoProposerFix {
						sc.Extra = "crash-no-proposer-repair"
					}
					sc.Rules = append(append([]Rule{}, b.Rules...), Rule{Kind: "crash", Node: n, K: k, Delay: d})
					out = append(out, &sc)
				}
			}
		}
	}
	return out, info
}

// Interleave reorders scenarios round-robin over their families (Scenario.Extra),
// keeping the order inside each family: a budget cut then reaches into every family
// (each still fewest-deviations-first) instead of dropping whole families.
func Interleave(scs []*Scenario) []*Scenario {
	var order []string
	fam := map[string][]*Scenario{}
	for _, sc := range scs {
		if _, ok := fam[sc.Extra]; !ok {
			order = append(order, sc.Extra)
		}
		fam[sc.Extra] = append(fam[sc.Extra], sc)
	}
	out := make([]*Scenario, 0, len(scs))
	for len(out) < len(scs) {
		for _, f := range order {
			// take a slice of 8 at a time so that worker batches stay homogeneous
			k := 8
			if k > len(fam[f]) {
				k = len(fam[f])
			}
			out = append(out, fam[f][:k]...)
			fam[f] = fam[f][k:]
		}
	}
	return out
}
