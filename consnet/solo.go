package consnet

import (
	"fmt"
	"sort"
	"strings"
	"time"

	"github.com/dappledger/AnnChain/gemmill/consensus/pbft"
	"github.com/dappledger/AnnChain/gemmill/types"
)

// Solo mode (C04 dedicated driver): ONE real ConsensusState; the harness plays
// the other validators with their real keys and feeds the node scripted inputs
// round by round.  The locking rules are local rules of one validator, so they
// must hold whatever the rest of the world sends.

// SoloStep is one scripted input group.
type SoloStep struct {
	Kind  string `json:"kind"`  // proposal | prevotes | precommits | timeout
	Round int64  `json:"round"` // round the messages are for
	Arg   string `json:"arg"`   // proposal: A|B ; votes: pattern over the other validators, e.g. "AAN", "A-B" (- = no vote)
}

func (s SoloStep) String() string { return fmt.Sprintf("%s(r%d,%s)", s.Kind, s.Round, s.Arg) }

// SoloSpec is carried in Scenario.Solo.
type SoloSpec struct {
	Node  int        `json:"node"`
	Steps []SoloStep `json:"steps"`
}

type soloBlocks struct {
	block map[string]*types.Block
	parts map[string]*types.PartSet
}

// soloBlock returns block X ("A" or "B") for height 1 proposed by validator p.
func (nt *Net) soloBlock(x string, p int) (*types.Block, *types.PartSet) {
	key := fmt.Sprintf("%s/%d", x, p)
	if nt.solo == nil {
		nt.solo = &soloBlocks{block: map[string]*types.Block{}, parts: map[string]*types.PartSet{}}
	}
	if b, ok := nt.solo.block[key]; ok {
		return b, nt.solo.parts[key]
	}
	vs := nt.refValidators(1)
	txs := []types.Tx{types.Tx("solo-" + x)}
	b, _ := types.MakeBlock(1, ChainID, txs, nil, &types.Commit{}, nt.Vals[p].Address, types.BlockID{}, vs.Hash(), nt.GenDoc.AppHash, nil, nt.Sc.partSize())
	if x == "A" {
		b.Header.Time = time.Unix(1600000001, 0)
	} else {
		b.Header.Time = time.Unix(1600000002, 0)
	}
	ps := b.MakePartSet(nt.Sc.partSize())
	nt.solo.block[key], nt.solo.parts[key] = b, ps
	nt.Blocks[nt.name(b.Hash())] = b
	nt.Mon.noteBlock(b, ps)
	return b, ps
}

func (nt *Net) soloBlockID(x string) types.BlockID {
	if x == "N" {
		return types.BlockID{}
	}
	// A and B are always the blocks as proposed by the round-0 proposer's key holder; the
	// block id does not depend on who re-proposes it
	b, ps := nt.soloBlock(x, nt.soloProposer(0))
	return types.BlockID{Hash: b.Hash(), PartsHeader: ps.Header()}
}

func (nt *Net) soloProposer(round int64) int {
	vs := nt.refValidators(1)
	if round > 0 {
		vs.IncrementAccum(round)
	}
	addr := vs.Proposer().Address
	for i, v := range nt.Vals {
		if string(v.Address) == string(addr) {
			return i
		}
	}
	return 0
}

// RunSolo executes a solo script.
func RunSolo(sc *Scenario, dir string) *Result {
	nt := NewNet(sc, dir)
	res := nt.runSolo()
	nt.StopAll()
	return res
}

func (nt *Net) runSolo() *Result {
	sp := nt.Sc.Solo
	n := nt.Nodes[sp.Node]
	for _, o := range nt.Nodes {
		o.alive = false
	}
	res := &Result{}
	if !nt.startNode(n) {
		res.Panic = "node failed to start"
		res.fill(nt)
		return res
	}
	others := []int{}
	for i := range nt.Nodes {
		if i != n.Idx {
			others = append(others, i)
		}
	}
	drain := func() {
		for n.alive && len(n.own) > 0 {
			nt.step(n, inOwn, nil, 0)
		}
	}
	// start the height
	nt.fireNewest(n)
	drain()
	for _, st := range sp.Steps {
		if !n.alive || n.lastStore >= 1 {
			break
		}
		switch st.Kind {
		case "proposal":
			p := nt.soloProposer(st.Round)
			if p == n.Idx {
				continue // the node proposes itself in that round
			}
			b, ps := nt.soloBlock(st.Arg, nt.soloProposer(0))
			_ = b
			prop := types.NewProposal(1, st.Round, ps.Header(), -1, types.BlockID{})
			prop.Signature = nt.Nodes[p].key.Sign(types.SignBytes(ChainID, prop))
			e := nt.forge(nt.Nodes[p], "proposal", 1, st.Round, &pbft.ProposalMessage{Proposal: prop})
			e.Parts = ps.Header()
			nt.step(n, inPeer, &delivery{e: e}, 0)
			drain()
			for k := 0; k < ps.Total() && n.alive; k++ {
				pe := nt.forge(nt.Nodes[p], "part", 1, st.Round, &pbft.BlockPartMessage{Height: 1, Round: st.Round, Part: ps.GetPart(k)})
				pe.Parts = ps.Header()
				nt.step(n, inPeer, &delivery{e: pe}, 0)
				drain()
			}
		case "prevotes", "precommits":
			typ, kind := byte(types.VoteTypePrevote), "prevote"
			if st.Kind == "precommits" {
				typ, kind = types.VoteTypePrecommit, "precommit"
			}
			for k, o := range others {
				if k >= len(st.Arg) || st.Arg[k] == '-' || !n.alive {
					continue
				}
				bid := nt.soloBlockID(string(st.Arg[k]))
				v := nt.forgeVote(nt.Nodes[o], typ, 1, st.Round, bid)
				e := nt.forge(nt.Nodes[o], kind, 1, st.Round, &pbft.VoteMessage{Vote: v})
				e.Block = nt.name(bid.Hash)
				nt.step(n, inPeer, &delivery{e: e}, 0)
				drain()
			}
		case "timeout":
			if len(n.ticker.Pending()) > 0 {
				nt.fireNewest(n)
				drain()
			}
		}
	}
	res.Done = true
	res.Steps = nt.Steps
	if nt.Sc.Extra == "solo-long-height" && n.alive && n.lastStore < 1 {
		rs := n.cs.VerifRoundState()
		nt.Mon.report("C12", map[string]string{"kind": "height-never-decides", "driver": "solo-long-height"},
			fmt.Sprintf("two completely delivered rounds (proposal, all prevotes, all precommits) at the end of the script do not make the node commit; it sits at height %d round %d step %v", rs.Height, rs.Round, rs.Step))
	}
	res.Viols = nt.Mon.viols
	res.fill(nt)
	if n.alive {
		res.Extra = map[string]string{"digest": nt.Mon.Digest(n), "lock": fmt.Sprintf("%d/%s", nt.Mon.lockRound[n.Idx], nt.Mon.lockBlock[n.Idx])}
	}
	return res
}

// SoloRoundScripts lists the input groups the harness can play in one round.
func SoloRoundScripts(r int64, reduced bool) [][]SoloStep {
	return soloRoundScripts(r, reduced, false)
}

// SoloRoundScriptsLate additionally prefixes every script of round r > 0 with late
// prevotes of an earlier round q < r (all three other validators for A, or for B):
// an old polka that completes only now must not unlock a later lock.
func SoloRoundScriptsLate(r int64, reduced bool) [][]SoloStep {
	return soloRoundScripts(r, reduced, true)
}

func soloRoundScripts(r int64, reduced bool, late bool) [][]SoloStep {
	props := []string{"", "A", "B"}
	pv := []string{"---", "AAA", "BBB", "NNN", "AA-", "BB-", "ABN", "AN-", "A--"}
	pc := []string{"---", "NNN", "AAA", "BBB", "ABN", "AA-", "N--"}
	if reduced {
		pv = []string{"---", "AAA", "BBB", "NNN", "ABN"}
		pc = []string{"---", "NNN", "ABN"}
	}
	var out [][]SoloStep
	for _, p := range props {
		for _, v := range pv {
			for _, c := range pc {
				for _, order := range []int{0, 1} {
					var s []SoloStep
					ps := SoloStep{Kind: "proposal", Round: r, Arg: p}
					vs := SoloStep{Kind: "prevotes", Round: r, Arg: v}
					cs := SoloStep{Kind: "precommits", Round: r, Arg: c}
					if order == 0 {
						if p != "" {
							s = append(s, ps)
						}
						if v != "---" {
							s = append(s, vs)
						}
					} else {
						if p == "" || v == "---" {
							continue // same as order 0
						}
						s = append(s, vs, ps)
					}
					s = append(s, SoloStep{Kind: "timeout", Round: r, Arg: "1"})
					if c != "---" {
						s = append(s, cs)
					}
					s = append(s, SoloStep{Kind: "timeout", Round: r, Arg: "2"}, SoloStep{Kind: "timeout", Round: r, Arg: "3"})
					out = append(out, s)
				}
			}
		}
	}
	if late && r > 0 {
		base := out
		for q := int64(0); q < r; q++ {
			for _, v := range []string{"AAA", "BBB"} {
				for _, sc := range base {
					out = append(out, append([]SoloStep{{Kind: "prevotes", Round: q, Arg: v}}, sc...))
				}
			}
		}
	}
	// round skipping: +2/3 of the NEXT round's votes arrive while the node is still in this round
	for _, v := range []string{"AAA", "BBB", "NNN", "ABN"} {
		out = append(out, []SoloStep{{Kind: "prevotes", Round: r + 1, Arg: v}, {Kind: "timeout", Round: r, Arg: "s"}})
		out = append(out, []SoloStep{{Kind: "proposal", Round: r, Arg: "A"}, {Kind: "prevotes", Round: r, Arg: "AAA"}, {Kind: "precommits", Round: r + 1, Arg: v}, {Kind: "timeout", Round: r, Arg: "s"}})
	}
	return out
}

// SoloKey canonicalises the state reached by a script (for breadth-first deduplication).
func SoloKey(r *Result) string {
	ks := make([]string, 0, len(r.Extra))
	for k, v := range r.Extra {
		ks = append(ks, k+"="+v)
	}
	sort.Strings(ks)
	return strings.Join(ks, "|")
}

// SoloNarrowScripts is the small per-round menu used for the deeper rounds of the
// quick tier: the inputs that take, keep or (wrongly) give up a lock - a proposal,
// a full polka for either block or none - and, for r > 0, the same preceded by the
// late completion of a polka of every earlier round q < r for either block.
func SoloNarrowScripts(r int64) [][]SoloStep {
	mk := func(p, v string) []SoloStep {
		var s []SoloStep
		if p != "" {
			s = append(s, SoloStep{Kind: "proposal", Round: r, Arg: p})
		}
		if v != "---" {
			s = append(s, SoloStep{Kind: "prevotes", Round: r, Arg: v})
		}
		// the others precommit nil, so that the round ends whatever the node did
		return append(s, SoloStep{Kind: "timeout", Round: r, Arg: "1"}, SoloStep{Kind: "precommits", Round: r, Arg: "NNN"}, SoloStep{Kind: "timeout", Round: r, Arg: "2"}, SoloStep{Kind: "timeout", Round: r, Arg: "3"})
	}
	idle, propA, propB := mk("", "---"), mk("A", "---"), mk("B", "---")
	out := [][]SoloStep{idle, propA, propB, mk("A", "AAA"), mk("B", "BBB")}
	for q := int64(0); q < r; q++ {
		for _, v := range []string{"AAA", "BBB"} {
			for _, sc := range [][]SoloStep{idle, propA, propB} {
				out = append(out, append([]SoloStep{{Kind: "prevotes", Round: q, Arg: v}}, sc...))
			}
		}
	}
	return out
}
