package consnet

import (
	"bytes"
	"encoding/json"
	"fmt"
	"sort"
	"strings"

	"github.com/dappledger/AnnChain/gemmill/consensus/pbft"
	"github.com/dappledger/AnnChain/gemmill/types"
)

// Viol is one property violation observed by a monitor.
type Viol struct {
	Prop   string            `json:"prop"`
	Sig    map[string]string `json:"sig"`
	Detail string            `json:"detail"`
}

// Result of one execution.
type Result struct {
	ID          int               `json:"id"`
	Done        bool              `json:"done"`
	Stalled     bool              `json:"stalled"`
	StepCap     bool              `json:"step_cap"`
	Steps       int               `json:"steps"`
	Viols       []Viol            `json:"viols"`
	Commits     map[string]string `json:"commits"` // "n<i>/h<h>" -> canonical block name
	MaxRound    int64             `json:"max_round"`
	RulesFired  []int             `json:"rules_fired"`
	Outcome     string            `json:"outcome"` // canonical digest of the observable outcome
	Writes      map[string]int    `json:"writes,omitempty"`
	Crashes     int               `json:"crashes"`
	Trace       []string          `json:"trace,omitempty"`
	Digests     map[string]string `json:"digests,omitempty"`
	Extra       map[string]string `json:"extra,omitempty"`
	Panic       string            `json:"panic,omitempty"`
	StateHashes []uint64          `json:"state_hashes,omitempty"`
}

type voteKey struct {
	h, r int64
	typ  string
}

// Monitors evaluates the property oracles during an execution.
type Monitors struct {
	nt       *Net
	viols    []Viol
	seen     map[string]bool
	proposed map[int64][]types.BlockID
	// per receiver: votes handed to it: key -> validator -> set of block names
	got []map[voteKey]map[int]map[string]bool
	// per node signing ledger: "h/r/kind" -> sign bytes (hex) ; and highest HRS
	signed []map[string]string
	// per node commits: height -> block hash hex
	commits []map[int64]string
	// per node lock tracking at current height
	lockH     []int64
	lockRound []int64
	lockBlock []string
	// C07
	stepDigest [][]string // per node: digest after each processed input (index = inputs logged so far)
	preCrash   []string
	maxRound   int64
	crashes    int
	digests    *RefDigests
	selfDigest map[int]string
	compared   int
	uncompared int
	power      []int64
	total      int64
	// C16
	propChecked  map[int]map[[2]int64]bool
	propRef      map[[2]int64][]byte
	propCompared int
}

func newMonitors(nt *Net) *Monitors {
	m := &Monitors{nt: nt, seen: map[string]bool{}, proposed: map[int64][]types.BlockID{}}
	for i := range nt.Nodes {
		_ = i
		m.got = append(m.got, map[voteKey]map[int]map[string]bool{})
		m.signed = append(m.signed, map[string]string{})
		m.commits = append(m.commits, map[int64]string{})
		m.lockH = append(m.lockH, 0)
		m.lockRound = append(m.lockRound, -1)
		m.lockBlock = append(m.lockBlock, "")
		m.stepDigest = append(m.stepDigest, nil)
		m.preCrash = append(m.preCrash, "")
	}
	for _, p := range nt.Sc.Powers {
		m.power = append(m.power, p)
		m.total += p
	}
	return m
}

func (m *Monitors) report(prop string, sig map[string]string, detail string) {
	if m.nt.drift && sig["kind"] != "proposer-differs-after-reload" {
		// consequences of the known reload defect are labelled, so that they can be told apart
		sig["cause"] = "proposer-differs-after-reload"
	}
	key := prop
	ks := make([]string, 0, len(sig))
	for k := range sig {
		ks = append(ks, k)
	}
	sort.Strings(ks)
	for _, k := range ks {
		key += "|" + k + "=" + sig[k]
	}
	if m.seen[key] {
		return
	}
	m.seen[key] = true
	m.viols = append(m.viols, Viol{Prop: prop, Sig: sig, Detail: detail})
}

// sumFor: voting power of validators that have (in node n's received ledger) a
// vote of (h,r,typ) for block name b.
func (m *Monitors) sumFor(n int, k voteKey, b string) int64 {
	var s int64
	pw, _ := m.nt.powersAt(k.h)
	for val, blocks := range m.got[n][k] {
		if blocks[b] {
			s += pw[val]
		}
	}
	return s
}

func (m *Monitors) totalAt(h int64) int64 {
	_, t := m.nt.powersAt(h)
	return t
}

// polkaOther: has node n received, in round r, more than 2/3 prevotes for one
// single value (a block or nil) other than x?
func (m *Monitors) polkaOther(n int, h, r int64, x string) bool {
	k := voteKey{h, r, "prevote"}
	names := map[string]bool{}
	for _, blocks := range m.got[n][k] {
		for b := range blocks {
			names[b] = true
		}
	}
	for b := range names {
		if b != x && m.sumFor(n, k, b)*3 > m.totalAt(h)*2 {
			return true
		}
	}
	return false
}

func (m *Monitors) onDeliver(n *Node, e *Emitted) {
	if e.Kind != "prevote" && e.Kind != "precommit" {
		return
	}
	k := voteKey{e.Height, e.Round, e.Kind}
	g := m.got[n.Idx]
	if g[k] == nil {
		g[k] = map[int]map[string]bool{}
	}
	if g[k][e.From] == nil {
		g[k][e.From] = map[string]bool{}
	}
	g[k][e.From][e.Block] = true
}

func (m *Monitors) onTimeout(n *Node, to pbft.VerifTimeout) {}

func hrsKey(e *Emitted) string {
	return fmt.Sprintf("%d/%d/%s", e.Height, e.Round, e.Kind)
}

func (m *Monitors) onEmit(n *Node, e *Emitted) {
	if e.Round > m.maxRound {
		m.maxRound = e.Round
	}
	if e.Kind == "proposal" {
		pm := e.Msg.(*pbft.ProposalMessage)
		_ = pm
	}
	if n.Byz {
		return
	}
	i := n.Idx
	// ---- C16: only the proposer that the validator-set history gives for (height, round) proposes
	if e.Kind == "proposal" && m.nt.Sc.Solo == nil {
		want := m.refProposerAddr(e.Height, e.Round)
		if want != nil && !bytes.Equal(want, m.nt.Vals[i].Address) {
			m.report("C16", map[string]string{"kind": "proposal-by-a-replica-that-is-not-the-proposer", "site": "ConsensusState.enterPropose"},
				fmt.Sprintf("node %d proposes at height %d round %d; the validator-set history alone gives %X as the proposer of that round", i, e.Height, e.Round, want[:4]))
		}
	}
	// ---- C03 (inside consensus): at most one signed value per height/round/step, across restarts
	if e.Kind == "proposal" || e.Kind == "prevote" || e.Kind == "precommit" {
		var sb []byte
		switch x := e.Msg.(type) {
		case *pbft.ProposalMessage:
			sb = types.SignBytes(ChainID, x.Proposal)
		case *pbft.VoteMessage:
			sb = types.SignBytes(ChainID, x.Vote)
		}
		k := hrsKey(e)
		if old, ok := m.signed[i][k]; ok && old != string(sb) {
			m.report("C03", map[string]string{"site": "consensus", "kind": "two-different-signatures-same-hrs", "msg": e.Kind, "restarted": fmt.Sprint(n.restarts > 0)},
				fmt.Sprintf("node %d released two different signed %ss for height %d round %d (restarts so far %d)", i, e.Kind, e.Height, e.Round, n.restarts))
		}
		m.signed[i][k] = string(sb)
	}
	// ---- C04 locking discipline
	if m.lockH[i] != e.Height {
		m.lockH[i], m.lockRound[i], m.lockBlock[i] = e.Height, -1, ""
	}
	switch e.Kind {
	case "prevote":
		if m.lockBlock[i] != "" && e.Round > m.lockRound[i] && e.Block != m.lockBlock[i] {
			ok := false
			for r := m.lockRound[i] + 1; r <= e.Round; r++ {
				if m.polkaOther(i, e.Height, r, m.lockBlock[i]) {
					ok = true
					break
				}
			}
			if !ok {
				m.report("C04", map[string]string{"rule": "prevote-against-lock", "site": "doPrevote"},
					fmt.Sprintf("node %d precommitted %s in round %d of height %d but prevotes %q in round %d without having received +2/3 prevotes for anything else in a round in (%d,%d]", i, m.lockBlock[i], m.lockRound[i], e.Height, e.Block, e.Round, m.lockRound[i], e.Round))
			}
		}
	case "precommit":
		if e.Block != "" {
			k := voteKey{e.Height, e.Round, "prevote"}
			if s := m.sumFor(i, k, e.Block); !(s*3 > m.totalAt(e.Height)*2) {
				m.report("C04", map[string]string{"rule": "precommit-without-polka", "site": "enterPrecommit"},
					fmt.Sprintf("node %d precommits %s in round %d of height %d having received prevotes for it from only %d of %d voting power in that round", i, e.Block, e.Round, e.Height, s, m.totalAt(e.Height)))
			}
			if e.Round >= m.lockRound[i] {
				m.lockRound[i], m.lockBlock[i] = e.Round, e.Block
			}
		}
	case "proposal":
		if m.lockBlock[i] != "" && e.Round > m.lockRound[i] {
			// the proposer must propose the block it is locked on unless an unlocking polka was received
			ok := false
			for r := m.lockRound[i] + 1; r <= e.Round; r++ {
				if m.polkaOther(i, e.Height, r, m.lockBlock[i]) {
					ok = true
				}
			}
			pm := e.Msg.(*pbft.ProposalMessage)
			lockedParts := m.partsOf(m.lockBlock[i])
			if !ok && lockedParts != nil && !bytes.Equal(pm.Proposal.BlockPartsHeader.Hash, lockedParts) {
				m.report("C04", map[string]string{"rule": "proposes-other-than-locked", "site": "decideProposal"},
					fmt.Sprintf("node %d is locked on %s (round %d) but proposes a different block in round %d of height %d", i, m.lockBlock[i], m.lockRound[i], e.Round, e.Height))
			}
		}
	}
}

// partsOf returns the part-set hash of a named block if known.
func (m *Monitors) partsOf(name string) []byte {
	for _, ids := range m.proposed {
		for _, id := range ids {
			if m.nt.name(id.Hash) == name {
				return id.PartsHeader.Hash
			}
		}
	}
	return nil
}

// noteBlock records a complete proposal block seen in a node's round state.
func (m *Monitors) noteBlock(b *types.Block, parts *types.PartSet) {
	if b == nil || parts == nil {
		return
	}
	id := types.BlockID{Hash: b.Hash(), PartsHeader: parts.Header()}
	for _, x := range m.proposed[b.Height] {
		if x.Equals(id) {
			return
		}
	}
	m.proposed[b.Height] = append(m.proposed[b.Height], id)
	m.nt.Blocks[m.nt.name(id.Hash)] = b
}

// Digest is the property-relevant part of a node's round state.
func (m *Monitors) Digest(n *Node) string {
	rs := n.cs.VerifRoundState()
	var b strings.Builder
	fmt.Fprintf(&b, "H%d R%d S%d lock(%d,%s) ", rs.Height, rs.Round, rs.Step, rs.LockedRound, m.nt.name(rs.LockedBlock.Hash()))
	if rs.Proposal != nil {
		fmt.Fprintf(&b, "prop(r%d,pol%d,%s) ", rs.Proposal.Round, rs.Proposal.POLRound, m.nt.pname(rs.Proposal.BlockPartsHeader.Hash))
	}
	fmt.Fprintf(&b, "pblock(%s) ", m.nt.name(rs.ProposalBlock.Hash()))
	if rs.Votes != nil {
		for r := int64(0); r <= rs.Round+1; r++ {
			for _, t := range []byte{types.VoteTypePrevote, types.VoteTypePrecommit} {
				var vs *types.VoteSet
				if t == types.VoteTypePrevote {
					vs = rs.Votes.Prevotes(r)
				} else {
					vs = rs.Votes.Precommits(r)
				}
				if vs == nil {
					continue
				}
				if vs.BitArray().IsEmpty() {
					continue // an empty vote set (e.g. created for a peer's catch-up round) carries no information
				}
				fmt.Fprintf(&b, "v(r%d,t%d:", r, t)
				for vi := 0; vi < len(m.power); vi++ {
					v := vs.GetByIndex(vi)
					if v == nil {
						b.WriteString("-")
					} else {
						b.WriteString("[" + m.nt.name(v.BlockID.Hash) + "]")
					}
				}
				if id, ok := vs.TwoThirdsMajority(); ok {
					fmt.Fprintf(&b, " maj=%s", m.nt.name(id.Hash))
				}
				b.WriteString(") ")
			}
		}
	}
	if rs.LastCommit != nil {
		fmt.Fprintf(&b, "lastcommit(r%d,%s)", rs.LastCommit.Round(), rs.LastCommit.BitArray())
	}
	return b.String()
}

func (m *Monitors) afterStep(n *Node) {
	rs := n.cs.VerifRoundState()
	m.noteBlock(rs.ProposalBlock, rs.ProposalBlockParts)
	if rs.Round > m.maxRound {
		m.maxRound = rs.Round
	}
	st := n.cs.VerifState()
	_ = st
	m.checkProposer(n, rs)
	m.checkStore(n)
}

// refProposerAddr: the proposer of (h, r) by the monitor's own replica of the validator-set history.
func (m *Monitors) refProposerAddr(h, r int64) []byte {
	k := [2]int64{h, r}
	if m.propRef == nil {
		m.propRef = map[[2]int64][]byte{}
	}
	if want, ok := m.propRef[k]; ok {
		return want
	}
	vs := m.nt.refValidators(h)
	if r > 0 {
		vs.IncrementAccum(r)
	}
	var want []byte
	if p := vs.Proposer(); p != nil {
		want = p.Address
	}
	m.propRef[k] = want
	return want
}

// checkProposer (C16): the proposer a replica computes for its current (height, round)
// must be the one that follows from the validator-set history alone: the monitor's own
// replica of that history advances a fresh genesis set once per height (with the
// scenario's validator-set change at its height) and then once per round — no detours
// through earlier rounds, restarts or catch-up.  Whatever path a node took, it must agree.
func (m *Monitors) checkProposer(n *Node, rs *pbft.RoundState) {
	if n.Byz || rs.Validators == nil || rs.Height < 1 || rs.Round < 0 {
		return
	}
	k := [2]int64{rs.Height, rs.Round}
	if m.propChecked == nil {
		m.propChecked = map[int]map[[2]int64]bool{}
	}
	if m.propChecked[n.Idx] == nil {
		m.propChecked[n.Idx] = map[[2]int64]bool{}
	}
	if m.propChecked[n.Idx][k] {
		return
	}
	m.propChecked[n.Idx][k] = true
	want := m.refProposerAddr(rs.Height, rs.Round)
	got := rs.Validators.Proposer()
	m.propCompared++
	if got == nil || want == nil || bytes.Equal(got.Address, want) {
		return
	}
	path := "live"
	if n.restarts > 0 {
		path = "restarted"
	}
	m.report("C16", map[string]string{"kind": "proposer-not-a-function-of-the-history", "site": "ConsensusState.Validators.Proposer", "path": path},
		fmt.Sprintf("node %d (%s) at height %d round %d has proposer %X; the validator-set history alone gives %X", n.Idx, path, rs.Height, rs.Round, got.Address[:4], want[:4]))
}

// checkStore audits newly committed blocks of n (C01 agreement + linearity, C02 audit, C04 commit rule).
func (m *Monitors) checkStore(n *Node) {
	store := nodeStore(n)
	for h := n.lastStore + 1; h <= store.Height(); h++ {
		meta := store.LoadBlockMeta(h)
		block := store.LoadBlock(h)
		if meta == nil || block == nil {
			m.report("C02", map[string]string{"kind": "stored-block-unreadable"}, fmt.Sprintf("node %d height %d: block or meta missing", n.Idx, h))
			continue
		}
		hashHex := fmt.Sprintf("%X", meta.Hash)
		m.commits[n.Idx][h] = hashHex
		name := m.nt.name(meta.Hash)
		m.nt.Blocks[name] = block
		if n.Byz {
			continue
		}
		// C01 agreement
		for _, o := range m.nt.Nodes {
			if o.Byz || o.Idx == n.Idx {
				continue
			}
			if oh, ok := m.commits[o.Idx][h]; ok && oh != hashHex {
				m.report("C01", map[string]string{"kind": "disagreement"},
					fmt.Sprintf("height %d: node %d committed %s, node %d committed %s", h, n.Idx, name, o.Idx, m.nt.blocks[oh]))
			}
		}
		// C01 linearity
		if h > 1 {
			prev := store.LoadBlockMeta(h - 1)
			if prev == nil || !bytes.Equal(block.LastBlockID.Hash, prev.Hash) || !block.LastBlockID.PartsHeader.Equals(prev.PartsHeader) {
				m.report("C01", map[string]string{"kind": "chain-not-linear"}, fmt.Sprintf("node %d: block %d does not name stored block %d as predecessor", n.Idx, h, h-1))
			}
		}
		// C04 commit rule: > 2/3 precommits for this block in one round received by n
		ok := false
		for r := int64(0); r <= m.maxRound+1; r++ {
			if s := m.sumFor(n.Idx, voteKey{h, r, "precommit"}, name); s*3 > m.totalAt(h)*2 {
				ok = true
			}
		}
		if !ok && n.restarts == 0 {
			m.report("C04", map[string]string{"rule": "commit-without-precommits", "site": "enterCommit"},
				fmt.Sprintf("node %d committed %s at height %d without having received +2/3 precommits for it in any single round", n.Idx, name, h))
		}
		m.audit(n, h, block, meta)
	}
	n.lastStore = store.Height()
}

func (m *Monitors) onCrash(n *Node) { m.crashes++ }

func (m *Monitors) atEnd(res *Result) {
	nt := m.nt
	if !res.Done && !res.StepCap {
		// C12: fair suffix must lead every honest node to the target height
		det := []string{}
		for _, n := range nt.Nodes {
			if n.Byz {
				continue
			}
			if !n.alive {
				det = append(det, fmt.Sprintf("n%d dead(%v %s)", n.Idx, n.startErr, n.diedAt))
				continue
			}
			rs := n.cs.VerifRoundState()
			det = append(det, fmt.Sprintf("n%d H%d R%d S%v store=%d pending=%d", n.Idx, rs.Height, rs.Round, rs.Step, n.lastStore, len(n.pending)))
		}
		m.report("C12", map[string]string{"kind": "stall"}, "no enabled event before all honest nodes reached the target height: "+strings.Join(det, "; "))
	}
	if res.StepCap {
		m.report("C12", map[string]string{"kind": "step-bound-exceeded"}, fmt.Sprintf("honest nodes did not reach height %d within %d steps", nt.Sc.Heights, nt.Steps))
	}
	res.Viols = m.viols
}

func (res *Result) fill(nt *Net) {
	res.ID = nt.Sc.ID
	res.Commits = map[string]string{}
	for i, c := range nt.Mon.commits {
		for h, hx := range c {
			res.Commits[fmt.Sprintf("n%d/h%d", i, h)] = nt.blocks[hx]
		}
	}
	res.Writes = map[string]int{}
	for _, n := range nt.Nodes {
		if n.restarts == 0 {
			res.Writes[fmt.Sprintf("n%d", n.Idx)] = n.writes
		}
	}
	res.MaxRound = nt.Mon.maxRound
	res.Crashes = nt.Mon.crashes
	for i := range nt.Sc.Rules {
		res.RulesFired = append(res.RulesFired, nt.fired[i])
	}
	// outcome digest: which block each honest node committed per height + rounds used
	ks := make([]string, 0, len(res.Commits))
	for k := range res.Commits {
		ks = append(ks, k)
	}
	sort.Strings(ks)
	var b strings.Builder
	for _, k := range ks {
		fmt.Fprintf(&b, "%s=%s ", k, res.Commits[k])
	}
	fmt.Fprintf(&b, "maxround=%d done=%v", res.MaxRound, res.Done)
	res.Outcome = b.String()
	res.Trace = nt.Trace
	if nt.Sc.Mode == "decisions" {
		parts := make([]string, len(nt.decisions))
		for i, d := range nt.decisions {
			parts[i] = fmt.Sprint(d)
		}
		if res.Extra == nil {
			res.Extra = map[string]string{}
		}
		res.Extra["decisions"] = strings.Join(parts, ",")
	}
	if nt.Sc.Mode == "writelog" {
		res.Extra = map[string]string{"writelog": strings.Join(nt.writeLog, "\n")}
	}
	res.StateHashes = nt.stateHashes
	if nt.Sc.Inject != nil {
		st := nt.injStats
		if st == nil {
			st = &InjStats{ByType: map[string]int{}, NextSkip: -1}
		}
		b, _ := json.Marshal(st)
		if res.Extra == nil {
			res.Extra = map[string]string{}
		}
		res.Extra["inj"] = string(b)
	}
}
