package consnet

import (
	"bytes"
	"fmt"

	bc "github.com/dappledger/AnnChain/gemmill/blockchain"
	"github.com/dappledger/AnnChain/gemmill/types"
)

func nodeStore(n *Node) *bc.BlockStore {
	return bc.NewBlockStore(n.dbs["blockstore"], n.dbs["archive"])
}

// auditCommit re-verifies a commit from scratch, independently of
// ValidatorSet.VerifyCommit: one height, one round, precommit type, every
// non-nil vote signed by the validator at its index over exactly this block id,
// signers' power > 2/3.
func (m *Monitors) auditCommit(c *types.Commit, h int64, id types.BlockID) string {
	if c == nil {
		return "commit missing"
	}
	if len(c.Precommits) != len(m.nt.Vals) {
		return fmt.Sprintf("commit has %d entries for %d validators", len(c.Precommits), len(m.nt.Vals))
	}
	round := int64(-1)
	var power int64
	pw, total := m.nt.powersAt(h)
	for i, v := range c.Precommits {
		if v == nil {
			continue
		}
		if v.Height != h {
			return fmt.Sprintf("precommit %d is for height %d, not %d", i, v.Height, h)
		}
		if v.Type != types.VoteTypePrecommit {
			return fmt.Sprintf("entry %d is not a precommit", i)
		}
		if round == -1 {
			round = v.Round
		} else if v.Round != round {
			return fmt.Sprintf("precommits of different rounds (%d and %d)", round, v.Round)
		}
		if !m.nt.Vals[i].PubKey.VerifyBytes(types.SignBytes(ChainID, v), v.Signature) {
			return fmt.Sprintf("signature of entry %d does not verify", i)
		}
		if v.BlockID.Equals(id) {
			power += pw[i]
		}
	}
	if !(power*3 > total*2) {
		return fmt.Sprintf("only %d of %d voting power precommitted this block", power, total)
	}
	return ""
}

// audit checks everything C02 states about the block n stored at height h.
func (m *Monitors) audit(n *Node, h int64, b *types.Block, meta *types.BlockMeta) {
	store := nodeStore(n)
	bad := func(field, detail string) {
		m.report("C02", map[string]string{"kind": "committed-block-invalid", "field": field}, fmt.Sprintf("node %d height %d: %s", n.Idx, h, detail))
	}
	if b.Height != h {
		bad("height", fmt.Sprintf("header height %d", b.Height))
	}
	if b.ChainID != ChainID {
		bad("chain-id", b.ChainID)
	}
	if b.NumTxs != int64(len(b.Data.Txs)+len(b.Data.ExTxs)) {
		bad("num-txs", fmt.Sprintf("NumTxs %d but %d txs", b.NumTxs, len(b.Data.Txs)+len(b.Data.ExTxs)))
	}
	if !bytes.Equal(b.DataHash, b.Data.Hash()) {
		bad("data-hash", "DataHash is not the hash of the data")
	}
	if !bytes.Equal(b.LastCommitHash, b.LastCommit.Hash()) {
		bad("last-commit-hash", "LastCommitHash is not the hash of the embedded last commit")
	}
	// the validator set in force at height h: genesis set, proposer accumulators advanced once per committed block
	vs := m.nt.refValidators(h)
	if !bytes.Equal(b.ValidatorsHash, vs.Hash()) {
		bad("validators-hash", "ValidatorsHash is not the hash of this height's validator set")
	}
	if h == 1 {
		if !b.LastBlockID.IsZero() {
			bad("last-block-id", "first block names a predecessor")
		}
		if len(b.AppHash) != 0 && !bytes.Equal(b.AppHash, m.nt.GenDoc.AppHash) {
			bad("app-hash", "first block does not carry the genesis app hash")
		}
		if len(b.LastCommit.Precommits) != 0 {
			bad("last-commit", "first block carries precommits")
		}
	} else {
		prev := store.LoadBlock(h - 1)
		pm := store.LoadBlockMeta(h - 1)
		if prev == nil || pm == nil {
			bad("predecessor", "predecessor not in store")
		} else {
			pid := types.BlockID{Hash: pm.Hash, PartsHeader: pm.PartsHeader}
			if !b.LastBlockID.Equals(pid) {
				bad("last-block-id", "LastBlockID is not the stored block h-1")
			}
			if !bytes.Equal(b.AppHash, AppHashFor(prev)) {
				bad("app-hash", "AppHash is not the application hash after block h-1")
			}
			if !bytes.Equal(b.ReceiptsHash, ReceiptsHashFor(prev)) {
				bad("receipts-hash", "ReceiptsHash is not the application's receipts hash of block h-1")
			}
			if msg := m.auditCommit(b.LastCommit, h-1, pid); msg != "" {
				bad("last-commit", "embedded last commit: "+msg)
			}
		}
	}
	if h == 1 && len(b.ReceiptsHash) != 0 {
		bad("receipts-hash", "first block carries a receipts hash")
	}
	id := types.BlockID{Hash: meta.Hash, PartsHeader: meta.PartsHeader}
	if !bytes.Equal(b.Hash(), meta.Hash) {
		bad("meta-hash", "stored meta hash is not the block's hash")
	}
	if msg := m.auditCommit(store.LoadSeenCommit(h), h, id); msg != "" {
		bad("seen-commit", "stored seen commit: "+msg)
	}
	if h > 1 {
		// the commit for h-1 as stored with block h
		pm := store.LoadBlockMeta(h - 1)
		if pm != nil {
			if msg := m.auditCommit(store.LoadBlockCommit(h-1), h-1, types.BlockID{Hash: pm.Hash, PartsHeader: pm.PartsHeader}); msg != "" {
				bad("block-commit", "stored block commit of h-1: "+msg)
			}
		}
	}
}

func cloneVals(vs []*types.Validator) []*types.Validator {
	out := make([]*types.Validator, len(vs))
	for i, v := range vs {
		c := *v
		out[i] = &c
	}
	return out
}
