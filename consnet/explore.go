package consnet

import (
	"fmt"
	"hash/fnv"
	"sort"
	"strings"
)

// MenuOpts selects the rule menu (DESIGN §4.3).
type MenuOpts struct {
	N        int
	Byz      int
	Rounds   []int64
	Heights  []int64 // heights rules may name
	Hold     bool
	Mute     bool
	Early    bool
	Dup      bool
	Lifo     bool
	ByzBasic bool // silent, equiv, fresh, skip
	ByzSplit bool
	SplitAlt []string
}

func subsetsOf(xs []int, sizes ...int) [][]int {
	var out [][]int
	n := len(xs)
	for mask := 0; mask < 1<<uint(n); mask++ {
		var s []int
		for i := 0; i < n; i++ {
			if mask&(1<<uint(i)) != 0 {
				s = append(s, xs[i])
			}
		}
		for _, k := range sizes {
			if len(s) == k {
				out = append(out, s)
			}
		}
	}
	return out
}

// BuildMenu lists the deviation rules.
func BuildMenu(o MenuOpts) []Rule {
	var honest []int
	for i := 0; i < o.N; i++ {
		if i != o.Byz {
			honest = append(honest, i)
		}
	}
	var m []Rule
	msgs := []string{"proposal", "prevote", "precommit"}
	for _, h := range o.Heights {
		for _, r := range o.Rounds {
			for _, msg := range msgs {
				for _, j := range honest {
					if o.Hold {
						m = append(m, Rule{Kind: "hold", Node: j, Msg: msg, Height: h, Round: r})
					}
					if o.Mute {
						m = append(m, Rule{Kind: "mute", Node: j, Msg: msg, Height: h, Round: r})
					}
					if o.Dup {
						m = append(m, Rule{Kind: "dup", Node: j, Msg: msg, Height: h, Round: r})
					}
				}
				if o.ByzBasic && o.Byz >= 0 {
					m = append(m, Rule{Kind: "byz-silent", Msg: msg, Height: h, Round: r})
				}
			}
			if o.Early {
				for _, j := range honest {
					for _, st := range []string{"propose", "prevote-wait", "precommit-wait"} {
						m = append(m, Rule{Kind: "early", Node: j, Step: st, Height: h, Round: r})
					}
				}
			}
			if o.Byz >= 0 && o.ByzBasic {
				for _, s := range subsetsOf(honest, 1, 2) {
					m = append(m, Rule{Kind: "byz-equiv", Height: h, Round: r, Set: s})
				}
				m = append(m, Rule{Kind: "byz-fresh", Height: h, Round: r})
				m = append(m, Rule{Kind: "byz-skip", Height: h, Round: r})
			}
			if o.Byz >= 0 && o.ByzSplit {
				for _, msg := range []string{"prevote", "precommit"} {
					for _, s := range subsetsOf(honest, 1, 2) {
						for _, alt := range o.SplitAlt {
							m = append(m, Rule{Kind: "byz-split", Msg: msg, Height: h, Round: r, Set: s, Alt: alt})
						}
					}
				}
			}
		}
	}
	if o.Lifo {
		for _, j := range honest {
			m = append(m, Rule{Kind: "lifo", Node: j})
		}
	}
	return m
}

// compatible: two rules that cannot both take effect are not combined.
func compatible(a, b Rule) bool {
	if a.Kind == b.Kind && a.h() == b.h() && a.Round == b.Round {
		switch a.Kind {
		case "byz-equiv", "byz-fresh":
			return false
		case "byz-split":
			if a.Msg == b.Msg {
				return false
			}
		case "byz-silent":
			if a.Msg == b.Msg {
				return false
			}
		}
	}
	if (a.Kind == "byz-equiv" && b.Kind == "byz-fresh" || a.Kind == "byz-fresh" && b.Kind == "byz-equiv") && a.h() == b.h() && a.Round == b.Round {
		return false
	}
	if (a.Kind == "byz-silent" && b.Kind == "byz-split" || a.Kind == "byz-split" && b.Kind == "byz-silent") && a.Msg == b.Msg && a.h() == b.h() && a.Round == b.Round {
		return false
	}
	return true
}

// Subsets enumerates every compatible subset of the menu of size 0..d.
func Subsets(menu []Rule, d int) [][]Rule {
	out := [][]Rule{{}}
	var rec func(start int, cur []Rule)
	rec = func(start int, cur []Rule) {
		if len(cur) == d {
			return
		}
		for i := start; i < len(menu); i++ {
			ok := true
			for _, c := range cur {
				if !compatible(c, menu[i]) {
					ok = false
					break
				}
			}
			if !ok {
				continue
			}
			nxt := append(append([]Rule{}, cur...), menu[i])
			out = append(out, nxt)
			rec(i+1, nxt)
		}
	}
	rec(0, nil)
	return out
}

func hash64(s string) uint64 {
	h := fnv.New64a()
	h.Write([]byte(s))
	return h.Sum64()
}

// globalDigest hashes the property-relevant global state.
func (nt *Net) globalDigest() uint64 {
	var b strings.Builder
	for _, n := range nt.Nodes {
		if n.alive && n.cs != nil {
			b.WriteString(nt.Mon.Digest(n))
		} else {
			b.WriteString("dead")
		}
		fmt.Fprintf(&b, "|own%d|pend", len(n.own))
		ks := make([]string, 0, len(n.pending))
		for _, d := range n.pending {
			ks = append(ks, fmt.Sprintf("%d.%s.%d.%d.%s", d.e.From, d.e.Kind, d.e.Height, d.e.Round, d.e.Block))
		}
		sort.Strings(ks)
		fmt.Fprint(&b, ks)
		b.WriteString("||")
	}
	return hash64(b.String())
}
