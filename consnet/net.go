// Package consnet runs N real pbft.ConsensusState machines under a
// deterministic network that the harness owns completely: every input of every
// node (own internal message, peer message, timeout) is placed by the harness,
// one at a time, through the H3 rendez-vous gate of receiveRoutine; the real
// Start()/catchupReplay/select/WAL-then-handle path runs.  See DESIGN.md §4.3.
package consnet

import (
	"bytes"
	"fmt"
	"os"
	"path/filepath"
	"runtime"
	"sort"
	"strings"
	"sync"
	"time"

	"github.com/spf13/viper"
	"go.uber.org/zap"

	bc "github.com/dappledger/AnnChain/gemmill/blockchain"
	"github.com/dappledger/AnnChain/gemmill/consensus/pbft"
	crypto "github.com/dappledger/AnnChain/gemmill/go-crypto"
	"github.com/dappledger/AnnChain/gemmill/go-hash"
	"github.com/dappledger/AnnChain/gemmill/go-wire"
	clist "github.com/dappledger/AnnChain/gemmill/modules/go-clist"
	gcmn "github.com/dappledger/AnnChain/gemmill/modules/go-common"
	dbm "github.com/dappledger/AnnChain/gemmill/modules/go-db"
	"github.com/dappledger/AnnChain/gemmill/modules/go-events"
	glog "github.com/dappledger/AnnChain/gemmill/modules/go-log"
	"github.com/dappledger/AnnChain/gemmill/p2p"
	sm "github.com/dappledger/AnnChain/gemmill/state"
	"github.com/dappledger/AnnChain/gemmill/types"
	"github.com/dappledger/AnnChain/utils/verifhook"
)

const ChainID = "verif-chain"

func init() {
	if os.Getenv("VERIF_LOG") == "" {
		glog.SetLog(zap.NewNop())
	}
}

// ------------------------------------------------------------------ disk

// crashDB is the "disk" of one node for one database: a MemDB that survives
// the node's crashes, whose writes are crash points.
type crashDB struct {
	name  string
	inner *dbm.MemDB
	node  *Node
}

func (d *crashDB) Get(k []byte) []byte { return d.inner.Get(k) }
func (d *crashDB) Set(k, v []byte) {
	d.node.onWrite("db." + d.name + ".Set")
	d.inner.Set(k, v)
}
func (d *crashDB) SetSync(k, v []byte) {
	d.node.onWrite("db." + d.name + ".SetSync")
	d.inner.SetSync(k, v)
}
func (d *crashDB) Delete(k []byte) {
	d.node.onWrite("db." + d.name + ".Delete")
	d.inner.Delete(k)
}
func (d *crashDB) DeleteSync(k []byte) {
	d.node.onWrite("db." + d.name + ".DeleteSync")
	d.inner.DeleteSync(k)
}
func (d *crashDB) Close()                 {}
func (d *crashDB) Print()                 {}
func (d *crashDB) Iterator() dbm.Iterator { return d.inner.Iterator() }
func (d *crashDB) NewBatch() dbm.Batch    { return &crashBatch{d: d, b: d.inner.NewBatch()} }

type crashBatch struct {
	d *crashDB
	b dbm.Batch
}

func (b *crashBatch) Set(k, v []byte) { b.b.Set(k, v) }
func (b *crashBatch) Delete(k []byte) { b.b.Delete(k) }
func (b *crashBatch) Write() {
	b.d.node.onWrite("db." + b.d.name + ".Batch.Write")
	b.b.Write()
}

// ------------------------------------------------------------------ toy pool / app

type pool struct{ node *Node }

func (p *pool) Lock()   {}
func (p *pool) Unlock() {}
func (p *pool) Reap(int) []types.Tx {
	// one deterministic tx per (node, height): blocks of different proposers differ in content
	rs := p.node.cs.VerifRoundState()
	return []types.Tx{types.Tx(fmt.Sprintf("tx-n%d-h%d-r%d", p.node.Idx, rs.Height, rs.Round))}
}
func (p *pool) ReceiveTx(types.Tx) error                  { return nil }
func (p *pool) Update(int64, []types.Tx)                  {}
func (p *pool) Size() int                                 { return 0 }
func (p *pool) TxsFrontWait() *clist.CElement             { return nil }
func (p *pool) Flush()                                    {}
func (p *pool) RegisterFilter(types.IFilter)              {}
func (p *pool) GetPendingMaxNonce([]byte) (uint64, error) { return 0, nil }

type executor struct{ nt *Net }

func (executor) BeginBlock(*types.Block, events.Fireable, *types.PartSetHeader) error { return nil }
func (executor) ExecBlock(*types.Block, events.Fireable, *types.ExecuteResult) error  { return nil }
func (e executor) EndBlock(b *types.Block, _ events.Fireable, _ *types.PartSetHeader, _ []*types.ValidatorAttr, next *types.ValidatorSet) error {
	// the plugins modify the next validator set in place (state/execution.go ExecBlock)
	if vc := e.nt.Sc.ValChange; vc != nil && b.Height == vc.Height {
		_, v := next.GetByIndex(vc.Index)
		v.VotingPower = vc.Power
		next.Update(v)
	}
	return nil
}

// AppHashFor is the toy application: the app hash after block b.
func AppHashFor(b *types.Block) []byte {
	return hash.DoHash(append([]byte("app:"), b.Hash()...))
}

// ReceiptsHashFor: the toy application produces receipts for the blocks of odd heights only, so
// that a chain alternates between a non-empty and an empty receipts hash (the EVM application
// returns an empty hash for every block without receipts).
func ReceiptsHashFor(b *types.Block) []byte {
	if b.Height%2 == 0 {
		return nil
	}
	return hash.DoHash(append([]byte("receipts:"), b.Hash()...))
}

// ------------------------------------------------------------------ node

// Emitted is one message a node put on its internal queue.
type Emitted struct {
	Seq     int
	From    int
	Kind    string // proposal | part | prevote | precommit
	Height  int64
	Round   int64
	Msg     pbft.ConsensusMessage
	Parts   types.PartSetHeader // for proposal/part: the part-set header it belongs to
	Block   string              // canonical block name ("" = nil)
	Forged  bool                // produced by a Byzantine rule, not by a state machine
	targets map[int]bool        // nil = everybody
}

type delivery struct {
	e    *Emitted
	dups int
}

// Node is one validator.
type Node struct {
	Idx   int
	Byz   bool
	net   *Net
	dir   string
	key   crypto.PrivKeyEd25519
	dbs   map[string]*crashDB
	alive bool

	cs     *pbft.ConsensusState
	conR   *pbft.ConsensusReactor
	ticker *pbft.VerifTicker
	gate   *pbft.VerifGate
	evsw   types.EventSwitch
	sw     *p2p.Switch
	peers  map[int]*p2p.Peer

	own     []pbft.VerifMsg // own internal messages awaiting processing, FIFO
	ownMeta []*Emitted
	pending []*delivery // deliveries from others, FIFO

	writes         int // durable writes since (re)start arming
	armed          bool
	crashAt        int
	dead           chan string
	diedAt         string
	restarts       int
	claimsIn       int // maj23 claims of peers applied to this node in its current life
	claimsPrev     int // ... in the life that ended with the last crash
	lastStore      int64
	startErr       error
	emitSeq        int
	inputs         int
	stepWrites     int  // durable writes since the current input was handed over
	diedFirstWrite bool // the crash hit the first write of a step (= the WAL record of the input itself)
}

func (n *Node) onWrite(site string) {
	if !n.armed || !n.alive {
		return
	}
	n.writes++
	n.stepWrites++
	n.net.writeLog = append(n.net.writeLog, fmt.Sprintf("n%d#%d %s", n.Idx, n.writes, site))
	if n.crashAt > 0 && n.writes == n.crashAt {
		n.alive = false
		n.diedAt = site
		n.diedFirstWrite = n.stepWrites == 1
		n.dead <- site
		runtime.Goexit()
	}
}

// ------------------------------------------------------------------ net

// Net is one execution.
type Net struct {
	Sc          *Scenario
	Dir         string
	Nodes       []*Node
	Vals        []*types.Validator
	GenDoc      *types.GenesisDoc
	Ledger      []*Emitted
	seq         int
	Steps       int
	blocks      map[string]string // hash hex -> canonical name
	Blocks      map[string]*types.Block
	Trace       []string
	Mon         *Monitors
	writeLog    []string
	rulesOn     bool
	fired       map[int]int
	altBlock    map[string]*altBlock // key h/r -> alternative block made by the byzantine proposer rule
	quiesce     int
	stateHashes []uint64
	claimed     map[string]bool
	Ref         *RefDigests // C07: digests of the uncrashed reference run
	pnames      map[string]string
	injStats    *InjStats
	solo        *soloBlocks
	devMode     bool
	wedged      bool
	drift       bool // a node runs with a wrong cached proposer after a reload (NoProposerFix scenarios)
	decision    int
	decisions   []int // number of alternatives at each scheduling decision (reference runs)
}

type altBlock struct {
	block *types.Block
	parts *types.PartSet
	prop  *types.Proposal
}

var netSeq int

var hookMu sync.Mutex
var hookNet *Net

func installHook(nt *Net) {
	hookMu.Lock()
	hookNet = nt
	hookMu.Unlock()
	verifhook.SetWriteCallback(func(site string) {
		hookMu.Lock()
		cur := hookNet
		hookMu.Unlock()
		if cur == nil {
			return
		}
		// site carries the file path for autofile / WriteFileAtomic
		i := strings.Index(site, ":")
		if i < 0 {
			return
		}
		path := site[i+1:]
		for _, n := range cur.Nodes {
			if strings.HasPrefix(path, n.dir+"/") {
				n.onWrite(site[:i] + ":" + strings.TrimPrefix(path, n.dir+"/"))
				return
			}
		}
	})
}

// Keys returns n deterministic keys sorted by address (validator index = node index).
func Keys(n int) []crypto.PrivKeyEd25519 {
	ks := make([]crypto.PrivKeyEd25519, n)
	for i := range ks {
		ks[i] = crypto.GenPrivKeyEd25519FromSecret([]byte(fmt.Sprintf("verif-validator-%d", i)))
	}
	sort.Slice(ks, func(a, b int) bool {
		return bytes.Compare(ks[a].PubKey().Address(), ks[b].PubKey().Address()) < 0
	})
	return ks
}

// NewNet builds the nodes of a scenario (not started).
func NewNet(sc *Scenario, dir string) *Net {
	// every execution of a process gets its own directory and none is removed while the
	// process lives: a WAL group's 5-second size-check goroutine of an earlier execution may
	// still be scheduled late (loaded machine) and panics if its directory has disappeared.
	// The parent removes the whole worker directory when the worker process has exited.
	netSeq++
	dir = fmt.Sprintf("%s-%d", dir, netSeq)
	nt := &Net{Sc: sc, Dir: dir, blocks: map[string]string{}, Blocks: map[string]*types.Block{}, fired: map[int]int{}, altBlock: map[string]*altBlock{}, rulesOn: true}
	os.RemoveAll(dir)
	os.MkdirAll(dir, 0755)
	keys := Keys(len(sc.Powers))
	gen := &types.GenesisDoc{ChainID: ChainID, GenesisTime: time.Unix(1500000000, 0)}
	for i, k := range keys {
		gen.Validators = append(gen.Validators, types.GenesisValidator{PubKey: k.PubKey(), Amount: sc.Powers[i], Name: fmt.Sprintf("v%d", i), IsCA: true})
		nt.Vals = append(nt.Vals, &types.Validator{Address: k.PubKey().Address(), PubKey: k.PubKey(), VotingPower: sc.Powers[i], IsCA: true})
	}
	nt.GenDoc = gen
	for i, k := range keys {
		n := &Node{Idx: i, Byz: i == sc.Byz, net: nt, key: k, dir: filepath.Join(dir, fmt.Sprintf("n%d", i)), dbs: map[string]*crashDB{}, dead: make(chan string, 1)}
		os.MkdirAll(n.dir, 0755)
		for _, name := range []string{"blockstore", "archive", "state"} {
			n.dbs[name] = &crashDB{name: name, inner: dbm.NewMemDB(), node: n}
		}
		pv, _ := types.GenPrivValidator("", k)
		pv.SetFile(filepath.Join(n.dir, "priv_validator.json"))
		pv.Save()
		nt.Nodes = append(nt.Nodes, n)
	}
	nt.Mon = newMonitors(nt)
	installHook(nt)
	return nt
}

func (nt *Net) conf(n *Node) *viper.Viper {
	c := viper.New()
	c.Set("chain_id", ChainID)
	c.Set("cs_wal_dir", filepath.Join(n.dir, "cswal"))
	c.Set("cs_wal_light", nt.Sc.WalLight)
	c.Set("block_size", 10)
	c.Set("block_part_size", nt.Sc.partSize())
	c.Set("timeout_propose", 3000)
	c.Set("timeout_propose_delta", 500)
	c.Set("timeout_prevote", 1000)
	c.Set("timeout_prevote_delta", 500)
	c.Set("timeout_precommit", 1000)
	c.Set("timeout_precommit_delta", 500)
	c.Set("timeout_commit", 1000)
	c.Set("skip_timeout_commit", false)
	return c
}

// startNode builds a fresh ConsensusState for n from its files and DBs and
// runs the real Start(); returns false if the node died during start.
func (nt *Net) startNode(n *Node) bool {
	conf := nt.conf(n)
	st := sm.LoadState(n.dbs["state"])
	if st == nil {
		n.armed = false
		st = sm.MakeGenesisState(n.dbs["state"], nt.GenDoc)
		st.Save()
	}
	n.armed = true
	n.alive = true
	n.writes = 0
	n.claimsPrev, n.claimsIn = n.claimsIn, 0
	nt.checkReloadedProposer(n, st)
	st.SetBlockExecutable(executor{nt})
	store := bc.NewBlockStore(n.dbs["blockstore"], n.dbs["archive"])
	n.ticker = pbft.NewVerifTicker()
	n.gate = pbft.NewVerifGate()
	n.own, n.ownMeta = nil, nil
	type started struct{ err error }
	done := make(chan started, 1)
	go func() {
		// everything that touches the node's disk runs on this goroutine so that a
		// crash point (Goexit) during start kills exactly this start
		cs := pbft.NewConsensusState(conf, st, store, &pool{n})
		if cs == nil {
			done <- started{fmt.Errorf("NewConsensusState returned nil")}
			return
		}
		n.cs = cs
		pv, err := types.LoadPrivValidator(filepath.Join(n.dir, "priv_validator.json"))
		if err != nil {
			done <- started{fmt.Errorf("LoadPrivValidator: %v", err)}
			return
		}
		cs.SetPrivValidator(pv)
		cs.SetTimeoutTicker(n.ticker)
		cs.SetVerifGate(n.gate)
		st.SetBlockVerifier(cs)
		n.evsw = types.NewEventSwitch()
		n.evsw.Start()
		nt.installAppHooks(n)
		n.conR = pbft.NewConsensusReactor(cs, nt.Sc.ViaSwitch)
		cs.BindReactor(n.conR)
		n.sw = p2p.NewSwitch(viper.New())
		n.sw.AddReactor("CONSENSUS", n.conR)
		n.conR.SetEventSwitch(n.evsw)
		_, err = n.conR.Start()
		if err == nil && nt.Sc.ViaSwitch {
			// what BlockchainReactor's switch-to-consensus event does once the node is caught up
			n.conR.SwitchToConsensus(st)
		}
		done <- started{err}
	}()
	select {
	case r := <-done:
		if r.err != nil {
			n.startErr = r.err
			n.alive = false
			return false
		}
	case <-n.dead:
		return false
	}
	// wait until receiveRoutine is parked at the gate
	select {
	case <-n.gate.Idle:
	case <-n.dead:
		return false
	}
	if k, over := n.ticker.VerifWouldBlockBeforeStart(); over && !n.Byz {
		// the harness ticker never blocks; the real one hands timeouts over through a bounded channel
		// that is drained only once the ticker runs
		nt.Mon.report("C07", map[string]string{"kind": "start-blocks-on-the-timeout-ticker", "site": "ConsensusState.OnStart"},
			fmt.Sprintf("node %d scheduled %d timeouts during its start before the timeout ticker was started: with the real ticker (channel of %d) the start never returns", n.Idx, k, k-1))
		nt.Mon.report("C12", map[string]string{"kind": "restart-never-completes", "site": "ConsensusState.OnStart"},
			fmt.Sprintf("node %d scheduled %d timeouts during its start before the timeout ticker was started: with the real ticker the start never returns and the validator never commits again", n.Idx, k))
	}
	n.peers = map[int]*p2p.Peer{}
	for _, o := range nt.Nodes {
		if o.Idx == n.Idx {
			continue
		}
		p := &p2p.Peer{Key: fmt.Sprintf("peer%d", o.Idx), Data: gcmn.NewCMap()}
		p.Data.Set(types.PeerStateKey, pbft.NewPeerState(p))
		n.peers[o.Idx] = p
	}
	if n.restarts == 0 {
		n.lastStore = store.Height()
	} else {
		nt.Mon.checkStore(n) // blocks that reached the store before the crash are audited now
	}
	nt.collect(n)
	nt.Mon.noteStart(n)
	if n.restarts == 0 {
		nt.maybeInject(n)
	}
	return true
}

func (nt *Net) installAppHooks(n *Node) {
	types.AddListenerForEvent(n.evsw, "verif", types.EventStringHookNewRound(), func(ed types.TMEventData) {
		ed.(types.EventDataHookNewRound).ResCh <- types.NewRoundResult{}
	})
	types.AddListenerForEvent(n.evsw, "verif", types.EventStringHookExecute(), func(ed types.TMEventData) {
		ed.(types.EventDataHookExecute).ResCh <- types.ExecuteResult{}
	})
	types.AddListenerForEvent(n.evsw, "verif", types.EventStringHookCommit(), func(ed types.TMEventData) {
		d := ed.(types.EventDataHookCommit)
		d.ResCh <- types.CommitResult{AppHash: AppHashFor(d.Block), ReceiptsHash: ReceiptsHashFor(d.Block)}
	})
}

// discard releases what can be released of a dead node instance.
func (nt *Net) discard(n *Node) {
	if n.cs == nil {
		return
	}
	n.cs.SetVerifGate(nil)
	if g := n.cs.VerifWALGroup(); g != nil {
		g.Stop()
		g.Head.Close()
	}
	if n.evsw != nil {
		n.evsw.Stop()
	}
	n.cs = nil
}

// StopAll stops every live node cleanly (end of execution).
func (nt *Net) StopAll() {
	for _, n := range nt.Nodes {
		if n.cs != nil && n.alive {
			n.armed = false
			cs := n.cs
			go func() { cs.Stop() }()
			select {
			case n.gate.Go <- struct{}{}:
			case <-time.After(2 * time.Second):
			}
			select {
			case <-cs.VerifDone():
			case <-time.After(2 * time.Second):
			}
			if g := cs.VerifWALGroup(); g != nil {
				g.Stop() // idempotent; makes sure the group's size-check ticker is dead before the directory goes away
				g.Head.Close()
			}
			n.evsw.Stop()
			cs.SetVerifGate(nil)
		} else if n.cs != nil {
			nt.discard(n)
		}
	}
	installHook(nil)
}

// name returns the canonical name of a block hash.
func (nt *Net) name(h []byte) string {
	if len(h) == 0 {
		return ""
	}
	k := fmt.Sprintf("%X", h)
	if v, ok := nt.blocks[k]; ok {
		return v
	}
	v := fmt.Sprintf("b%d", len(nt.blocks)+1)
	nt.blocks[k] = v
	return v
}

func kindOf(msg pbft.ConsensusMessage) (kind string, h, r int64) {
	switch m := msg.(type) {
	case *pbft.ProposalMessage:
		return "proposal", m.Proposal.Height, m.Proposal.Round
	case *pbft.BlockPartMessage:
		return "part", m.Height, m.Round
	case *pbft.VoteMessage:
		if m.Vote.Type == types.VoteTypePrevote {
			return "prevote", m.Vote.Height, m.Vote.Round
		}
		return "precommit", m.Vote.Height, m.Vote.Round
	}
	return "other", 0, 0
}

// collect drains what node n emitted on its internal queue during the last
// step, records it in the ledger, schedules it back to n itself and creates
// the deliveries to the other nodes (after Byzantine rules).
func (nt *Net) collect(n *Node) {
	for {
		vm, ok := n.cs.VerifTakeInternal()
		if !ok {
			break
		}
		kind, h, r := kindOf(vm.Msg())
		e := &Emitted{From: n.Idx, Kind: kind, Height: h, Round: r, Msg: vm.Msg()}
		switch m := vm.Msg().(type) {
		case *pbft.ProposalMessage:
			e.Parts = m.Proposal.BlockPartsHeader
			e.Block = "ph:" + fmt.Sprintf("%X", m.Proposal.BlockPartsHeader.Hash)
		case *pbft.BlockPartMessage:
			// belongs to the latest proposal this node emitted for (h, r)
			for i := len(nt.Ledger) - 1; i >= 0; i-- {
				l := nt.Ledger[i]
				if l.From == n.Idx && l.Kind == "proposal" && l.Height == h && l.Round == r && !l.Forged {
					e.Parts = l.Parts
					break
				}
			}
		case *pbft.VoteMessage:
			e.Block = nt.name(m.Vote.BlockID.Hash)
		}
		nt.seq++
		e.Seq = nt.seq
		n.own = append(n.own, vm)
		n.ownMeta = append(n.ownMeta, e)
		nt.Ledger = append(nt.Ledger, e)
		nt.Mon.onEmit(n, e)
		nt.route(n, e)
	}
	// commit detection
	if n.cs != nil {
		st := n.cs.VerifRoundState()
		_ = st
	}
}

// send queues e for every node but the sender (filter optional).
func (nt *Net) send(from int, e *Emitted, only func(to int) bool) {
	for _, o := range nt.Nodes {
		if o.Idx == from {
			continue
		}
		if only != nil && !only(o.Idx) {
			continue
		}
		o.pending = append(o.pending, &delivery{e: e})
	}
}

// ------------------------------------------------------------------ stepping

type inputKind int

const (
	inOwn inputKind = iota
	inPeer
	inTimeout
)

// step feeds exactly one input to node n and waits until it has been
// processed (node parked at the gate again) or the node died.
func (nt *Net) step(n *Node, kind inputKind, d *delivery, toIdx int) {
	nt.Steps++
	var desc string
	switch kind {
	case inOwn:
		vm := n.own[0]
		e := n.ownMeta[0]
		n.own, n.ownMeta = n.own[1:], n.ownMeta[1:]
		n.cs.VerifPutInternal(vm)
		nt.Mon.onDeliver(n, e)
		desc = fmt.Sprintf("n%d<-own %s h%d r%d %s", n.Idx, e.Kind, e.Height, e.Round, e.Block)
	case inPeer:
		e := d.e
		ch := byte(pbft.DataChannel)
		if e.Kind == "prevote" || e.Kind == "precommit" {
			ch = pbft.VoteChannel
		}
		bz := wire.BinaryBytes(struct{ pbft.ConsensusMessage }{e.Msg})
		n.conR.Receive(ch, n.peers[e.From], bz)
		if p, _ := n.cs.VerifQueueLens(); p == 0 {
			// the reactor did not forward it; nothing to process
			nt.Trace = append(nt.Trace, fmt.Sprintf("n%d<-n%d %s h%d r%d dropped-by-reactor", n.Idx, e.From, e.Kind, e.Height, e.Round))
			return
		}
		nt.Mon.onDeliver(n, e)
		desc = fmt.Sprintf("n%d<-n%d %s h%d r%d %s", n.Idx, e.From, e.Kind, e.Height, e.Round, e.Block)
		if e.targets != nil && !n.Byz {
			// honest gossip relays what it has received: a selectively sent (Byzantine)
			// message becomes deliverable to everybody once one honest node has it
			for _, o := range nt.Nodes {
				if o.Idx != e.From && o.Idx != n.Idx && !e.targets[o.Idx] {
					e.targets[o.Idx] = true
					o.pending = append(o.pending, &delivery{e: e})
				}
			}
		}
	case inTimeout:
		to := n.ticker.Fire(toIdx)
		nt.Mon.onTimeout(n, to)
		desc = fmt.Sprintf("n%d<-timeout h%d r%d %v", n.Idx, to.Height, to.Round, to.Step)
	}
	nt.Trace = append(nt.Trace, desc)
	hBefore := n.cs.VerifRoundState().Height
	n.stepWrites = 0
	n.gate.Go <- struct{}{}
	select {
	case <-time.After(4 * wedgeTimeout):
		// the input was taken but never finished: the consensus goroutine is blocked for good
		nt.Mon.report("C12", map[string]string{"kind": "node-wedged"}, fmt.Sprintf("node %d never finished processing %s (blocked on a lock, a full queue or a hook)", n.Idx, desc))
		nt.wedged = true
		n.alive = false
	case <-n.gate.Idle:
		nt.collect(n)
		nt.Mon.afterStep(n)
		nt.Mon.recordDigest(n, hBefore)
		n.inputs++
		nt.maybeInject(n)
		if !n.alive {
			return
		}
		for i, r := range nt.Sc.Rules {
			if r.Kind == "rotate" && r.Node == n.Idx && r.K == n.inputs && n.restarts == 0 {
				if g := n.cs.VerifWALGroup(); g != nil {
					g.RotateFile()
					nt.fired[i]++
					nt.Trace = append(nt.Trace, fmt.Sprintf("n%d WAL rotated after input %d", n.Idx, n.inputs))
				}
			}
		}
		if nt.Sc.Mode != "nohash" {
			nt.stateHashes = append(nt.stateHashes, nt.globalDigest())
		}
	case site := <-n.dead:
		nt.Trace = append(nt.Trace, fmt.Sprintf("n%d DIED at write %d (%s)", n.Idx, n.writes, site))
		nt.Mon.onCrash(n)
		nt.discard(n)
	}
}

// acceptable says whether the default (gossip-like) policy would hand e to n
// now; deferred = keep for later; otherwise obsolete (drop).
func (nt *Net) acceptable(n *Node, e *Emitted) (ok, deferred bool) {
	rs := n.cs.VerifRoundState()
	switch e.Kind {
	case "proposal":
		if rs.Height == e.Height && rs.Round == e.Round {
			return true, false
		}
		if rs.Height < e.Height || (rs.Height == e.Height && rs.Round < e.Round) {
			return false, true
		}
		return false, false
	case "part":
		if rs.Height > e.Height {
			return false, false
		}
		if rs.Height == e.Height && rs.ProposalBlockParts != nil && rs.ProposalBlockParts.HasHeader(e.Parts) {
			return true, false
		}
		return false, true
	default: // votes
		if rs.Height == e.Height {
			if e.Round <= rs.Round+1 {
				return true, false
			}
			return false, true
		}
		if rs.Height == e.Height+1 && e.Kind == "precommit" {
			return true, false
		}
		if rs.Height < e.Height {
			return false, true
		}
		return false, false
	}
}

// Run executes the scenario; returns the result.
func (nt *Net) Run() *Result {
	sc := nt.Sc
	for _, n := range nt.Nodes {
		nt.armCrash(n)
		if !nt.startNode(n) {
			nt.Mon.onCrash(n)
			nt.discard(n)
		}
	}
	for _, r := range sc.Rules {
		if r.Kind == "dev" {
			nt.devMode = true
		}
	}
	if sc.Mode == "decisions" {
		nt.devMode = true
	}
	maxSteps := sc.MaxSteps
	if maxSteps == 0 {
		maxSteps = 4000
	}
	res := &Result{}
	for nt.Steps < maxSteps {
		if nt.wedged {
			res.Stalled = true
			break
		}
		if nt.allDone() {
			res.Done = true
			break
		}
		progress := false
		for _, n := range nt.Nodes {
			if !n.alive {
				continue
			}
			if nt.stepDefault(n, false) {
				progress = true
			}
		}
		if nt.restartDue(progress) {
			progress = true
		}
		if progress {
			nt.quiesce = 0
			continue
		}
		// global quiescence: fire the armed timeout of every node (snapshot first, so
		// that e.g. all NewHeight timeouts fire in the same sweep); only when no
		// timeout is armed anywhere does the adversarial prefix end (rules expire).
		var due []*Node
		for _, n := range nt.Nodes {
			if n.alive && len(n.ticker.Pending()) > 0 && !nt.atTarget(n) {
				due = append(due, n)
			}
		}
		if len(due) > 0 {
			for _, n := range due {
				if n.alive {
					nt.fireNewest(n)
				}
			}
			continue
		}
		if nt.rulesOn {
			nt.rulesOn = false
			nt.Trace = append(nt.Trace, "-- rules expire (fair suffix) --")
			continue
		}
		if nt.maj23Sweep() {
			continue
		}
		res.Stalled = true
		break
	}
	if !res.Done && !res.Stalled {
		res.StepCap = true
	}
	nt.Mon.atEnd(res)
	res.Steps = nt.Steps
	res.fill(nt)
	return res
}

// atTarget: n has committed the last height of the scenario; its timeouts are
// no longer fired so that it does not run ahead of slower nodes.
func (nt *Net) atTarget(n *Node) bool { return n.lastStore >= nt.Sc.Heights }

func (nt *Net) allDone() bool {
	for _, n := range nt.Nodes {
		if n.Byz {
			continue
		}
		if !n.alive {
			return false
		}
		if n.lastStore < nt.Sc.Heights {
			return false
		}
	}
	return true
}

// stepDefault gives node n its next input under the fair default schedule
// modified by the active rules. timeouts=true: quiescent sweep, fire the newest
// scheduled timeout if the node has nothing else.
func (nt *Net) stepDefault(n *Node, timeouts bool) bool {
	if nt.devMode && nt.rulesOn {
		if done, res := nt.stepDeviation(n); done {
			return res
		}
	}
	// early-timeout rules fire before anything else
	if nt.rulesOn && !nt.atTarget(n) {
		if i := nt.earlyTimeout(n); i >= 0 {
			nt.step(n, inTimeout, nil, i)
			return true
		}
	}
	if len(n.own) > 0 {
		nt.step(n, inOwn, nil, 0)
		return true
	}
	// next deliverable pending delivery
	order := make([]int, len(n.pending))
	for i := range order {
		order[i] = i
	}
	if nt.rulesOn && nt.lifo(n) {
		for i, j := 0, len(order)-1; i < j; i, j = i+1, j-1 {
			order[i], order[j] = order[j], order[i]
		}
	}
	for _, i := range order {
		d := n.pending[i]
		if nt.rulesOn && nt.withheld(n, d.e) {
			continue
		}
		ok, deferred := nt.acceptable(n, d.e)
		if !ok && deferred {
			continue
		}
		if !ok {
			n.pending = append(n.pending[:i:i], n.pending[i+1:]...)
			return true // dropped an obsolete message: counts as progress of the network
		}
		if nt.rulesOn && d.dups == 0 && nt.dupRule(n, d.e) {
			d.dups = 1
		} else {
			n.pending = append(n.pending[:i:i], n.pending[i+1:]...)
		}
		nt.step(n, inPeer, d, 0)
		return true
	}
	return false
}

// fireNewest drops superseded timeouts of n and fires the newest one (what a
// real ticker still has armed).
func (nt *Net) fireNewest(n *Node) {
	p := n.ticker.Pending()
	if len(p) == 0 {
		return
	}
	for len(p) > 1 {
		n.ticker.Drop(0)
		p = p[1:]
	}
	nt.step(n, inTimeout, nil, 0)
}

func (nt *Net) anyWithheld() bool {
	for _, n := range nt.Nodes {
		if !n.alive {
			continue
		}
		for _, d := range n.pending {
			if nt.withheld(n, d.e) {
				return true
			}
		}
	}
	return false
}

// WorkRoot is where executions keep their node directories.
func WorkRoot(base string, worker int) string {
	return filepath.Join(base, fmt.Sprintf("w%d", worker))
}

// maj23Sweep models queryMaj23Routine + catch-up vote gossip in the fair suffix:
// every honest node that knows a +2/3 majority (in its vote sets or as a stored
// commit) tells the peers that are still at that height, and the votes of that
// majority become deliverable to them again.  Returns true if anything new was
// queued.
func (nt *Net) maj23Sweep() bool {
	if nt.claimed == nil {
		nt.claimed = map[string]bool{}
	}
	did := false
	claim := func(j, k *Node, h, r int64, typ byte, id types.BlockID) {
		key := fmt.Sprintf("%d>%d:%d/%d/%d/%X", j.Idx, k.Idx, h, r, typ, id.Hash)
		if nt.claimed[key] {
			return
		}
		nt.claimed[key] = true
		bz := wire.BinaryBytes(struct{ pbft.ConsensusMessage }{&pbft.VoteSetMaj23Message{Height: h, Round: r, Type: typ, BlockID: id}})
		k.conR.Receive(pbft.StateChannel, k.peers[j.Idx], bz)
		k.claimsIn++
		kind := "prevote"
		if typ == types.VoteTypePrecommit {
			kind = "precommit"
		}
		name := nt.name(id.Hash)
		for _, e := range nt.Ledger {
			if e.Height == h && e.Round == r && e.Kind == kind && e.Block == name && e.From != k.Idx {
				k.pending = append(k.pending, &delivery{e: e})
				did = true
			}
		}
		nt.Trace = append(nt.Trace, fmt.Sprintf("n%d->n%d maj23 claim h%d r%d %s %s", j.Idx, k.Idx, h, r, kind, name))
	}
	// block catch-up (gossipDataRoutine serving a peer's CommitStep): a node that
	// waits in Commit for a block gets the parts it lacks again
	for _, k := range nt.Nodes {
		if !k.alive {
			continue
		}
		krs := k.cs.VerifRoundState()
		if krs.Step != pbft.RoundStepCommit || krs.ProposalBlock != nil || krs.ProposalBlockParts == nil {
			continue
		}
		hdr := krs.ProposalBlockParts.Header()
		key := fmt.Sprintf("parts>%d:%d/%X/%d", k.Idx, krs.Height, hdr.Hash, krs.ProposalBlockParts.Count())
		if nt.claimed[key] {
			continue
		}
		nt.claimed[key] = true
		seen := map[int]bool{}
		relay := -1
		for _, o := range nt.Nodes {
			if o.Idx != k.Idx && !o.Byz && o.alive {
				relay = o.Idx
				break
			}
		}
		for _, e := range nt.Ledger {
			if e.Kind == "part" && e.Height == krs.Height && e.Parts.Equals(hdr) {
				idx := e.Msg.(*pbft.BlockPartMessage).Part.Index
				if idx >= 0 && !seen[idx] {
					ee := e
					if e.From == k.Idx {
						if relay < 0 {
							continue
						}
						c := *e
						c.From = relay // a peer that has the block serves it back to its restarted proposer
						ee = &c
					}
					seen[idx] = true
					k.pending = append(k.pending, &delivery{e: ee})
					did = true
				}
			}
		}
		nt.Trace = append(nt.Trace, fmt.Sprintf("n%d block catch-up h%d: %d parts re-sent", k.Idx, krs.Height, len(seen)))
	}
	for _, j := range nt.Nodes {
		if j.Byz || !j.alive {
			continue
		}
		jrs := j.cs.VerifRoundState()
		store := nodeStore(j)
		for _, k := range nt.Nodes {
			if k.Idx == j.Idx || !k.alive {
				continue
			}
			krs := k.cs.VerifRoundState()
			if krs.Height == jrs.Height && jrs.Votes != nil {
				for r := int64(0); r <= jrs.Round; r++ {
					if vs := jrs.Votes.Prevotes(r); vs != nil {
						if id, ok := vs.TwoThirdsMajority(); ok {
							claim(j, k, krs.Height, r, types.VoteTypePrevote, id)
						}
					}
					if vs := jrs.Votes.Precommits(r); vs != nil {
						if id, ok := vs.TwoThirdsMajority(); ok {
							claim(j, k, krs.Height, r, types.VoteTypePrecommit, id)
						}
					}
				}
			} else if krs.Height <= store.Height() {
				if c := store.LoadSeenCommit(krs.Height); c != nil && len(c.Precommits) > 0 {
					claim(j, k, krs.Height, c.Round(), types.VoteTypePrecommit, c.BlockID)
				}
			}
		}
	}
	return did
}

// refValidators is the monitor's own replica of the validator set in force at
// height h: genesis set, accumulators advanced once per committed block.
func (nt *Net) refValidators(h int64) *types.ValidatorSet {
	vs := types.NewValidatorSet(cloneVals(nt.Vals))
	for k := int64(1); k < h; k++ {
		if vc := nt.Sc.ValChange; vc != nil && k == vc.Height {
			_, v := vs.GetByIndex(vc.Index)
			v.VotingPower = vc.Power
			vs.Update(v)
		}
		vs.IncrementAccum(1)
	}
	return vs
}

// powersAt returns the voting powers (by validator index) and their sum at height h.
func (nt *Net) powersAt(h int64) ([]int64, int64) {
	if nt.Sc.ValChange == nil || h <= nt.Sc.ValChange.Height {
		var t int64
		for _, p := range nt.Sc.Powers {
			t += p
		}
		return nt.Sc.Powers, t
	}
	ps := append([]int64{}, nt.Sc.Powers...)
	ps[nt.Sc.ValChange.Index] = nt.Sc.ValChange.Power
	var t int64
	for _, p := range ps {
		t += p
	}
	return ps, t
}

// checkReloadedProposer: a state loaded from disk must name the same proposer
// for round 0 of its next height as every replica that did not restart.  If it
// does not, that is reported (property C07/C16) and the harness then puts the
// right proposer back so that the rest of the execution can still be judged.
func (nt *Net) checkReloadedProposer(n *Node, st *sm.State) {
	h := st.LastBlockHeight + 1
	want := nt.refValidators(h).Proposer()
	got := st.Validators.Proposer()
	if want == nil || got == nil || bytes.Equal(want.Address, got.Address) {
		return
	}
	if !n.Byz {
		nt.Mon.report("C07", map[string]string{"kind": "proposer-differs-after-reload", "site": "ValidatorSet.Proposer"},
			fmt.Sprintf("node %d reloaded its state for height %d and computes validator %X as round-0 proposer; replicas that did not restart have %X (the cached proposer is not persisted and cannot be recomputed from the decremented accumulators)", n.Idx, h, got.Address[:4], want.Address[:4]))
		nt.Mon.report("C16", map[string]string{"kind": "proposer-differs-after-reload", "site": "ValidatorSet.Proposer"},
			fmt.Sprintf("node %d reloaded its state for height %d and computes validator %X as round-0 proposer; replicas that did not restart have %X", n.Idx, h, got.Address[:4], want.Address[:4]))
	}
	if nt.Sc.NoProposerFix {
		nt.drift = true
		nt.Trace = append(nt.Trace, fmt.Sprintf("n%d continues with the wrong round-0 proposer (no harness repair in this scenario)", n.Idx))
		return
	}
	st.Validators.VerifSetProposer(want.Address)
}

func (nt *Net) maybeInject(n *Node) {
	sp := nt.Sc.Inject
	if sp == nil || sp.Node != n.Idx || !n.alive {
		return
	}
	if nt.injStats == nil {
		nt.injStats = &InjStats{ByType: map[string]int{}, NextSkip: -1}
	}
	if nt.injStats.Triggered {
		return
	}
	if !statePredicate(sp.State, n.cs.VerifRoundState(), n.inputs) {
		return
	}
	nt.Trace = append(nt.Trace, fmt.Sprintf("-- n%d reached state %q: injecting %s cases --", n.Idx, sp.State, sp.Family))
	nt.runInjections(n)
}

// ---- delay-bounded scheduling: "dev" rules pick a non-default input at one
// numbered scheduling decision of the default schedule.

type devOpt struct {
	kind inputKind
	idx  int // pending index / timeout index
	skip bool
}

// devOptions lists, in canonical order, the inputs node n could take now other
// than the default one: its own queue head, every other pending delivery that is
// not withheld by a rule (acceptable or still deferred = early delivery), every
// armed timeout (newest first), and doing nothing this sweep.
func (nt *Net) devOptions(n *Node) []devOpt {
	var opts []devOpt
	defaultIsOwn := len(n.own) > 0
	if !defaultIsOwn {
		// default = first acceptable pending; alternatives start after it
	}
	firstAcceptable := -1
	for i, d := range n.pending {
		if nt.withheld(n, d.e) {
			continue
		}
		ok, deferred := nt.acceptable(n, d.e)
		if !ok && !deferred {
			continue
		}
		if ok && firstAcceptable < 0 && !defaultIsOwn {
			firstAcceptable = i
			continue // this is the default
		}
		opts = append(opts, devOpt{kind: inPeer, idx: i})
	}
	if !nt.atTarget(n) {
		p := n.ticker.Pending()
		for i := len(p) - 1; i >= 0; i-- {
			opts = append(opts, devOpt{kind: inTimeout, idx: i})
		}
	}
	opts = append(opts, devOpt{skip: true})
	return opts
}

// stepDeviation handles one scheduling decision in dev mode. Returns done=true
// if it acted (res = progress flag for the sweep).
func (nt *Net) stepDeviation(n *Node) (done bool, res bool) {
	// is there a default input at all?
	hasDefault := len(n.own) > 0
	if !hasDefault {
		for _, d := range n.pending {
			if nt.withheld(n, d.e) {
				continue
			}
			if ok, _ := nt.acceptable(n, d.e); ok {
				hasDefault = true
				break
			}
		}
	}
	if !hasDefault {
		return false, false
	}
	k := nt.decision
	nt.decision++
	opts := nt.devOptions(n)
	nt.decisions = append(nt.decisions, len(opts))
	for i, r := range nt.Sc.Rules {
		if r.Kind != "dev" || r.K != k {
			continue
		}
		if r.Delay < 0 || r.Delay >= len(opts) {
			return false, false
		}
		nt.fired[i]++
		o := opts[r.Delay]
		switch {
		case o.skip:
			nt.Trace = append(nt.Trace, fmt.Sprintf("n%d skips its turn (decision %d)", n.Idx, k))
			return true, true
		case o.kind == inPeer:
			d := n.pending[o.idx]
			n.pending = append(n.pending[:o.idx:o.idx], n.pending[o.idx+1:]...)
			nt.Trace = append(nt.Trace, fmt.Sprintf("decision %d: non-default delivery", k))
			nt.step(n, inPeer, d, 0)
			return true, true
		case o.kind == inTimeout:
			nt.Trace = append(nt.Trace, fmt.Sprintf("decision %d: timeout before pending input", k))
			nt.step(n, inTimeout, nil, o.idx)
			return true, true
		}
	}
	return false, false
}
