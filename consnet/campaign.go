package consnet

import (
	"fmt"
	"os"
	"path/filepath"
	"sort"
	"strings"
	"time"

	"verif/core"
)

// Summary of a campaign (a set of scenarios run to completion).
type Summary struct {
	Executions    int
	Steps         int
	States        map[uint64]struct{}
	Outcomes      *core.Counter
	Done          int
	Inconclusive  int
	Died          int
	OtherViols    map[string]int // violations of properties outside the focus, by property
	RuleActive    int            // executions in which every rule took effect at least once
	ByFamily      map[string]int
	MaxRound      int64
	MultiRound    int
	Crashes       int
	Samples       *core.Sampler
	Deadline      bool
	Skipped       int
	NotReproduced int
	ConfirmRuns   int
}

// CampaignOpts controls RunCampaign.
type CampaignOpts struct {
	Focus     map[string]bool // property ids whose violations are reported
	DeathProp string          // property a worker death (panic of a node goroutine) counts against; "" = inconclusive
	Budget    time.Duration   // soft wall-clock budget: when exceeded no further scenarios are started (exhaustive=false)
	KeepTrace bool
	OnResult  func(*Scenario, *Result)
}

// IsWorker reports whether this process was started as a pool worker.
func IsWorker() bool { return len(os.Args) > 1 && os.Args[1] == "worker" }

// RunCampaign runs scs on the worker pool and feeds the violations of the focus
// properties into run.
func RunCampaign(run *core.Run, scs []*Scenario, o CampaignOpts) *Summary {
	sum := &Summary{States: map[uint64]struct{}{}, Outcomes: core.NewCounter(), OtherViols: map[string]int{}, Samples: core.NewSampler(5, run.Seed)}
	for i, sc := range scs {
		sc.ID = i
	}
	start := time.Now()
	todo := scs
	base := filepath.Join(run.WorkDir(), "pool")
	type candidate struct {
		sc     *Scenario
		prop   string
		sig    map[string]string
		detail string
	}
	cands := map[string][]candidate{}
	var candOrder []string
	handle := func(out CaseOutcome) {
		sum.Executions++
		sc := out.Sc
		if out.TimedOut {
			sum.Inconclusive++
			run.Notes = append(run.Notes, fmt.Sprintf("case %s exceeded the per-case wall-clock guard; counted inconclusive", sc.String()))
			return
		}
		if out.Died {
			sum.Died++
			if o.DeathProp != "" && out.PanicLine != "" {
				run.Report(map[string]string{"kind": "node-goroutine-panic", "site": out.PanicSite}, sc,
					fmt.Sprintf("a node goroutine panicked: %s (site %s) in scenario %s", out.PanicLine, out.PanicSite, sc.String()))
			} else {
				sum.Inconclusive++
				tail := out.Stderr
				if len(tail) > 400 {
					tail = tail[len(tail)-400:]
				}
				run.Notes = append(run.Notes, fmt.Sprintf("worker died on %s: %s | %s", sc.String(), out.PanicLine, tail))
			}
			return
		}
		res := out.Res
		if sum.ByFamily == nil {
			sum.ByFamily = map[string]int{}
		}
		sum.ByFamily[sc.Extra]++
		sum.Steps += res.Steps
		for _, h := range res.StateHashes {
			sum.States[h] = struct{}{}
		}
		sum.Outcomes.Add(res.Outcome)
		if res.Done {
			sum.Done++
		}
		if res.MaxRound > sum.MaxRound {
			sum.MaxRound = res.MaxRound
		}
		if res.MaxRound > 0 {
			sum.MultiRound++
		}
		sum.Crashes += res.Crashes
		all := len(sc.Rules) > 0
		for _, f := range res.RulesFired {
			if f == 0 {
				all = false
			}
		}
		if all {
			sum.RuleActive++
		}
		if sc.ID%97 == 0 {
			sum.Samples.Add(map[string]interface{}{"scenario": sc.String(), "outcome": res.Outcome, "steps": res.Steps})
		}
		for _, v := range res.Viols {
			if o.Focus[v.Prop] {
				sig := map[string]string{}
				for k, x := range v.Sig {
					sig[k] = x
				}
				detail := v.Detail + " | scenario: " + sc.String()
				if run.IsKnown(sig) {
					run.Report(sig, sc, detail)
					continue
				}
				// a new violation class is reported only after the scenario reproduced it (see confirm below)
				key := v.Prop + "|" + sigString(sig)
				if _, ok := cands[key]; !ok {
					candOrder = append(candOrder, key)
				}
				cands[key] = append(cands[key], candidate{sc, v.Prop, sig, detail})
			} else {
				sum.OtherViols[v.Prop]++
			}
		}
		if o.OnResult != nil {
			o.OnResult(sc, res)
		}
	}
	// run in chunks so that the budget can stop the campaign between chunks
	chunk := 128
	for len(todo) > 0 {
		if o.Budget > 0 && time.Since(start) > o.Budget {
			sum.Deadline = true
			sum.Skipped = len(todo)
			break
		}
		k := chunk
		if k > len(todo) {
			k = len(todo)
		}
		if err := RunPool(todo[:k], PoolOpts{Workers: 16, WorkBase: base}, handle); err != nil {
			core.Fatal("worker pool: %v", err)
		}
		todo = todo[k:]
	}
	// confirmation: executions are deterministic (the harness owns every choice), so a violation must
	// show again when its scenario is run again; a class is reported once one of its scenarios (at most
	// three are tried) reproduces it twice more, otherwise it is recorded as not reproducible
	for _, key := range candOrder {
		list := cands[key]
		confirmed := false
		for i := 0; i < len(list) && i < 3 && !confirmed; i++ {
			c := list[i]
			var again []*Scenario
			for k := 0; k < 2; k++ {
				cp := *c.sc
				cp.ID = k
				again = append(again, &cp)
			}
			hits := 0
			RunPool(again, PoolOpts{Workers: 2, WorkBase: base + "-confirm"}, func(out CaseOutcome) {
				sum.ConfirmRuns++
				if out.Res == nil {
					return
				}
				for _, v := range out.Res.Viols {
					if v.Prop == c.prop && sigString(v.Sig) == sigString(c.sig) {
						hits++
						return
					}
				}
			})
			confirmed = hits == 2
		}
		if confirmed {
			for _, c := range list {
				run.Report(c.sig, c.sc, c.detail)
			}
		} else {
			sum.NotReproduced++
			run.Notes = append(run.Notes, fmt.Sprintf("violation candidate %s (%d scenarios, first: %s) did not show again when its scenario was re-run twice - not reported; executions are meant to be deterministic, so this points at the harness", key, len(list), list[0].sc.String()))
		}
	}
	os.RemoveAll(base)
	os.RemoveAll(base + "-confirm")
	return sum
}

func sigString(sig map[string]string) string {
	ks := make([]string, 0, len(sig))
	for k := range sig {
		ks = append(ks, k)
	}
	sort.Strings(ks)
	var b strings.Builder
	for _, k := range ks {
		b.WriteString(k + "=" + sig[k] + ";")
	}
	return b.String()
}

// Coverage renders the summary as evidence coverage.
func (s *Summary) Coverage(rule string, bounds map[string]interface{}) core.Coverage {
	other := []string{}
	for k, v := range s.OtherViols {
		other = append(other, fmt.Sprintf("%s:%d", k, v))
	}
	sort.Strings(other)
	return core.Coverage{
		"states":                              len(s.States),
		"transitions":                         s.Steps,
		"traces_validated_against_impl":       s.Executions - s.Inconclusive,
		"evaluations":                         s.Executions,
		"distinct_nontrivial":                 s.Outcomes.Len(),
		"rule":                                rule,
		"executions_by_family":                s.ByFamily,
		"executions_reaching_target":          s.Done,
		"executions_with_round_changes":       s.MultiRound,
		"executions_all_rules_active":         s.RuleActive,
		"max_round_seen":                      s.MaxRound,
		"node_crashes_injected":               s.Crashes,
		"inconclusive_cases":                  s.Inconclusive,
		"worker_deaths":                       s.Died,
		"violations_of_other_properties_seen": other,
		"exhaustive":                          !s.Deadline && s.Inconclusive == 0,
		"skipped_by_budget":                   s.Skipped,
		"violation_candidates_not_reproduced": s.NotReproduced,
		"confirmation_runs":                   s.ConfirmRuns,
		"bounds":                              bounds,
		"samples":                             s.Samples.List(),
	}
}
