// Package core is the plumbing shared by every property check: tier/seed
// handling, violation artefacts, the known-findings file, evidence files and
// a few helpers (panic capture, parallel map, canonical hashing).
package core

import (
	"bufio"
	"crypto/sha256"
	"encoding/hex"
	"encoding/json"
	"fmt"
	"io/ioutil"
	"os"
	"path/filepath"
	"runtime"
	"runtime/debug"
	"sort"
	"strconv"
	"strings"
	"sync"
	"time"
)

// Root is the verification directory.
var Root = func() string {
	if v := os.Getenv("VERIF_ROOT"); v != "" {
		return v
	}
	return "/verif"
}()

// Finding is one line of known_findings.txt.
type Finding struct {
	Kind     string            // "known" or "fixed"
	Property string
	Match    map[string]string // all pairs must equal the violation's signature
	What     string
	hits     int
}

// Violation is one counterexample.
type Violation struct {
	Sig    map[string]string `json:"sig"`    // identifies the failing input class (site, op, shape)
	Case   interface{}       `json:"case"`   // enough to re-run exactly this case
	Detail string            `json:"detail"` // human readable
	Replay string            `json:"-"`
}

// Run is the state of one check invocation.
type Run struct {
	ID     string
	Tier   string
	Seed   int64
	Level  string
	Engine string

	start      time.Time
	mu         sync.Mutex
	known      []*Finding
	violations []*Violation
	seenSig    map[string]bool
	knownHits  map[string]int
	ReplayPath string // non-empty: replay mode
	maxReport  int
	Notes      []string
}

// Start parses the command line: <tier> | replay <path>.
func Start(id, level, engine string) *Run {
	r := &Run{ID: id, Level: level, Engine: engine, start: time.Now(), seenSig: map[string]bool{}, knownHits: map[string]int{}, maxReport: 20}
	r.Tier = os.Getenv("VERIF_TIER")
	args := os.Args[1:]
	if len(args) >= 2 && args[0] == "replay" {
		r.ReplayPath = args[1]
		if r.Tier == "" {
			r.Tier = "quick"
		}
	} else if len(args) >= 1 {
		r.Tier = args[0]
	}
	if r.Tier != "thorough" {
		r.Tier = "quick"
	}
	if v := os.Getenv("VERIF_SEED"); v != "" {
		r.Seed, _ = strconv.ParseInt(v, 10, 64)
	}
	r.loadKnown()
	return r
}

// Quick reports whether this is the quick tier.
func (r *Run) Quick() bool { return r.Tier != "thorough" }

// Pick returns q in the quick tier and t in the thorough tier.
func (r *Run) Pick(q, t int) int {
	if r.Quick() {
		return q
	}
	return t
}

// WorkDir returns (and creates) a scratch directory for this check.
func (r *Run) WorkDir() string {
	d := filepath.Join(Root, ".work", strings.ToLower(r.ID), "run")
	os.MkdirAll(d, 0755)
	return d
}

func (r *Run) loadKnown() {
	f, err := os.Open(filepath.Join(Root, "known_findings.txt"))
	if err != nil {
		return
	}
	defer f.Close()
	sc := bufio.NewScanner(f)
	sc.Buffer(make([]byte, 1<<20), 1<<20)
	for sc.Scan() {
		line := strings.TrimSpace(sc.Text())
		if line == "" || strings.HasPrefix(line, "#") {
			continue
		}
		// known: property=<id> match=<k=v;k=v> <what>
		// fixed: property=<id> <commit> <what>
		var kind string
		switch {
		case strings.HasPrefix(line, "known:"):
			kind = "known"
		case strings.HasPrefix(line, "fixed:"):
			kind = "fixed"
		default:
			continue
		}
		rest := strings.Fields(line[6:])
		if len(rest) < 2 || !strings.HasPrefix(rest[0], "property=") {
			continue
		}
		fd := &Finding{Kind: kind, Property: strings.TrimPrefix(rest[0], "property="), Match: map[string]string{}}
		i := 1
		if kind == "known" && strings.HasPrefix(rest[1], "match=") {
			for _, kv := range strings.Split(strings.TrimPrefix(rest[1], "match="), ";") {
				p := strings.SplitN(kv, "=", 2)
				if len(p) == 2 {
					fd.Match[p[0]] = p[1]
				}
			}
			i = 2
		}
		fd.What = strings.Join(rest[i:], " ")
		if fd.Property == r.ID && kind == "known" && len(fd.Match) > 0 {
			r.known = append(r.known, fd)
		}
	}
}

func sigKey(sig map[string]string) string {
	ks := make([]string, 0, len(sig))
	for k := range sig {
		ks = append(ks, k)
	}
	sort.Strings(ks)
	var b strings.Builder
	for _, k := range ks {
		fmt.Fprintf(&b, "%s=%s;", k, sig[k])
	}
	return b.String()
}

// Report records a counterexample.  sig names the failing input class; a
// violation whose sig matches a "known:" line of known_findings.txt is counted
// as a known finding instead.  Returns true when it was a new violation.
func (r *Run) Report(sig map[string]string, kase interface{}, detail string) bool {
	r.mu.Lock()
	defer r.mu.Unlock()
	for _, k := range r.known {
		ok := true
		for mk, mv := range k.Match {
			if sig[mk] != mv {
				ok = false
				break
			}
		}
		if ok {
			k.hits++
			return false
		}
	}
	key := sigKey(sig)
	if r.seenSig[key] || len(r.violations) >= r.maxReport {
		r.seenSig[key] = true
		return true
	}
	r.seenSig[key] = true
	v := &Violation{Sig: sig, Case: kase, Detail: detail}
	r.violations = append(r.violations, v)
	return true
}

// IsKnown reports whether sig matches a "known:" line (without counting a hit).
func (r *Run) IsKnown(sig map[string]string) bool {
	r.mu.Lock()
	defer r.mu.Unlock()
	for _, k := range r.known {
		ok := true
		for mk, mv := range k.Match {
			if sig[mk] != mv {
				ok = false
				break
			}
		}
		if ok {
			return true
		}
	}
	return false
}

// Violations returns the number of distinct new violations so far.
func (r *Run) Violations() int {
	r.mu.Lock()
	defer r.mu.Unlock()
	return len(r.violations)
}

// ReplayCase loads the case of a replay artefact into v.
func (r *Run) ReplayCase(v interface{}) error {
	b, err := ioutil.ReadFile(r.ReplayPath)
	if err != nil {
		return err
	}
	var art struct {
		Case json.RawMessage `json:"case"`
	}
	if err := json.Unmarshal(b, &art); err != nil {
		return err
	}
	return json.Unmarshal(art.Case, v)
}

// Coverage is the free-form coverage object of the evidence file.
type Coverage map[string]interface{}

// Finish writes the evidence file, prints KNOWN-FINDING / VIOLATION lines and
// exits with 0 (held) or 1 (new violation).
func (r *Run) Finish(cov Coverage, assumptions []string) {
	wall := time.Since(r.start).Seconds()
	r.mu.Lock()
	defer r.mu.Unlock()
	for _, k := range r.known {
		if k.hits > 0 {
			fmt.Printf("KNOWN-FINDING: property=%s %s (matched %d cases)\n", r.ID, k.What, k.hits)
		}
	}
	if r.ReplayPath != "" {
		if len(r.violations) > 0 {
			for _, v := range r.violations {
				fmt.Printf("REPLAY-VIOLATION property=%s %s :: %s\n", r.ID, sigKey(v.Sig), v.Detail)
			}
			os.Exit(1)
		}
		fmt.Printf("REPLAY-OK property=%s\n", r.ID)
		os.Exit(0)
	}
	dir := filepath.Join(Root, "replays", r.ID)
	for _, v := range r.violations {
		os.MkdirAll(dir, 0755)
		art := map[string]interface{}{"property": r.ID, "engine": r.Engine, "sig": v.Sig, "case": v.Case, "detail": v.Detail}
		b, _ := json.MarshalIndent(art, "", " ")
		h := sha256.Sum256([]byte(sigKey(v.Sig)))
		p := filepath.Join(dir, hex.EncodeToString(h[:6])+".json")
		ioutil.WriteFile(p, b, 0644)
		v.Replay = p
		d := v.Detail
		if len(d) > 600 {
			d = d[:600] + "…"
		}
		fmt.Printf("VIOLATION property=%s replay=%s\n   sig: %s\n   %s\n", r.ID, p, sigKey(v.Sig), d)
	}
	if cov == nil {
		cov = Coverage{}
	}
	kn := []string{}
	for _, k := range r.known {
		if k.hits > 0 {
			kn = append(kn, fmt.Sprintf("%s (%d cases)", k.What, k.hits))
		}
	}
	cov["known_findings_matched"] = kn
	if len(r.Notes) > 0 {
		cov["notes"] = r.Notes
	}
	ev := map[string]interface{}{
		"property_id": r.ID,
		"tier":        r.Tier,
		"seed":        r.Seed,
		"level":       r.Level,
		"coverage":    cov,
		"assumptions": assumptions,
		"wall_s":      float64(int(wall*1000)) / 1000,
		"violations":  len(r.violations),
	}
	os.MkdirAll(filepath.Join(Root, "evidence"), 0755)
	b, _ := json.MarshalIndent(ev, "", " ")
	if err := ioutil.WriteFile(filepath.Join(Root, "evidence", r.ID+".json"), append(b, '\n'), 0644); err != nil {
		fmt.Fprintln(os.Stderr, "cannot write evidence:", err)
		os.Exit(2)
	}
	fmt.Printf("%s %s: %d new violations, %d known-finding classes matched, %.1fs\n", r.ID, r.Tier, len(r.violations), len(kn), wall)
	if len(r.violations) > 0 {
		os.Exit(1)
	}
	os.Exit(0)
}

// Fatal reports an internal error of the machinery (never a verdict).
func Fatal(format string, a ...interface{}) {
	fmt.Fprintf(os.Stderr, "INTERNAL-ERROR: "+format+"\n", a...)
	os.Exit(2)
}

// Try runs f and captures a panic.
func Try(f func()) (panicked bool, val interface{}, stack string) {
	defer func() {
		if e := recover(); e != nil {
			panicked, val, stack = true, e, string(debug.Stack())
		}
	}()
	f()
	return
}

// FirstLine trims a panic value to its first line.
func FirstLine(v interface{}) string {
	s := fmt.Sprintf("%v", v)
	if i := strings.IndexByte(s, '\n'); i >= 0 {
		s = s[:i]
	}
	if len(s) > 300 {
		s = s[:300]
	}
	return s
}

// PanicSite extracts the innermost repository frame of a panic stack.
func PanicSite(stack string) string {
	lines := strings.Split(stack, "\n")
	for i, l := range lines {
		if strings.Contains(l, "github.com/dappledger/AnnChain/") && !strings.HasPrefix(l, "\t") {
			fn := l
			if j := strings.LastIndex(fn, "("); j > 0 {
				fn = fn[:j]
			}
			fn = strings.TrimPrefix(fn, "github.com/dappledger/AnnChain/")
			_ = i
			return fn
		}
	}
	return "unknown"
}

// Par runs f(i) for i in [0,n) on all cores.
func Par(n int, f func(i int)) {
	w := runtime.GOMAXPROCS(0)
	if w > n {
		w = n
	}
	if w < 1 {
		w = 1
	}
	var wg sync.WaitGroup
	var mu sync.Mutex
	next := 0
	for k := 0; k < w; k++ {
		wg.Add(1)
		go func() {
			defer wg.Done()
			for {
				mu.Lock()
				i := next
				next++
				mu.Unlock()
				if i >= n {
					return
				}
				f(i)
			}
		}()
	}
	wg.Wait()
}

// Hash returns a short hex digest of the given parts.
func Hash(parts ...interface{}) string {
	h := sha256.New()
	for _, p := range parts {
		fmt.Fprintf(h, "%v|", p)
	}
	return hex.EncodeToString(h.Sum(nil)[:10])
}

// Sampler keeps up to n samples, chosen deterministically from the seed.
type Sampler struct {
	mu   sync.Mutex
	n    int
	seen int
	seed int64
	out  []interface{}
}

// NewSampler makes a sampler.
func NewSampler(n int, seed int64) *Sampler { return &Sampler{n: n, seed: seed} }

// Add offers one case.
func (s *Sampler) Add(v interface{}) {
	s.mu.Lock()
	defer s.mu.Unlock()
	s.seen++
	if len(s.out) < s.n {
		s.out = append(s.out, v)
		return
	}
	// deterministic reservoir keyed by seed
	x := uint64(s.seen)*6364136223846793005 + uint64(s.seed)*1442695040888963407 + 1
	x ^= x >> 29
	if j := int(x % uint64(s.seen)); j < s.n {
		s.out[j] = v
	}
}

// List returns the samples.
func (s *Sampler) List() []interface{} {
	s.mu.Lock()
	defer s.mu.Unlock()
	if len(s.out) == 0 {
		return []interface{}{"(none)"}
	}
	return s.out
}

// Counter is a concurrent set/counter of strings.
type Counter struct {
	mu sync.Mutex
	m  map[string]int
}

// NewCounter makes a counter.
func NewCounter() *Counter { return &Counter{m: map[string]int{}} }

// Add counts one occurrence and reports whether it was new.
func (c *Counter) Add(k string) bool {
	c.mu.Lock()
	defer c.mu.Unlock()
	c.m[k]++
	return c.m[k] == 1
}

// Len returns the number of distinct keys.
func (c *Counter) Len() int {
	c.mu.Lock()
	defer c.mu.Unlock()
	return len(c.m)
}

// Map returns a copy.
func (c *Counter) Map() map[string]int {
	c.mu.Lock()
	defer c.mu.Unlock()
	o := map[string]int{}
	for k, v := range c.m {
		o[k] = v
	}
	return o
}
