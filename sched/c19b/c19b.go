// Package c19b is the SCHED part of property C19 for the real
// gemmill/mempool.Mempool ("for ... every interleaving of concurrent
// submitters with the commit path"): every interleaving, up to a preemption
// bound, of 2-3 controlled threads that call ReceiveTx / Update / Reap / Size
// (/ Flush) on one pool.  gemmill/mempool and gemmill/modules/go-clist are
// transformed at check time by cmd/overlaygen, so every mutex, WaitGroup and
// atomic operation of the pool, of its dedup cache and of the concurrent list
// is a scheduling point.  Every complete execution's call history is checked
// for linearizability against a sequential reference pool (body/oracle.go).
// Plus a free-running -race pass of the same bodies (racecmd).
//
// Library: Run is called by the stand-alone main props/c19sched, which the C19
// check runs as a subprocess (it needs the overlay build; see
// props/c19/prebuild.sh).
package c19b

import (
	"bytes"
	"encoding/json"
	"fmt"
	"os"
	"os/exec"
	"path/filepath"
	"regexp"
	"runtime"
	"sort"
	"strings"
	"time"

	"verif/core"
	"verif/sched"
	"verif/sched/c19b/body"

	"github.com/dappledger/AnnChain/vshim/vsched"
	"github.com/dappledger/AnnChain/vshim/vsync"
)

// Program is the registered name of the harness.
const Program = "c19b"

type inst struct {
	sc  body.Scenario
	log body.Log
}

// spawn starts the scenario's threads as controlled threads and joins them
// with a virtual WaitGroup (harness-side synchronisation must be hooked too).
func spawn(fs []func()) {
	var wg vsync.WaitGroup
	wg.Add(len(fs))
	for _, f := range fs {
		f := f
		vsched.Go(func() {
			defer wg.Done()
			f()
		})
	}
	wg.Wait()
}

func (i *inst) Body() { body.Run(i.sc, spawn, &i.log) }

func (i *inst) Check(x *vsched.Exec) sched.Verdict {
	obs := i.log.String()
	v := sched.Verdict{Obs: x.Kind + ": " + obs}
	switch x.Kind {
	case vsched.KindDone:
		if !i.log.Done {
			v.Sig = map[string]string{"pool": body.Pool, "site": "harness", "kind": "incomplete-history"}
			v.Detail = "the execution ended without the final observation: " + obs
			break
		}
		j := body.Judge(i.sc, &i.log)
		if j.Kind != "" {
			v.Sig = map[string]string{"pool": body.Pool, "site": j.Site, "kind": j.Kind, "shape": j.Shape}
			v.Detail = j.Detail
		} else if j.Mode == "two-step" {
			// accepted only with claim/publish submissions (body/oracle.go): counted separately in the evidence
			v.Obs = "done(two-step): " + obs
		}
	case vsched.KindPanic:
		v.Sig = map[string]string{"pool": body.Pool, "site": sched.PanicSite(x.PanicStack), "kind": "panic", "shape": i.sc.Shape()}
		v.Detail = "panic: " + core.FirstLine(x.PanicVal) + " after " + obs
	default: // deadlock, livelock, horizon
		v.Sig = map[string]string{"pool": body.Pool, "site": "Mempool", "kind": x.Kind, "shape": i.sc.Shape()}
		v.Detail = fmt.Sprintf("%s after [%s]; threads: %s", x.Kind, obs, strings.Join(x.Blocked, "; "))
	}
	return v
}

func init() {
	sched.Register(Program, func(c json.RawMessage) (sched.Instance, error) {
		var sc body.Scenario
		if err := json.Unmarshal(c, &sc); err != nil {
			return nil, err
		}
		if len(sc.Threads) < 1 {
			return nil, fmt.Errorf("bad scenario %s", c)
		}
		return &inst{sc: sc}, nil
	})
	if os.Getenv("VERIF_SCHED_WORKER") != "" {
		// Every execution builds a fresh Mempool, whose dedup cache is a map
		// made for 100000 entries (2.4 MB).  With a live heap of a few hundred
		// kB the runtime collects after every execution, returns the span to
		// the OS (madvise) and faults it in again: 75 % of the CPU time of an
		// execution.  A never-touched allocation raises the heap goal, so the
		// freed spans are reused warm.  No effect on what is explored.
		ballast = make([]byte, 32<<20)
	}
	sched.WorkerEntry()
}

var ballast []byte

// Case is the replay artefact of a violating schedule.
type Case struct {
	Engine   string        `json:"engine"` // "SCHED"
	Program  string        `json:"program"`
	Scenario body.Scenario `json:"scenario"`
	Bound    int           `json:"preemptions"`
	Choices  []int32       `json:"choices"` // index into the ordered candidate list at every scheduling decision; defaults (0) afterwards
	Threads  []int32       `json:"thread_chosen"`
}

const horizon = 4000

// Replay re-executes the schedule of a replay artefact (returns false if the
// artefact is not a SCHED case of this program).
func Replay(run *core.Run) bool {
	var k Case
	if err := run.ReplayCase(&k); err != nil || k.Engine != "SCHED" || k.Program != Program {
		return false
	}
	kind, v, trace := sched.Replay(Program, k.Scenario, k.Choices, horizon)
	fmt.Printf("replayed %d choices on thread set %s: %s\n", len(k.Choices), k.Scenario, kind)
	if os.Getenv("C19B_TRACE") != "" {
		fmt.Println(strings.Join(trace, "\n"))
	}
	fmt.Println("  observation:", v.Obs)
	if v.Sig != nil {
		run.Report(v.Sig, k, v.Detail)
	}
	return true
}

// Assumptions of the SCHED part.
func Assumptions() []string {
	return []string{
		"SCHED (gemmill mempool): interleavings are explored at the hooked operations (sync.Mutex, sync.WaitGroup, sync/atomic — atomics are followed by a second point) of gemmill/mempool (whole package) and gemmill/modules/go-clist; code between two points runs atomically; Go memory-model effects other than interleaving are not modelled (the -race pass is the only guard and contributes candidates only)",
		"SCHED: bounded — 2..3 (thorough 4) threads of 1..2 operations over 3..4 opaque transactions, block_size 1 (bound 2 with mempool_enable_txs_limits), preemption bound as reported; no tx filter registered, no WAL; commits are Update(height, txs) as gemmill/state/execution.go calls it, for transactions the pool held and had offered",
		"SCHED: the blocking traversal of the list by the gossip routine (clist FrontWait/NextWait: WaitGroup waits inside a channel select loop) is not driven: channel operations are not scheduling points in this version; ethTxPool (chain/app/evm) is not covered by part (b)",
		"SCHED oracle: linearizability against a sequential reference (pending list in acceptance order + set of committed txs + bound): a submission that overlaps a commit may take effect before or after it; a resubmitted committed tx may be refused or silently ignored; error texts are not compared; the property does not say when, during an accepted ReceiveTx call, the tx becomes visible to Reap/Size, so an accepted submission may take effect in two steps inside its call interval (claim: counts for duplicates and the bound; publish: offered and counted) — after the call has returned both have happened",
	}
}

// Run explores and returns the coverage of the SCHED part of C19.  Violating
// schedules are reported on run.
func Run(run *core.Run) core.Coverage {
	self := sched.SelfTest()

	scs := body.Scenarios(run.Quick())
	if v := os.Getenv("C19B_ONLY"); v != "" { // development aid
		var keep []body.Scenario
		for _, s := range scs {
			if strings.Contains(","+v+",", ","+s.Name+",") {
				keep = append(keep, s)
			}
		}
		scs = keep
	}
	// Pure preemption bounding (unlimited free switches): with 2-3 threads the
	// hand-overs at blocking/finishing points are few.
	rungs := []sched.Rung{{Bound: 0, MaxFree: -1}, {Bound: 1, MaxFree: -1}, {Bound: 2, MaxFree: -1}, {Bound: 3, MaxFree: 0}, {Bound: 3, MaxFree: -1}}
	target := 3 // rungs that must complete for exhaustive=true
	budget := 45 * time.Second
	if !run.Quick() {
		// the thorough tier of C19 shares 15 minutes with part (a), whose own budget is 13
		rungs = append(rungs, sched.Rung{Bound: 4, MaxFree: 0})
		budget = 90 * time.Second
	}
	if v := os.Getenv("C19B_RUNGS"); v != "" { // development aid: "1:0,0:-1"
		rungs = nil
		for _, f := range strings.Split(v, ",") {
			var r sched.Rung
			fmt.Sscanf(f, "%d:%d", &r.Bound, &r.MaxFree)
			rungs = append(rungs, r)
		}
		target = len(rungs)
	}
	if v := os.Getenv("C19B_BUDGET_S"); v != "" {
		var sec int
		fmt.Sscan(v, &sec)
		budget = time.Duration(sec) * time.Second
	}
	var tasks []sched.Task
	for _, s := range scs {
		tasks = append(tasks, sched.Task{Label: s.Name, Program: Program, Config: s, Horizon: horizon, Rungs: s.Rungs})
	}

	nw := runtime.GOMAXPROCS(0)
	if nw > 16 {
		nw = 16
	}
	pool := sched.NewPool(Program, nw)
	rep := sched.Explore(pool, tasks, sched.Limits{Rungs: rungs, Deadline: time.Now().Add(budget)})
	pool.Close()

	type hit struct {
		f  sched.Found
		sc body.Scenario
	}
	var hits []hit
	kinds := map[string]int64{}
	var transitions, classes, valhists int64
	distinctObs := 0
	perSet := []interface{}{}
	samples := core.NewSampler(6, run.Seed)
	for _, tr := range rep.Tasks {
		sc := tr.Task.Config.(body.Scenario)
		maxClasses, maxVals := 0, 0
		obsSet := map[string]bool{}
		var last *sched.Pass
		var execs int64
		for _, p := range tr.Passes {
			for _, f := range p.Found {
				hits = append(hits, hit{f, sc})
			}
			transitions += p.Executions
			execs += p.Executions
			if p.Classes > maxClasses {
				maxClasses = p.Classes
			}
			if p.ValHists > maxVals {
				maxVals = p.ValHists
			}
			for o, n := range p.Outcomes {
				obsSet[o[strings.Index(o, ":"):]] = true
				kinds[o[:strings.Index(o, ":")]] += n
			}
			if p.Complete {
				last = p
			}
		}
		classes += int64(maxClasses)
		valhists += int64(maxVals)
		distinctObs += len(obsSet)
		row := map[string]interface{}{"thread_set": sc.Name, "operations": sc.String(), "executions_all_spaces": execs, "distinct_outcomes": len(obsSet)}
		if sc.Rungs > 0 {
			row["explored_only_the_first_spaces"] = sc.Rungs
		}
		if last != nil {
			row["largest_space_completed"] = last.Rung.String()
			row["executions_in_it"] = last.Executions
			row["scheduling_points_max"] = last.PointsMax
			row["threads"] = last.Threads
			row["distinct_sync_orders"] = last.Classes
			row["distinct_read_value_histories"] = last.ValHists
			row["outcomes"] = last.OutcomeSet()
			samples.Add(map[string]interface{}{"thread_set": sc.Name, "operations": sc.String(), "space": last.Rung.String(), "schedules": last.Executions, "default_schedule_observation": last.RootObs})
		}
		var viol []string
		seen := map[string]bool{}
		for _, p := range tr.Passes {
			for _, f := range p.Found {
				k := f.Sig["kind"] + "/" + f.Sig["shape"]
				if !seen[k] {
					seen[k] = true
					viol = append(viol, fmt.Sprintf("%s (first at %d preemption(s))", k, f.Preemptions))
				}
			}
		}
		if len(viol) > 0 {
			row["violating_classes"] = viol
		}
		perSet = append(perSet, row)
	}
	sort.SliceStable(hits, func(i, j int) bool {
		if hits[i].f.Preemptions != hits[j].f.Preemptions {
			return hits[i].f.Preemptions < hits[j].f.Preemptions
		}
		return len(hits[i].f.Choices) < len(hits[j].f.Choices)
	})
	foundKinds := map[string]int{}
	for _, h := range hits {
		foundKinds[h.f.Sig["kind"]+"/"+h.f.Sig["shape"]]++
		k := Case{Engine: "SCHED", Program: Program, Scenario: h.sc, Bound: h.f.Preemptions, Choices: h.f.Choices, Threads: h.f.Tids}
		detail := fmt.Sprintf("[%s] thread set %s: %s, schedule with %d preemption(s) (%d scheduling decisions replayed, then defaults): %s", body.Pool, h.sc.Name, h.sc, h.f.Preemptions, len(h.f.Choices), h.f.Detail)
		run.Report(h.f.Sig, k, detail)
	}

	cov := core.Coverage{}
	for k, v := range rep.Summary() {
		cov[k] = v
	}
	cov["engine_self_tests"] = self
	cov["states"] = classes
	cov["transitions"] = transitions
	cov["traces_validated_against_impl"] = transitions
	cov["evaluations"] = transitions
	cov["distinct_nontrivial"] = distinctObs
	cov["distinct_read_value_histories"] = valhists
	cov["per_thread_set"] = perSet
	cov["execution_kinds"] = kinds
	cov["execution_kinds_note"] = "done = history linearizable with atomic submissions; done(two-step) = accepted only with every accepted submission split into claim (visible to duplicates and to the bound) and publish (visible to Reap/Size) inside its call interval — see assumptions; anything else is reported as a violation"
	cov["violating_schedule_classes"] = foundKinds
	cov["tasks"] = len(tasks)
	cov["worker_processes"] = nw
	cov["determinism_self_check"] = determinismCheck(scs)
	exhaustive := rep.RungsCompleted >= target
	cov["exhaustive"] = exhaustive
	var ladder []string
	for _, r := range rungs {
		ladder = append(ladder, r.String())
	}
	cov["bounds"] = map[string]interface{}{"threads": "2..3 quick, ..4 thorough", "operations_per_thread": "1..2", "block_size": body.BlockSize, "size_bound_with_limits": 2 * body.BlockSize,
		"schedule_spaces_in_order": ladder, "spaces_required_for_exhaustive": target, "step_horizon": horizon}
	cov["rule"] = "per thread set (see per_thread_set.operations: sequential prefix ; [thread | thread | …] ; sequential suffix ; final Reap(-1), Size()) and per schedule space (preemptions<=b, free-switch deviations<=f; bounds.schedule_spaces_in_order, exhausted in that order): stateless DFS over the scheduling decisions of the real Mempool.ReceiveTx/Update/Reap/Size/Flush (pool, dedup cache and go-clist transformed: every mutex, WaitGroup and atomic operation is a scheduling point, atomics also afterwards) — every alternative thread at every scheduling point whose schedule stays inside the space; transitions = schedules executed (each one on the real code, each one judged by the linearizability oracle); states = distinct per-object operation orders; distinct_nontrivial = distinct outcomes (per-thread result sequences + final pool content) summed over thread sets — per_thread_set.distinct_outcomes = 1 would mean that nothing collided in that set"
	if !rep.Exhaustive {
		pure, restr := rep.MaxPreemptionBound()
		cov["cap"] = fmt.Sprintf("time budget %v reached after %d of %d schedule spaces (the first %d are required for exhaustive=true): largest preemption bound completed = %d (with unlimited free switches: %d)", budget, rep.RungsCompleted, len(rungs), target, restr, pure)
	}
	cov["samples"] = samples.List()
	racePass(run, cov, foundKinds)
	return cov
}

// determinismCheck replays one recorded non-default schedule of the first
// thread set twice in this process and compares observation and kind (the
// explorer additionally proves determinism for every (thread set, space): see
// determinism_proof_replays).
func determinismCheck(scs []body.Scenario) map[string]interface{} {
	if len(scs) == 0 {
		return nil
	}
	sc := scs[0]
	cfg, _ := json.Marshal(sc)
	x, v0, err := sched.RunOnce(Program, cfg, nil, nil, nil, horizon, false)
	if err != nil {
		core.Fatal("determinism self-check: %v", err)
	}
	// deviate at the last decision point that had an alternative
	choices := make([]int32, len(x.Points))
	at := -1
	for i, p := range x.Points {
		if p.N > 1 && p.CurEnabled {
			at = i
		}
	}
	if at >= 0 {
		choices = choices[:at+1]
		choices[at] = 1
	}
	var digests []string
	var obs []string
	for rep := 0; rep < 2; rep++ {
		y, v, err := sched.RunOnce(Program, cfg, choices, nil, nil, horizon, false)
		if err != nil || y.Kind == vsched.KindDiverged {
			core.Fatal("determinism self-check: replay failed (%v)", err)
		}
		digests = append(digests, fmt.Sprintf("%016x/%016x/%d", y.Digest, y.Class, len(y.Points)))
		obs = append(obs, v.Obs)
	}
	if digests[0] != digests[1] || obs[0] != obs[1] {
		core.Fatal("determinism self-check failed: the same schedule of %s gave %s / %s and %q / %q", sc.Name, digests[0], digests[1], obs[0], obs[1])
	}
	return map[string]interface{}{"thread_set": sc.Name, "schedule": fmt.Sprintf("default up to decision %d, then the first alternative, then defaults", at), "replays": 2,
		"digest_points": digests[0], "observation": obs[0], "default_schedule_observation": v0.Obs, "identical": true}
}

// ---------------------------------------------------------------- free-running -race pass

var raceFn = regexp.MustCompile(`gemmill/(?:mempool|modules/go-clist)\.([A-Za-z0-9_()*.]+?)\(\)\n\s+\S+?:(\d+)`)

func racePass(run *core.Run, cov core.Coverage, foundKinds map[string]int) {
	bin := os.Getenv("C19B_RACE_BIN")
	if bin == "" {
		if self, err := os.Executable(); err == nil {
			bin = filepath.Join(filepath.Dir(self), "c19race")
		}
	}
	if _, err := os.Stat(bin); err != nil {
		cov["race_pass"] = "skipped: " + bin + " not built (props/c19sched/prebuild.sh builds it with go build -race)"
		return
	}
	reps, secs := "300", "12"
	if !run.Quick() {
		reps, secs = "3000", "60"
	}
	cmd := exec.Command(bin, reps, run.Tier, secs)
	cmd.Env = append(os.Environ(), "GOMAXPROCS=8", "GORACE=halt_on_error=0 exitcode=0")
	var so, se bytes.Buffer
	cmd.Stdout, cmd.Stderr = &so, &se
	start := time.Now()
	err := cmd.Run()
	res := map[string]interface{}{"wall_s": float64(int(time.Since(start).Seconds()*10)) / 10}
	var sum struct {
		Runs       int               `json:"runs"`
		Mismatches map[string]string `json:"mismatches"`
		Outcomes   map[string]int    `json:"distinct_outcomes_per_thread_set"`
		PerConfig  int               `json:"reps_per_thread_set"`
	}
	if err != nil || json.Unmarshal(so.Bytes(), &sum) != nil {
		core.Fatal("race pass: %v\n%s\n%s", err, so.String(), tail(se.String(), 2000))
	}
	reports := strings.Count(se.String(), "WARNING: DATA RACE")
	cands := map[string]int{}
	for _, rp := range strings.Split(se.String(), "WARNING: DATA RACE")[1:] {
		var acc []string
		for _, sec := range strings.SplitN(rp, "Previous ", 2) {
			if m := raceFn.FindStringSubmatch(sec); m != nil {
				acc = append(acc, m[1]+":"+m[2])
			}
		}
		sort.Strings(acc)
		cands[strings.Join(acc, " / ")]++
	}
	res["free_runs"] = sum.Runs
	res["reps_per_thread_set"] = sum.PerConfig
	res["distinct_outcomes_per_thread_set"] = sum.Outcomes
	res["data_race_reports"] = reports
	res["race_candidates"] = cands
	res["free_run_oracle_mismatches"] = sum.Mismatches
	if reports == 0 && len(sum.Mismatches) == 0 {
		res["status"] = "clean"
	} else {
		var conf, open []string
		for k := range sum.Mismatches {
			if foundKinds[k] > 0 {
				conf = append(conf, k+": CONFIRMED — a SCHED schedule of the same class is reported with its replayable schedule")
			} else {
				open = append(open, k)
			}
		}
		sort.Strings(conf)
		sort.Strings(open)
		res["status"] = "race reports and free-run mismatches are violation CANDIDATES only; a candidate counts when a SCHED schedule exhibits the same class"
		res["confirmed_by_sched"] = conf
		res["not_confirmed"] = open
	}
	cov["race_pass"] = res
}

func tail(s string, n int) string {
	if len(s) > n {
		return s[len(s)-n:]
	}
	return s
}
