package body

// The oracle of the SCHED part of C19, written from the property text only.
//
// Reference: a boring sequential pool — the list of pending transactions in
// acceptance order, the set of transactions a committed block contained, and
// the configured bound.  A recorded history (every call with its logical call
// and return time and its result) is ACCEPTED iff some total order of the
// calls that respects real time (a before b whenever a returned before b was
// called) makes the reference produce exactly the recorded results
// (brute force over all such orders: linearizability).  A submission that
// overlaps the commit may therefore land on either side of it; only what no
// order allows is forbidden.
//
// The property says nothing about WHEN, during an accepted ReceiveTx call, the
// transaction becomes visible to Reap/Size — only that duplicates are refused,
// bounds kept and nothing is lost.  So a history that is not linearizable with
// atomic submissions is tried again with every accepted submission split into
// two steps inside its call interval: CLAIM (decides accept/refuse; from then
// on the tx counts for duplicates and for the bound) and PUBLISH (from then on
// Reap offers it and Size counts it).  Once the call has returned both have
// happened.  (Observed on the real pool: a duplicate is refused with "already
// exists" and a Reap that starts afterwards does not offer the first copy yet,
// because its submitter is between cache.Push and list.PushBack: no clause of
// the property forbids that.)  Every clause of the property holds in every
// sequential run of the reference, hence in every accepted history:
//
//	rejects exact duplicates            S:k while k is pending → rej (so of several submissions
//	                                    of the same bytes at most one is accepted, and exactly
//	                                    one if nothing else refuses it)
//	never offers a tx twice             pending holds distinct txs; Reap returns a prefix of it;
//	                                    Size = number of accepted, uncommitted txs
//	never offers a committed tx again   U removes its txs and remembers them; S of a remembered
//	                                    tx never enters pending (it may answer nil or an error)
//	never drops below capacity          S of a new tx below the bound → acc, and it stays
//	stays within its size bound         S at the bound → rej
//
// A rejected history is then CLASSIFIED (the class becomes the signature) by
// direct checks of the clauses on the recorded results.

import (
	"fmt"
	"strings"
)

type refPool struct {
	pending   []int
	claimed   map[int]bool // accepted, not yet visible to Reap/Size (two-step submissions only)
	committed map[int]bool
	limit     int
}

func (p *refPool) clone() *refPool {
	q := &refPool{pending: append([]int(nil), p.pending...), committed: map[int]bool{}, claimed: map[int]bool{}, limit: p.limit}
	for k, v := range p.committed {
		q.committed[k] = v
	}
	for k, v := range p.claimed {
		if v {
			q.claimed[k] = true
		}
	}
	return q
}

func (p *refPool) holds(k int) bool {
	for _, x := range p.pending {
		if x == k {
			return true
		}
	}
	return p.claimed[k]
}

func (p *refPool) held() int {
	n := len(p.pending)
	for _, v := range p.claimed {
		if v {
			n++
		}
	}
	return n
}

// apply performs op on the reference and says whether the recorded result is
// one the reference allows.  ordered=false compares Reap outputs as sets.
func (p *refPool) apply(op, res string, ordered bool) bool {
	kind, args := ParseOp(op)
	switch kind {
	case 'S', 'c': // atomic submission / claim step of a two-step submission
		k := args[0]
		switch {
		case p.holds(k):
			return res == "rej"
		case p.committed[k]:
			return true // refused, or accepted and never offered: both keep the property
		case p.limit > 0 && p.held() >= p.limit:
			return res == "rej"
		}
		if kind == 'c' {
			p.claimed[k] = true
		} else {
			p.pending = append(p.pending, k)
		}
		return res == "acc"
	case 'p': // publish step
		if k := args[0]; p.claimed[k] {
			delete(p.claimed, k)
			p.pending = append(p.pending, k)
		}
		return true
	case 'U':
		for _, k := range args {
			p.committed[k] = true
			delete(p.claimed, k)
			for i, x := range p.pending {
				if x == k {
					p.pending = append(append([]int(nil), p.pending[:i]...), p.pending[i+1:]...)
					break
				}
			}
		}
		return true
	case 'R':
		n := args[0]
		if n < 0 || n > len(p.pending) {
			n = len(p.pending)
		}
		got := strings.Fields(strings.Trim(res, "[]"))
		if len(got) != n {
			return false
		}
		if ordered {
			for i := 0; i < n; i++ {
				if got[i] != fmt.Sprintf("t%d", p.pending[i]) {
					return false
				}
			}
			return true
		}
		// as a set: n distinct pending txs
		seen := map[string]bool{}
		for _, g := range got {
			if seen[g] {
				return false
			}
			seen[g] = true
			ok := false
			for _, x := range p.pending {
				if g == fmt.Sprintf("t%d", x) {
					ok = true
				}
			}
			if !ok {
				return false
			}
		}
		return true
	case 'Z':
		return res == fmt.Sprint(len(p.pending))
	case 'F':
		p.pending = nil
		p.claimed = map[int]bool{}
		return true
	}
	return false
}

// Linearizable decides whether the complete history evs has a linearization:
// a total order of the calls that respects real time and is a run of the
// reference with exactly the recorded results.  twoStep: accepted submissions
// are split into claim and publish (see the top of this file).  ordered=false
// compares Reap outputs as sets.  Also returns the number of steps tried.
func Linearizable(evs []Event, limit int, twoStep, ordered bool) (bool, int) {
	type step struct {
		Event
		needs int // index of the step that must come first (-1 = none)
	}
	var st []step
	for _, e := range evs {
		if twoStep && e.Op[0] == 'S' && e.Res == "acc" {
			c, p := e, e
			c.Op, p.Op = "c"+e.Op[1:], "p"+e.Op[1:]
			st = append(st, step{c, -1}, step{p, len(st)})
			continue
		}
		st = append(st, step{e, -1})
	}
	n := len(st)
	used := make([]bool, n)
	done := 0
	tried := 0
	var rec func(p *refPool) bool
	rec = func(p *refPool) bool {
		if done == n {
			return true
		}
		for i := 0; i < n; i++ {
			if used[i] || (st[i].needs >= 0 && !used[st[i].needs]) {
				continue
			}
			// i may come next only if no other unused call returned before i was called
			minimal := true
			for j := 0; j < n; j++ {
				if j != i && !used[j] && st[j].Ret < st[i].Call {
					minimal = false
					break
				}
			}
			if !minimal {
				continue
			}
			tried++
			q := p.clone()
			if !q.apply(st[i].Op, st[i].Res, ordered) {
				continue
			}
			used[i] = true
			done++
			if rec(q) {
				return true
			}
			done--
			used[i] = false
		}
		return false
	}
	ok := rec(&refPool{committed: map[int]bool{}, claimed: map[int]bool{}, limit: limit})
	return ok, tried
}

func overlap(a, b Event) bool { return !(a.Ret < b.Call || b.Ret < a.Call) }

func offered(res string) []string { return strings.Fields(strings.Trim(res, "[]")) }

// Verdict of the oracle on one complete history.
type Verdict struct {
	Site, Kind, Shape, Detail string
	// Accepted histories: "atomic" (linearizable with atomic submissions) or
	// "two-step" (only with claim/publish submissions).
	Mode string
}

// concurrency names what the accepted submissions among subs overlapped with:
// the class of interleaving that a violation needs (part of the signature, so
// that the same clause broken sequentially is a different class).
func concurrency(evs []Event, subs []Event) string {
	shape := "sequential-calls"
	for i, a := range subs {
		for _, e := range evs {
			if e.Thread == a.Thread || !overlap(a, e) {
				continue
			}
			switch e.Op[0] {
			case 'U':
				return "submission-concurrent-with-commit"
			case 'F':
				return "submission-concurrent-with-flush"
			}
		}
		for _, b := range subs[i+1:] {
			if overlap(a, b) {
				shape = "concurrent-submitters"
			}
		}
	}
	return shape
}

// Judge applies the oracle to a COMPLETE history (every call returned).  Kind
// "" = the history is accepted.
func Judge(sc Scenario, lg *Log) Verdict {
	evs := lg.Events()
	limit := sc.Limit()
	if ok, _ := Linearizable(evs, limit, false, true); ok {
		return Verdict{Mode: "atomic"}
	}
	if ok, _ := Linearizable(evs, limit, true, true); ok {
		return Verdict{Mode: "two-step"}
	}
	hist := make([]string, len(evs))
	for i, e := range evs {
		hist[i] = e.String()
	}
	tail := fmt.Sprintf("; no order of the calls that respects real time is a run of the sequential reference pool; history (logical call..return times): %s", strings.Join(hist, ", "))

	acc := map[int][]Event{}
	var allAcc []Event
	gone := map[int]int{}
	var commits []Event
	for _, e := range evs {
		kind, args := ParseOp(e.Op)
		switch {
		case kind == 'S' && e.Res == "acc":
			acc[args[0]] = append(acc[args[0]], e)
			allAcc = append(allAcc, e)
		case kind == 'U':
			commits = append(commits, e)
			for _, k := range args {
				gone[k]++
			}
		case kind == 'F':
			for k := 0; k < 8; k++ {
				gone[k]++
			}
		}
	}
	// (1) exact duplicates: more accepted submissions of the same bytes than commits/flushes can explain
	for k := 0; k < 8; k++ {
		if a := acc[k]; len(a) > 1+gone[k] {
			return Verdict{Site: "Mempool.ReceiveTx", Kind: "exact-duplicate-accepted", Shape: concurrency(evs, a),
				Detail: fmt.Sprintf("ReceiveTx(t%d) returned nil %d times (the tx left the pool %d times in between)%s", k, len(a), gone[k], tail)}
		}
	}
	// (2) the same tx twice in one offer
	for _, e := range evs {
		if e.Op[0] != 'R' {
			continue
		}
		seen := map[string]bool{}
		for _, g := range offered(e.Res) {
			if seen[g] {
				return Verdict{Site: "Mempool.Reap", Kind: "same-tx-offered-twice", Shape: concurrency(evs, allAcc), Detail: fmt.Sprintf("%s offers %s twice%s", e.Op, g, tail)}
			}
			seen[g] = true
		}
	}
	// (3) a tx of a committed block offered by a Reap that started after Update returned
	for _, u := range commits {
		_, ks := ParseOp(u.Op)
		for _, e := range evs {
			if e.Op[0] != 'R' || !(u.Ret < e.Call) {
				continue
			}
			for _, g := range offered(e.Res) {
				for _, k := range ks {
					if g != fmt.Sprintf("t%d", k) {
						continue
					}
					shape := "not-removed-by-commit"
					for _, s := range acc[k] {
						if overlap(s, u) {
							shape = "submission-concurrent-with-commit"
						} else if u.Ret < s.Call && shape == "not-removed-by-commit" {
							shape = "resubmitted-after-commit"
						}
					}
					return Verdict{Site: "Mempool.Reap", Kind: "committed-tx-offered-again", Shape: "opaque/" + shape,
						Detail: fmt.Sprintf("%s (called after %s had returned) offers %s, which that committed block contained%s", e.Op, u.Op, g, tail)}
				}
			}
		}
	}
	// (4) the configured bound
	if limit > 0 {
		for _, e := range evs {
			over := -1
			switch e.Op[0] {
			case 'Z':
				var z int
				fmt.Sscan(e.Res, &z)
				if z > limit {
					over = z
				}
			case 'R':
				if n := len(offered(e.Res)); n > limit {
					over = n
				}
			}
			if over >= 0 {
				return Verdict{Site: "Mempool.ReceiveTx", Kind: "size-exceeds-bound", Shape: concurrency(evs, allAcc),
					Detail: fmt.Sprintf("%s = %s: the pool holds %d transactions, configured bound block_size*2 = %d (mempool_enable_txs_limits=true)%s", e.Op, e.Res, over, limit, tail)}
			}
		}
	}
	// the quiescent end of the history: everything the main thread did after the threads had returned
	var quiet []Event
	for _, e := range evs {
		if e.Thread != 0 {
			quiet = nil
		} else {
			quiet = append(quiet, e)
		}
	}
	if n := len(quiet); n >= 2 && quiet[n-1].Op == "Z" && quiet[n-2].Op == "R:-1" {
		final := map[string]bool{}
		for _, g := range offered(quiet[n-2].Res) {
			final[g] = true
		}
		// Size() and the offer disagree
		if quiet[n-1].Res != fmt.Sprint(len(offered(quiet[n-2].Res))) {
			return Verdict{Site: "Mempool.Size", Kind: "size-differs-from-offer", Shape: concurrency(evs, allAcc), Detail: fmt.Sprintf("final Reap(-1)=%s but Size()=%s%s", quiet[n-2].Res, quiet[n-1].Res, tail)}
		}
		// an accepted tx that is neither offered in the end nor committed/flushed
		for k := 0; k < 8; k++ {
			if len(acc[k]) > 0 && gone[k] == 0 && !final[fmt.Sprintf("t%d", k)] {
				return Verdict{Site: "Mempool.Reap", Kind: "executable-dropped", Shape: concurrency(evs, acc[k]), Detail: fmt.Sprintf("t%d was accepted, never committed or flushed, and the final Reap(-1) does not offer it%s", k, tail)}
			}
		}
		// a tx refused in the quiescent end although the pool does not hold it, no block contained it and the pool is below its bound
		removals := false
		for _, e := range quiet {
			removals = removals || e.Op[0] == 'U' || e.Op[0] == 'F'
		}
		for _, e := range quiet {
			kind, args := ParseOp(e.Op)
			if kind != 'S' || e.Res != "rej" || removals {
				continue
			}
			k := args[0]
			committed := false
			for _, u := range commits {
				_, ks := ParseOp(u.Op)
				for _, c := range ks {
					committed = committed || c == k
				}
			}
			if !committed && !final[fmt.Sprintf("t%d", k)] && (limit == 0 || len(final) < limit) {
				return Verdict{Site: "Mempool.ReceiveTx", Kind: "executable-refused", Shape: concurrency(evs, acc[k]),
					Detail: fmt.Sprintf("%s was refused after all threads had returned, although the pool does not hold t%d (final Reap(-1)=%s), no committed block contained it and the pool is below its bound%s", e.Op, k, quiet[n-2].Res, tail)}
			}
		}
	}
	// the order clause (opaque txs: acceptance order) alone
	if ok, _ := Linearizable(evs, limit, true, false); ok {
		return Verdict{Site: "Mempool.Reap", Kind: "acceptance-order", Shape: concurrency(evs, allAcc), Detail: "some Reap output is not a prefix of the pending list in acceptance order" + tail}
	}
	return Verdict{Site: "Mempool", Kind: "not-linearizable", Shape: sc.Shape(), Detail: "the results fit no sequential run of the reference pool" + tail}
}
