// Package body holds the harness bodies of the SCHED part of C19 for the real
// gemmill/mempool.Mempool: scenarios (a sequential prefix, 2-3 concurrent
// threads of 1-2 pool operations each, a sequential suffix that always ends
// with Reap(-1) and Size()), the recorder of the call history (logical call /
// return times and results of every operation) and the oracle (oracle.go).
//
// It imports neither the scheduler nor the shim packages: how the concurrent
// threads are started and joined is injected (Spawner), so the same bodies are
// used by the controlled exploration (package c19b, built with the overlay)
// and by the free-running -race pass (racecmd, built without it).
package body

import (
	"fmt"
	"strconv"
	"strings"
	"sync/atomic"

	"github.com/spf13/viper"

	"github.com/dappledger/AnnChain/gemmill/mempool"
	gtypes "github.com/dappledger/AnnChain/gemmill/types"
)

// Pool is the value of sig["pool"] (the same as in part (a) of the check).
const Pool = "gemmill-mempool"

// BlockSize is the configured block_size; the configured bound of the pool
// with mempool_enable_txs_limits is block_size*2.
const BlockSize = 1

// Scenario is one thread set.  Operations are letters:
//
//	S:<k>      ReceiveTx(tx k)
//	U:<k>+<j>  Update(height, [tx k, tx j])  — the commit path, called exactly
//	           as gemmill/state/execution.go CommitStateUpdateMempool calls it
//	           (Update takes the pool's lock itself); "U:" = empty block
//	R:<n>      Reap(n)
//	Z          Size()
//	F          Flush()
type Scenario struct {
	Name    string     `json:"name"`
	Limits  bool       `json:"limits"`          // mempool_enable_txs_limits
	Pre     []string   `json:"pre"`             // executed by the main thread before the threads start
	Threads [][]string `json:"threads"`         // concurrent
	Post    []string   `json:"post"`            // executed by the main thread after all threads returned; R:-1 and Z are appended
	Rungs   int        `json:"rungs,omitempty"` // explore only the first Rungs schedule spaces of the ladder (0 = all): wide thread sets
}

// Limit returns the configured size bound (0 = none).
func (sc Scenario) Limit() int {
	if sc.Limits {
		return 2 * BlockSize
	}
	return 0
}

// String is the compact text used in evidence and details.
func (sc Scenario) String() string {
	var th []string
	for _, t := range sc.Threads {
		th = append(th, strings.Join(t, ","))
	}
	s := "[" + strings.Join(th, " | ") + "]"
	if len(sc.Pre) > 0 {
		s = strings.Join(sc.Pre, ",") + " ; " + s
	}
	if len(sc.Post) > 0 {
		s += " ; " + strings.Join(sc.Post, ",")
	}
	lim := "limits off"
	if sc.Limits {
		lim = fmt.Sprintf("limit %d", sc.Limit())
	}
	return s + " ; R:-1,Z (" + lim + ")"
}

// Shape names the kind of concurrency of the scenario (part of signatures).
func (sc Scenario) Shape() string {
	has := map[byte]bool{}
	for _, t := range sc.Threads {
		for _, o := range t {
			has[o[0]] = true
		}
	}
	s := "concurrent-submitters"
	if has['U'] {
		s = "submitters-concurrent-with-commit"
	}
	if has['F'] {
		s = "submitters-concurrent-with-flush"
	}
	if has['R'] || has['Z'] {
		s += "+reap"
	}
	return s
}

// Event is one call of a pool operation.  Call and Ret are values of a logical
// clock that ticks at every call and every return: a.Ret < b.Call means a
// returned before b was called.
type Event struct {
	Thread int    `json:"thread"` // 0 = main thread (prefix/suffix), 1.. = concurrent threads
	Op     string `json:"op"`
	Call   int64  `json:"call"`
	Ret    int64  `json:"ret"` // 0 = never returned (panic, deadlock)
	Res    string `json:"res"`
}

func (e Event) String() string {
	r := e.Res
	if r != "" {
		r = "=" + r
	}
	return fmt.Sprintf("T%d %s%s @%d..%d", e.Thread, e.Op, r, e.Call, e.Ret)
}

// Log is the recorded history of one execution.
type Log struct {
	clock  int64
	lanes  [][]Event // one per thread: no sharing between threads
	Joined bool      // all concurrent threads returned
	Done   bool      // the suffix was executed completely
}

// Events returns all calls ordered by call time.
func (l *Log) Events() []Event {
	var all []Event
	for _, ln := range l.lanes {
		all = append(all, ln...)
	}
	for i := 1; i < len(all); i++ {
		for j := i; j > 0 && all[j].Call < all[j-1].Call; j-- {
			all[j], all[j-1] = all[j-1], all[j]
		}
	}
	return all
}

// String is the canonical observation: per thread the results in program
// order (call/return times are not part of it).
func (l *Log) String() string {
	var b strings.Builder
	for t, ln := range l.lanes {
		if t > 0 {
			b.WriteString(" | ")
		}
		fmt.Fprintf(&b, "T%d:", t)
		for _, e := range ln {
			b.WriteString(" " + e.Op)
			if e.Ret == 0 {
				b.WriteString("!")
			} else if e.Res != "" {
				b.WriteString("=" + e.Res)
			}
		}
	}
	return b.String()
}

// Tx returns the bytes of transaction k.
func Tx(k int) gtypes.Tx { return gtypes.Tx(fmt.Sprintf("c19b-opaque-tx-%d", k)) }

// TxName names transaction bytes.
func TxName(raw []byte) string {
	s := string(raw)
	if strings.HasPrefix(s, "c19b-opaque-tx-") {
		return "t" + s[len("c19b-opaque-tx-"):]
	}
	return fmt.Sprintf("?%x", raw)
}

// ParseOp splits a letter.
func ParseOp(op string) (kind byte, args []int) {
	kind = op[0]
	if len(op) > 2 {
		for _, f := range strings.Split(op[2:], "+") {
			n, err := strconv.Atoi(f)
			if err != nil {
				panic("c19b: bad operation letter " + op)
			}
			args = append(args, n)
		}
	}
	return
}

// Spawner starts every function as a concurrent thread and returns when all of
// them have returned.
type Spawner func(fs []func())

type runner struct {
	mp     *mempool.Mempool
	log    *Log
	height int64
}

func (r *runner) do(thread int, op string) {
	lane := &r.log.lanes[thread]
	*lane = append(*lane, Event{Thread: thread, Op: op, Call: atomic.AddInt64(&r.log.clock, 1)})
	ev := &(*lane)[len(*lane)-1]
	kind, args := ParseOp(op)
	switch kind {
	case 'S':
		if err := r.mp.ReceiveTx(Tx(args[0])); err == nil {
			ev.Res = "acc"
		} else {
			ev.Res = "rej"
		}
	case 'U':
		txs := make([]gtypes.Tx, len(args))
		for i, k := range args {
			txs[i] = Tx(k)
		}
		r.mp.Update(atomic.AddInt64(&r.height, 1), txs)
	case 'R':
		var names []string
		for _, t := range r.mp.Reap(args[0]) {
			names = append(names, TxName(t))
		}
		ev.Res = "[" + strings.Join(names, " ") + "]"
	case 'Z':
		ev.Res = strconv.Itoa(r.mp.Size())
	case 'F':
		r.mp.Flush()
	default:
		panic("c19b: bad operation letter " + op)
	}
	ev.Ret = atomic.AddInt64(&r.log.clock, 1)
}

// Run executes one scenario on a fresh real Mempool (built here, inside the
// execution) and records the history into lg (allocated by the caller, so that
// a history cut short by a panic or a deadlock is still readable).
func Run(sc Scenario, spawn Spawner, lg *Log) {
	lg.lanes = make([][]Event, 1+len(sc.Threads))
	conf := viper.New()
	conf.Set("block_size", BlockSize)
	conf.Set("mempool_enable_txs_limits", sc.Limits)
	r := &runner{mp: mempool.NewMempool(conf), log: lg}
	for _, op := range sc.Pre {
		r.do(0, op)
	}
	fs := make([]func(), len(sc.Threads))
	for i := range sc.Threads {
		i := i
		fs[i] = func() {
			for _, op := range sc.Threads[i] {
				r.do(i+1, op)
			}
		}
	}
	spawn(fs)
	lg.Joined = true
	for _, op := range sc.Post {
		r.do(0, op)
	}
	r.do(0, "R:-1")
	r.do(0, "Z")
	lg.Done = true
}

// Scenarios lists the thread sets.
func Scenarios(quick bool) []Scenario {
	s := []Scenario{
		// ---- limits off ------------------------------------------------
		{Name: "dup2", Threads: [][]string{{"S:0"}, {"S:0"}}},
		{Name: "dup2+reap", Threads: [][]string{{"S:0"}, {"S:0"}, {"R:-1"}}},
		{Name: "dup3", Threads: [][]string{{"S:0"}, {"S:0"}, {"S:0"}}},
		{Name: "cross", Threads: [][]string{{"S:0", "S:1"}, {"S:1", "S:0"}}},
		{Name: "two+reap", Threads: [][]string{{"S:0", "S:1"}, {"R:-1", "Z"}}},
		// the commit path: t0 is pending (and was reaped) when the block that contains it is committed
		{Name: "dup-vs-commit", Pre: []string{"S:0", "R:-1"}, Threads: [][]string{{"S:0"}, {"U:0"}}, Post: []string{"S:0"}},
		{Name: "other-vs-commit", Pre: []string{"S:0", "R:-1"}, Threads: [][]string{{"S:1"}, {"U:0"}}, Post: []string{"S:0", "S:1"}},
		{Name: "dup-vs-commit-then-resubmit", Pre: []string{"S:0", "R:-1"}, Threads: [][]string{{"S:0"}, {"U:0", "S:0"}}},
		{Name: "dup-vs-commit+reap", Pre: []string{"S:0", "R:-1"}, Threads: [][]string{{"S:0"}, {"U:0"}, {"R:-1"}}},
		{Name: "two-vs-commit-of-first", Pre: []string{"S:0", "S:1", "R:1"}, Threads: [][]string{{"S:2", "S:0"}, {"U:0"}}},
		// ---- limits on: bound = block_size*2 = 2 ------------------------
		{Name: "L/dup2", Limits: true, Threads: [][]string{{"S:0"}, {"S:0"}}},
		{Name: "L/fill-1of2", Limits: true, Pre: []string{"S:0"}, Threads: [][]string{{"S:1"}, {"S:2"}}},
		{Name: "L/three-into-2", Limits: true, Threads: [][]string{{"S:0"}, {"S:1"}, {"S:2"}}},
		{Name: "L/fill+reap", Limits: true, Pre: []string{"S:0"}, Threads: [][]string{{"S:1"}, {"S:2"}, {"R:-1"}}},
		{Name: "L/full-vs-commit", Limits: true, Pre: []string{"S:0", "S:1", "R:1"}, Threads: [][]string{{"S:2"}, {"U:0"}}, Post: []string{"S:3"}},
		{Name: "L/cross", Limits: true, Pre: []string{"S:0"}, Threads: [][]string{{"S:1", "S:2"}, {"S:2", "S:1"}}},
		// ---- Flush ("remove all transactions from mempool and cache") ----
		{Name: "flush-vs-submit", Threads: [][]string{{"S:0"}, {"F"}}, Post: []string{"S:0"}},
		{Name: "flush-vs-second", Pre: []string{"S:0"}, Threads: [][]string{{"S:1"}, {"F"}}, Post: []string{"S:0", "S:1"}},
	}
	if !quick {
		s = append(s,
			Scenario{Name: "cross3", Threads: [][]string{{"S:0", "S:1"}, {"S:1", "S:0"}, {"R:-1"}}},
			// four threads: preemption bound 1 only (bound 2 alone is > 200 000 schedules)
			Scenario{Name: "L/four-into-2", Limits: true, Threads: [][]string{{"S:0"}, {"S:1"}, {"S:2"}, {"S:3"}}, Rungs: 2},
		)
	}
	return s
}
