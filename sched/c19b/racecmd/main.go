// racecmd is the free-running -race pass of the SCHED part of C19: the same
// harness bodies as package c19b (verif/sched/c19b/body), but built WITHOUT
// the overlay (real sync, real goroutines) and WITH `go build -race`, because
// the hand-offs of a cooperative scheduler are happens-before edges that blind
// the race detector.  Usage: c19race <reps> [quick|thorough]: every thread set
// is run <reps> times.  Prints a JSON summary on stdout; race reports go to
// stderr.  A race report or an oracle mismatch here is a violation CANDIDATE
// only (the caller looks for a SCHED schedule of the same class).
package main

import (
	"encoding/json"
	"fmt"
	"os"
	"runtime"
	"strconv"
	"sync"

	"verif/sched/c19b/body"
)

// spawn: real goroutines released together; a panic of the code under test is
// recorded instead of killing the process.
func spawn(panics *[]string) body.Spawner {
	return func(fs []func()) {
		var wg sync.WaitGroup
		var mu sync.Mutex
		gate := make(chan struct{})
		wg.Add(len(fs))
		for _, f := range fs {
			f := f
			go func() {
				defer wg.Done()
				defer func() {
					if r := recover(); r != nil {
						mu.Lock()
						*panics = append(*panics, fmt.Sprint(r))
						mu.Unlock()
					}
				}()
				<-gate
				f()
			}()
		}
		runtime.Gosched()
		close(gate)
		wg.Wait()
	}
}

func main() {
	reps := 100
	if len(os.Args) > 1 {
		reps, _ = strconv.Atoi(os.Args[1])
	}
	quick := !(len(os.Args) > 2 && os.Args[2] == "thorough")
	runs := 0
	mism := map[string]string{}
	outcomes := map[string]int{}
	for _, sc := range body.Scenarios(quick) {
		seen := map[string]bool{}
		for r := 0; r < reps; r++ {
			var lg body.Log
			var panics []string
			body.Run(sc, spawn(&panics), &lg)
			runs++
			seen[lg.String()] = true
			if len(panics) > 0 {
				mism["panic/"+sc.Shape()] = fmt.Sprintf("thread set %s: %v after %s", sc.Name, panics, lg.String())
				continue
			}
			if v := body.Judge(sc, &lg); v.Kind != "" {
				mism[v.Kind+"/"+v.Shape] = fmt.Sprintf("thread set %s: %s", sc.Name, v.Detail)
			}
		}
		outcomes[sc.Name] = len(seen)
	}
	b, _ := json.Marshal(map[string]interface{}{"runs": runs, "mismatches": mism, "reps_per_thread_set": reps, "distinct_outcomes_per_thread_set": outcomes})
	fmt.Println(string(b))
}
