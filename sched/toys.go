package sched

import (
	"encoding/json"
	"fmt"
	"sort"
	"strings"

	"github.com/dappledger/AnnChain/vshim/vatomic"
	"github.com/dappledger/AnnChain/vshim/vsched"
	"github.com/dappledger/AnnChain/vshim/vsync"
	"github.com/dappledger/AnnChain/vshim/vtime"
)

// Engine self-tests: seeded toys with known answers, run (in-process) at the
// start of every check.  A failure is an internal error of the machinery.

type toyCfg struct {
	Rounds int `json:"rounds"`
}

// ---- lost update: two threads, each `rounds` times: lock; t = x; unlock; lock; x = t+1; unlock

type lostUpdate struct {
	rounds int
	x      int
}

func (l *lostUpdate) Body() {
	var mu vsync.Mutex
	var wg vsync.WaitGroup
	wg.Add(2)
	for k := 0; k < 2; k++ {
		vsched.Go(func() {
			defer wg.Done()
			for r := 0; r < l.rounds; r++ {
				mu.Lock()
				t := l.x
				mu.Unlock()
				mu.Lock()
				l.x = t + 1
				mu.Unlock()
			}
		})
	}
	wg.Wait()
}

func (l *lostUpdate) Check(x *vsched.Exec) Verdict {
	return Verdict{Obs: fmt.Sprintf("%s:x=%d", x.Kind, l.x)}
}

// refLostUpdate is an independent reference: a memoised search over all
// interleavings of the abstract program (plain Go, no scheduler), giving for
// every final x the minimal number of preemptions (switches away from a thread
// that could have continued) needed to reach it.
func refLostUpdate(rounds int) map[int]int {
	// threads: 0 = main [add, goA, goB, wait]; 1,2 = workers [6*rounds steps, done]
	type st struct {
		pc      [3]int
		t       [3]int
		x       int
		holder  int // -1 free
		started [3]bool
		wg      int
		cur     int
	}
	wlen := 6*rounds + 1
	best := map[int]int{}
	seen := map[st]int{}
	var enabled func(s *st, i int) bool
	enabled = func(s *st, i int) bool {
		if !s.started[i] {
			return false
		}
		if i == 0 {
			if s.pc[0] >= 4 {
				return false
			}
			if s.pc[0] == 3 {
				return s.wg == 0
			}
			return true
		}
		if s.pc[i] >= wlen {
			return false
		}
		if s.pc[i] < wlen-1 {
			switch s.pc[i] % 6 {
			case 0, 3:
				return s.holder == -1
			}
		}
		return true
	}
	var rec func(s st, pre int)
	rec = func(s st, pre int) {
		if p, ok := seen[s]; ok && p <= pre {
			return
		}
		seen[s] = pre
		any := false
		for i := 0; i < 3; i++ {
			if !enabled(&s, i) {
				continue
			}
			any = true
			n := s
			cost := pre
			if s.cur >= 0 && s.cur != i && enabled(&s, s.cur) {
				cost++
			}
			n.cur = i
			if i == 0 {
				switch s.pc[0] {
				case 0:
					n.wg = 2
				case 1:
					n.started[1] = true
				case 2:
					n.started[2] = true
				}
			} else if s.pc[i] == wlen-1 {
				n.wg--
			} else {
				switch s.pc[i] % 6 {
				case 0, 3:
					n.holder = i
				case 1:
					n.t[i] = s.x
				case 2, 5:
					n.holder = -1
				case 4:
					n.x = s.t[i] + 1
				}
			}
			n.pc[i]++
			rec(n, cost)
		}
		if !any {
			if b, ok := best[s.x]; !ok || pre < b {
				best[s.x] = pre
			}
		}
	}
	s0 := st{holder: -1, cur: -1}
	s0.started[0] = true
	rec(s0, 0)
	return best
}

// ---- deadlock: AB-BA locking

type abba struct{}

func (abba) Body() {
	var m1, m2 vsync.Mutex
	var wg vsync.WaitGroup
	wg.Add(2)
	vsched.Go(func() { defer wg.Done(); m1.Lock(); m2.Lock(); m2.Unlock(); m1.Unlock() })
	vsched.Go(func() { defer wg.Done(); m2.Lock(); m1.Lock(); m1.Unlock(); m2.Unlock() })
	wg.Wait()
}
func (abba) Check(x *vsched.Exec) Verdict { return Verdict{Obs: x.Kind} }

// ---- spin wait: a busy loop without any yield must still terminate (fairness)

type spin struct {
	sleepy bool
	never  bool
	got    int32
}

func (s *spin) Body() {
	var flag int32
	if !s.never {
		vsched.Go(func() {
			if s.sleepy {
				vtime.Sleep(10 * vtime.Microsecond)
			}
			vatomic.StoreInt32(&flag, 7)
		})
	}
	for vatomic.LoadInt32(&flag) == 0 {
		if s.sleepy {
			vtime.Sleep(vtime.Microsecond)
		}
	}
	s.got = vatomic.LoadInt32(&flag)
}
func (s *spin) Check(x *vsched.Exec) Verdict {
	return Verdict{Obs: fmt.Sprintf("%s:%d", x.Kind, s.got)}
}

func init() {
	Register("toy/lostupdate", func(c json.RawMessage) (Instance, error) {
		var k toyCfg
		json.Unmarshal(c, &k)
		if k.Rounds == 0 {
			k.Rounds = 1
		}
		return &lostUpdate{rounds: k.Rounds}, nil
	})
	Register("toy/abba", func(json.RawMessage) (Instance, error) { return abba{}, nil })
	Register("toy/spin", func(json.RawMessage) (Instance, error) { return &spin{}, nil })
	Register("toy/spin-sleep", func(json.RawMessage) (Instance, error) { return &spin{sleepy: true}, nil })
	Register("toy/spin-never", func(json.RawMessage) (Instance, error) { return &spin{never: true}, nil })
	Register("toy/spin-sleep-never", func(json.RawMessage) (Instance, error) { return &spin{never: true, sleepy: true}, nil })
	WorkerEntry()
}

func setString(s []string) string { sort.Strings(s); return "{" + strings.Join(s, ",") + "}" }

// SelfTest runs the toys and returns a summary for the evidence file; any
// unexpected answer is an internal error (exit 2).
func SelfTest() map[string]interface{} {
	out := map[string]interface{}{"partial_order_reduction": "none implemented (every schedule within the bound is executed)"}
	var execs int64
	run := func(prog string, cfg interface{}, bounds []int) *TaskReport {
		var rungs []Rung
		for _, b := range bounds {
			rungs = append(rungs, Rung{Bound: b, MaxFree: -1})
		}
		rep := Explore(Local{}, []Task{{Label: prog, Program: prog, Config: cfg, Horizon: 3000}}, Limits{Rungs: rungs})
		if !rep.Exhaustive {
			InternalError("self-test %s: exploration incomplete", prog)
		}
		for _, p := range rep.Tasks[0].Passes {
			execs += p.Executions
		}
		return rep.Tasks[0]
	}
	// lost update, against the independent reference
	for _, rounds := range []int{1, 2} {
		ref := refLostUpdate(rounds)
		tr := run("toy/lostupdate", toyCfg{Rounds: rounds}, []int{0, 1, 2, 3})
		var desc []string
		for _, p := range tr.Passes {
			var want []string
			for x, pre := range ref {
				if pre <= p.Rung.Bound {
					want = append(want, fmt.Sprintf("done:x=%d", x))
				}
			}
			got := p.OutcomeSet()
			if setString(got) != setString(want) {
				InternalError("self-test lost-update(rounds=%d) bound %d: outcomes %s, reference model says %s", rounds, p.Rung.Bound, setString(got), setString(want))
			}
			desc = append(desc, fmt.Sprintf("bound %d: %s (%d schedules)", p.Rung.Bound, setString(got), p.Executions))
		}
		if rounds == 1 {
			// hand-derived: no lost update without a preemption, one with
			if setString(tr.Passes[0].OutcomeSet()) != "{done:x=2}" || setString(tr.Passes[1].OutcomeSet()) != "{done:x=1,done:x=2}" || setString(tr.Passes[2].OutcomeSet()) != "{done:x=1,done:x=2}" {
				InternalError("self-test lost-update: unexpected outcome sets %v", desc)
			}
		}
		out[fmt.Sprintf("lost_update_rounds_%d", rounds)] = desc
	}
	// deadlock
	tr := run("toy/abba", nil, []int{0, 1, 2})
	if _, bad := tr.Passes[0].Kinds[vsched.KindDeadlock]; bad || tr.Passes[1].Kinds[vsched.KindDeadlock] == 0 || tr.Passes[2].Kinds[vsched.KindDeadlock] == 0 {
		InternalError("self-test abba: deadlock must be absent at bound 0 and present at bounds 1,2: %v %v %v", tr.Passes[0].Kinds, tr.Passes[1].Kinds, tr.Passes[2].Kinds)
	}
	out["abba_deadlock"] = fmt.Sprintf("bound 0: %v; bound 1: %v; bound 2: %v", tr.Passes[0].Kinds, tr.Passes[1].Kinds, tr.Passes[2].Kinds)
	// spin loops
	for _, prog := range []string{"toy/spin", "toy/spin-sleep"} {
		tr := run(prog, nil, []int{0, 1, 2})
		for _, p := range tr.Passes {
			if setString(p.OutcomeSet()) != "{done:7}" {
				InternalError("self-test %s bound %d: a spin-wait must terminate under fair scheduling, got %s", prog, p.Rung.Bound, setString(p.OutcomeSet()))
			}
		}
		out[strings.Replace(prog[4:], "-", "_", -1)+"_terminates"] = fmt.Sprintf("%d schedules, all done", tr.Passes[2].Executions)
	}
	for _, prog := range []string{"toy/spin-never", "toy/spin-sleep-never"} {
		tr := run(prog, nil, []int{0, 1})
		for _, p := range tr.Passes {
			if setString(p.OutcomeSet()) != "{livelock:0}" {
				InternalError("self-test %s bound %d: waiting for a flag nobody sets must be reported as livelock, got %s", prog, p.Rung.Bound, setString(p.OutcomeSet()))
			}
		}
		out[strings.Replace(prog[4:], "-", "_", -1)+"_livelock"] = "reported"
	}
	out["selftest_schedules"] = execs
	return out
}
