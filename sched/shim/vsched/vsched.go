// Package vsched is the run-time half of the SCHED engine: a cooperative
// scheduler under which exactly one controlled goroutine ("thread") runs at a
// time.  Its sources live in /verif/sched/shim/vsched and are added to the
// AnnChain module as the VIRTUAL package github.com/dappledger/AnnChain/vshim/vsched
// by a `go build -overlay` file generated at check time (cmd/overlaygen); the
// repository is never modified.  The sibling packages vsync, vatomic and vtime
// replace "sync", "sync/atomic" and "time" in the transformed target files and
// call Point before (atomics: before and after) every operation.
//
// One execution = one call of (*Sched).Run.  The scheduling decisions of an
// execution are a list of small integers (index into the ordered candidate
// list at every decision point: 0 = default = keep running the current thread
// if it is still a candidate, else the lowest thread id).  Run replays a given
// prefix of choices and takes the default afterwards; the explorer
// (/verif/sched) enumerates prefixes.
//
// When no execution is active every shim operation falls through to the real
// primitive, so transformed code also works outside the scheduler.
//
// Go 1.12 language level (this package is compiled inside the AnnChain
// module): no generics.
package vsched

import (
	"fmt"
	"runtime"
	"runtime/debug"
	"sort"
	"strings"
	"sync/atomic"
	"time"
	"unsafe"
)

// Op identifies the kind of a hooked operation.
type Op uint8

// Operation kinds.  Channel kinds are reserved for the channel rewriting that
// a later version of overlaygen adds (see README "channel points").
const (
	OpStart Op = iota // first step of a new thread
	OpGo              // go statement
	OpLock
	OpUnlock
	OpRLock
	OpRUnlock
	OpWGAdd
	OpWGWait
	OpLoad
	OpStore
	OpCAS
	OpAdd
	OpSwap
	OpAfter // point after an atomic operation
	OpSleep
	OpNow
	OpTimer // timer/ticker creation, Stop, Reset
	OpYield
	OpCondWait
	OpCondSignal
	OpChanSend
	OpChanRecv
	OpChanSelect
	OpChanClose
	OpUser // harness-defined point
	opCount
)

var opNames = [...]string{"start", "go", "lock", "unlock", "rlock", "runlock", "wg.add", "wg.wait", "load", "store", "cas", "add", "swap", "after", "sleep", "now", "timer", "yield", "cond.wait", "cond.signal", "chan.send", "chan.recv", "select", "close", "user"}

func (o Op) String() string {
	if int(o) < len(opNames) {
		return opNames[o]
	}
	return fmt.Sprintf("op%d", int(o))
}

// Outcome kinds of an execution.
const (
	KindDone     = "done"     // every thread finished
	KindDeadlock = "deadlock" // no thread enabled, nothing sleeping, not all finished
	KindLivelock = "livelock" // only spinning threads could run for too long without any state change
	KindHorizon  = "horizon"  // step horizon exceeded
	KindPanic    = "panic"    // a controlled thread panicked
	KindDiverged = "diverged" // a choice of the replayed prefix was out of range (internal error)
)

// PointRec is one scheduling decision.
type PointRec struct {
	N          int32 // number of candidates (>= 1)
	Choice     int32 // index chosen in the ordered candidate list
	Tid        int32 // thread chosen
	CurEnabled bool  // the previously running thread was a candidate (choosing another one is a preemption)
}

// Exec is the record of one execution.
type Exec struct {
	Kind        string
	Points      []PointRec
	Steps       int    // thread resumptions
	Threads     int    // threads created
	Preemptions int    // preemptive switches taken
	Digest      uint64 // hash of the full step sequence (thread, op, canonical object, value): the schedule's observation
	Class       uint64 // hash of the per-object access orders (schedules with equal Class differ only in the order of operations on different objects)
	ValHist     uint64 // hash of every thread's sequence of values read (consecutive repeats folded)
	VirtualNs   int64  // virtual time elapsed
	PanicVal    string
	PanicStack  string
	Blocked     []string // deadlock/livelock: what every unfinished thread waits for
	Trace       []string // human readable steps (only with Config.Trace)
	BadPoint    int      // KindDiverged: index of the offending point
}

// Config parametrises one execution.
type Config struct {
	Prefix     []int32 // choices to replay
	ExpectTid  []int32 // optional, same length as Prefix: the thread each choice must select (replay divergence check)
	Horizon    int     // max steps (0 = 100000)
	SpinRounds int     // livelock threshold (0 = default)
	Trace      bool
}

type pending struct {
	op      Op
	obj     int32
	enabled func() bool // nil = always
	wake    int64       // OpSleep: virtual wake-up time
	sleep   bool
}

type thread struct {
	id       int32
	resume   chan struct{}
	pend     pending
	finished bool
	exiting  bool
	yielding bool // detected spinning: not a candidate until another thread steps
	hist     []uint64
	histEp   uint64
	seen     map[uint64]struct{}
	valH     uint64
	lastVal  uint64
	hasLast  bool
}

type timer struct {
	id     int
	when   int64
	period int64
	fire   func(now int64)
	active bool
}

// Sched is one controlled execution.
type Sched struct {
	cfg      Config
	threads  []*thread
	cur      *thread
	yield    chan struct{}
	now      int64
	epoch    uint64 // bumped by every state-changing hooked operation
	progress uint64 // bumped by epoch changes and by reads never seen before in this epoch
	flagged  int    // spin detections since the last progress
	aborting bool
	objs     map[unsafe.Pointer]int32
	objH     []uint64
	digest   uint64
	timers   []*timer
	ex       *Exec
	panicked bool
}

// active is the execution in progress, if any.  Only the driver goroutine and
// the single running controlled thread touch it.
var active *Sched

// Epoch is the virtual time at which every execution starts (fixed, so that
// time values embedded by the code under test are reproducible).
const Epoch int64 = 1600000000 * 1e9

const (
	fnvOff   = 14695981039346656037
	fnvPrime = 1099511628211
)

func mix(h uint64, v uint64) uint64 {
	for i := 0; i < 8; i++ {
		h ^= v & 0xff
		h *= fnvPrime
		v >>= 8
	}
	return h
}

// Active reports whether the caller runs inside a controlled execution.
func Active() bool { return active != nil }

// Aborting reports whether the execution is being torn down (threads are
// unwinding through runtime.Goexit; shim operations must not block).
func Aborting() bool { return active != nil && active.aborting }

// Now returns the virtual time in nanoseconds since the Unix epoch.
func Now() int64 {
	if active == nil {
		return time.Now().UnixNano()
	}
	return active.now
}

// ObjID returns the canonical (first-appearance) number of a shared object.
func ObjID(p unsafe.Pointer) int32 {
	s := active
	if s == nil || p == nil {
		return 0
	}
	if id, ok := s.objs[p]; ok {
		return id
	}
	id := int32(len(s.objs) + 1)
	s.objs[p] = id
	s.objH = append(s.objH, fnvOff)
	return id
}

// Point is a scheduling point: the calling thread announces the operation it
// is about to perform and parks; it is resumed when the scheduler selects it,
// which happens only while enabled() is true (nil = always enabled).
func Point(op Op, obj unsafe.Pointer, enabled func() bool) {
	s := active
	if s == nil {
		return
	}
	s.park(pending{op: op, obj: ObjID(obj), enabled: enabled})
}

// SleepPoint parks the calling thread until virtual time has advanced by d.
func SleepPoint(d int64) {
	s := active
	if s == nil {
		return
	}
	if d < 0 {
		d = 0
	}
	w := s.now + d
	s.park(pending{op: OpSleep, sleep: true, wake: w, enabled: func() bool { return s.now >= w }})
	s.note(OpSleep, 0, false, 0)
}

func (s *Sched) park(p pending) {
	t := s.cur
	if s.aborting {
		if !t.exiting {
			t.exiting = true
			runtime.Goexit()
		}
		return
	}
	t.pend = p
	s.yield <- struct{}{}
	<-t.resume
	if s.aborting && !t.exiting {
		t.exiting = true
		runtime.Goexit()
	}
}

// Note records the operation just performed by the running thread: write
// says whether it changed shared state, val is the value read or the result.
// It feeds the observation digest and the spin detection.
func Note(op Op, obj unsafe.Pointer, write bool, val uint64) {
	s := active
	if s == nil || s.aborting {
		return
	}
	s.note(op, ObjID(obj), write, val)
}

func (s *Sched) note(op Op, obj int32, write bool, val uint64) {
	t := s.cur
	k := uint64(t.id)<<56 ^ uint64(op)<<48 ^ uint64(uint32(obj))<<16
	s.digest = mix(mix(s.digest, k), val)
	if obj > 0 {
		s.objH[obj-1] = mix(mix(s.objH[obj-1], uint64(t.id)<<8|uint64(op)), val)
	}
	if s.cfg.Trace {
		w := "r"
		if write {
			w = "W"
		}
		s.ex.Trace = append(s.ex.Trace, fmt.Sprintf("  t%d %s o%d %s=%d", t.id, op, obj, w, int64(val)))
	}
	if write {
		s.epoch++
		s.progress++
		s.flagged = 0
		return
	}
	// value history (reads only, consecutive repeats folded)
	vk := mix(mix(fnvOff, uint64(op)<<32|uint64(uint32(obj))), val)
	if !t.hasLast || t.lastVal != vk {
		t.valH = mix(t.valH, vk)
		t.lastVal, t.hasLast = vk, true
	}
	// spin detection: the thread's reads since the last state change end in a
	// repeated block (x x): it went once more round a loop although nothing
	// it can observe has changed.
	if t.histEp != s.epoch {
		t.histEp = s.epoch
		t.hist = t.hist[:0]
		for k := range t.seen {
			delete(t.seen, k)
		}
	}
	if _, ok := t.seen[vk]; !ok {
		t.seen[vk] = struct{}{}
		s.progress++
		s.flagged = 0
	}
	t.hist = append(t.hist, vk)
	n := len(t.hist)
	for p := 1; 2*p <= n && p <= 24; p++ {
		same := true
		for i := 0; i < p; i++ {
			if t.hist[n-1-i] != t.hist[n-1-p-i] {
				same = false
				break
			}
		}
		if same {
			t.hist = t.hist[:n-p]
			if !t.yielding {
				t.yielding = true
				s.flagged++
			}
			break
		}
	}
	if len(t.hist) > 96 {
		t.hist = append(t.hist[:0], t.hist[48:]...)
	}
}

// Yield marks the running thread as willing to give way (runtime.Gosched and
// the like): it is de-prioritised until another thread has stepped.
func Yield() {
	s := active
	if s == nil {
		runtime.Gosched()
		return
	}
	if !s.aborting {
		s.cur.yielding = true
	}
	s.park(pending{op: OpYield})
}

// Go starts f as a new controlled thread (the rewriting of a go statement).
// Outside an execution it is a plain go statement.
func Go(f func()) {
	s := active
	if s == nil {
		go f()
		return
	}
	if s.aborting {
		return
	}
	s.park(pending{op: OpGo})
	if s.aborting {
		return
	}
	t := s.newThread(f)
	s.note(OpGo, 0, true, uint64(t.id))
}

func (s *Sched) newThread(f func()) *thread {
	t := &thread{id: int32(len(s.threads)), resume: make(chan struct{}), seen: map[uint64]struct{}{}, valH: fnvOff}
	t.pend = pending{op: OpStart}
	s.threads = append(s.threads, t)
	go func() {
		<-t.resume
		defer func() {
			if r := recover(); r != nil && !s.aborting {
				s.panicked = true
				s.ex.PanicVal = fmt.Sprintf("%v", r)
				s.ex.PanicStack = string(debug.Stack())
			}
			t.finished = true
			if !s.aborting {
				s.epoch++
				s.progress++
				s.flagged = 0
			}
			s.yield <- struct{}{}
		}()
		if s.aborting {
			return
		}
		f()
	}()
	return t
}

// Spawn starts f as a new controlled thread WITHOUT a scheduling point of the
// caller; for code that runs on the scheduler's own goroutine (timer
// callbacks: time.AfterFunc).
func Spawn(f func()) {
	s := active
	if s == nil {
		go f()
		return
	}
	if s.aborting {
		return
	}
	s.newThread(f)
}

// AddTimer registers a virtual timer that fires fire(now) on the scheduler's
// goroutine when virtual time reaches when (period > 0: repeatedly).  Used by
// vtime.  The returned handle stops it.
func AddTimer(d, period int64, fire func(now int64)) (stop func() bool, reset func(d int64) bool) {
	s := active
	if s == nil {
		panic("vsched.AddTimer outside an execution")
	}
	if s.aborting {
		return func() bool { return false }, func(int64) bool { return false }
	}
	if d < 0 {
		d = 0
	}
	tm := &timer{id: len(s.timers), when: s.now + d, period: period, fire: fire, active: true}
	s.timers = append(s.timers, tm)
	stop = func() bool {
		was := tm.active
		tm.active = false
		return was
	}
	reset = func(d int64) bool {
		was := tm.active
		if d < 0 {
			d = 0
		}
		tm.when = s.now + d
		tm.active = true
		return was
	}
	return
}

// New prepares an execution.
func New(cfg Config) *Sched {
	if cfg.Horizon <= 0 {
		cfg.Horizon = 100000
	}
	return &Sched{cfg: cfg, yield: make(chan struct{}), now: Epoch, objs: map[unsafe.Pointer]int32{}, digest: fnvOff, ex: &Exec{}}
}

// heartbeat counts thread resumptions of the whole process; inExec says that
// an execution is in progress.  Watchdog (started by the explorer) uses both
// to turn "a thread blocked in an operation the scheduler cannot see" into an
// internal error instead of a hang.
var heartbeat, inExec uint64

// Watchdog starts a real goroutine that calls stuck(desc) when an execution
// is active and no thread has reached a scheduling point for the duration d.
func Watchdog(d time.Duration, stuck func(desc string)) {
	go func() {
		last, since := uint64(0), time.Now()
		for {
			time.Sleep(d / 4)
			hb := atomic.LoadUint64(&heartbeat)
			if atomic.LoadUint64(&inExec) == 0 || hb != last {
				last, since = hb, time.Now()
				continue
			}
			if time.Since(since) >= d {
				stuck(fmt.Sprintf("no scheduling point reached for %v: a controlled thread blocks in (or spins through) code the scheduler does not see", d))
				since = time.Now()
			}
		}
	}()
}

func (s *Sched) waitYield() bool {
	<-s.yield
	atomic.AddUint64(&heartbeat, 1)
	return true
}

// Run executes body as thread 0 under the scheduler and returns the record.
// It must be called from an uncontrolled goroutine; executions do not nest
// and do not overlap within one process.
func (s *Sched) Run(body func()) *Exec {
	if active != nil {
		panic("vsched: nested or concurrent execution")
	}
	active = s
	atomic.StoreUint64(&inExec, 1)
	defer atomic.StoreUint64(&inExec, 0)
	ex := s.ex
	s.newThread(body)
	kind := ""
	for kind == "" {
		cands, k := s.candidates()
		if k != "" {
			kind = k
			break
		}
		i := len(ex.Points)
		choice := int32(0)
		if i < len(s.cfg.Prefix) {
			choice = s.cfg.Prefix[i]
		}
		if int(choice) >= len(cands) || choice < 0 {
			kind, ex.BadPoint = KindDiverged, i
			break
		}
		t := cands[choice]
		if i < len(s.cfg.ExpectTid) && s.cfg.ExpectTid[i] >= 0 && s.cfg.ExpectTid[i] != t.id {
			kind, ex.BadPoint = KindDiverged, i
			break
		}
		curEn := s.cur != nil && len(cands) > 0 && cands[0] == s.cur
		ex.Points = append(ex.Points, PointRec{N: int32(len(cands)), Choice: choice, Tid: t.id, CurEnabled: curEn})
		if curEn && choice != 0 {
			ex.Preemptions++
		}
		if s.cfg.Trace {
			ids := make([]string, len(cands))
			for j, c := range cands {
				ids[j] = fmt.Sprintf("t%d", c.id)
			}
			ex.Trace = append(ex.Trace, fmt.Sprintf("#%d run t%d (%s o%d) of [%s]", i, t.id, t.pend.op, t.pend.obj, strings.Join(ids, " ")))
		}
		// a step of any thread ends every de-prioritisation
		for _, o := range s.threads {
			o.yielding = false
		}
		s.cur = t
		ex.Steps++
		if ex.Steps > s.cfg.Horizon {
			kind = KindHorizon
			break
		}
		t.resume <- struct{}{}
		s.waitYield()
		if s.panicked {
			kind = KindPanic
		}
	}
	ex.Kind = kind
	if kind == KindDeadlock || kind == KindLivelock || kind == KindHorizon {
		for _, t := range s.threads {
			if !t.finished {
				st := "enabled"
				if t.pend.enabled != nil && !t.pend.enabled() {
					st = "blocked"
				}
				if t.yielding {
					st += ",spinning"
				}
				ex.Blocked = append(ex.Blocked, fmt.Sprintf("t%d at %s o%d (%s)", t.id, t.pend.op, t.pend.obj, st))
			}
		}
	}
	// tear down: unwind every parked thread through Goexit
	s.aborting = true
	for _, t := range s.threads {
		if !t.finished {
			s.cur = t
			t.resume <- struct{}{}
			s.waitYield()
		}
	}
	ex.Threads = len(s.threads)
	ex.Digest = s.digest
	ex.VirtualNs = s.now - Epoch
	var cls uint64
	for _, h := range s.objH {
		cls += mix(fnvOff, h)
	}
	ex.Class = cls
	var vh uint64
	for _, t := range s.threads {
		vh += mix(mix(fnvOff, uint64(t.id)), t.valH)
	}
	ex.ValHist = vh
	active = nil
	return ex
}

// candidates returns the ordered candidate list of the next decision, or a
// terminal kind.
func (s *Sched) candidates() ([]*thread, string) {
	limit := s.cfg.SpinRounds
	for {
		var en, spin []*thread
		live, sleeping := 0, false
		for _, t := range s.threads {
			if t.finished {
				continue
			}
			live++
			if t.pend.enabled != nil && !t.pend.enabled() {
				if t.pend.sleep {
					sleeping = true
				}
				continue
			}
			if t.yielding {
				spin = append(spin, t)
			} else {
				en = append(en, t)
			}
		}
		if live == 0 {
			return nil, KindDone
		}
		if limit <= 0 {
			limit = 3*live + 6
		}
		if len(en) == 0 {
			// nobody can make progress right now: let virtual time pass
			if s.advance(sleeping) {
				if s.flagged > limit {
					return nil, KindLivelock
				}
				continue
			}
			if len(spin) == 0 {
				return nil, KindDeadlock
			}
			// only spinning threads are left
			if s.flagged > limit {
				return nil, KindLivelock
			}
			en = spin
		}
		// order: running thread first, then ascending id
		sort.Slice(en, func(i, j int) bool { return en[i].id < en[j].id })
		if s.cur != nil {
			for i, t := range en {
				if t == s.cur {
					copy(en[1:i+1], en[:i])
					en[0] = t
					break
				}
			}
		}
		return en, ""
	}
}

// advance moves virtual time to the earliest wake-up or timer; false if there
// is none.  Due timers fire in creation order.
func (s *Sched) advance(sleeping bool) bool {
	next := int64(-1)
	if sleeping {
		for _, t := range s.threads {
			if !t.finished && t.pend.sleep && t.pend.wake > s.now {
				if next < 0 || t.pend.wake < next {
					next = t.pend.wake
				}
			}
		}
	}
	for _, tm := range s.timers {
		if tm.active && (next < 0 || tm.when < next) {
			next = tm.when
		}
	}
	if next < 0 {
		return false
	}
	if next > s.now {
		s.now = next
	}
	fired := false
	for _, tm := range s.timers {
		if tm.active && tm.when <= s.now {
			if tm.period > 0 {
				tm.when += tm.period
			} else {
				tm.active = false
			}
			fired = true
			tm.fire(s.now)
		}
	}
	if fired {
		s.epoch++
		s.progress++
		s.flagged = 0
	} else {
		// a pure sleep wake-up is not progress: a loop that only sleeps and
		// re-reads unchanged state is a spinner
		s.flagged++
	}
	return true
}
