// Package vatomic replaces "sync/atomic" in files transformed by overlaygen.
// Every operation is performed with the real primitive, preceded AND followed
// by a scheduling point: the point after the operation is what makes
// "publish with an atomic store, then write plain fields" visible (another
// thread may run between the store and the plain writes that follow it).
//
// Virtual package github.com/dappledger/AnnChain/vshim/vatomic; sources in
// /verif/sched/shim/vatomic (the per-type functions are mechanical copies of one pattern).
// Go 1.12 language level.
package vatomic

import (
	"sync/atomic"
	"unsafe"

	"github.com/dappledger/AnnChain/vshim/vsched"
)

// AfterLoads controls whether loads are followed by a scheduling point as
// stores are (default true; the explorer may switch it off as a stated
// reduction).
var AfterLoads = true

func before(op vsched.Op, p unsafe.Pointer) bool {
	if !vsched.Active() || vsched.Aborting() {
		return false
	}
	vsched.Point(op, p, nil)
	return !vsched.Aborting()
}

func after(op vsched.Op, p unsafe.Pointer, write bool, val uint64) {
	vsched.Note(op, p, write, val)
	if write || AfterLoads {
		vsched.Point(vsched.OpAfter, p, nil)
	}
}

func b2u(b bool) uint64 {
	if b {
		return 1
	}
	return 0
}

func LoadInt32(addr *int32) int32 {
	p := unsafe.Pointer(addr)
	ok := before(vsched.OpLoad, p)
	v := atomic.LoadInt32(addr)
	if ok {
		after(vsched.OpLoad, p, false, uint64(v))
	}
	return v
}

func StoreInt32(addr *int32, val int32) {
	p := unsafe.Pointer(addr)
	ok := before(vsched.OpStore, p)
	atomic.StoreInt32(addr, val)
	if ok {
		after(vsched.OpStore, p, true, uint64(val))
	}
}

func AddInt32(addr *int32, delta int32) int32 {
	p := unsafe.Pointer(addr)
	ok := before(vsched.OpAdd, p)
	v := atomic.AddInt32(addr, delta)
	if ok {
		after(vsched.OpAdd, p, true, uint64(v))
	}
	return v
}

func SwapInt32(addr *int32, new int32) int32 {
	p := unsafe.Pointer(addr)
	ok := before(vsched.OpSwap, p)
	v := atomic.SwapInt32(addr, new)
	if ok {
		after(vsched.OpSwap, p, true, uint64(v))
	}
	return v
}

func CompareAndSwapInt32(addr *int32, old, new int32) bool {
	p := unsafe.Pointer(addr)
	ok := before(vsched.OpCAS, p)
	sw := atomic.CompareAndSwapInt32(addr, old, new)
	if ok {
		after(vsched.OpCAS, p, sw, b2u(sw))
	}
	return sw
}

func LoadInt64(addr *int64) int64 {
	p := unsafe.Pointer(addr)
	ok := before(vsched.OpLoad, p)
	v := atomic.LoadInt64(addr)
	if ok {
		after(vsched.OpLoad, p, false, uint64(v))
	}
	return v
}

func StoreInt64(addr *int64, val int64) {
	p := unsafe.Pointer(addr)
	ok := before(vsched.OpStore, p)
	atomic.StoreInt64(addr, val)
	if ok {
		after(vsched.OpStore, p, true, uint64(val))
	}
}

func AddInt64(addr *int64, delta int64) int64 {
	p := unsafe.Pointer(addr)
	ok := before(vsched.OpAdd, p)
	v := atomic.AddInt64(addr, delta)
	if ok {
		after(vsched.OpAdd, p, true, uint64(v))
	}
	return v
}

func SwapInt64(addr *int64, new int64) int64 {
	p := unsafe.Pointer(addr)
	ok := before(vsched.OpSwap, p)
	v := atomic.SwapInt64(addr, new)
	if ok {
		after(vsched.OpSwap, p, true, uint64(v))
	}
	return v
}

func CompareAndSwapInt64(addr *int64, old, new int64) bool {
	p := unsafe.Pointer(addr)
	ok := before(vsched.OpCAS, p)
	sw := atomic.CompareAndSwapInt64(addr, old, new)
	if ok {
		after(vsched.OpCAS, p, sw, b2u(sw))
	}
	return sw
}

func LoadUint32(addr *uint32) uint32 {
	p := unsafe.Pointer(addr)
	ok := before(vsched.OpLoad, p)
	v := atomic.LoadUint32(addr)
	if ok {
		after(vsched.OpLoad, p, false, uint64(v))
	}
	return v
}

func StoreUint32(addr *uint32, val uint32) {
	p := unsafe.Pointer(addr)
	ok := before(vsched.OpStore, p)
	atomic.StoreUint32(addr, val)
	if ok {
		after(vsched.OpStore, p, true, uint64(val))
	}
}

func AddUint32(addr *uint32, delta uint32) uint32 {
	p := unsafe.Pointer(addr)
	ok := before(vsched.OpAdd, p)
	v := atomic.AddUint32(addr, delta)
	if ok {
		after(vsched.OpAdd, p, true, uint64(v))
	}
	return v
}

func SwapUint32(addr *uint32, new uint32) uint32 {
	p := unsafe.Pointer(addr)
	ok := before(vsched.OpSwap, p)
	v := atomic.SwapUint32(addr, new)
	if ok {
		after(vsched.OpSwap, p, true, uint64(v))
	}
	return v
}

func CompareAndSwapUint32(addr *uint32, old, new uint32) bool {
	p := unsafe.Pointer(addr)
	ok := before(vsched.OpCAS, p)
	sw := atomic.CompareAndSwapUint32(addr, old, new)
	if ok {
		after(vsched.OpCAS, p, sw, b2u(sw))
	}
	return sw
}

func LoadUint64(addr *uint64) uint64 {
	p := unsafe.Pointer(addr)
	ok := before(vsched.OpLoad, p)
	v := atomic.LoadUint64(addr)
	if ok {
		after(vsched.OpLoad, p, false, uint64(v))
	}
	return v
}

func StoreUint64(addr *uint64, val uint64) {
	p := unsafe.Pointer(addr)
	ok := before(vsched.OpStore, p)
	atomic.StoreUint64(addr, val)
	if ok {
		after(vsched.OpStore, p, true, uint64(val))
	}
}

func AddUint64(addr *uint64, delta uint64) uint64 {
	p := unsafe.Pointer(addr)
	ok := before(vsched.OpAdd, p)
	v := atomic.AddUint64(addr, delta)
	if ok {
		after(vsched.OpAdd, p, true, uint64(v))
	}
	return v
}

func SwapUint64(addr *uint64, new uint64) uint64 {
	p := unsafe.Pointer(addr)
	ok := before(vsched.OpSwap, p)
	v := atomic.SwapUint64(addr, new)
	if ok {
		after(vsched.OpSwap, p, true, uint64(v))
	}
	return v
}

func CompareAndSwapUint64(addr *uint64, old, new uint64) bool {
	p := unsafe.Pointer(addr)
	ok := before(vsched.OpCAS, p)
	sw := atomic.CompareAndSwapUint64(addr, old, new)
	if ok {
		after(vsched.OpCAS, p, sw, b2u(sw))
	}
	return sw
}

func LoadUintptr(addr *uintptr) uintptr {
	p := unsafe.Pointer(addr)
	ok := before(vsched.OpLoad, p)
	v := atomic.LoadUintptr(addr)
	if ok {
		after(vsched.OpLoad, p, false, uint64(v))
	}
	return v
}

func StoreUintptr(addr *uintptr, val uintptr) {
	p := unsafe.Pointer(addr)
	ok := before(vsched.OpStore, p)
	atomic.StoreUintptr(addr, val)
	if ok {
		after(vsched.OpStore, p, true, uint64(val))
	}
}

func AddUintptr(addr *uintptr, delta uintptr) uintptr {
	p := unsafe.Pointer(addr)
	ok := before(vsched.OpAdd, p)
	v := atomic.AddUintptr(addr, delta)
	if ok {
		after(vsched.OpAdd, p, true, uint64(v))
	}
	return v
}

func SwapUintptr(addr *uintptr, new uintptr) uintptr {
	p := unsafe.Pointer(addr)
	ok := before(vsched.OpSwap, p)
	v := atomic.SwapUintptr(addr, new)
	if ok {
		after(vsched.OpSwap, p, true, uint64(v))
	}
	return v
}

func CompareAndSwapUintptr(addr *uintptr, old, new uintptr) bool {
	p := unsafe.Pointer(addr)
	ok := before(vsched.OpCAS, p)
	sw := atomic.CompareAndSwapUintptr(addr, old, new)
	if ok {
		after(vsched.OpCAS, p, sw, b2u(sw))
	}
	return sw
}

func LoadPointer(addr *unsafe.Pointer) unsafe.Pointer {
	p := unsafe.Pointer(addr)
	ok := before(vsched.OpLoad, p)
	v := atomic.LoadPointer(addr)
	if ok {
		after(vsched.OpLoad, p, false, uint64(vsched.ObjID(v)))
	}
	return v
}

func StorePointer(addr *unsafe.Pointer, val unsafe.Pointer) {
	p := unsafe.Pointer(addr)
	ok := before(vsched.OpStore, p)
	atomic.StorePointer(addr, val)
	if ok {
		after(vsched.OpStore, p, true, uint64(vsched.ObjID(val)))
	}
}

func SwapPointer(addr *unsafe.Pointer, new unsafe.Pointer) unsafe.Pointer {
	p := unsafe.Pointer(addr)
	ok := before(vsched.OpSwap, p)
	v := atomic.SwapPointer(addr, new)
	if ok {
		after(vsched.OpSwap, p, true, uint64(vsched.ObjID(v)))
	}
	return v
}

func CompareAndSwapPointer(addr *unsafe.Pointer, old, new unsafe.Pointer) bool {
	p := unsafe.Pointer(addr)
	ok := before(vsched.OpCAS, p)
	sw := atomic.CompareAndSwapPointer(addr, old, new)
	if ok {
		after(vsched.OpCAS, p, sw, b2u(sw))
	}
	return sw
}

// Value is a virtual atomic.Value.  The observation records only whether the
// loaded value was nil (values need not be comparable).
type Value struct{ v atomic.Value }

func (x *Value) Load() interface{} {
	p := unsafe.Pointer(x)
	ok := before(vsched.OpLoad, p)
	v := x.v.Load()
	if ok {
		after(vsched.OpLoad, p, false, b2u(v != nil))
	}
	return v
}

func (x *Value) Store(val interface{}) {
	p := unsafe.Pointer(x)
	ok := before(vsched.OpStore, p)
	x.v.Store(val)
	if ok {
		after(vsched.OpStore, p, true, 1)
	}
}
