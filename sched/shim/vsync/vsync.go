// Package vsync replaces "sync" in files transformed by overlaygen.  Every
// blocking or state-changing operation is a scheduling point of vsched; the
// state of the primitives is kept in plain fields (only one controlled thread
// runs at a time).  Outside a controlled execution every operation falls
// through to the real primitive embedded in the type.
//
// Virtual package github.com/dappledger/AnnChain/vshim/vsync; sources in
// /verif/sched/shim/vsync.  Go 1.12 language level.
package vsync

import (
	"sync"
	"unsafe"

	"github.com/dappledger/AnnChain/vshim/vsched"
)

// Types without blocking behaviour of their own are the real ones.
type (
	Locker = sync.Locker
	Map    = sync.Map
	Pool   = sync.Pool
)

// ---------------------------------------------------------------- Mutex

// Mutex is a virtual sync.Mutex.
type Mutex struct {
	real   sync.Mutex
	locked bool
}

func (m *Mutex) Lock() {
	if !vsched.Active() {
		m.real.Lock()
		return
	}
	if vsched.Aborting() {
		m.locked = true
		return
	}
	p := unsafe.Pointer(m)
	vsched.Point(vsched.OpLock, p, func() bool { return !m.locked })
	if vsched.Aborting() {
		return
	}
	m.locked = true
	vsched.Note(vsched.OpLock, p, true, 1)
}

func (m *Mutex) Unlock() {
	if !vsched.Active() {
		m.real.Unlock()
		return
	}
	if vsched.Aborting() {
		m.locked = false
		return
	}
	p := unsafe.Pointer(m)
	vsched.Point(vsched.OpUnlock, p, nil)
	if vsched.Aborting() {
		return
	}
	if !m.locked {
		panic("sync: unlock of unlocked mutex")
	}
	m.locked = false
	vsched.Note(vsched.OpUnlock, p, true, 0)
}

// ---------------------------------------------------------------- RWMutex

// RWMutex is a virtual sync.RWMutex (no writer preference: a pending writer
// does not block new readers; every interleaving the real one allows for
// programs that do not depend on that preference is covered).
type RWMutex struct {
	real    sync.RWMutex
	writer  bool
	readers int
}

func (m *RWMutex) Lock() {
	if !vsched.Active() {
		m.real.Lock()
		return
	}
	if vsched.Aborting() {
		return
	}
	p := unsafe.Pointer(m)
	vsched.Point(vsched.OpLock, p, func() bool { return !m.writer && m.readers == 0 })
	if vsched.Aborting() {
		return
	}
	m.writer = true
	vsched.Note(vsched.OpLock, p, true, 1)
}

func (m *RWMutex) Unlock() {
	if !vsched.Active() {
		m.real.Unlock()
		return
	}
	if vsched.Aborting() {
		return
	}
	p := unsafe.Pointer(m)
	vsched.Point(vsched.OpUnlock, p, nil)
	if vsched.Aborting() {
		return
	}
	if !m.writer {
		panic("sync: Unlock of unlocked RWMutex")
	}
	m.writer = false
	vsched.Note(vsched.OpUnlock, p, true, 0)
}

func (m *RWMutex) RLock() {
	if !vsched.Active() {
		m.real.RLock()
		return
	}
	if vsched.Aborting() {
		return
	}
	p := unsafe.Pointer(m)
	vsched.Point(vsched.OpRLock, p, func() bool { return !m.writer })
	if vsched.Aborting() {
		return
	}
	m.readers++
	vsched.Note(vsched.OpRLock, p, true, uint64(m.readers))
}

func (m *RWMutex) RUnlock() {
	if !vsched.Active() {
		m.real.RUnlock()
		return
	}
	if vsched.Aborting() {
		return
	}
	p := unsafe.Pointer(m)
	vsched.Point(vsched.OpRUnlock, p, nil)
	if vsched.Aborting() {
		return
	}
	if m.readers <= 0 {
		panic("sync: RUnlock of unlocked RWMutex")
	}
	m.readers--
	vsched.Note(vsched.OpRUnlock, p, true, uint64(m.readers))
}

type rlocker RWMutex

func (r *rlocker) Lock()   { (*RWMutex)(r).RLock() }
func (r *rlocker) Unlock() { (*RWMutex)(r).RUnlock() }

// RLocker returns a Locker whose Lock/Unlock are RLock/RUnlock.
func (m *RWMutex) RLocker() Locker { return (*rlocker)(m) }

// ---------------------------------------------------------------- WaitGroup

// WaitGroup is a virtual sync.WaitGroup.
type WaitGroup struct {
	real sync.WaitGroup
	n    int
}

func (wg *WaitGroup) Add(delta int) {
	if !vsched.Active() {
		wg.real.Add(delta)
		return
	}
	if vsched.Aborting() {
		wg.n += delta
		return
	}
	p := unsafe.Pointer(wg)
	vsched.Point(vsched.OpWGAdd, p, nil)
	if vsched.Aborting() {
		return
	}
	wg.n += delta
	if wg.n < 0 {
		wg.n = 0
		panic("sync: negative WaitGroup counter")
	}
	vsched.Note(vsched.OpWGAdd, p, true, uint64(wg.n))
}

func (wg *WaitGroup) Done() { wg.Add(-1) }

// Wait blocks until the counter is zero.  A Wait that finds the counter at
// zero returns at once: it is a read of shared state (and, repeated in a loop
// without anything changing, a spin that the scheduler de-prioritises).
func (wg *WaitGroup) Wait() {
	if !vsched.Active() {
		wg.real.Wait()
		return
	}
	if vsched.Aborting() {
		return
	}
	p := unsafe.Pointer(wg)
	vsched.Point(vsched.OpWGWait, p, func() bool { return wg.n == 0 })
	vsched.Note(vsched.OpWGWait, p, false, 0)
}

// ---------------------------------------------------------------- Once

// Once is a virtual sync.Once built from the virtual mutex.
type Once struct {
	real sync.Once
	m    Mutex
	done bool
}

func (o *Once) Do(f func()) {
	if !vsched.Active() {
		o.real.Do(f)
		return
	}
	p := unsafe.Pointer(o)
	vsched.Point(vsched.OpLoad, p, nil)
	d := o.done
	var v uint64
	if d {
		v = 1
	}
	vsched.Note(vsched.OpLoad, p, false, v)
	if d {
		return
	}
	o.m.Lock()
	defer o.m.Unlock()
	if !o.done {
		defer func() {
			o.done = true
			vsched.Note(vsched.OpStore, p, true, 1)
		}()
		f()
	}
}

// ---------------------------------------------------------------- Cond

type condWaiter struct{ signalled bool }

// Cond is a virtual sync.Cond (FIFO wake-up, like the runtime's notify list).
type Cond struct {
	L       Locker
	real    *sync.Cond
	waiters []*condWaiter
}

// NewCond returns a new Cond with Locker l.
func NewCond(l Locker) *Cond { return &Cond{L: l, real: sync.NewCond(l)} }

func (c *Cond) passthrough() *sync.Cond {
	if c.real == nil || c.real.L != c.L {
		c.real = sync.NewCond(c.L)
	}
	return c.real
}

func (c *Cond) Wait() {
	if !vsched.Active() {
		c.passthrough().Wait()
		return
	}
	if vsched.Aborting() {
		return
	}
	w := &condWaiter{}
	c.waiters = append(c.waiters, w)
	c.L.Unlock()
	p := unsafe.Pointer(c)
	vsched.Point(vsched.OpCondWait, p, func() bool { return w.signalled })
	vsched.Note(vsched.OpCondWait, p, true, 0)
	c.L.Lock()
}

func (c *Cond) Signal() {
	if !vsched.Active() {
		c.passthrough().Signal()
		return
	}
	if vsched.Aborting() {
		return
	}
	p := unsafe.Pointer(c)
	vsched.Point(vsched.OpCondSignal, p, nil)
	if len(c.waiters) > 0 {
		c.waiters[0].signalled = true
		c.waiters = c.waiters[1:]
	}
	vsched.Note(vsched.OpCondSignal, p, true, 1)
}

func (c *Cond) Broadcast() {
	if !vsched.Active() {
		c.passthrough().Broadcast()
		return
	}
	if vsched.Aborting() {
		return
	}
	p := unsafe.Pointer(c)
	vsched.Point(vsched.OpCondSignal, p, nil)
	for _, w := range c.waiters {
		w.signalled = true
	}
	c.waiters = nil
	vsched.Note(vsched.OpCondSignal, p, true, 2)
}
