// Package vtime replaces "time" in files transformed by overlaygen.  Inside a
// controlled execution the clock is virtual: it starts at vsched.Epoch and
// advances only when every thread is blocked or sleeping (to the earliest
// wake-up or timer).  Sleep/After/NewTimer/NewTicker/AfterFunc/Now use it;
// everything else is the real package (types are aliases, so values cross
// freely between transformed and untransformed code — except *Timer and
// *Ticker, which are types of this package: transform every file of a package
// that passes them around).
//
// Timer and ticker channels are real channels fed by the scheduler; a thread
// that RECEIVES from them blocks in the runtime, invisibly to the scheduler,
// until overlaygen rewrites channel operations (README "channel points").
//
// Virtual package github.com/dappledger/AnnChain/vshim/vtime; sources in
// /verif/sched/shim/vtime.  Go 1.12 language level.
package vtime

import (
	"time"

	"github.com/dappledger/AnnChain/vshim/vsched"
)

type (
	Duration   = time.Duration
	Time       = time.Time
	Month      = time.Month
	Weekday    = time.Weekday
	Location   = time.Location
	ParseError = time.ParseError
)

const (
	Nanosecond  = time.Nanosecond
	Microsecond = time.Microsecond
	Millisecond = time.Millisecond
	Second      = time.Second
	Minute      = time.Minute
	Hour        = time.Hour

	January   = time.January
	February  = time.February
	March     = time.March
	April     = time.April
	May       = time.May
	June      = time.June
	July      = time.July
	August    = time.August
	September = time.September
	October   = time.October
	November  = time.November
	December  = time.December

	Sunday    = time.Sunday
	Monday    = time.Monday
	Tuesday   = time.Tuesday
	Wednesday = time.Wednesday
	Thursday  = time.Thursday
	Friday    = time.Friday
	Saturday  = time.Saturday

	ANSIC       = time.ANSIC
	UnixDate    = time.UnixDate
	RubyDate    = time.RubyDate
	RFC822      = time.RFC822
	RFC822Z     = time.RFC822Z
	RFC850      = time.RFC850
	RFC1123     = time.RFC1123
	RFC1123Z    = time.RFC1123Z
	RFC3339     = time.RFC3339
	RFC3339Nano = time.RFC3339Nano
	Kitchen     = time.Kitchen
	Stamp       = time.Stamp
	StampMilli  = time.StampMilli
	StampMicro  = time.StampMicro
	StampNano   = time.StampNano
)

var (
	UTC   = time.UTC
	Local = time.Local
)

func Date(year int, month Month, day, hour, min, sec, nsec int, loc *Location) Time {
	return time.Date(year, month, day, hour, min, sec, nsec, loc)
}
func Unix(sec int64, nsec int64) Time             { return time.Unix(sec, nsec) }
func Parse(layout, value string) (Time, error)    { return time.Parse(layout, value) }
func ParseDuration(s string) (Duration, error)    { return time.ParseDuration(s) }
func FixedZone(name string, offset int) *Location { return time.FixedZone(name, offset) }
func LoadLocation(name string) (*Location, error) { return time.LoadLocation(name) }
func ParseInLocation(layout, value string, loc *Location) (Time, error) {
	return time.ParseInLocation(layout, value, loc)
}

func at(ns int64) Time { return time.Unix(0, ns) }

// Now returns the virtual time inside an execution.
func Now() Time {
	if !vsched.Active() {
		return time.Now()
	}
	n := vsched.Now()
	vsched.Note(vsched.OpNow, nil, false, uint64(n))
	return at(n)
}

func Since(t Time) Duration { return Now().Sub(t) }
func Until(t Time) Duration { return t.Sub(Now()) }

// Sleep parks the thread until virtual time has advanced by d.
func Sleep(d Duration) {
	if !vsched.Active() {
		time.Sleep(d)
		return
	}
	vsched.SleepPoint(int64(d))
}

// Timer is a virtual time.Timer.
type Timer struct {
	C     <-chan Time
	real  *time.Timer
	stop  func() bool
	reset func(d int64) bool
}

func newTimer(d Duration, f func()) *Timer {
	if !vsched.Active() {
		if f != nil {
			return &Timer{real: time.AfterFunc(d, f)}
		}
		r := time.NewTimer(d)
		return &Timer{C: r.C, real: r}
	}
	t := &Timer{}
	var fire func(now int64)
	if f != nil {
		fire = func(now int64) { vsched.Spawn(f) }
	} else {
		ch := make(chan Time, 1)
		t.C = ch
		fire = func(now int64) {
			select {
			case ch <- at(now):
			default:
			}
		}
	}
	if !vsched.Aborting() {
		vsched.Point(vsched.OpTimer, nil, nil)
	}
	t.stop, t.reset = vsched.AddTimer(int64(d), 0, fire)
	vsched.Note(vsched.OpTimer, nil, true, uint64(d))
	return t
}

func NewTimer(d Duration) *Timer            { return newTimer(d, nil) }
func AfterFunc(d Duration, f func()) *Timer { return newTimer(d, f) }
func After(d Duration) <-chan Time          { return newTimer(d, nil).C }

func (t *Timer) Stop() bool {
	if t.real != nil {
		return t.real.Stop()
	}
	if vsched.Active() && !vsched.Aborting() {
		vsched.Point(vsched.OpTimer, nil, nil)
		vsched.Note(vsched.OpTimer, nil, true, 0)
	}
	return t.stop()
}

func (t *Timer) Reset(d Duration) bool {
	if t.real != nil {
		return t.real.Reset(d)
	}
	if vsched.Active() && !vsched.Aborting() {
		vsched.Point(vsched.OpTimer, nil, nil)
		vsched.Note(vsched.OpTimer, nil, true, uint64(d))
	}
	return t.reset(int64(d))
}

// Ticker is a virtual time.Ticker.
type Ticker struct {
	C    <-chan Time
	real *time.Ticker
	stop func() bool
}

func NewTicker(d Duration) *Ticker {
	if !vsched.Active() {
		r := time.NewTicker(d)
		return &Ticker{C: r.C, real: r}
	}
	if d <= 0 {
		panic("non-positive interval for NewTicker")
	}
	ch := make(chan Time, 1)
	t := &Ticker{C: ch}
	if !vsched.Aborting() {
		vsched.Point(vsched.OpTimer, nil, nil)
	}
	t.stop, _ = vsched.AddTimer(int64(d), int64(d), func(now int64) {
		select {
		case ch <- at(now):
		default:
		}
	})
	vsched.Note(vsched.OpTimer, nil, true, uint64(d))
	return t
}

func (t *Ticker) Stop() {
	if t.real != nil {
		t.real.Stop()
		return
	}
	if vsched.Active() && !vsched.Aborting() {
		vsched.Point(vsched.OpTimer, nil, nil)
		vsched.Note(vsched.OpTimer, nil, true, 0)
	}
	t.stop()
}

func Tick(d Duration) <-chan Time {
	if d <= 0 {
		return nil
	}
	return NewTicker(d).C
}
