// Package body holds the harness bodies of the SCHED part of C17 for the real
// gemmill/types.PartSet: a receiver set built from a header (2-4 parts, real
// Merkle proofs), a sequential prefix, 2-3 (thorough 4) concurrent threads that
// deliver parts (genuine ones, duplicates, bad ones) or read the set, a
// sequential suffix, the final observers and — optionally — the delivery of
// every part followed by the read-back through GetReader.  Every call is
// recorded with its logical call/return time and its result; oracle.go judges
// the recorded history.
//
// It imports neither the scheduler nor the shim packages: how the concurrent
// threads are started and joined is injected (Spawner), so the same bodies are
// used by the controlled exploration (package c17b, built with the overlay)
// and by the free-running -race pass (racecmd, built without it).
package body

import (
	"bytes"
	"fmt"
	"io/ioutil"
	"strconv"
	"strings"
	"sync/atomic"

	"github.com/dappledger/AnnChain/gemmill/types"
)

// Object is the value of sig["object"].
const Object = "types.PartSet"

// PartSize is the size of every part but the last one, which is one byte
// shorter (data length = Total*PartSize-1).
const PartSize = 4

// Scenario is one thread set.  Operations are letters:
//
//	A:<i>      AddPart(a fresh copy of the genuine part i, verify=true): one delivery by one peer
//	B:<i>:<k>  AddPart(a bad part that names index i, verify=true); k = f (one byte of the genuine
//	           part flipped), a (one bit of the first aunt of its proof flipped), o (bytes and proof
//	           of the next genuine part under this index)
//	G:<i>      GetPart(i)
//	C          Count()
//	I          IsComplete()
//	M          BitArray()
//	R          the consumer: if IsComplete() { read everything from GetReader() }
type Scenario struct {
	Name    string     `json:"name"`
	Total   int        `json:"total"`           // number of parts of the set
	Pre     []string   `json:"pre,omitempty"`   // executed by the main thread before the threads start
	Threads [][]string `json:"threads"`         // concurrent
	Post    []string   `json:"post,omitempty"`  // executed by the main thread after all threads returned
	Drain   bool       `json:"drain,omitempty"` // after the final observers: A:0..A:total-1, then C, I, R
	Rungs   int        `json:"rungs,omitempty"` // explore only the first Rungs schedule spaces of the ladder (0 = all): wide thread sets
}

// Final returns the operations the main thread appends after Post.
func (sc Scenario) Final() []string {
	ops := []string{"C", "I", "M"}
	for i := 0; i < sc.Total; i++ {
		ops = append(ops, fmt.Sprintf("G:%d", i))
	}
	if sc.Drain {
		for i := 0; i < sc.Total; i++ {
			ops = append(ops, fmt.Sprintf("A:%d", i))
		}
		ops = append(ops, "C", "I", "R")
	}
	return ops
}

// String is the compact text used in evidence and details.
func (sc Scenario) String() string {
	var th []string
	for _, t := range sc.Threads {
		th = append(th, strings.Join(t, ","))
	}
	s := "[" + strings.Join(th, " | ") + "]"
	if len(sc.Pre) > 0 {
		s = strings.Join(sc.Pre, ",") + " ; " + s
	}
	if len(sc.Post) > 0 {
		s += " ; " + strings.Join(sc.Post, ",")
	}
	return fmt.Sprintf("%d parts: %s ; %s", sc.Total, s, strings.Join(sc.Final(), ","))
}

// Shape names the kind of concurrency of the scenario (part of signatures).
func (sc Scenario) Shape() string {
	adds := map[string]int{}
	bad, readers, consumer, dup := false, false, false, false
	for _, t := range sc.Threads {
		mine := map[string]bool{}
		for _, o := range t {
			switch o[0] {
			case 'A':
				if !mine[o] {
					mine[o] = true
					adds[o]++
				}
			case 'B':
				bad = true
			case 'R':
				consumer = true
			default:
				readers = true
			}
		}
	}
	for _, n := range adds {
		if n > 1 {
			dup = true
		}
	}
	s := "concurrent-distinct-parts"
	if dup {
		s = "concurrent-deliveries-of-the-same-part"
	}
	if len(adds) == 0 {
		s = "no-genuine-delivery"
	}
	if bad {
		s += "+bad-part"
	}
	if readers {
		s += "+readers"
	}
	if consumer {
		s += "+consumer"
	}
	return s
}

// Event is one call.  Call and Ret are values of a logical clock that ticks
// at every call and every return: a.Ret < b.Call means a returned before b
// was called.
type Event struct {
	Thread int    `json:"thread"` // 0 = main thread (prefix/suffix), 1.. = concurrent threads
	Op     string `json:"op"`
	Call   int64  `json:"call"`
	Ret    int64  `json:"ret"` // 0 = never returned (panic, deadlock)
	Res    string `json:"res"`
}

func (e Event) String() string {
	r := e.Res
	if r != "" {
		r = "=" + r
	}
	return fmt.Sprintf("T%d %s%s @%d..%d", e.Thread, e.Op, r, e.Call, e.Ret)
}

// Log is the recorded history of one execution.
type Log struct {
	clock  int64
	lanes  [][]Event // one per thread: no sharing between threads
	Joined bool      // all concurrent threads returned
	Done   bool      // the suffix was executed completely
}

// Events returns all calls ordered by call time.
func (l *Log) Events() []Event {
	var all []Event
	for _, ln := range l.lanes {
		all = append(all, ln...)
	}
	for i := 1; i < len(all); i++ {
		for j := i; j > 0 && all[j].Call < all[j-1].Call; j-- {
			all[j], all[j-1] = all[j-1], all[j]
		}
	}
	return all
}

// String is the canonical observation: per thread the results in program
// order (call/return times are not part of it).
func (l *Log) String() string {
	var b strings.Builder
	for t, ln := range l.lanes {
		if t > 0 {
			b.WriteString(" | ")
		}
		fmt.Fprintf(&b, "T%d:", t)
		for _, e := range ln {
			b.WriteString(" " + e.Op)
			if e.Ret == 0 {
				b.WriteString("!")
			} else if e.Res != "" {
				b.WriteString("=" + e.Res)
			}
		}
	}
	return b.String()
}

// ---------------------------------------------------------------- fixtures

// Fixture is the sender's side for one part count: data, header and genuine
// parts.  Built once at package initialisation (outside every execution) and
// only read afterwards; every delivery hands a fresh copy to the receiver.
type Fixture struct {
	Data   []byte
	Header types.PartSetHeader
	Parts  []*types.Part
}

// MaxTotal is the largest part count a scenario may name.
const MaxTotal = 4

var fixtures [MaxTotal + 1]*Fixture

func init() {
	for t := 1; t <= MaxTotal; t++ {
		d := make([]byte, t*PartSize-1)
		for i := range d {
			d[i] = byte(i*7 + 1)
		}
		s := types.NewPartSetFromData(d, PartSize)
		if s.Total() != t {
			panic(fmt.Sprintf("c17b: fixture of %d parts has %d", t, s.Total()))
		}
		f := &Fixture{Data: d, Header: s.Header()}
		for i := 0; i < t; i++ {
			f.Parts = append(f.Parts, ClonePart(s.GetPart(i)))
		}
		fixtures[t] = f
	}
}

// FixtureOf returns the sender's side for a part count.
func FixtureOf(total int) *Fixture {
	if total < 1 || total > MaxTotal {
		panic(fmt.Sprintf("c17b: no fixture for %d parts", total))
	}
	return fixtures[total]
}

// ClonePart copies index, bytes and proof (not the cached hash).
func ClonePart(p *types.Part) *types.Part {
	q := &types.Part{Index: p.Index, Bytes: append([]byte(nil), p.Bytes...)}
	if p.Proof.Aunts != nil {
		q.Proof.Aunts = make([][]byte, len(p.Proof.Aunts))
		for i, a := range p.Proof.Aunts {
			q.Proof.Aunts[i] = append([]byte(nil), a...)
		}
	}
	return q
}

// BadPart builds the bad part that names index i.
func BadPart(f *Fixture, i int, kind string) *types.Part {
	p := ClonePart(f.Parts[i])
	switch kind {
	case "f":
		p.Bytes[len(p.Bytes)/2] ^= 0x01
	case "a":
		if len(p.Proof.Aunts) == 0 {
			panic("c17b: bad part kind a needs a proof with an aunt")
		}
		p.Proof.Aunts[0][0] ^= 0x80
	case "o":
		p = ClonePart(f.Parts[(i+1)%len(f.Parts)])
		p.Index = i
	default:
		panic("c17b: bad part kind " + kind)
	}
	return p
}

// ParseOp splits a letter.
func ParseOp(op string) (kind byte, index int, arg string) {
	f := strings.Split(op, ":")
	kind = f[0][0]
	index = -1
	if len(f) > 1 {
		n, err := strconv.Atoi(f[1])
		if err != nil {
			panic("c17b: bad operation letter " + op)
		}
		index = n
	}
	if len(f) > 2 {
		arg = f[2]
	}
	return
}

// Spawner starts every function as a concurrent thread and returns when all of
// them have returned.
type Spawner func(fs []func())

type runner struct {
	ps  *types.PartSet
	fx  *Fixture
	log *Log
}

func (r *runner) do(thread int, op string) {
	lane := &r.log.lanes[thread]
	*lane = append(*lane, Event{Thread: thread, Op: op, Call: atomic.AddInt64(&r.log.clock, 1)})
	ev := &(*lane)[len(*lane)-1]
	kind, idx, arg := ParseOp(op)
	switch kind {
	case 'A', 'B':
		var p *types.Part
		if kind == 'A' {
			p = ClonePart(r.fx.Parts[idx])
		} else {
			p = BadPart(r.fx, idx, arg)
		}
		added, err := r.ps.AddPart(p, true)
		switch {
		case added && err == nil:
			ev.Res = "added"
		case added:
			ev.Res = "added+err"
		case err == nil:
			ev.Res = "no"
		default:
			ev.Res = "err"
		}
	case 'G':
		p := r.ps.GetPart(idx)
		switch {
		case p == nil:
			ev.Res = "nil"
		case p.Index == idx && bytes.Equal(p.Bytes, r.fx.Parts[idx].Bytes):
			ev.Res = "genuine"
		default:
			ev.Res = "other"
		}
	case 'C':
		ev.Res = strconv.Itoa(r.ps.Count())
	case 'I':
		ev.Res = strconv.FormatBool(r.ps.IsComplete())
	case 'M':
		ba := r.ps.BitArray()
		b := make([]byte, len(r.fx.Parts))
		for i := range b {
			b[i] = '0'
			if ba.GetIndex(i) {
				b[i] = '1'
			}
		}
		ev.Res = string(b)
	case 'R':
		if !r.ps.IsComplete() {
			ev.Res = "incomplete"
			break
		}
		got, err := ioutil.ReadAll(r.ps.GetReader())
		switch {
		case err != nil:
			ev.Res = "read-error"
		case bytes.Equal(got, r.fx.Data):
			ev.Res = "exact"
		default:
			ev.Res = "differs"
		}
	default:
		panic("c17b: bad operation letter " + op)
	}
	ev.Ret = atomic.AddInt64(&r.log.clock, 1)
}

// Run executes one scenario on a fresh real PartSet (built here, inside the
// execution, from the header only) and records the history into lg (allocated
// by the caller, so that a history cut short by a panic or a deadlock is still
// readable).
func Run(sc Scenario, spawn Spawner, lg *Log) {
	lg.lanes = make([][]Event, 1+len(sc.Threads))
	fx := FixtureOf(sc.Total)
	hdr := types.PartSetHeader{Total: fx.Header.Total, Hash: append([]byte(nil), fx.Header.Hash...)}
	r := &runner{ps: types.NewPartSetFromHeader(hdr), fx: fx, log: lg}
	for _, op := range sc.Pre {
		r.do(0, op)
	}
	fs := make([]func(), len(sc.Threads))
	for i := range sc.Threads {
		i := i
		fs[i] = func() {
			for _, op := range sc.Threads[i] {
				r.do(i+1, op)
			}
		}
	}
	spawn(fs)
	lg.Joined = true
	for _, op := range sc.Post {
		r.do(0, op)
	}
	for _, op := range sc.Final() {
		r.do(0, op)
	}
	lg.Done = true
}

// Scenarios lists the thread sets.
func Scenarios(quick bool) []Scenario {
	s := []Scenario{
		// ---- two parts ---------------------------------------------------
		{Name: "dup2", Total: 2, Threads: [][]string{{"A:0"}, {"A:0"}}, Drain: true},
		{Name: "dup2-last", Total: 2, Pre: []string{"A:0"}, Threads: [][]string{{"A:1"}, {"A:1"}}, Post: []string{"R"}},
		{Name: "dup2+other", Total: 2, Threads: [][]string{{"A:0"}, {"A:0"}, {"A:1"}}, Drain: true},
		{Name: "dup3", Total: 2, Threads: [][]string{{"A:0"}, {"A:0"}, {"A:0"}}, Drain: true},
		{Name: "cross", Total: 2, Threads: [][]string{{"A:0", "A:1"}, {"A:1", "A:0"}}, Post: []string{"R"}},
		{Name: "good-vs-flipped", Total: 2, Threads: [][]string{{"A:0"}, {"B:0:f"}}, Drain: true},
		{Name: "good-vs-other-part", Total: 2, Threads: [][]string{{"A:0"}, {"B:0:o"}}, Drain: true},
		{Name: "bad-vs-bad", Total: 2, Threads: [][]string{{"B:1:f"}, {"B:1:a"}}, Drain: true},
		{Name: "good-vs-bad-vs-good", Total: 2, Threads: [][]string{{"A:1"}, {"B:1:a"}, {"A:1"}}, Drain: true},
		{Name: "add-vs-readers", Total: 2, Threads: [][]string{{"A:0"}, {"G:0", "M", "I", "C"}}, Drain: true},
		{Name: "last-vs-readers", Total: 2, Pre: []string{"A:0"}, Threads: [][]string{{"A:1"}, {"I", "C", "G:1", "M"}}, Post: []string{"R"}},
		{Name: "dup2+consumer", Total: 2, Threads: [][]string{{"A:0"}, {"A:0"}, {"R"}}, Drain: true},
		{Name: "dup2-last+consumer", Total: 2, Pre: []string{"A:0"}, Threads: [][]string{{"A:1"}, {"A:1"}, {"R"}}, Post: []string{"R"}},
		{Name: "two+consumer", Total: 2, Threads: [][]string{{"A:1"}, {"A:0"}, {"R"}}, Post: []string{"R"}},
		// ---- three parts (proofs of two aunts) -----------------------------
		{Name: "3/dup2", Total: 3, Threads: [][]string{{"A:1"}, {"A:1"}}, Drain: true},
		{Name: "3/distinct", Total: 3, Threads: [][]string{{"A:2"}, {"A:0"}, {"A:1"}}, Post: []string{"R"}},
		{Name: "3/dup2-vs-bad", Total: 3, Threads: [][]string{{"A:2"}, {"A:2"}, {"B:2:a"}}, Drain: true},
		{Name: "3/ring", Total: 3, Threads: [][]string{{"A:0", "A:1"}, {"A:1", "A:2"}, {"A:2", "A:0"}}, Post: []string{"R"}},
		{Name: "3/dup2-then-rest+readers", Total: 3, Threads: [][]string{{"A:0", "A:1"}, {"A:0", "A:2"}, {"C", "I"}}, Drain: true},
	}
	if !quick {
		// four threads: preemption bound 3 (the widest set 2) — bound 3 of the widest set alone is a million schedules
		s = append(s,
			Scenario{Name: "dup4", Total: 2, Threads: [][]string{{"A:0"}, {"A:0"}, {"A:0"}, {"A:0"}}, Drain: true, Rungs: 4},
			Scenario{Name: "dup2x2", Total: 2, Threads: [][]string{{"A:0"}, {"A:0"}, {"A:1"}, {"A:1"}}, Post: []string{"R"}, Rungs: 4},
			Scenario{Name: "4/dup2+two+readers", Total: 4, Pre: []string{"A:3"}, Threads: [][]string{{"A:0"}, {"A:0"}, {"A:1", "A:2"}, {"I", "C", "M"}}, Drain: true, Rungs: 3},
		)
	}
	return s
}
