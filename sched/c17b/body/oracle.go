package body

// The oracle of the SCHED part of C17, written from the property text only:
// "a block split into parts ... is reassembled from those parts, received in
// any order and with duplicates, to exactly the original bytes and hash.  A
// receiver that knows only the part-set header accepts a part if and only if
// it is the genuine part at that index: any change to its bytes, index or
// proof is rejected without corrupting the set."
//
// The receiver's state the property talks about is the set of genuine parts it
// holds.  A part is HELD from some instant inside the first delivery (AddPart
// call) of the genuine part with that index that the receiver accepts, and for
// ever after; bad parts are never held.  For a recorded history (every call
// with its logical call/return time and its result) this gives, for every
// call e, two sets of indices:
//
//	sure(e)  = indices with a genuine delivery that answered "added" and RETURNED before e
//	           was called (a "not added" answer to a duplicate says nothing about when the
//	           overlapping accepted delivery becomes visible)
//	maybe(e) = indices with a genuine delivery that was CALLED before e returned
//
// and the clauses checked on every complete execution, in this order (the
// first one that fails names the class):
//
//	deliveries  a bad part is never accepted; a genuine delivery never fails with an error;
//	            of all deliveries of the same genuine part exactly one answers "added":
//	            never two (the part would be counted twice), and not none; an "added"
//	            answer is impossible once another delivery of that part has returned, a
//	            "not added" answer needs another delivery of that part called before it returned
//	GetPart(i)  never a part that is not the genuine one; nil only if i is not in sure, non-nil only if i in maybe
//	Count()     |sure| <= Count() <= |maybe|; never decreases in real-time order
//	IsComplete  true only if maybe = all parts, false only if sure != all parts
//	BitArray()  bit i clear only if i not in sure, set only if i in maybe
//	consumer    (if IsComplete() { read GetReader() }): "incomplete" only if sure != all,
//	            otherwise the bytes read are exactly the original data
//
// After the concurrent threads have returned sure = maybe = the distinct
// genuine parts delivered (exactly one delivery of each answered "added"), so the final observers are checked for equality:
// Count() = number of distinct genuine parts held, IsComplete() iff all parts
// are held, and — after every part was delivered — the reassembled bytes equal
// the original.  Nothing is demanded about error values of refused parts, the
// order of internal updates or what a duplicate delivery answers beyond
// added=false.

import (
	"fmt"
	"strconv"
	"strings"
)

// Judgement of a history ("" Kind = accepted).
type Judgement struct {
	Site, Kind, Shape, Detail string
}

// Judge checks the complete history of one execution of sc.
func Judge(sc Scenario, lg *Log) Judgement {
	evs := lg.Events()
	total := sc.Total
	fail := func(site, kind string, e Event, format string, a ...interface{}) Judgement {
		return Judgement{Site: site, Kind: kind, Shape: sc.Shape(),
			Detail: fmt.Sprintf("%s: %s; history: %s", e, fmt.Sprintf(format, a...), lg.String())}
	}
	isAdd := func(e Event, i int) bool {
		k, idx, _ := ParseOp(e.Op)
		return k == 'A' && idx == i
	}
	// ---- deliveries
	for _, e := range evs {
		k, _, _ := ParseOp(e.Op)
		if k == 'B' && strings.HasPrefix(e.Res, "added") {
			return fail("PartSet.AddPart", "accepts-non-genuine", e, "a bad part was accepted")
		}
		if k == 'A' && (e.Res == "err" || e.Res == "added+err") {
			return fail("PartSet.AddPart", "genuine-part-refused", e, "the delivery of a genuine part failed with an error")
		}
	}
	for i := 0; i < total; i++ {
		var adds, added []Event
		for _, e := range evs {
			if isAdd(e, i) {
				adds = append(adds, e)
				if e.Res == "added" {
					added = append(added, e)
				}
			}
		}
		if len(adds) == 0 {
			continue
		}
		if len(added) > 1 {
			return fail("PartSet.AddPart", "same-part-added-twice", added[1], "%d of %d deliveries of genuine part %d answered added=true (first: %s)", len(added), len(adds), i, added[0])
		}
		if len(added) == 0 {
			return fail("PartSet.AddPart", "genuine-part-never-added", adds[0], "none of the %d deliveries of genuine part %d answered added=true", len(adds), i)
		}
		for _, e := range adds {
			if e.Res == "added" {
				for _, o := range adds {
					if o.Ret < e.Call {
						return fail("PartSet.AddPart", "added-after-delivery-returned", e, "answered added=true although %s had returned", o)
					}
				}
			} else if added[0].Call > e.Ret {
				return fail("PartSet.AddPart", "duplicate-before-first", e, "answered added=false before the accepted delivery %s was called", added[0])
			}
		}
	}
	// ---- observers
	lastCount, lastCountEv := -1, Event{}
	for _, e := range evs {
		k, idx, _ := ParseOp(e.Op)
		if k == 'A' || k == 'B' {
			continue
		}
		sure, maybe := make([]bool, total), make([]bool, total)
		nSure, nMaybe := 0, 0
		for i := 0; i < total; i++ {
			for _, o := range evs {
				if !isAdd(o, i) {
					continue
				}
				if o.Res == "added" && o.Ret < e.Call && !sure[i] {
					sure[i] = true
					nSure++
				}
				if o.Call < e.Ret && !maybe[i] {
					maybe[i] = true
					nMaybe++
				}
			}
		}
		switch k {
		case 'G':
			switch {
			case e.Res == "other":
				return fail("PartSet.GetPart", "non-genuine-part-stored", e, "the set holds a part under index %d that is not the genuine one", idx)
			case e.Res == "nil" && sure[idx]:
				return fail("PartSet.GetPart", "delivered-part-missing", e, "genuine part %d was delivered (call returned) but is not held", idx)
			case e.Res == "genuine" && !maybe[idx]:
				return fail("PartSet.GetPart", "part-never-delivered", e, "part %d is held but was never delivered", idx)
			}
		case 'C':
			n, _ := strconv.Atoi(e.Res)
			if n < nSure || n > nMaybe {
				return fail("PartSet.Count", "count-differs-from-parts-held", e, "Count()=%d, distinct genuine parts held: at least %d, at most %d", n, nSure, nMaybe)
			}
			if lastCount > n && lastCountEv.Ret < e.Call {
				return fail("PartSet.Count", "count-decreased", e, "Count()=%d after %s", n, lastCountEv)
			}
			if n > lastCount {
				lastCount, lastCountEv = n, e
			}
		case 'I':
			if e.Res == "true" && nMaybe < total {
				return fail("PartSet.IsComplete", "complete-with-part-missing", e, "IsComplete()=true with at most %d of %d parts held", nMaybe, total)
			}
			if e.Res == "false" && nSure == total {
				return fail("PartSet.IsComplete", "incomplete-with-all-parts", e, "IsComplete()=false although all %d parts are held", total)
			}
		case 'M':
			for i := 0; i < total && i < len(e.Res); i++ {
				if e.Res[i] == '0' && sure[i] {
					return fail("PartSet.BitArray", "bit-clear-for-held-part", e, "bit %d is clear although part %d is held", i, i)
				}
				if e.Res[i] == '1' && !maybe[i] {
					return fail("PartSet.BitArray", "bit-set-for-missing-part", e, "bit %d is set although part %d was never delivered", i, i)
				}
			}
		case 'R':
			switch {
			case e.Res == "incomplete" && nSure == total:
				return fail("PartSet.IsComplete", "incomplete-with-all-parts", e, "the consumer sees IsComplete()=false although all %d parts are held", total)
			case e.Res == "incomplete":
			case nMaybe < total:
				return fail("PartSet.IsComplete", "complete-with-part-missing", e, "the consumer sees IsComplete()=true with at most %d of %d parts held", nMaybe, total)
			case e.Res != "exact":
				return fail("PartSet.GetReader", "reassembly", e, "the bytes read from the complete set are not the original data")
			}
		}
	}
	return Judgement{}
}
