// Package c17b is the SCHED part of property C17 for the real
// gemmill/types.PartSet ("received in any order and with duplicates"; the
// consensus reactor delivers parts from one goroutine per peer, so AddPart is
// called concurrently on one set): every interleaving, up to a preemption
// bound, of 2-3 (thorough 4) controlled threads that deliver genuine parts,
// duplicates and bad parts to one PartSet built from a header, or read it
// (GetPart / BitArray / IsComplete / Count / the consumer that reads
// GetReader once the set says it is complete).  gemmill/types/part_set.go and
// gemmill/modules/go-common/bit_array.go are transformed at check time by
// cmd/overlaygen, so every mutex operation of the set and of its bit array is
// a scheduling point.  Every complete execution's call history is judged by
// the oracle written from the property (body/oracle.go).  Plus a free-running
// -race pass of the same bodies (racecmd).
//
// Library: Run is called by the stand-alone main props/c17sched, which the C17
// check runs as a subprocess (it needs the overlay build; see
// props/c17/prebuild.sh).
package c17b

import (
	"bytes"
	"encoding/json"
	"fmt"
	"os"
	"os/exec"
	"path/filepath"
	"regexp"
	"runtime"
	"sort"
	"strings"
	"time"

	"verif/core"
	"verif/sched"
	"verif/sched/c17b/body"

	"github.com/dappledger/AnnChain/vshim/vsched"
	"github.com/dappledger/AnnChain/vshim/vsync"
)

// Program is the registered name of the harness.
const Program = "c17b"

type inst struct {
	sc  body.Scenario
	log body.Log
}

// spawn starts the scenario's threads as controlled threads and joins them
// with a virtual WaitGroup (harness-side synchronisation must be hooked too).
func spawn(fs []func()) {
	var wg vsync.WaitGroup
	wg.Add(len(fs))
	for _, f := range fs {
		f := f
		vsched.Go(func() {
			defer wg.Done()
			f()
		})
	}
	wg.Wait()
}

func (i *inst) Body() { body.Run(i.sc, spawn, &i.log) }

func (i *inst) Check(x *vsched.Exec) sched.Verdict {
	obs := i.log.String()
	v := sched.Verdict{Obs: x.Kind + ": " + obs}
	switch x.Kind {
	case vsched.KindDone:
		if !i.log.Done {
			v.Sig = map[string]string{"object": body.Object, "site": "harness", "kind": "incomplete-history"}
			v.Detail = "the execution ended without the final observation: " + obs
			break
		}
		j := body.Judge(i.sc, &i.log)
		if j.Kind != "" {
			v.Sig = map[string]string{"object": body.Object, "site": j.Site, "kind": j.Kind, "shape": j.Shape}
			v.Detail = j.Detail
		}
	case vsched.KindPanic:
		v.Sig = map[string]string{"object": body.Object, "site": sched.PanicSite(x.PanicStack), "kind": "panic", "shape": i.sc.Shape()}
		v.Detail = "panic: " + core.FirstLine(x.PanicVal) + " after " + obs
	default: // deadlock, livelock, horizon
		v.Sig = map[string]string{"object": body.Object, "site": "PartSet", "kind": x.Kind, "shape": i.sc.Shape()}
		v.Detail = fmt.Sprintf("%s after [%s]; threads: %s", x.Kind, obs, strings.Join(x.Blocked, "; "))
	}
	return v
}

func init() {
	sched.Register(Program, func(c json.RawMessage) (sched.Instance, error) {
		var sc body.Scenario
		if err := json.Unmarshal(c, &sc); err != nil {
			return nil, err
		}
		if len(sc.Threads) < 1 || sc.Total < 1 || sc.Total > body.MaxTotal {
			return nil, fmt.Errorf("bad scenario %s", c)
		}
		return &inst{sc: sc}, nil
	})
	sched.WorkerEntry()
}

// Case is the replay artefact of a violating schedule.
type Case struct {
	Engine   string        `json:"engine"` // "SCHED"
	Program  string        `json:"program"`
	Scenario body.Scenario `json:"scenario"`
	Bound    int           `json:"preemptions"`
	Choices  []int32       `json:"choices"` // index into the ordered candidate list at every scheduling decision; defaults (0) afterwards
	Threads  []int32       `json:"thread_chosen"`
}

const horizon = 2000

// Replay re-executes the schedule of a replay artefact (returns false if the
// artefact is not a SCHED case of this program).
func Replay(run *core.Run) bool {
	var k Case
	if err := run.ReplayCase(&k); err != nil || k.Engine != "SCHED" || k.Program != Program {
		return false
	}
	kind, v, trace := sched.Replay(Program, k.Scenario, k.Choices, horizon)
	fmt.Printf("replayed %d choices on thread set %s: %s\n", len(k.Choices), k.Scenario, kind)
	if os.Getenv("C17B_TRACE") != "" {
		fmt.Println(strings.Join(trace, "\n"))
	}
	fmt.Println("  observation:", v.Obs)
	if v.Sig != nil {
		run.Report(v.Sig, k, v.Detail)
	}
	return true
}

// Assumptions of the SCHED part.
func Assumptions() []string {
	return []string{
		"SCHED (PartSet): interleavings are explored at the hooked operations (sync.Mutex Lock/Unlock) of gemmill/types/part_set.go and gemmill/modules/go-common/bit_array.go; code between two points runs atomically, so the unlocked reads of PartSet.Count/IsComplete/GetReader are atomic steps; Go memory-model effects other than interleaving are not modelled (the -race pass is the only guard and contributes candidates only)",
		"SCHED: bounded — sets of 2..3 (thorough 4) parts of 4 bytes (the last one 3) built from the header with the real Merkle proofs; 2..3 (thorough 4) threads of 1..4 operations; every delivery hands the receiver its own copy of the part (as the reactor decodes one message per peer), verify=true; bad parts: one byte flipped, one aunt bit flipped, another part's bytes and proof under this index; preemption bound as reported",
		"SCHED oracle (from the property, no reference to internals): a genuine part is held from some instant inside its first accepted delivery; exactly one of the deliveries of the same genuine part answers added=true; bad parts are never accepted or stored; Count() lies between the number of parts surely held and possibly held at that moment and equals the number of distinct genuine parts held once the threads have returned; IsComplete() iff all parts are held; after every part was delivered the bytes read from GetReader equal the original; error values of refused parts are not compared",
	}
}

// Run explores and returns the coverage of the SCHED part of C17.  Violating
// schedules are reported on run.
func Run(run *core.Run) core.Coverage {
	self := sched.SelfTest()

	scs := body.Scenarios(run.Quick())
	if v := os.Getenv("C17B_ONLY"); v != "" { // development aid
		var keep []body.Scenario
		for _, s := range scs {
			if strings.Contains(","+v+",", ","+s.Name+",") {
				keep = append(keep, s)
			}
		}
		scs = keep
	}
	// Pure preemption bounding (unlimited free switches): with 2-4 threads of
	// 4-6 scheduling points per call the hand-overs at blocking/finishing points
	// are few.  The time budgets are safety nets: the quick ladder (bound 4:
	// about 270 000 schedules) completes in well under a minute on a loaded machine.
	rungs := []sched.Rung{{Bound: 0, MaxFree: -1}, {Bound: 1, MaxFree: -1}, {Bound: 2, MaxFree: -1}, {Bound: 3, MaxFree: -1}, {Bound: 4, MaxFree: -1}}
	target := len(rungs) // rungs that must complete for exhaustive=true
	budget := 300 * time.Second
	if !run.Quick() {
		// bound 5: about 600 000 schedules for the sets of 2-3 threads; the sets of 4
		// threads stop earlier (body.Scenario.Rungs: bound 3 = 350 000, the widest one bound 2)
		rungs = append(rungs, sched.Rung{Bound: 5, MaxFree: -1})
		target = len(rungs)
		budget = 600 * time.Second
	}
	if v := os.Getenv("C17B_RUNGS"); v != "" { // development aid: "1:0,0:-1"
		rungs = nil
		for _, f := range strings.Split(v, ",") {
			var r sched.Rung
			fmt.Sscanf(f, "%d:%d", &r.Bound, &r.MaxFree)
			rungs = append(rungs, r)
		}
		target = len(rungs)
	}
	if v := os.Getenv("C17B_BUDGET_S"); v != "" {
		var sec int
		fmt.Sscan(v, &sec)
		budget = time.Duration(sec) * time.Second
	}
	var tasks []sched.Task
	for _, s := range scs {
		tasks = append(tasks, sched.Task{Label: s.Name, Program: Program, Config: s, Horizon: horizon, Rungs: s.Rungs})
	}

	nw := runtime.GOMAXPROCS(0)
	if nw > 16 {
		nw = 16
	}
	pool := sched.NewPool(Program, nw)
	rep := sched.Explore(pool, tasks, sched.Limits{Rungs: rungs, Deadline: time.Now().Add(budget)})
	pool.Close()

	type hit struct {
		f  sched.Found
		sc body.Scenario
	}
	var hits []hit
	kinds := map[string]int64{}
	var transitions, classes, valhists int64
	distinctObs := 0
	perSet := []interface{}{}
	samples := core.NewSampler(6, run.Seed)
	for _, tr := range rep.Tasks {
		sc := tr.Task.Config.(body.Scenario)
		maxClasses, maxVals := 0, 0
		obsSet := map[string]bool{}
		var last *sched.Pass
		var execs int64
		for _, p := range tr.Passes {
			for _, f := range p.Found {
				hits = append(hits, hit{f, sc})
			}
			transitions += p.Executions
			execs += p.Executions
			if p.Classes > maxClasses {
				maxClasses = p.Classes
			}
			if p.ValHists > maxVals {
				maxVals = p.ValHists
			}
			for o, n := range p.Outcomes {
				obsSet[o[strings.Index(o, ":"):]] = true
				kinds[o[:strings.Index(o, ":")]] += n
			}
			if p.Complete {
				last = p
			}
		}
		classes += int64(maxClasses)
		valhists += int64(maxVals)
		distinctObs += len(obsSet)
		row := map[string]interface{}{"thread_set": sc.Name, "operations": sc.String(), "executions_all_spaces": execs, "distinct_outcomes": len(obsSet)}
		if sc.Rungs > 0 {
			row["explored_only_the_first_spaces"] = sc.Rungs
		}
		if last != nil {
			row["largest_space_completed"] = last.Rung.String()
			row["executions_in_it"] = last.Executions
			row["scheduling_points_max"] = last.PointsMax
			row["threads"] = last.Threads
			row["distinct_sync_orders"] = last.Classes
			row["distinct_read_value_histories"] = last.ValHists
			row["outcomes"] = last.OutcomeSet()
			samples.Add(map[string]interface{}{"thread_set": sc.Name, "operations": sc.String(), "space": last.Rung.String(), "schedules": last.Executions, "default_schedule_observation": last.RootObs})
		}
		var viol []string
		seen := map[string]bool{}
		for _, p := range tr.Passes {
			for _, f := range p.Found {
				k := f.Sig["kind"] + "/" + f.Sig["shape"]
				if !seen[k] {
					seen[k] = true
					viol = append(viol, fmt.Sprintf("%s (first at %d preemption(s))", k, f.Preemptions))
				}
			}
		}
		if len(viol) > 0 {
			row["violating_classes"] = viol
		}
		perSet = append(perSet, row)
	}
	sort.SliceStable(hits, func(i, j int) bool {
		if hits[i].f.Preemptions != hits[j].f.Preemptions {
			return hits[i].f.Preemptions < hits[j].f.Preemptions
		}
		return len(hits[i].f.Choices) < len(hits[j].f.Choices)
	})
	foundKinds := map[string]int{}
	for _, h := range hits {
		foundKinds[h.f.Sig["kind"]+"/"+h.f.Sig["shape"]]++
		k := Case{Engine: "SCHED", Program: Program, Scenario: h.sc, Bound: h.f.Preemptions, Choices: h.f.Choices, Threads: h.f.Tids}
		detail := fmt.Sprintf("[%s] thread set %s: %s, schedule with %d preemption(s) (%d scheduling decisions replayed, then defaults): %s", body.Object, h.sc.Name, h.sc, h.f.Preemptions, len(h.f.Choices), h.f.Detail)
		run.Report(h.f.Sig, k, detail)
	}

	cov := core.Coverage{}
	for k, v := range rep.Summary() {
		cov[k] = v
	}
	cov["engine_self_tests"] = self
	cov["states"] = classes
	cov["transitions"] = transitions
	cov["traces_validated_against_impl"] = transitions
	cov["evaluations"] = transitions
	cov["distinct_nontrivial"] = distinctObs
	cov["distinct_read_value_histories"] = valhists
	cov["per_thread_set"] = perSet
	cov["execution_kinds"] = kinds
	cov["execution_kinds_note"] = "done = the history satisfies every clause of the oracle; anything else (panic, deadlock, livelock, horizon, a failed clause) is reported as a violation"
	cov["violating_schedule_classes"] = foundKinds
	cov["tasks"] = len(tasks)
	cov["worker_processes"] = nw
	cov["determinism_self_check"] = determinismCheck(scs)
	exhaustive := rep.RungsCompleted >= target
	cov["exhaustive"] = exhaustive
	var ladder []string
	for _, r := range rungs {
		ladder = append(ladder, r.String())
	}
	cov["bounds"] = map[string]interface{}{"parts_per_set": "2..3 quick, ..4 thorough", "part_size_bytes": body.PartSize, "threads": "2..3 quick, ..4 thorough", "operations_per_thread": "1..4",
		"schedule_spaces_in_order": ladder, "spaces_required_for_exhaustive": target, "step_horizon": horizon}
	cov["rule"] = "per thread set (see per_thread_set.operations: sequential prefix ; [thread | thread | …] ; sequential suffix ; final observers Count, IsComplete, BitArray, GetPart of every index ; with drain: delivery of every part, Count, IsComplete, read-back through GetReader) and per schedule space (preemptions<=b, free-switch deviations<=f; bounds.schedule_spaces_in_order, exhausted in that order): stateless DFS over the scheduling decisions of the real PartSet.AddPart/GetPart/BitArray (+ the BitArray the set keeps) — every alternative thread at every scheduling point (mutex Lock/Unlock, thread start, join) whose schedule stays inside the space; transitions = schedules executed (each one on the real code, each one judged by the oracle); states = distinct per-object operation orders; distinct_nontrivial = distinct outcomes (per-thread result sequences) summed over thread sets — per_thread_set.distinct_outcomes = 1 would mean that nothing collided in that set"
	if !rep.Exhaustive {
		pure, restr := rep.MaxPreemptionBound()
		cov["cap"] = fmt.Sprintf("time budget %v reached after %d of %d schedule spaces (the first %d are required for exhaustive=true): largest preemption bound completed = %d (with unlimited free switches: %d)", budget, rep.RungsCompleted, len(rungs), target, restr, pure)
	}
	cov["samples"] = samples.List()
	racePass(run, cov, foundKinds)
	return cov
}

// determinismCheck replays one recorded non-default schedule of the first
// thread set twice in this process and compares observation and kind (the
// explorer additionally proves determinism for every (thread set, space): see
// determinism_proof_replays).
func determinismCheck(scs []body.Scenario) map[string]interface{} {
	if len(scs) == 0 {
		return nil
	}
	sc := scs[0]
	cfg, _ := json.Marshal(sc)
	x, v0, err := sched.RunOnce(Program, cfg, nil, nil, nil, horizon, false)
	if err != nil {
		core.Fatal("determinism self-check: %v", err)
	}
	// deviate at the last decision point that had an alternative
	choices := make([]int32, len(x.Points))
	at := -1
	for i, p := range x.Points {
		if p.N > 1 && p.CurEnabled {
			at = i
		}
	}
	if at >= 0 {
		choices = choices[:at+1]
		choices[at] = 1
	}
	var digests []string
	var obs []string
	for rep := 0; rep < 2; rep++ {
		y, v, err := sched.RunOnce(Program, cfg, choices, nil, nil, horizon, false)
		if err != nil || y.Kind == vsched.KindDiverged {
			core.Fatal("determinism self-check: replay failed (%v)", err)
		}
		digests = append(digests, fmt.Sprintf("%016x/%016x/%d", y.Digest, y.Class, len(y.Points)))
		obs = append(obs, v.Obs)
	}
	if digests[0] != digests[1] || obs[0] != obs[1] {
		core.Fatal("determinism self-check failed: the same schedule of %s gave %s / %s and %q / %q", sc.Name, digests[0], digests[1], obs[0], obs[1])
	}
	return map[string]interface{}{"thread_set": sc.Name, "schedule": fmt.Sprintf("default up to decision %d, then the first alternative, then defaults", at), "replays": 2,
		"digest_points": digests[0], "observation": obs[0], "default_schedule_observation": v0.Obs, "identical": true}
}

// ---------------------------------------------------------------- free-running -race pass

var raceFn = regexp.MustCompile(`gemmill/(?:types|modules/go-common)\.([A-Za-z0-9_()*.]+?)\(\)\n\s+\S+?:(\d+)`)

func racePass(run *core.Run, cov core.Coverage, foundKinds map[string]int) {
	bin := os.Getenv("C17B_RACE_BIN")
	if bin == "" {
		if self, err := os.Executable(); err == nil {
			bin = filepath.Join(filepath.Dir(self), "c17race")
		}
	}
	if _, err := os.Stat(bin); err != nil {
		cov["race_pass"] = "skipped: " + bin + " not built (props/c19sched/prebuild.sh builds it with go build -race)"
		return
	}
	reps, secs := "300", "12"
	if !run.Quick() {
		reps, secs = "3000", "60"
	}
	cmd := exec.Command(bin, reps, run.Tier, secs)
	cmd.Env = append(os.Environ(), "GOMAXPROCS=8", "GORACE=halt_on_error=0 exitcode=0")
	var so, se bytes.Buffer
	cmd.Stdout, cmd.Stderr = &so, &se
	start := time.Now()
	err := cmd.Run()
	res := map[string]interface{}{"wall_s": float64(int(time.Since(start).Seconds()*10)) / 10}
	var sum struct {
		Runs       int               `json:"runs"`
		Mismatches map[string]string `json:"mismatches"`
		Outcomes   map[string]int    `json:"distinct_outcomes_per_thread_set"`
		PerConfig  int               `json:"reps_per_thread_set"`
	}
	if err != nil || json.Unmarshal(so.Bytes(), &sum) != nil {
		core.Fatal("race pass: %v\n%s\n%s", err, so.String(), tail(se.String(), 2000))
	}
	reports := strings.Count(se.String(), "WARNING: DATA RACE")
	cands := map[string]int{}
	for _, rp := range strings.Split(se.String(), "WARNING: DATA RACE")[1:] {
		var acc []string
		for _, sec := range strings.SplitN(rp, "Previous ", 2) {
			if m := raceFn.FindStringSubmatch(sec); m != nil {
				acc = append(acc, m[1]+":"+m[2])
			}
		}
		sort.Strings(acc)
		cands[strings.Join(acc, " / ")]++
	}
	res["free_runs"] = sum.Runs
	res["reps_per_thread_set"] = sum.PerConfig
	res["distinct_outcomes_per_thread_set"] = sum.Outcomes
	res["data_race_reports"] = reports
	res["race_candidates"] = cands
	res["free_run_oracle_mismatches"] = sum.Mismatches
	if reports == 0 && len(sum.Mismatches) == 0 {
		res["status"] = "clean"
	} else {
		var conf, open []string
		for k := range sum.Mismatches {
			if foundKinds[k] > 0 {
				conf = append(conf, k+": CONFIRMED — a SCHED schedule of the same class is reported with its replayable schedule")
			} else {
				open = append(open, k)
			}
		}
		sort.Strings(conf)
		sort.Strings(open)
		res["status"] = "race reports and free-run mismatches are violation CANDIDATES only; a candidate counts when a SCHED schedule exhibits the same class"
		res["confirmed_by_sched"] = conf
		res["not_confirmed"] = open
	}
	cov["race_pass"] = res
}

func tail(s string, n int) string {
	if len(s) > n {
		return s[len(s)-n:]
	}
	return s
}
