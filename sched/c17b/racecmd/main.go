// racecmd is the free-running -race pass of the SCHED part of C17: the same
// harness bodies as package c17b (verif/sched/c17b/body), but built WITHOUT
// the overlay (real sync, real goroutines) and WITH `go build -race`, because
// the hand-offs of a cooperative scheduler are happens-before edges that blind
// the race detector.  Usage: c17race <reps> [quick|thorough] [seconds]: every
// thread set is run <reps> times, in rounds over all thread sets, until the
// time budget is used up.  Prints a JSON summary on stdout; race reports go to
// stderr.  A race report or an oracle mismatch here is a violation CANDIDATE
// only (the caller looks for a SCHED schedule of the same class).
package main

import (
	"encoding/json"
	"fmt"
	"os"
	"runtime"
	"strconv"
	"sync"
	"time"

	"verif/sched/c17b/body"
)

// spawn: real goroutines released together; a panic of the code under test is
// recorded instead of killing the process.
func spawn(panics *[]string) body.Spawner {
	return func(fs []func()) {
		var wg sync.WaitGroup
		var mu sync.Mutex
		gate := make(chan struct{})
		wg.Add(len(fs))
		for _, f := range fs {
			f := f
			go func() {
				defer wg.Done()
				defer func() {
					if r := recover(); r != nil {
						mu.Lock()
						*panics = append(*panics, fmt.Sprint(r))
						mu.Unlock()
					}
				}()
				<-gate
				f()
			}()
		}
		runtime.Gosched()
		close(gate)
		wg.Wait()
	}
}

func main() {
	reps := 100
	if len(os.Args) > 1 {
		reps, _ = strconv.Atoi(os.Args[1])
	}
	quick := !(len(os.Args) > 2 && os.Args[2] == "thorough")
	deadline := time.Now().Add(time.Hour)
	if len(os.Args) > 3 {
		sec, _ := strconv.Atoi(os.Args[3])
		deadline = time.Now().Add(time.Duration(sec) * time.Second)
	}
	runs, rounds := 0, 0
	mism := map[string]string{}
	seen := map[string]map[string]bool{}
	scs := body.Scenarios(quick)
	for r := 0; r < reps && (r == 0 || time.Now().Before(deadline)); r++ {
		for _, sc := range scs {
			var lg body.Log
			var panics []string
			body.Run(sc, spawn(&panics), &lg)
			runs++
			if seen[sc.Name] == nil {
				seen[sc.Name] = map[string]bool{}
			}
			seen[sc.Name][lg.String()] = true
			if len(panics) > 0 {
				mism["panic/"+sc.Shape()] = fmt.Sprintf("thread set %s: %v after %s", sc.Name, panics, lg.String())
				continue
			}
			if v := body.Judge(sc, &lg); v.Kind != "" {
				mism[v.Kind+"/"+v.Shape] = fmt.Sprintf("thread set %s: %s", sc.Name, v.Detail)
			}
		}
		rounds++
	}
	outcomes := map[string]int{}
	for k, v := range seen {
		outcomes[k] = len(v)
	}
	b, _ := json.Marshal(map[string]interface{}{"runs": runs, "mismatches": mism, "reps_per_thread_set": rounds, "reps_requested": reps, "distinct_outcomes_per_thread_set": outcomes})
	fmt.Println(string(b))
}
