// Package body holds the harness bodies of the SCHED part of C05: blocks of
// three transactions over {valid signature, invalid signature, undecodable
// bytes}, the logging callback stubs, and the oracle that compares the
// callback sequence of the repository's parallel signature verifier with the
// one of its serial verifier.  It imports neither the scheduler nor the shim,
// so the same bodies are used by the controlled exploration (package c05b,
// built with the overlay) and by the free-running -race pass (racecmd, built
// without it).
package body

import (
	"bytes"
	"fmt"
	"math/big"
	"strings"
	"sync"

	"verif/evmkit"

	"github.com/dappledger/AnnChain/chain/app/evm"
	"github.com/dappledger/AnnChain/eth/common"
	"github.com/dappledger/AnnChain/eth/core/types"
	"github.com/dappledger/AnnChain/eth/crypto"
	"github.com/dappledger/AnnChain/eth/rlp"
	gtypes "github.com/dappledger/AnnChain/gemmill/types"
)

// Kinds of a transaction slot.
const (
	Valid       = 'V' // really signed, Homestead
	BadSig      = 'B' // decodable, signature rejected by the application's signer
	Undecodable = 'U' // bytes that are not a transaction
)

// KindName maps a slot letter to the word used in signatures.
func KindName(k byte) string {
	switch k {
	case Valid:
		return "valid"
	case BadSig:
		return "badsig"
	case Undecodable:
		return "undecodable"
	}
	return "?"
}

// Signer is the application's signer (chain/app/evm NewEVMApp).
var Signer types.Signer = types.HomesteadSigner{}

type txInfo struct {
	raw  []byte
	kind byte
	pos  int
	hash common.Hash // hash of the decoded transaction (decodable kinds)
}

var (
	once  sync.Once
	table [3]map[byte]*txInfo
	byRaw map[string]*txInfo
)

// secp256k1 group order
var curveN, _ = new(big.Int).SetString("fffffffffffffffffffffffffffffffebaaedce6af48a03bbfd25e8cd0364141", 16)

func build() {
	byRaw = map[string]*txInfo{}
	for pos := 0; pos < 3; pos++ {
		table[pos] = map[byte]*txInfo{}
		acc := evmkit.Key(10 + pos)
		to := evmkit.Key(20 + pos).Addr
		spec := evmkit.TxSpec{Nonce: uint64(pos), To: &to, Gas: evmkit.DefaultGas, Data: []byte{byte(pos)}}
		valid := evmkit.Sign(acc, spec)
		// three ways of carrying a signature the Homestead signer refuses
		bspec := spec
		bspec.Data = []byte{0xb0, byte(pos)}
		v, r, s := evmkit.SigValues(acc, bspec)
		var bad []byte
		switch pos {
		case 0: // malleated: s' = N - s is in the upper half of the group order
			hi := new(big.Int).Sub(curveN, s)
			if hi.Cmp(s) < 0 {
				hi = s
			}
			bad = evmkit.EncodeTx(bspec, v, r, hi)
		case 1: // impossible recovery id
			bad = evmkit.EncodeTx(bspec, big.NewInt(29), r, s)
		default: // r = 0
			bad = evmkit.EncodeTx(bspec, v, new(big.Int), s)
		}
		var und []byte
		switch pos {
		case 0:
			und = []byte{0xde, 0xad, 0xbe, 0xef}
		case 1: // a signed transaction cut short
			und = append([]byte(nil), valid[:len(valid)-7]...)
		default: // a well-formed RLP list with too few fields
			und, _ = rlp.EncodeToBytes([]interface{}{uint64(7), []byte("not a tx")})
		}
		for k, raw := range map[byte][]byte{Valid: valid, BadSig: bad, Undecodable: und} {
			ti := &txInfo{raw: raw, kind: k, pos: pos}
			tx := new(types.Transaction)
			derr := rlp.DecodeBytes(raw, tx)
			var serr error
			if derr == nil {
				ti.hash = tx.Hash()
				_, serr = types.Sender(Signer, tx)
			}
			ok := false
			switch k {
			case Valid:
				ok = derr == nil && serr == nil
			case BadSig:
				ok = derr == nil && serr != nil
			case Undecodable:
				ok = derr != nil
			}
			if !ok {
				panic(fmt.Sprintf("c05b fixture: transaction %c at position %d is not of its kind (decode error %v, sender error %v)", k, pos, derr, serr))
			}
			table[pos][k] = ti
			byRaw[string(raw)] = ti
		}
	}
	_ = crypto.Keccak256
}

// Block returns the block for a three-letter kinds string such as "VBU".
func Block(kinds string) gtypes.Txs {
	once.Do(build)
	txs := make(gtypes.Txs, len(kinds))
	for i := 0; i < len(kinds); i++ {
		txs[i] = gtypes.Tx(append([]byte(nil), table[i][kinds[i]].raw...))
	}
	return txs
}

// AllBlocks lists {V,B,U}^3.
func AllBlocks() []string {
	var out []string
	for _, a := range "VBU" {
		for _, b := range "VBU" {
			for _, c := range "VBU" {
				out = append(out, string([]rune{a, b, c}))
			}
		}
	}
	return out
}

// Event is one logged callback.
type Event struct {
	Op    byte // 'B' begin, 'X' exec, 'E' end
	Index int  // exec: index argument
	Slot  string
	Err   bool // end: error argument non-nil
	Note  string
}

// Log is the callback log of one run.
type Log struct {
	Events []Event
	Ret    string // return value of the driver ("" = nil)
}

func slotOf(raw []byte) string {
	if ti, ok := byRaw[string(raw)]; ok {
		return fmt.Sprintf("%d%c", ti.pos, ti.kind)
	}
	if raw == nil {
		return "nil"
	}
	return fmt.Sprintf("unknown:%x", raw)
}

// Stub returns the harness callbacks.  With gate == false the stub is a
// "trusting application": exec records the call and succeeds (this is what
// the parallel verifier promises to make safe — chain/app/evm executeKVTx, for
// one, ignores the sender-recovery error).  With gate == true exec first
// checks the signature itself and fails without recording anything if it is
// invalid: that is the contract of the SERIAL verifier, which leaves the
// signature check to exec (the repository's own test stub does the same).
func Stub(l *Log, gate bool) evm.BeginExecFunc {
	return func() (evm.ExecFunc, evm.EndExecFunc) {
		l.Events = append(l.Events, Event{Op: 'B'})
		exec := func(index int, raw []byte, tx *types.Transaction) error {
			if gate {
				if _, err := types.Sender(Signer, tx); err != nil {
					return err
				}
			}
			e := Event{Op: 'X', Index: index, Slot: slotOf(raw)}
			ti := byRaw[string(raw)]
			switch {
			case tx == nil:
				e.Note = "tx=nil"
			case ti == nil || safeHash(tx) != ti.hash || ti.kind == Undecodable:
				e.Note = "tx-is-not-the-decoding-of-raw"
			}
			l.Events = append(l.Events, e)
			return nil
		}
		end := func(raw []byte, err error) bool {
			l.Events = append(l.Events, Event{Op: 'E', Slot: slotOf(raw), Err: err != nil})
			return true
		}
		return exec, end
	}
}

// safeHash hashes a transaction object that may be a half-decoded carcass
// (the zero hash then).
func safeHash(tx *types.Transaction) (h common.Hash) {
	defer func() {
		if recover() != nil {
			h = common.Hash{}
		}
	}()
	return tx.Hash()
}

// String renders the log canonically, e.g. "B X0:0V E:0V:ok | B E:1B:err | …".
func (l *Log) String() string {
	var b bytes.Buffer
	for i, e := range l.Events {
		switch e.Op {
		case 'B':
			if i > 0 {
				b.WriteString(" | ")
			}
			b.WriteString("B")
		case 'X':
			fmt.Fprintf(&b, " X%d:%s", e.Index, e.Slot)
			if e.Note != "" {
				b.WriteString("(" + e.Note + ")")
			}
		case 'E':
			r := "ok"
			if e.Err {
				r = "err"
			}
			fmt.Fprintf(&b, " E:%s:%s", e.Slot, r)
		}
	}
	if l.Ret != "" {
		b.WriteString(" ret=" + l.Ret)
	}
	return b.String()
}

// RunParallel runs the repository's parallel verifier on the block with n
// signature-checking goroutines and the trusting stub.
func RunParallel(kinds string, n int, l *Log) {
	txs := Block(kinds)
	evm.SetVerifValidateRoutineCount(n)
	if err := evm.VerifExeParallel(Signer, txs, nil, Stub(l, false)); err != nil {
		l.Ret = "error"
	}
}

// RunSerial runs the repository's serial verifier on the block with the
// gating stub: the reference callback sequence.
func RunSerial(kinds string) *Log {
	l := &Log{}
	evm.VerifExeSerial(Block(kinds), Stub(l, true))
	return l
}

var (
	refMu sync.Mutex
	refs  = map[string]string{}
)

// Reference returns the serial verifier's callback sequence for the block.
func Reference(kinds string) string {
	refMu.Lock()
	defer refMu.Unlock()
	if r, ok := refs[kinds]; ok {
		return r
	}
	r := RunSerial(kinds).String()
	refs[kinds] = r
	return r
}

// Compare is the oracle: got must equal the serial reference.  It returns
// the class of the first difference ("" = equal) and the kind letter of the
// transaction concerned.
func Compare(kinds string, got string) (kind string, txKind byte, detail string) {
	want := Reference(kinds)
	if got == want {
		return "", 0, ""
	}
	wg, gg := strings.Split(want, " | "), strings.Split(got, " | ")
	for i := 0; i < len(wg) || i < len(gg); i++ {
		var w, g string
		if i < len(wg) {
			w = wg[i]
		}
		if i < len(gg) {
			g = gg[i]
		}
		if w == g {
			continue
		}
		var tk byte = '?'
		if i < len(kinds) {
			tk = kinds[i]
		}
		wX, gX := strings.Contains(w, " X"), strings.Contains(g, " X")
		wOK, gOK := strings.HasSuffix(w, ":ok"), strings.HasSuffix(g, ":ok")
		gEnd := strings.Contains(g, " E:")
		endSlot := func(x string) string {
			if i := strings.Index(x, " E:"); i >= 0 {
				if f := strings.Split(x[i+3:], ":"); len(f) > 0 {
					return f[0]
				}
			}
			return ""
		}
		switch {
		case g == "" || !gEnd:
			kind = "callbacks-missing"
		case endSlot(g) != endSlot(w) && strings.Replace(g, " E:"+endSlot(g)+":", " E:"+endSlot(w)+":", 1) == w:
			// everything equal except the raw bytes handed to the end callback
			kind = "end-callback-raw-bytes-differ"
		case strings.Contains(g, "(tx"):
			kind = "exec-with-wrong-transaction-object"
		case gX && !wX:
			kind = "exec-on-unverified-tx"
		case !wOK && gOK:
			kind = "invalid-tx-reported-valid"
		case wX && !gX && gOK:
			kind = "valid-tx-not-executed"
		case wOK && !gOK:
			kind = "valid-tx-rejected"
		default:
			kind = "callback-sequence-differs"
		}
		return kind, tk, fmt.Sprintf("transaction %d (%s): serial verifier gives [%s], parallel verifier gave [%s]", i, KindName(tk), w, g)
	}
	return "callback-sequence-differs", '?', fmt.Sprintf("serial [%s] parallel [%s]", want, got)
}
