// Package c05b is the SCHED part of property C05 ("any degree of
// signature-checking parallelism obtains identical hashes, identical
// receipts"): every interleaving, up to a preemption bound, of the
// repository's exeWithCPUParallelVeirfy (decode goroutine + N validator
// goroutines + the executing loop; chain/app/evm/verifycpuparallel.go,
// transformed at check time by cmd/overlaygen) on blocks of three
// transactions over {valid, invalid signature, undecodable}³, compared with
// the callback sequence of the repository's serial verifier on the same
// block.  Plus a free-running -race pass of the same bodies (racecmd).
//
// Library: Run is called by a check main (props/c05sched stand-alone; the
// C05 check once merged).  The enclosing binary must be built with the
// overlay written by props/c05sched/prebuild.sh.
package c05b

import (
	"bytes"
	"encoding/json"
	"fmt"
	"os"
	"os/exec"
	"path/filepath"
	"regexp"
	"runtime"
	"sort"
	"strings"
	"time"

	"verif/core"
	"verif/evmkit"
	"verif/sched"
	"verif/sched/c05b/body"

	"github.com/dappledger/AnnChain/vshim/vsched"
)

// Program is the registered name of the harness.
const Program = "c05b"

// Config selects one block and one degree of parallelism.
type Config struct {
	Kinds      string `json:"kinds"`      // e.g. "VBU"
	Validators int    `json:"validators"` // validateRoutineCount
}

type inst struct {
	cfg Config
	log body.Log
}

func (i *inst) Body() { body.RunParallel(i.cfg.Kinds, i.cfg.Validators, &i.log) }

const site = "exeWithCPUParallelVeirfy"

func (i *inst) Check(x *vsched.Exec) sched.Verdict {
	obs := i.log.String()
	v := sched.Verdict{Obs: x.Kind + ": " + obs}
	switch x.Kind {
	case vsched.KindDone:
		kind, tk, detail := body.Compare(i.cfg.Kinds, obs)
		if kind != "" {
			v.Sig = map[string]string{"site": site, "kind": kind, "tx": body.KindName(tk)}
			v.Detail = detail
		}
	case vsched.KindPanic:
		v.Sig = map[string]string{"site": sched.PanicSite(x.PanicStack), "kind": "panic"}
		v.Detail = "panic: " + core.FirstLine(x.PanicVal)
	default: // deadlock, livelock, horizon
		// the transaction whose end callback is the first one missing
		done := strings.Count(obs, " E:")
		tk := byte('?')
		if done < len(i.cfg.Kinds) {
			tk = i.cfg.Kinds[done]
		}
		v.Sig = map[string]string{"site": site, "kind": x.Kind, "tx": body.KindName(tk)}
		v.Detail = fmt.Sprintf("%s after [%s]; threads: %s", x.Kind, obs, strings.Join(x.Blocked, "; "))
	}
	return v
}

func init() {
	sched.Register(Program, func(c json.RawMessage) (sched.Instance, error) {
		var cfg Config
		if err := json.Unmarshal(c, &cfg); err != nil {
			return nil, err
		}
		if len(cfg.Kinds) != 3 || cfg.Validators < 1 {
			return nil, fmt.Errorf("bad config %s", c)
		}
		return &inst{cfg: cfg}, nil
	})
	if os.Getenv("VERIF_SCHED_WORKER") != "" {
		evmkit.Silence()
	}
	sched.WorkerEntry()
}

// Case is the replay artefact of a violating schedule.
type Case struct {
	Engine  string  `json:"engine"` // "SCHED"
	Program string  `json:"program"`
	Config  Config  `json:"config"`
	Bound   int     `json:"preemptions"`
	Choices []int32 `json:"choices"` // index into the ordered candidate list at every scheduling decision; defaults (0) afterwards
	Threads []int32 `json:"thread_chosen"`
}

const horizon = 4000

// Replay re-executes the schedule of a replay artefact (returns false if the
// artefact is not a SCHED case).
func Replay(run *core.Run) bool {
	var k Case
	if err := run.ReplayCase(&k); err != nil || k.Engine != "SCHED" || k.Program != Program {
		return false
	}
	evmkit.Silence()
	kind, v, trace := sched.Replay(Program, k.Config, k.Choices, horizon)
	fmt.Printf("replayed %d choices on block %s with %d validator goroutines: %s\n", len(k.Choices), k.Config.Kinds, k.Config.Validators, kind)
	if os.Getenv("C05B_TRACE") != "" {
		fmt.Println(strings.Join(trace, "\n"))
	}
	fmt.Println("  observation:", v.Obs)
	fmt.Println("  reference  : done:", body.Reference(k.Config.Kinds))
	if v.Sig != nil {
		run.Report(v.Sig, k, v.Detail)
	}
	return true
}

// Assumptions of the SCHED part.
func Assumptions() []string {
	return []string{
		"SCHED: interleavings are explored at the hooked operations (sync, sync/atomic, time, go statements; atomics are followed by a second point) of chain/app/evm/verifycpuparallel.go; code between two points runs atomically; Go memory-model effects other than interleaving are not modelled (the -race pass is the only guard and contributes candidates only)",
		"SCHED: bounded — blocks of 3 transactions, 1..2 (thorough 3) validator goroutines, preemption bound as reported; spinning threads are de-prioritised (fair scheduling), so unfair schedules in which a spinning thread starves the others forever are not outcomes",
		"SCHED: reference = the repository's exeWithCPUSerialVeirfy on the same block with an exec callback that checks the signature itself (the serial verifier leaves that check to exec; the repository's own test stub does the same); the parallel run uses a callback that trusts the verifier, like executeKVTx which ignores the sender-recovery error",
		"SCHED: quit channel nil, as EVMApp.OnExecute passes it (the select on quit is not reached; channel operations are not scheduling points in this version)",
	}
}

// Run explores and returns the coverage of the SCHED part of C05.  Violating
// schedules are reported on run.
func Run(run *core.Run) core.Coverage {
	evmkit.Silence()
	self := sched.SelfTest()

	blocks := body.AllBlocks()
	// The ladder of schedule spaces (sched.Rung).  Pure preemption bounding
	// (unlimited free switches) multiplies every preemption by every order in
	// which blocked/finished/spinning threads hand over, so the ladder
	// alternates: more preemptions with default hand-overs, then more
	// hand-over deviations.
	valCounts := []int{1, 2}
	rungs := []sched.Rung{{Bound: 1, MaxFree: 0}, {Bound: 0, MaxFree: -1}, {Bound: 1, MaxFree: 1}, {Bound: 2, MaxFree: 0}}
	target := 1 // rungs that must complete for exhaustive=true
	rungsFor := func(n int) int { return 0 }
	budget := 45 * time.Second
	if !run.Quick() {
		valCounts = []int{1, 2, 3}
		rungs = []sched.Rung{{Bound: 1, MaxFree: 0}, {Bound: 0, MaxFree: -1}, {Bound: 1, MaxFree: 1}, {Bound: 2, MaxFree: 0}, {Bound: 2, MaxFree: 1}, {Bound: 1, MaxFree: -1}, {Bound: 3, MaxFree: 0}}
		target = 4
		rungsFor = func(n int) int {
			if n >= 3 {
				return 3 // three validator goroutines: up to (1 preemption, 1 free deviation)
			}
			return 0
		}
		budget = 10*time.Minute + 30*time.Second
	}
	if v := os.Getenv("C05B_RUNGS"); v != "" { // development aid: "1:0,0:-1"
		rungs = nil
		for _, f := range strings.Split(v, ",") {
			var r sched.Rung
			fmt.Sscanf(f, "%d:%d", &r.Bound, &r.MaxFree)
			rungs = append(rungs, r)
		}
		target = len(rungs)
	}
	if v := os.Getenv("C05B_BUDGET_S"); v != "" {
		var sec int
		fmt.Sscan(v, &sec)
		budget = time.Duration(sec) * time.Second
	}
	var tasks []sched.Task
	for _, n := range valCounts {
		for _, k := range blocks {
			tasks = append(tasks, sched.Task{Label: fmt.Sprintf("%s/n%d", k, n), Program: Program, Config: Config{Kinds: k, Validators: n}, Horizon: horizon, Rungs: rungsFor(n)})
		}
	}
	// the serial reference of every block differs from block to block: 27 distinct references
	refs := map[string]bool{}
	for _, k := range blocks {
		refs[body.Reference(k)] = true
	}

	nw := runtime.GOMAXPROCS(0)
	if nw > 16 {
		nw = 16
	}
	pool := sched.NewPool(Program, nw)
	rep := sched.Explore(pool, tasks, sched.Limits{Rungs: rungs, Deadline: time.Now().Add(budget)})
	pool.Close()

	// violations: one report per (sig, task); core keeps the first per sig
	type hit struct {
		f     sched.Found
		cfg   Config
		bound int
	}
	var hits []hit
	outcomes := map[string]int64{}
	distinctObs := map[string]bool{}
	var transitions, classes, valhists int64
	samples := core.NewSampler(5, run.Seed)
	for _, tr := range rep.Tasks {
		cfg := tr.Task.Config.(Config)
		maxClasses, maxVals := 0, 0
		var last *sched.Pass
		for _, p := range tr.Passes {
			for _, f := range p.Found {
				hits = append(hits, hit{f, cfg, p.Rung.Bound})
			}
			if !p.Complete && p.RungIndex >= rep.RungsCompleted {
				// a pass cut by the deadline still contributes the schedules it checked
			}
			transitions += p.Executions
			if p.Classes > maxClasses {
				maxClasses = p.Classes
			}
			if p.ValHists > maxVals {
				maxVals = p.ValHists
			}
			for o, n := range p.Outcomes {
				distinctObs[tr.Task.Label+"|"+o] = true
				cls := "equals-serial-reference"
				if !strings.HasPrefix(o, "done: ") {
					cls = o[:strings.Index(o, ":")]
				} else if k, tk, _ := body.Compare(cfg.Kinds, strings.TrimPrefix(o, "done: ")); k != "" {
					cls = k + "/" + body.KindName(tk)
				}
				outcomes[cls] += n
			}
			if p.Complete {
				last = p
			}
		}
		classes += int64(maxClasses)
		valhists += int64(maxVals)
		if last != nil {
			samples.Add(map[string]interface{}{"task": tr.Task.Label, "space": last.Rung.String(), "schedules": last.Executions, "scheduling_points_max": last.PointsMax, "threads": last.Threads, "distinct_sync_orders": last.Classes, "distinct_read_value_histories": last.ValHists, "default_schedule_observation": last.RootObs})
		}
	}
	sort.SliceStable(hits, func(i, j int) bool {
		if hits[i].f.Preemptions != hits[j].f.Preemptions {
			return hits[i].f.Preemptions < hits[j].f.Preemptions
		}
		return len(hits[i].f.Choices) < len(hits[j].f.Choices)
	})
	foundKinds := map[string]int{}
	for _, h := range hits {
		foundKinds[h.f.Sig["kind"]+"/"+h.f.Sig["tx"]]++
		k := Case{Engine: "SCHED", Program: Program, Config: h.cfg, Bound: h.f.Preemptions, Choices: h.f.Choices, Threads: h.f.Tids}
		detail := fmt.Sprintf("block %s, %d validator goroutines, schedule with %d preemption(s) (%d scheduling decisions replayed, then defaults): %s", h.cfg.Kinds, h.cfg.Validators, h.f.Preemptions, len(h.f.Choices), h.f.Detail)
		run.Report(h.f.Sig, k, detail)
	}

	cov := core.Coverage{}
	for k, v := range rep.Summary() {
		cov[k] = v
	}
	cov["engine_self_tests"] = self
	cov["states"] = classes
	cov["transitions"] = transitions
	cov["traces_validated_against_impl"] = transitions
	cov["evaluations"] = transitions
	cov["distinct_nontrivial"] = valhists
	cov["distinct_outcomes_per_task_sum"] = len(distinctObs)
	cov["distinct_serial_references"] = len(refs)
	cov["outcome_classes"] = outcomes
	cov["violating_schedule_classes"] = foundKinds
	cov["tasks"] = len(tasks)
	cov["worker_processes"] = nw
	exhaustive := rep.RungsCompleted >= target
	cov["exhaustive"] = exhaustive
	var ladder []string
	for _, r := range rungs {
		ladder = append(ladder, r.String())
	}
	cov["bounds"] = map[string]interface{}{"txs_per_block": 3, "blocks": len(blocks), "validator_goroutines": valCounts, "schedule_spaces_in_order": ladder, "spaces_required_for_exhaustive": target, "step_horizon": horizon}
	cov["rule"] = "every block in {valid, invalid-signature, undecodable}^3 × validateRoutineCount; per (block, count) and per schedule space (preemptions<=b, free-switch deviations<=f; see bounds.schedule_spaces_in_order, exhausted in that order): stateless DFS over the scheduling decisions of the real exeWithCPUParallelVeirfy under the cooperative scheduler — every alternative thread at every scheduling point (before each sync/atomic/time/go operation and after each atomic) whose schedule stays inside the space; transitions = schedules executed (each one on the real code, each one checked); states = distinct per-object operation orders (schedules that differ only in the order of operations on different objects count once); distinct_nontrivial = distinct per-thread histories of values read from shared words (which status each thread saw when); every schedule is checked against the serial verifier's callback sequence"
	if !rep.Exhaustive {
		pure, restr := rep.MaxPreemptionBound()
		cov["cap"] = fmt.Sprintf("time budget %v reached after %d of %d schedule spaces (the first %d are required for exhaustive=true): largest preemption bound completed = %d (with unlimited free switches: %d)", budget, rep.RungsCompleted, len(rungs), target, restr, pure)
	}
	cov["samples"] = samples.List()
	racePass(run, cov, foundKinds)
	return cov
}

// ---------------------------------------------------------------- free-running -race pass

var raceFn = regexp.MustCompile(`chain/app/evm\.([A-Za-z0-9_]+)[A-Za-z0-9_.]*\(\)\n\s+\S+?:(\d+)`)

func racePass(run *core.Run, cov core.Coverage, foundKinds map[string]int) {
	bin := os.Getenv("C05B_RACE_BIN")
	if bin == "" {
		if self, err := os.Executable(); err == nil {
			bin = filepath.Join(filepath.Dir(self), "c05race")
		}
	}
	if _, err := os.Stat(bin); err != nil {
		cov["race_pass"] = "skipped: " + bin + " not built (props/c05sched/prebuild.sh builds it with go build -race)"
		return
	}
	reps := "8"
	if !run.Quick() {
		reps = "200"
	}
	cmd := exec.Command(bin, reps)
	cmd.Env = append(os.Environ(), "GOMAXPROCS=8", "GORACE=halt_on_error=0 exitcode=0")
	var so, se bytes.Buffer
	cmd.Stdout, cmd.Stderr = &so, &se
	start := time.Now()
	err := cmd.Run()
	res := map[string]interface{}{"wall_s": float64(int(time.Since(start).Seconds()*10)) / 10}
	var sum struct {
		Runs       int               `json:"runs"`
		Mismatches map[string]string `json:"mismatches"`
		PerConfig  int               `json:"reps_per_block_and_count"`
	}
	if err != nil || json.Unmarshal(so.Bytes(), &sum) != nil {
		core.Fatal("race pass: %v\n%s\n%s", err, so.String(), tail(se.String(), 2000))
	}
	reports := strings.Count(se.String(), "WARNING: DATA RACE")
	// candidates: the two racing accesses of every report, as function:line of chain/app/evm
	cands := map[string]int{}
	for _, rp := range strings.Split(se.String(), "WARNING: DATA RACE")[1:] {
		var acc []string
		for _, sec := range strings.SplitN(rp, "Previous ", 2) {
			if m := raceFn.FindStringSubmatch(sec); m != nil {
				acc = append(acc, m[1]+":"+m[2])
			}
		}
		sort.Strings(acc)
		cands[strings.Join(acc, " / ")]++
	}
	res["free_runs"] = sum.Runs
	res["reps_per_block_and_count"] = sum.PerConfig
	res["data_race_reports"] = reports
	res["race_candidates"] = cands
	res["free_run_oracle_mismatches"] = sum.Mismatches
	var conf []string
	if foundKinds["invalid-tx-reported-valid/badsig"] > 0 {
		conf = append(conf, "appTx.err (written by tryValidate after it published Failed, read by the executing loop): CONFIRMED — SCHED schedules end with an invalid-signature transaction reported valid")
	}
	for k := range foundKinds {
		if strings.HasPrefix(k, "end-callback-raw-bytes-differ/") {
			conf = append(conf, "appTx.oribys (written by txQueue after it published Init, read by the executing loop): CONFIRMED — SCHED schedules hand nil bytes to the end callback")
			break
		}
	}
	switch {
	case reports == 0 && len(sum.Mismatches) == 0:
		res["status"] = "clean"
	default:
		res["status"] = "race reports and free-run mismatches are violation CANDIDATES only; a candidate counts when a SCHED schedule exhibits a wrong outcome on the raced field"
		res["confirmed_by_sched"] = conf
		res["not_confirmed"] = "any other candidate (e.g. WaitGroup.Add in txQueue concurrent with Wait in the executing loop: under SCHED a Wait on a zero counter returns at once and the loop re-reads the status word; no schedule within the bound ends wrong because of it)"
	}
	cov["race_pass"] = res
}

func tail(s string, n int) string {
	if len(s) > n {
		return s[len(s)-n:]
	}
	return s
}
