// racecmd is the free-running -race pass of the SCHED part of C05: the same
// harness bodies as package c05b (verif/sched/c05b/body), but built WITHOUT
// the overlay (real sync, real goroutines) and WITH `go build -race`, because
// the hand-offs of a cooperative scheduler are happens-before edges that blind
// the race detector.  Usage: c05race <reps>: every block of {V,B,U}^3 × every
// validator count in {2, 8} is run <reps> times.  Prints a JSON summary on
// stdout; race reports go to stderr.  A race report or an oracle mismatch here
// is a violation CANDIDATE only (the caller looks for a SCHED schedule that
// exhibits the wrong outcome).
package main

import (
	"encoding/json"
	"fmt"
	"os"
	"strconv"

	"verif/evmkit"
	"verif/sched/c05b/body"
)

func main() {
	evmkit.Silence()
	reps := 8
	if len(os.Args) > 1 {
		reps, _ = strconv.Atoi(os.Args[1])
	}
	runs := 0
	mism := map[string]string{}
	for _, n := range []int{2, 8} {
		for _, k := range body.AllBlocks() {
			for r := 0; r < reps; r++ {
				var l body.Log
				body.RunParallel(k, n, &l)
				runs++
				if kind, tk, detail := body.Compare(k, l.String()); kind != "" {
					mism[fmt.Sprintf("%s/%s", kind, body.KindName(tk))] = fmt.Sprintf("block %s, %d validators: %s", k, n, detail)
				}
			}
		}
	}
	b, _ := json.Marshal(map[string]interface{}{"runs": runs, "mismatches": mism, "reps_per_block_and_count": reps})
	fmt.Println(string(b))
}
