package sched

import (
	"bufio"
	"encoding/json"
	"fmt"
	"os"
	"os/exec"
	"sync"
)

// Executor runs jobs: a pool of worker processes, or this process.
type Executor interface {
	Do(job *Job) *JobResult
	Workers() int
}

// Local executes jobs in the calling process (self-tests, replays).
type Local struct{}

func (Local) Do(job *Job) *JobResult { return DoJob(job) }
func (Local) Workers() int           { return 1 }

const workerEnv = "VERIF_SCHED_WORKER"

// WorkerEntry turns the process into an exploration worker if it was started
// by a Pool for a program that is already registered; it never returns in
// that case.  Call it at the end of the init function that registers the
// program (package initialisation is complete for everything the program
// imports at that moment), so that the enclosing check's main never runs in a
// worker.
func WorkerEntry() {
	name := os.Getenv(workerEnv)
	if name == "" || lookup(name) == nil {
		return
	}
	// Package initialisation runs on the main goroutine while it is locked to
	// the main OS thread: every hand-off between a locked driver and the
	// controlled goroutines would be an OS thread switch (futex), 50× slower.
	// Serve from an ordinary goroutine instead.
	go serveJobs()
	select {}
}

func serveJobs() {
	out := os.NewFile(3, "results")
	if out == nil {
		InternalError("worker: result pipe (fd 3) missing")
	}
	in := bufio.NewReaderSize(os.Stdin, 1<<20)
	w := bufio.NewWriterSize(out, 1<<20)
	for {
		line, err := in.ReadBytes('\n')
		if len(line) > 1 {
			var job Job
			if e := json.Unmarshal(line, &job); e != nil {
				InternalError("worker: bad job: %v", e)
			}
			res := DoJob(&job)
			b, _ := json.Marshal(res)
			w.Write(b)
			w.WriteByte('\n')
			if e := w.Flush(); e != nil {
				os.Exit(0) // parent is gone
			}
		}
		if err != nil {
			os.Exit(0)
		}
	}
}

type pendingJob struct {
	job  *Job
	done chan *JobResult
}

// Pool is a set of worker processes (the check's own binary, re-executed with
// GOMAXPROCS=1), all serving one registered program.
type Pool struct {
	n     int
	jobs  chan *pendingJob
	wg    sync.WaitGroup
	cmds  []*exec.Cmd
	close sync.Once
}

// NewPool starts n workers for the program.
func NewPool(program string, n int) *Pool {
	if os.Getenv(workerEnv) != "" {
		InternalError("a worker process reached NewPool: program %q must be registered (and WorkerEntry called) in an init function", os.Getenv(workerEnv))
	}
	if lookup(program) == nil {
		InternalError("NewPool: program %q is not registered", program)
	}
	self, err := os.Executable()
	if err != nil {
		InternalError("cannot locate own binary: %v", err)
	}
	p := &Pool{n: n, jobs: make(chan *pendingJob)}
	for i := 0; i < n; i++ {
		pr, pw, err := os.Pipe()
		if err != nil {
			InternalError("pipe: %v", err)
		}
		cmd := exec.Command(self)
		cmd.Env = append(os.Environ(), workerEnv+"="+program, "GOMAXPROCS=1", "GOMEMLIMIT=3GiB")
		cmd.Stdout = os.Stderr
		cmd.Stderr = os.Stderr
		cmd.ExtraFiles = []*os.File{pw}
		stdin, err := cmd.StdinPipe()
		if err != nil {
			InternalError("stdin pipe: %v", err)
		}
		if err := cmd.Start(); err != nil {
			InternalError("cannot start worker: %v", err)
		}
		pw.Close()
		p.cmds = append(p.cmds, cmd)
		p.wg.Add(1)
		// Up to three jobs are in flight per worker (written ahead into its
		// stdin pipe) so that a worker never waits for the parent to be
		// scheduled between two jobs.
		inflight := make(chan *pendingJob, 3)
		go func(i int) {
			for pj := range p.jobs {
				b, _ := json.Marshal(pj.job)
				inflight <- pj
				if _, err := stdin.Write(append(b, '\n')); err != nil {
					InternalError("worker %d died (write: %v)", i, err)
				}
			}
			close(inflight)
			stdin.Close()
		}(i)
		go func(i int) {
			defer p.wg.Done()
			rd := bufio.NewReaderSize(pr, 1<<20)
			for pj := range inflight {
				line, err := rd.ReadBytes('\n')
				if err != nil {
					cmd.Wait()
					InternalError("worker %d died while running job %d (%s %v): %v", i, pj.job.ID, pj.job.Mode, pj.job.Prefix, err)
				}
				var res JobResult
				if err := json.Unmarshal(line, &res); err != nil {
					InternalError("worker %d: bad result: %v", i, err)
				}
				pj.done <- &res
			}
			cmd.Wait()
		}(i)
	}
	return p
}

// Do runs one job on some worker and waits for its result.
func (p *Pool) Do(job *Job) *JobResult {
	pj := &pendingJob{job: job, done: make(chan *JobResult, 1)}
	p.jobs <- pj
	return <-pj.done
}

// Workers returns the number of worker processes.
func (p *Pool) Workers() int { return p.n }

// Close stops the workers.
func (p *Pool) Close() {
	p.close.Do(func() {
		close(p.jobs)
		p.wg.Wait()
	})
}

func init() {
	_ = fmt.Sprint
}
