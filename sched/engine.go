// Package sched is the exploration half of the SCHED engine: stateless,
// preemption-bounded, exhaustive depth-first search over the scheduling
// decisions of REAL repository code running under the cooperative scheduler
// github.com/dappledger/AnnChain/vshim/vsched (sources in ./shim, added to the
// build by the overlay that cmd/overlaygen writes at check time).  See
// README.md for the API and for how to write a client.
//
// This package only builds with that overlay (`-overlay` in BUILDFLAGS).
package sched

import (
	"encoding/json"
	"fmt"
	"os"
	"sort"
	"strings"
	"sync"
	"time"

	"github.com/dappledger/AnnChain/vshim/vatomic"
	"github.com/dappledger/AnnChain/vshim/vsched"
)

// Verdict is what a harness says about one finished execution.
type Verdict struct {
	// Obs is the canonical observation the oracle looked at (callback log,
	// final state, …).  It must be a function of the schedule only: the
	// determinism proof compares it between repeated runs, and the number of
	// distinct Obs values is reported as the number of distinct outcomes.
	Obs string
	// Sig != nil reports a violation of the property by this schedule.  It
	// names the failing class (site, kind, input shape), never concrete values.
	Sig    map[string]string
	Detail string
}

// Instance is one fresh copy of a harness, used for exactly one execution.
type Instance interface {
	// Body runs as thread 0 under the scheduler.  Everything it starts with
	// (rewritten) go statements is controlled too.
	Body()
	// Check runs after the execution, outside the scheduler.
	Check(x *vsched.Exec) Verdict
}

// Factory builds an instance from the task's configuration (JSON, because
// executions happen in worker processes).
type Factory func(cfg json.RawMessage) (Instance, error)

var (
	regMu    sync.Mutex
	registry = map[string]Factory{}
)

// Register makes a harness known under a name (call it from an init function,
// then call WorkerEntry).
func Register(name string, f Factory) {
	regMu.Lock()
	defer regMu.Unlock()
	registry[name] = f
}

func lookup(name string) Factory {
	regMu.Lock()
	defer regMu.Unlock()
	return registry[name]
}

// InternalError is a failure of the machinery (never a verdict): exit 2.
func InternalError(format string, a ...interface{}) {
	fmt.Fprintf(os.Stderr, "INTERNAL-ERROR: sched: "+format+"\n", a...)
	os.Exit(2)
}

// PanicSite names the innermost frame of a controlled thread's panic stack
// that belongs to the code under test or to the harness (frames of the
// runtime, other libraries and the shim packages are skipped, so that e.g. "negative
// WaitGroup counter" is attributed to the repository function that called
// Done).
func PanicSite(stack string) string {
	for _, l := range strings.Split(stack, "\n") {
		if strings.HasPrefix(l, "\t") || strings.HasPrefix(l, "goroutine ") || l == "" {
			continue
		}
		if strings.Contains(l, "/vshim/") || !(strings.Contains(l, "github.com/dappledger/AnnChain/") || strings.HasPrefix(l, "verif/")) {
			continue
		}
		fn := l
		if j := strings.LastIndex(fn, "("); j > 0 {
			fn = fn[:j]
		}
		return strings.TrimPrefix(fn, "github.com/dappledger/AnnChain/")
	}
	return "unknown"
}

var execMu sync.Mutex // one execution at a time per process

var watchdogOnce sync.Once

// RunOnce performs one execution of a registered program: replay prefix, then
// defaults.  expectN/expectTid (optional) make a replay divergence detectable.
func RunOnce(program string, cfg json.RawMessage, prefix, expectN, expectTid []int32, horizon int, trace bool) (*vsched.Exec, Verdict, error) {
	f := lookup(program)
	if f == nil {
		return nil, Verdict{}, fmt.Errorf("program %q is not registered", program)
	}
	inst, err := f(cfg)
	if err != nil {
		return nil, Verdict{}, fmt.Errorf("program %q: %v", program, err)
	}
	watchdogOnce.Do(func() {
		vsched.Watchdog(40*time.Second, func(desc string) { InternalError("%s", desc) })
	})
	execMu.Lock()
	defer execMu.Unlock()
	s := vsched.New(vsched.Config{Prefix: prefix, ExpectTid: expectTid, Horizon: horizon, Trace: trace})
	x := s.Run(inst.Body)
	if x.Kind == vsched.KindDiverged {
		return x, Verdict{}, nil
	}
	for i := range expectN {
		if i < len(x.Points) && expectN[i] >= 0 && x.Points[i].N != expectN[i] {
			x.Kind, x.BadPoint = vsched.KindDiverged, i
			return x, Verdict{}, nil
		}
	}
	v := inst.Check(x)
	return x, v, nil
}

// ---------------------------------------------------------------- jobs

// Job is one unit of work of a worker.
type Job struct {
	ID      int             `json:"id"`
	Mode    string          `json:"mode"` // "root" | "subtree"
	Program string          `json:"program"`
	Config  json.RawMessage `json:"config"`
	Prefix  []int32         `json:"prefix,omitempty"`
	ExpN    []int32         `json:"exp_n,omitempty"`
	ExpTid  []int32         `json:"exp_tid,omitempty"`
	Batch   []Child         `json:"batch,omitempty"` // subtree jobs: several first-level subtrees in one job
	Bound   int             `json:"bound"`
	MaxFree int             `json:"max_free"` // max number of non-default choices at points where the running thread could not continue anyway (-1 = unlimited: pure preemption bounding)
	Horizon int             `json:"horizon"`
	// Deadline (unix ms; 0 = none): the worker stops exploring when it is
	// reached and reports Complete=false.
	Deadline     int64 `json:"deadline"`
	NoAfterLoads bool  `json:"no_after_loads,omitempty"`
}

// Found is one violating schedule.
type Found struct {
	Sig         map[string]string `json:"sig"`
	Detail      string            `json:"detail"`
	Choices     []int32           `json:"choices"`
	Tids        []int32           `json:"tids"`
	Preemptions int               `json:"preemptions"`
	Kind        string            `json:"kind"`
	Obs         string            `json:"obs"`
}

// Child is a first-level subtree.
type Child struct {
	Prefix []int32 `json:"p"`
	ExpN   []int32 `json:"n"`
	ExpTid []int32 `json:"t"`
}

// JobResult is a worker's answer.
type JobResult struct {
	ID         int              `json:"id"`
	Err        string           `json:"err,omitempty"` // internal error
	Complete   bool             `json:"complete"`
	Executions int64            `json:"executions"`
	Steps      int64            `json:"steps"`
	PointsSum  int64            `json:"points_sum"`
	PointsMin  int              `json:"points_min"`
	PointsMax  int              `json:"points_max"`
	ChoiceSum  int64            `json:"choice_sum"` // decision points with more than one candidate
	Threads    int              `json:"threads"`
	ByPreempt  map[int]int64    `json:"by_preempt"`
	Kinds      map[string]int64 `json:"kinds"`
	Outcomes   map[string]int64 `json:"outcomes"` // Obs → schedules
	Classes    []uint64         `json:"classes,omitempty"`
	ValHists   []uint64         `json:"valhists,omitempty"`
	Found      []Found          `json:"found,omitempty"`
	Children   []Child          `json:"children,omitempty"` // root jobs
	RootObs    string           `json:"root_obs,omitempty"`
	Replays    int              `json:"replays,omitempty"` // determinism-proof executions (root jobs)
}

type jobState struct {
	job     *Job
	res     *JobResult
	classes map[uint64]struct{}
	vals    map[uint64]struct{}
	found   map[string]*Found
	stop    bool
	lastObs string
}

func sigKey(sig map[string]string) string {
	ks := make([]string, 0, len(sig))
	for k := range sig {
		ks = append(ks, k)
	}
	sort.Strings(ks)
	s := ""
	for _, k := range ks {
		s += k + "=" + sig[k] + ";"
	}
	return s
}

func choicesOf(x *vsched.Exec) (c, n, t []int32) {
	c = make([]int32, len(x.Points))
	n = make([]int32, len(x.Points))
	t = make([]int32, len(x.Points))
	for i, p := range x.Points {
		c[i], n[i], t[i] = p.Choice, p.N, p.Tid
	}
	return
}

// trimChoices drops the trailing default choices (a replay takes defaults
// after the prefix anyway).
func trimChoices(c []int32) []int32 {
	n := len(c)
	for n > 0 && c[n-1] == 0 {
		n--
	}
	return c[:n]
}

func (js *jobState) run(prefix, expN, expTid []int32) *vsched.Exec {
	x, v, err := RunOnce(js.job.Program, js.job.Config, prefix, expN, expTid, js.job.Horizon, false)
	if err != nil {
		js.res.Err = err.Error()
		js.stop = true
		return nil
	}
	if x.Kind == vsched.KindDiverged {
		js.res.Err = fmt.Sprintf("replay diverged at point %d of prefix %v (program %s): the execution is not a function of the schedule", x.BadPoint, prefix, js.job.Program)
		js.stop = true
		return nil
	}
	js.record(x, v)
	return x
}

func (js *jobState) record(x *vsched.Exec, v Verdict) {
	r := js.res
	r.Executions++
	r.Steps += int64(x.Steps)
	np := len(x.Points)
	r.PointsSum += int64(np)
	if r.PointsMin == 0 || np < r.PointsMin {
		r.PointsMin = np
	}
	if np > r.PointsMax {
		r.PointsMax = np
	}
	for _, p := range x.Points {
		if p.N > 1 {
			r.ChoiceSum++
		}
	}
	if x.Threads > r.Threads {
		r.Threads = x.Threads
	}
	r.ByPreempt[x.Preemptions]++
	r.Kinds[x.Kind]++
	r.Outcomes[v.Obs]++
	js.lastObs = v.Obs
	js.classes[x.Class] = struct{}{}
	js.vals[x.ValHist] = struct{}{}
	if v.Sig != nil {
		k := sigKey(v.Sig)
		c, _, t := choicesOf(x)
		c = trimChoices(c)
		old := js.found[k]
		if old == nil || x.Preemptions < old.Preemptions || (x.Preemptions == old.Preemptions && len(c) < len(old.Choices)) {
			js.found[k] = &Found{Sig: v.Sig, Detail: v.Detail, Choices: append([]int32(nil), c...), Tids: t[:len(c)], Preemptions: x.Preemptions, Kind: x.Kind, Obs: v.Obs}
		}
	}
}

// children lists the alternatives of x after the first `from` points that are
// within the bounds.
func (js *jobState) children(x *vsched.Exec, from int) []Child {
	var out []Child
	c, n, t := choicesOf(x)
	pre, free := 0, 0
	for i, p := range x.Points {
		if i >= from && p.N > 1 {
			ok := false
			if p.CurEnabled {
				ok = pre+1 <= js.job.Bound
			} else {
				ok = js.job.MaxFree < 0 || free+1 <= js.job.MaxFree
			}
			if ok {
				for alt := int32(1); alt < p.N; alt++ {
					ch := Child{Prefix: append(append([]int32(nil), c[:i]...), alt), ExpN: append([]int32(nil), n[:i+1]...), ExpTid: append(append([]int32(nil), t[:i]...), -1)}
					out = append(out, ch)
				}
			}
		}
		if p.Choice != 0 {
			if p.CurEnabled {
				pre++
			} else {
				free++
			}
		}
	}
	return out
}

func (js *jobState) explore(prefix, expN, expTid []int32) {
	if js.stop {
		return
	}
	if js.job.Deadline > 0 && time.Now().UnixNano()/1e6 > js.job.Deadline {
		js.stop = true
		js.res.Complete = false
		return
	}
	x := js.run(prefix, expN, expTid)
	if x == nil {
		return
	}
	for _, ch := range js.children(x, len(prefix)) {
		js.explore(ch.Prefix, ch.ExpN, ch.ExpTid)
		if js.stop {
			return
		}
	}
}

// DoJob executes one job in this process.
func DoJob(job *Job) *JobResult {
	js := &jobState{job: job, res: &JobResult{ID: job.ID, Complete: true, ByPreempt: map[int]int64{}, Kinds: map[string]int64{}, Outcomes: map[string]int64{}},
		classes: map[uint64]struct{}{}, vals: map[uint64]struct{}{}, found: map[string]*Found{}}
	vatomic.AfterLoads = !job.NoAfterLoads
	switch job.Mode {
	case "root":
		x := js.run(nil, nil, nil)
		if x == nil {
			break
		}
		js.res.RootObs = js.lastObs
		kids := js.children(x, 0)
		js.res.Children = kids
		// Determinism proof: the default schedule and one other recorded
		// schedule are executed twice more each; schedule digest (every
		// operation, object and value in order), decision structure and the
		// harness observation must be identical.
		c0, n0, t0 := choicesOf(x)
		if msg := js.prove(c0, n0, t0); msg != "" {
			js.res.Err = msg
			break
		}
		if len(kids) > 0 {
			k := kids[len(kids)/2]
			y, _, err := RunOnce(job.Program, job.Config, k.Prefix, k.ExpN, k.ExpTid, job.Horizon, false)
			if err != nil || y.Kind == vsched.KindDiverged {
				js.res.Err = fmt.Sprintf("determinism proof: replay of prefix %v diverged (%v)", k.Prefix, err)
				break
			}
			js.res.Replays++
			c1, n1, t1 := choicesOf(y)
			if msg := js.prove(c1, n1, t1); msg != "" {
				js.res.Err = msg
			}
		}
	case "subtree":
		if len(job.Prefix) > 0 || len(job.Batch) == 0 {
			js.explore(job.Prefix, job.ExpN, job.ExpTid)
		}
		for _, ch := range job.Batch {
			js.explore(ch.Prefix, ch.ExpN, ch.ExpTid)
		}
	default:
		js.res.Err = "unknown job mode " + job.Mode
	}
	for k := range js.classes {
		js.res.Classes = append(js.res.Classes, k)
	}
	for k := range js.vals {
		js.res.ValHists = append(js.res.ValHists, k)
	}
	keys := make([]string, 0, len(js.found))
	for k := range js.found {
		keys = append(keys, k)
	}
	sort.Strings(keys)
	for _, k := range keys {
		js.res.Found = append(js.res.Found, *js.found[k])
	}
	return js.res
}

// prove re-executes the full choice list twice and compares everything.
func (js *jobState) prove(c, n, t []int32) string {
	var ref *vsched.Exec
	var refObs string
	for rep := 0; rep < 3; rep++ {
		x, v, err := RunOnce(js.job.Program, js.job.Config, c, n, t, js.job.Horizon, false)
		if err != nil {
			return err.Error()
		}
		js.res.Replays++
		if x.Kind == vsched.KindDiverged {
			return fmt.Sprintf("determinism proof: replay of the recorded schedule diverged at point %d (program %s)", x.BadPoint, js.job.Program)
		}
		if ref == nil {
			ref, refObs = x, v.Obs
			continue
		}
		if x.Digest != ref.Digest || x.Kind != ref.Kind || len(x.Points) != len(ref.Points) || x.Class != ref.Class || v.Obs != refObs {
			return fmt.Sprintf("determinism proof failed (program %s): the same schedule gave digest %x/%x, kind %s/%s, %d/%d points, observation %q / %q", js.job.Program, ref.Digest, x.Digest, ref.Kind, x.Kind, len(ref.Points), len(x.Points), refObs, v.Obs)
		}
	}
	return ""
}
