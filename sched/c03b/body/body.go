// Package body holds the harness bodies of the SCHED part of C03 for the real
// gemmill/types.PrivValidator: thread sets (a sequential prefix, 2-3 concurrent
// callers of SignVote / SignProposal on ONE signer object — the consensus
// goroutine, the reactor / RPC path and the trace router share the pointer —
// and a sequential suffix that may reload the signer file and ask again), the
// recorder of the call history and the oracle.
//
// It imports neither the scheduler nor the shim packages: how the concurrent
// threads are started and joined is injected (Spawner), so the same bodies are
// used by the controlled exploration (package c03b, built with the overlay)
// and by the free-running -race pass (racecmd, built without it).
//
// The signer file is a real file (go-common WriteFileAtomic is not rewritten:
// the three file operations of one save run inside one scheduling step).
package body

import (
	"bytes"
	"fmt"
	"io/ioutil"
	"os"
	"path/filepath"
	"reflect"
	"strconv"
	"strings"
	"sync/atomic"

	crypto "github.com/dappledger/AnnChain/gemmill/go-crypto"
	"github.com/dappledger/AnnChain/gemmill/types"
)

// ChainID of all requests.
const ChainID = "c03-chain"

// Site is the value of sig["site"] of oracle violations (the same as in the
// sequential part of the check).
const Site = "PrivValidator.signBytesHRS"

// Scenario is one thread set.  Operations are letters:
//
//	P:<h>:<r>:<b>  SignProposal(height h, round r, parts header of block b)
//	V:<h>:<r>:<b>  SignVote(prevote for block b)
//	C:<h>:<r>:<b>  SignVote(precommit for block b)
//	L              kill + restart: the signer object is thrown away and
//	               types.LoadPrivValidator builds the next one from the file
//	               (prefix / suffix only)
type Scenario struct {
	Name    string     `json:"name"`
	Pre     []string   `json:"pre"`             // executed by the main thread before the threads start
	Threads [][]string `json:"threads"`         // concurrent, all on one *PrivValidator
	Post    []string   `json:"post"`            // executed by the main thread after all threads returned
	Rungs   int        `json:"rungs,omitempty"` // explore only the first Rungs schedule spaces of the ladder (0 = all): wide thread sets
}

// String is the compact text used in evidence and details.
func (sc Scenario) String() string {
	var th []string
	for _, t := range sc.Threads {
		th = append(th, strings.Join(t, ","))
	}
	s := "[" + strings.Join(th, " | ") + "]"
	if len(sc.Pre) > 0 {
		s = strings.Join(sc.Pre, ",") + " ; " + s
	}
	if len(sc.Post) > 0 {
		s += " ; " + strings.Join(sc.Post, ",")
	}
	return s
}

// Shape names the kind of concurrency of the scenario (part of the signatures
// of panics / deadlocks; oracle violations use Judgement.Shape).
func (sc Scenario) Shape() string { return ShapeCallers }

// Req is a parsed signing request.
type Req struct {
	Kind byte // 'P', 'V', 'C'
	H, R int64
	Blk  int
}

// Step is 1 propose, 2 prevote, 3 precommit.
func (q Req) Step() int {
	switch q.Kind {
	case 'P':
		return 1
	case 'V':
		return 2
	}
	return 3
}

// HRS orders positions.
func (q Req) HRS() int { return int(q.H)*10000 + int(q.R)*10 + q.Step() }

// HRSString names a position.
func HRSString(x int) string {
	n := []string{"none", "proposal", "prevote", "precommit"}
	st := x % 10
	if st > 3 {
		st = 0
	}
	return fmt.Sprintf("H%d/R%d/%s", x/10000, (x%10000)/10, n[st])
}

// ParseOp splits a request letter (ok=false for "L").
func ParseOp(op string) (q Req, ok bool) {
	if op == "L" {
		return q, false
	}
	f := strings.Split(op, ":")
	if len(f) != 4 || len(f[0]) != 1 || !strings.Contains("PVC", f[0]) || len(f[3]) != 1 {
		panic("c03b: bad operation letter " + op)
	}
	h, e1 := strconv.Atoi(f[1])
	r, e2 := strconv.Atoi(f[2])
	if e1 != nil || e2 != nil {
		panic("c03b: bad operation letter " + op)
	}
	return Req{Kind: f[0][0], H: int64(h), R: int64(r), Blk: int(f[3][0] - 'A')}, true
}

func blockID(blk int) types.BlockID {
	return types.BlockID{
		Hash:        bytes.Repeat([]byte{byte('A' + blk)}, 20),
		PartsHeader: types.PartSetHeader{Total: 1, Hash: bytes.Repeat([]byte{byte('a' + blk)}, 20)},
	}
}

func mkVote(q Req, addr []byte) *types.Vote {
	t := types.VoteTypePrevote
	if q.Kind == 'C' {
		t = types.VoteTypePrecommit
	}
	return &types.Vote{ValidatorAddress: addr, ValidatorIndex: 0, Height: q.H, Round: q.R, Type: t, BlockID: blockID(q.Blk)}
}

func mkProposal(q Req) *types.Proposal {
	return types.NewProposal(q.H, q.R, blockID(q.Blk).PartsHeader, -1, types.BlockID{})
}

// SignBytes of a request (computed on a fresh object).
func SignBytes(q Req) []byte {
	if q.Kind == 'P' {
		return types.SignBytes(ChainID, mkProposal(q))
	}
	return types.SignBytes(ChainID, mkVote(q, nil))
}

var fixedKey = crypto.GenPrivKeyEd25519FromSecret([]byte("c03 fixed validator key"))
var fixedPub = fixedKey.PubKey()

// Event is one call.  Call and Ret are values of a logical clock that ticks
// at every call and every return: a.Ret < b.Call means a returned before b was
// called.
type Event struct {
	Thread int    `json:"thread"` // 0 = main thread (prefix/suffix), 1.. = concurrent threads
	Op     string `json:"op"`
	Call   int64  `json:"call"`
	Ret    int64  `json:"ret"` // 0 = never returned (panic, deadlock)
	// Res: "sig" a signature that verifies for the request left the signer;
	// "ref" the call returned an error; "nosig"/"badsig" nil error without a
	// (valid) signature; for L: "ok" / "fail".
	Res string `json:"res"`
	// Durable (Res == "sig"): read back immediately after the call returned,
	// the signer file forbade contradicting the signature.
	Durable bool   `json:"durable"`
	Why     string `json:"why,omitempty"`
}

// Log is the recorded history of one execution.
type Log struct {
	clock  int64
	lanes  [][]Event // one per thread: no sharing between threads
	Joined bool      // all concurrent threads returned
	Done   bool      // the suffix was executed completely
}

// Events returns all calls ordered by call time.
func (l *Log) Events() []Event {
	var all []Event
	for _, ln := range l.lanes {
		all = append(all, ln...)
	}
	for i := 1; i < len(all); i++ {
		for j := i; j > 0 && all[j].Call < all[j-1].Call; j-- {
			all[j], all[j-1] = all[j-1], all[j]
		}
	}
	return all
}

// String is the canonical observation: per thread the results in program
// order (call/return times are not part of it).
func (l *Log) String() string {
	var b strings.Builder
	for t, ln := range l.lanes {
		if t > 0 {
			b.WriteString(" | ")
		}
		fmt.Fprintf(&b, "T%d:", t)
		for _, e := range ln {
			b.WriteString(" " + e.Op)
			if e.Ret == 0 {
				b.WriteString("!")
			} else {
				b.WriteString("=" + e.Res)
				if e.Res == "sig" && !e.Durable {
					b.WriteString("(no-durable-record)")
				}
			}
		}
	}
	return b.String()
}

// Spawner starts every function as a concurrent thread and returns when all of
// them have returned.
type Spawner func(fs []func())

type runner struct {
	pv      *types.PrivValidator
	path    string
	log     *Log
	stopped bool // a restart failed: the validator does not run any more
}

func isFilled(sig crypto.Signature) bool {
	if sig == nil {
		return false
	}
	v := reflect.ValueOf(sig)
	switch v.Kind() {
	case reflect.Ptr, reflect.Slice, reflect.Map, reflect.Interface:
		if v.IsNil() {
			return false
		}
	}
	return len(sig.Bytes()) > 0
}

// durable: does the file on disk forbid contradicting a signature over sb at hrs?
func durable(path string, hrs int, sb []byte) (ok bool, why string) {
	var d *types.PrivValidator
	var err error
	func() {
		defer func() {
			if r := recover(); r != nil {
				err = fmt.Errorf("panic: %v", r)
			}
		}()
		d, err = types.LoadPrivValidator(path)
	}()
	if err != nil || d == nil {
		return false, fmt.Sprintf("the file on disk cannot be loaded: %v", err)
	}
	dh := int(d.LastHeight)*10000 + int(d.LastRound)*10 + int(d.LastStep)
	if dh > hrs || (dh == hrs && bytes.Equal(d.LastSignBytes, sb)) {
		return true, ""
	}
	if dh < hrs {
		return false, "the file on disk holds an older watermark (" + HRSString(dh) + ")"
	}
	return false, "the file on disk holds other sign-bytes for " + HRSString(dh)
}

func (r *runner) do(thread int, op string) {
	if r.stopped {
		return
	}
	lane := &r.log.lanes[thread]
	*lane = append(*lane, Event{Thread: thread, Op: op, Call: atomic.AddInt64(&r.log.clock, 1)})
	ev := &(*lane)[len(*lane)-1]
	q, isReq := ParseOp(op)
	if !isReq {
		pv, err := types.LoadPrivValidator(r.path)
		if err != nil || pv == nil {
			// refusing to start is safe; nothing more is asked of this validator
			ev.Res = "fail"
			r.stopped = true
		} else {
			ev.Res = "ok"
			r.pv = pv
		}
		ev.Ret = atomic.AddInt64(&r.log.clock, 1)
		return
	}
	pv := r.pv
	var err error
	var sig crypto.Signature
	if q.Kind == 'P' {
		p := mkProposal(q)
		err = pv.SignProposal(ChainID, p)
		sig = p.Signature
	} else {
		v := mkVote(q, pv.Address)
		err = pv.SignVote(ChainID, v)
		sig = v.Signature
	}
	sb := SignBytes(q)
	switch {
	case err != nil:
		ev.Res = "ref"
	case !isFilled(sig):
		ev.Res = "nosig"
	case !fixedPub.VerifyBytes(sb, sig):
		ev.Res = "badsig"
	default:
		ev.Res = "sig"
		ev.Durable, ev.Why = durable(r.path, q.HRS(), sb)
	}
	ev.Ret = atomic.AddInt64(&r.log.clock, 1)
}

// Run executes one scenario on a fresh real PrivValidator whose file lives in
// dir (emptied first), and records the history into lg (allocated by the
// caller, so that a history cut short by a panic or a deadlock is still
// readable).  The signer is created the way `init` creates it (Gen + SetFile +
// Save) and then loaded the way a node start loads it.
func Run(sc Scenario, dir string, spawn Spawner, lg *Log) {
	lg.lanes = make([][]Event, 1+len(sc.Threads))
	if err := os.MkdirAll(dir, 0755); err != nil {
		panic("c03b harness: " + err.Error())
	}
	names, err := ioutil.ReadDir(dir)
	if err != nil {
		panic("c03b harness: " + err.Error())
	}
	for _, n := range names {
		os.RemoveAll(filepath.Join(dir, n.Name()))
	}
	path := filepath.Join(dir, "priv_validator.json")
	gen, err := types.GenPrivValidator(crypto.CryptoTypeZhongAn, fixedKey)
	if err != nil {
		panic("c03b harness: GenPrivValidator: " + err.Error())
	}
	gen.SetFile(path)
	if err := gen.Save(); err != nil {
		panic("c03b harness: initial Save: " + err.Error())
	}
	pv, err := types.LoadPrivValidator(path)
	if err != nil {
		panic("c03b harness: cannot load a freshly created signer file: " + err.Error())
	}
	r := &runner{pv: pv, path: path, log: lg}
	for _, op := range sc.Pre {
		r.do(0, op)
	}
	fs := make([]func(), len(sc.Threads))
	for i := range sc.Threads {
		i := i
		fs[i] = func() {
			for _, op := range sc.Threads[i] {
				r.do(i+1, op)
			}
		}
	}
	spawn(fs)
	lg.Joined = true
	for _, op := range sc.Post {
		r.do(0, op)
	}
	lg.Done = true
}

// ---------------------------------------------------------------- oracle

// Judgement of one complete history.
type Judgement struct {
	Kind         string // "" = the property held
	AfterRestart bool   // the violating release was made by a signer loaded from the file after the concurrent phase
	Detail       string
}

// Shape names the input class of a violation (part of signatures).
func (j Judgement) Shape() string {
	if j.AfterRestart {
		return ShapeRestart
	}
	return ShapeCallers
}

// Shapes.
const (
	ShapeCallers = "concurrent-callers-of-one-signer"
	ShapeRestart = "concurrent-callers-of-one-signer-then-restart"
)

// afterRestart: was e executed by the main thread after an L?
func afterRestart(evs []Event, e Event) bool {
	if e.Thread != 0 {
		return false
	}
	for _, x := range evs {
		if x.Thread == 0 && x.Op == "L" && x.Call < e.Call {
			return true
		}
	}
	return false
}

// Judge applies the property to a history (written from the property text):
// (1) never two different sign-bytes signed for one (height, round, step);
// (2) never a signature for a position below one that had been released
// before the call was made (the identical message again is allowed); (3) every released signature had its durable
// record when it was read back right after the call (the file named a later
// position, or the same position with the same sign-bytes).  Refusing is
// always allowed.
func Judge(sc Scenario, lg *Log) Judgement {
	evs := lg.Events()
	var rel []Event
	for _, e := range evs {
		if e.Res == "sig" {
			rel = append(rel, e)
		}
	}
	for i, a := range rel {
		qa, _ := ParseOp(a.Op)
		for _, b := range rel[i+1:] {
			qb, _ := ParseOp(b.Op)
			if qa.HRS() == qb.HRS() && a.Op != b.Op {
				return Judgement{"conflicting-signatures", afterRestart(evs, b), fmt.Sprintf("two different messages were signed for %s: %s (thread %d) and %s (thread %d); history: %s", HRSString(qa.HRS()), a.Op, a.Thread, b.Op, b.Thread, lg.String())}
			}
		}
	}
	for _, a := range rel {
		qa, _ := ParseOp(a.Op)
		for _, b := range rel {
			qb, _ := ParseOp(b.Op)
			if a.Ret != 0 && a.Ret < b.Call && qb.HRS() < qa.HRS() {
				again := false // the identical message had been released before: a re-release signs nothing new
				for _, c := range rel {
					if c.Op == b.Op && c.Call < b.Call {
						again = true
					}
				}
				if again {
					continue
				}
				return Judgement{"hrs-regression", afterRestart(evs, b), fmt.Sprintf("%s (thread %d) was signed after %s (thread %d) had been released; history: %s", b.Op, b.Thread, a.Op, a.Thread, lg.String())}
			}
		}
	}
	for _, a := range rel {
		if !a.Durable {
			return Judgement{"released-without-durable-record", afterRestart(evs, a), fmt.Sprintf("the signature for %s (thread %d) left the signer but, read back right after the call, %s; history: %s", a.Op, a.Thread, a.Why, lg.String())}
		}
	}
	return Judgement{}
}

// ---------------------------------------------------------------- thread sets

func withPost(s Scenario, suffix string, post ...string) Scenario {
	s.Name += suffix
	s.Post = post
	return s
}

// Scenarios lists the thread sets.  Positions: H1/R0 unless said otherwise;
// every set forces a collision (same position, or positions ordered against
// the order in which a default schedule runs them).
func Scenarios(quick bool) []Scenario {
	base := []Scenario{
		// same height/round/step, different blocks
		{Name: "prevote-A|prevote-B", Threads: [][]string{{"V:1:0:A"}, {"V:1:0:B"}}},
		{Name: "precommit-A|precommit-B", Threads: [][]string{{"C:1:0:A"}, {"C:1:0:B"}}},
		{Name: "proposal-A|proposal-B", Threads: [][]string{{"P:1:0:A"}, {"P:1:0:B"}}},
		// the identical request twice (re-release of the recorded signature)
		{Name: "prevote-A|prevote-A", Threads: [][]string{{"V:1:0:A"}, {"V:1:0:A"}}},
		// different steps of one round
		{Name: "proposal|prevote", Threads: [][]string{{"P:1:0:A"}, {"V:1:0:A"}}},
		{Name: "prevote-A|precommit-B", Threads: [][]string{{"V:1:0:A"}, {"C:1:0:B"}}},
		// different rounds / heights
		{Name: "prevote-R1|precommit-R0", Threads: [][]string{{"V:1:1:A"}, {"C:1:0:B"}}},
		{Name: "prevote-H2|precommit-H1R1", Threads: [][]string{{"V:2:0:A"}, {"C:1:1:B"}}},
		// something was signed before (LastSignBytes set; the idempotent branch is reachable)
		{Name: "after-prevote-A:prevote-A|prevote-B", Pre: []string{"V:1:0:A"}, Threads: [][]string{{"V:1:0:A"}, {"V:1:0:B"}}},
		{Name: "after-proposal:precommit-A|precommit-B", Pre: []string{"P:1:0:A"}, Threads: [][]string{{"C:1:0:A"}, {"C:1:0:B"}}},
		// two callers that each walk through a round
		{Name: "prevote,precommit-A|prevote,precommit-B", Threads: [][]string{{"V:1:0:A", "C:1:0:A"}, {"V:1:0:B", "C:1:0:B"}}},
		// three threads
		{Name: "prevote-A|prevote-B|precommit-A", Threads: [][]string{{"V:1:0:A"}, {"V:1:0:B"}, {"C:1:0:A"}}},
		{Name: "proposal-A|prevote-A|prevote-B", Threads: [][]string{{"P:1:0:A"}, {"V:1:0:A"}, {"V:1:0:B"}}},
	}
	var s []Scenario
	for _, b := range base {
		s = append(s, b)
	}
	// ... followed by kill + restart and further conflicting requests
	s = append(s,
		withPost(base[0], ";restart;prevote-B,prevote-A", "L", "V:1:0:B", "V:1:0:A"),
		withPost(base[2], ";restart;proposal-B,proposal-A", "L", "P:1:0:B", "P:1:0:A"),
		withPost(base[3], ";restart;prevote-B", "L", "V:1:0:B"),
		withPost(base[4], ";restart;proposal-B,prevote-B", "L", "P:1:0:B", "V:1:0:B"),
		withPost(base[5], ";restart;prevote-B,precommit-A", "L", "V:1:0:B", "C:1:0:A"),
		withPost(base[6], ";restart;precommit-R0-A,prevote-R1-B", "L", "C:1:0:A", "V:1:1:B"),
		withPost(base[11], ";restart;prevote-B,prevote-A,precommit-B", "L", "V:1:0:B", "V:1:0:A", "C:1:0:B"),
		// without restart: the same object keeps being asked
		withPost(base[5], ";prevote-B,precommit-A", "V:1:0:B", "C:1:0:A"),
	)
	if !quick {
		s = append(s,
			Scenario{Name: "three-rounds-walkers", Threads: [][]string{{"P:1:0:A", "V:1:0:A", "C:1:0:A"}, {"V:1:0:B", "C:1:0:B", "V:1:1:B"}}, Post: []string{"L", "C:1:0:B", "V:1:1:A"}},
			// four threads: preemption bounds 0..2 only
			Scenario{Name: "four-callers", Threads: [][]string{{"V:1:0:A"}, {"V:1:0:B"}, {"C:1:0:A"}, {"C:1:0:B"}}, Post: []string{"L", "V:1:0:A", "V:1:0:B", "C:1:0:A", "C:1:0:B"}, Rungs: 3},
		)
	}
	return s
}
