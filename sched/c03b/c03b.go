// Package c03b is the SCHED part of property C03 for the real
// gemmill/types.PrivValidator ("for every ... schedule"): every interleaving,
// up to a preemption bound, of 2-3 (thorough: 4) controlled threads that call
// SignVote / SignProposal on ONE signer object, optionally followed by a
// kill + restart (LoadPrivValidator of the file) and further conflicting
// requests.  gemmill/types/priv_validator.go is transformed at check time by
// cmd/overlaygen, so every operation on the signer's mutex is a scheduling
// point; the durable write (go-common WriteFileAtomic on a real file) runs
// inside one step.  Every complete execution's call history is judged by the
// oracle in body.Judge.  Plus a free-running -race pass of the same bodies
// (racecmd).
//
// Library: Run is called by the stand-alone main props/c03sched, which the C03
// check runs as a subprocess (it needs the overlay build; see
// props/c03/prebuild.sh).
package c03b

import (
	"bytes"
	"encoding/json"
	"fmt"
	"os"
	"os/exec"
	"path/filepath"
	"regexp"
	"runtime"
	"sort"
	"strings"
	"time"

	"verif/core"
	"verif/sched"
	"verif/sched/c03b/body"

	glog "github.com/dappledger/AnnChain/gemmill/modules/go-log"
	"github.com/dappledger/AnnChain/vshim/vsched"
	"github.com/dappledger/AnnChain/vshim/vsync"
	"go.uber.org/zap"
)

// Program is the registered name of the harness.
const Program = "c03b"

// dirEnv names the directory below which every process keeps its signer file.
const dirEnv = "C03B_DIR"

type inst struct {
	sc  body.Scenario
	log body.Log
}

func hostDir() string {
	base := os.Getenv(dirEnv)
	if base == "" {
		sched.InternalError("%s is not set", dirEnv)
	}
	return filepath.Join(base, fmt.Sprintf("p%d", os.Getpid()))
}

// spawn starts the scenario's threads as controlled threads and joins them
// with a virtual WaitGroup (harness-side synchronisation must be hooked too).
func spawn(fs []func()) {
	var wg vsync.WaitGroup
	wg.Add(len(fs))
	for _, f := range fs {
		f := f
		vsched.Go(func() {
			defer wg.Done()
			f()
		})
	}
	wg.Wait()
}

func (i *inst) Body() { body.Run(i.sc, hostDir(), spawn, &i.log) }

func (i *inst) Check(x *vsched.Exec) sched.Verdict {
	obs := i.log.String()
	v := sched.Verdict{Obs: x.Kind + ": " + obs}
	shape := i.sc.Shape()
	switch x.Kind {
	case vsched.KindDone:
		if !i.log.Done {
			v.Sig = map[string]string{"site": "harness", "kind": "incomplete-history", "fault": "none", "shape": shape}
			v.Detail = "the execution ended without the suffix: " + obs
			break
		}
		if j := body.Judge(i.sc, &i.log); j.Kind != "" {
			v.Sig = map[string]string{"site": body.Site, "kind": j.Kind, "fault": "none", "shape": j.Shape()}
			v.Detail = j.Detail
		}
	case vsched.KindPanic:
		v.Sig = map[string]string{"site": sched.PanicSite(x.PanicStack), "kind": "panic", "fault": "none", "shape": shape}
		v.Detail = "panic: " + core.FirstLine(x.PanicVal) + " after " + obs
	default: // deadlock, livelock, horizon
		v.Sig = map[string]string{"site": "PrivValidator", "kind": x.Kind, "fault": "none", "shape": shape}
		v.Detail = fmt.Sprintf("%s after [%s]; threads: %s", x.Kind, obs, strings.Join(x.Blocked, "; "))
	}
	return v
}

func init() {
	sched.Register(Program, func(c json.RawMessage) (sched.Instance, error) {
		var sc body.Scenario
		if err := json.Unmarshal(c, &sc); err != nil {
			return nil, err
		}
		if len(sc.Threads) < 1 {
			return nil, fmt.Errorf("bad scenario %s", c)
		}
		return &inst{sc: sc}, nil
	})
	if os.Getenv("VERIF_SCHED_WORKER") != "" {
		glog.SetLog(zap.NewNop())
	}
	sched.WorkerEntry()
}

// Case is the replay artefact of a violating schedule.
type Case struct {
	Engine   string        `json:"engine"` // "SCHED"
	Program  string        `json:"program"`
	Scenario body.Scenario `json:"scenario"`
	Bound    int           `json:"preemptions"`
	Choices  []int32       `json:"choices"` // index into the ordered candidate list at every scheduling decision; defaults (0) afterwards
	Threads  []int32       `json:"thread_chosen"`
}

const horizon = 2000

func setDir(run *core.Run) string {
	d := filepath.Join(run.WorkDir(), "c03b-hosts")
	os.MkdirAll(d, 0755)
	os.Setenv(dirEnv, d)
	return d
}

// Replay re-executes the schedule of a replay artefact (returns false if the
// artefact is not a SCHED case of this program).
func Replay(run *core.Run) bool {
	var k Case
	if err := run.ReplayCase(&k); err != nil || k.Engine != "SCHED" || k.Program != Program {
		return false
	}
	glog.SetLog(zap.NewNop())
	d := setDir(run)
	defer os.RemoveAll(d)
	kind, v, trace := sched.Replay(Program, k.Scenario, k.Choices, horizon)
	fmt.Printf("replayed %d choices on thread set %s: %s\n", len(k.Choices), k.Scenario, kind)
	if os.Getenv("C03B_TRACE") != "" {
		fmt.Println(strings.Join(trace, "\n"))
	}
	fmt.Println("  observation:", v.Obs)
	if v.Sig != nil {
		run.Report(v.Sig, k, v.Detail)
	}
	return true
}

// Assumptions of the SCHED part.
func Assumptions() []string {
	return []string{
		"SCHED: interleavings are explored at the hooked operations (sync.Mutex Lock/Unlock) of gemmill/types/priv_validator.go; code between two points runs atomically — in particular one WriteFileAtomic (its three file operations) and one read-back of the file; Go memory-model effects other than interleaving are not modelled (the -race pass is the only guard and contributes candidates only)",
		"SCHED: bounded — 2..3 (thorough 4) callers of 1..3 requests each on one signer object, positions within heights 1..2 / rounds 0..1, two blocks, preemption bound as reported; no crash or write fault inside the concurrent phase (those are the sequential part of the check); restart only after all callers have returned",
		"SCHED oracle: a signature counts as released when the call returned nil with a signature that verifies for the request; 'already signed' for the regression clause means released by a call that had returned before the later call was made (overlapping calls may take effect in either order); refusing is always allowed; the durable record of a released signature is read back by the calling thread right after the call (file names a later position, or the same position with the same sign-bytes)",
	}
}

// Run explores and returns the coverage of the SCHED part of C03.  Violating
// schedules are reported on run.
func Run(run *core.Run) core.Coverage {
	glog.SetLog(zap.NewNop())
	self := sched.SelfTest()
	hosts := setDir(run)
	defer os.RemoveAll(hosts)

	scs := body.Scenarios(run.Quick())
	if v := os.Getenv("C03B_ONLY"); v != "" { // development aid
		var keep []body.Scenario
		for _, s := range scs {
			if strings.Contains(","+v+",", ","+s.Name+",") {
				keep = append(keep, s)
			}
		}
		scs = keep
	}
	// Pure preemption bounding (unlimited free switches): the signer has one
	// mutex; a call is 2-3 scheduling points.
	rungs := []sched.Rung{{Bound: 0, MaxFree: -1}, {Bound: 1, MaxFree: -1}, {Bound: 2, MaxFree: -1}, {Bound: 3, MaxFree: -1}}
	target := 4 // rungs that must complete for exhaustive=true
	budget := 240 * time.Second
	if !run.Quick() {
		rungs = append(rungs, sched.Rung{Bound: 4, MaxFree: -1})
		target = 5
		budget = 420 * time.Second
	}
	if v := os.Getenv("C03B_RUNGS"); v != "" { // development aid: "1:0,0:-1"
		rungs = nil
		for _, f := range strings.Split(v, ",") {
			var r sched.Rung
			fmt.Sscanf(f, "%d:%d", &r.Bound, &r.MaxFree)
			rungs = append(rungs, r)
		}
		target = len(rungs)
	}
	if v := os.Getenv("C03B_BUDGET_S"); v != "" {
		var sec int
		fmt.Sscan(v, &sec)
		budget = time.Duration(sec) * time.Second
	}
	var tasks []sched.Task
	for _, s := range scs {
		tasks = append(tasks, sched.Task{Label: s.Name, Program: Program, Config: s, Horizon: horizon, Rungs: s.Rungs})
	}

	nw := runtime.GOMAXPROCS(0)
	if nw > 8 {
		nw = 8
	}
	pool := sched.NewPool(Program, nw)
	rep := sched.Explore(pool, tasks, sched.Limits{Rungs: rungs, Deadline: time.Now().Add(budget)})
	pool.Close()

	type hit struct {
		f  sched.Found
		sc body.Scenario
	}
	var hits []hit
	kinds := map[string]int64{}
	var transitions, classes, valhists int64
	distinctObs := 0
	perSet := []interface{}{}
	samples := core.NewSampler(6, run.Seed)
	for _, tr := range rep.Tasks {
		sc := tr.Task.Config.(body.Scenario)
		maxClasses, maxVals := 0, 0
		obsSet := map[string]bool{}
		var last *sched.Pass
		var execs int64
		for _, p := range tr.Passes {
			for _, f := range p.Found {
				hits = append(hits, hit{f, sc})
			}
			transitions += p.Executions
			execs += p.Executions
			if p.Classes > maxClasses {
				maxClasses = p.Classes
			}
			if p.ValHists > maxVals {
				maxVals = p.ValHists
			}
			for o, n := range p.Outcomes {
				obsSet[o[strings.Index(o, ":"):]] = true
				kinds[o[:strings.Index(o, ":")]] += n
			}
			if p.Complete {
				last = p
			}
		}
		classes += int64(maxClasses)
		valhists += int64(maxVals)
		distinctObs += len(obsSet)
		row := map[string]interface{}{"thread_set": sc.Name, "operations": sc.String(), "executions_all_spaces": execs, "distinct_outcomes": len(obsSet)}
		if sc.Rungs > 0 {
			row["explored_only_the_first_spaces"] = sc.Rungs
		}
		if last != nil {
			row["largest_space_completed"] = last.Rung.String()
			row["executions_in_it"] = last.Executions
			row["scheduling_points_max"] = last.PointsMax
			row["threads"] = last.Threads
			row["distinct_sync_orders"] = last.Classes
			row["outcomes"] = last.OutcomeSet()
			samples.Add(map[string]interface{}{"thread_set": sc.Name, "operations": sc.String(), "space": last.Rung.String(), "schedules": last.Executions, "default_schedule_observation": last.RootObs})
		}
		var viol []string
		seen := map[string]bool{}
		for _, p := range tr.Passes {
			for _, f := range p.Found {
				k := f.Sig["kind"] + "/" + f.Sig["shape"]
				if !seen[k] {
					seen[k] = true
					viol = append(viol, fmt.Sprintf("%s (first at %d preemption(s))", k, f.Preemptions))
				}
			}
		}
		if len(viol) > 0 {
			row["violating_classes"] = viol
		}
		perSet = append(perSet, row)
	}
	sort.SliceStable(hits, func(i, j int) bool {
		if hits[i].f.Preemptions != hits[j].f.Preemptions {
			return hits[i].f.Preemptions < hits[j].f.Preemptions
		}
		return len(hits[i].f.Choices) < len(hits[j].f.Choices)
	})
	foundKinds := map[string]int{}
	for _, h := range hits {
		foundKinds[h.f.Sig["kind"]+"/"+h.f.Sig["shape"]]++
		k := Case{Engine: "SCHED", Program: Program, Scenario: h.sc, Bound: h.f.Preemptions, Choices: h.f.Choices, Threads: h.f.Tids}
		detail := fmt.Sprintf("thread set %s: %s, schedule with %d preemption(s) (%d scheduling decisions replayed, then defaults): %s", h.sc.Name, h.sc, h.f.Preemptions, len(h.f.Choices), h.f.Detail)
		run.Report(h.f.Sig, k, detail)
	}

	cov := core.Coverage{}
	for k, v := range rep.Summary() {
		cov[k] = v
	}
	cov["engine_self_tests"] = self
	cov["states"] = classes
	cov["transitions"] = transitions
	cov["traces_validated_against_impl"] = transitions
	cov["evaluations"] = transitions
	cov["distinct_nontrivial"] = distinctObs
	cov["distinct_read_value_histories"] = valhists
	cov["per_thread_set"] = perSet
	cov["execution_kinds"] = kinds
	cov["violating_schedule_classes"] = foundKinds
	cov["tasks"] = len(tasks)
	cov["worker_processes"] = nw
	cov["determinism_self_check"] = determinismCheck(scs)
	exhaustive := rep.RungsCompleted >= target
	cov["exhaustive"] = exhaustive
	var ladder []string
	for _, r := range rungs {
		ladder = append(ladder, r.String())
	}
	cov["bounds"] = map[string]interface{}{"threads": "2..3 quick, ..4 thorough", "requests_per_thread": "1..2 quick, ..3 thorough",
		"schedule_spaces_in_order": ladder, "spaces_required_for_exhaustive": target, "step_horizon": horizon}
	cov["rule"] = "per thread set (see per_thread_set.operations: sequential prefix ; [caller | caller | …] ; sequential suffix, L = kill + restart from the signer file) and per schedule space (preemptions<=b with unlimited free switches; bounds.schedule_spaces_in_order, exhausted in that order): stateless DFS over the scheduling decisions of the real PrivValidator.SignVote/SignProposal on one signer object with its real file (priv_validator.go transformed: every Lock/Unlock of the signer's mutex is a scheduling point) — every alternative thread at every scheduling point whose schedule stays inside the space; transitions = schedules executed (each one on the real code, each one judged by the oracle: no two different sign-bytes for one height/round/step, no signature below a position released before the call, durable record read back after every release); states = distinct per-object operation orders; distinct_nontrivial = distinct outcomes (per-thread result sequences) summed over thread sets — per_thread_set.distinct_outcomes = 1 would mean that nothing collided in that set"
	if !exhaustive {
		pure, restr := rep.MaxPreemptionBound()
		cov["cap"] = fmt.Sprintf("time budget %v reached after %d of %d schedule spaces (the first %d are required for exhaustive=true): largest preemption bound completed = %d (with unlimited free switches: %d)", budget, rep.RungsCompleted, len(rungs), target, restr, pure)
	}
	cov["samples"] = samples.List()
	racePass(run, cov, foundKinds, hosts)
	return cov
}

// determinismCheck replays one recorded non-default schedule of the first
// thread set twice in this process and compares observation and kind (the
// explorer additionally proves determinism for every (thread set, space): see
// determinism_proof_replays).
func determinismCheck(scs []body.Scenario) map[string]interface{} {
	if len(scs) == 0 {
		return nil
	}
	sc := scs[0]
	cfg, _ := json.Marshal(sc)
	x, v0, err := sched.RunOnce(Program, cfg, nil, nil, nil, horizon, false)
	if err != nil {
		core.Fatal("determinism self-check: %v", err)
	}
	// deviate at the last decision point that had an alternative
	choices := make([]int32, len(x.Points))
	at := -1
	for i, p := range x.Points {
		if p.N > 1 && p.CurEnabled {
			at = i
		}
	}
	if at >= 0 {
		choices = choices[:at+1]
		choices[at] = 1
	}
	var digests []string
	var obs []string
	for rep := 0; rep < 2; rep++ {
		y, v, err := sched.RunOnce(Program, cfg, choices, nil, nil, horizon, false)
		if err != nil || y.Kind == vsched.KindDiverged {
			core.Fatal("determinism self-check: replay failed (%v)", err)
		}
		digests = append(digests, fmt.Sprintf("%016x/%016x/%d", y.Digest, y.Class, len(y.Points)))
		obs = append(obs, v.Obs)
	}
	if digests[0] != digests[1] || obs[0] != obs[1] {
		core.Fatal("determinism self-check failed: the same schedule of %s gave %s / %s and %q / %q", sc.Name, digests[0], digests[1], obs[0], obs[1])
	}
	return map[string]interface{}{"thread_set": sc.Name, "schedule": fmt.Sprintf("default up to decision %d, then the first alternative, then defaults", at), "replays": 2,
		"digest_points": digests[0], "observation": obs[0], "default_schedule_observation": v0.Obs, "identical": true}
}

// ---------------------------------------------------------------- free-running -race pass

var raceFn = regexp.MustCompile(`gemmill/types\.([A-Za-z0-9_()*.]+?)\(\)\n\s+\S+?:(\d+)`)

func racePass(run *core.Run, cov core.Coverage, foundKinds map[string]int, hosts string) {
	bin := os.Getenv("C03B_RACE_BIN")
	if bin == "" {
		if self, err := os.Executable(); err == nil {
			bin = filepath.Join(filepath.Dir(self), "c03race")
		}
	}
	if _, err := os.Stat(bin); err != nil {
		cov["race_pass"] = "skipped: " + bin + " not built (props/c03sched/prebuild.sh builds it with go build -race)"
		return
	}
	reps, secs := "200", "10"
	if !run.Quick() {
		reps, secs = "2000", "45"
	}
	cmd := exec.Command(bin, reps, run.Tier, secs)
	cmd.Env = append(os.Environ(), "GOMAXPROCS=8", "GORACE=halt_on_error=0 exitcode=0", dirEnv+"="+filepath.Join(hosts, "race"))
	var so, se bytes.Buffer
	cmd.Stdout, cmd.Stderr = &so, &se
	start := time.Now()
	err := cmd.Run()
	res := map[string]interface{}{"wall_s": float64(int(time.Since(start).Seconds()*10)) / 10}
	var sum struct {
		Runs       int               `json:"runs"`
		Mismatches map[string]string `json:"mismatches"`
		Outcomes   map[string]int    `json:"distinct_outcomes_per_thread_set"`
		PerConfig  int               `json:"reps_per_thread_set"`
	}
	if err != nil || json.Unmarshal(so.Bytes(), &sum) != nil {
		core.Fatal("race pass: %v\n%s\n%s", err, so.String(), tail(se.String(), 2000))
	}
	reports := strings.Count(se.String(), "WARNING: DATA RACE")
	cands := map[string]int{}
	for _, rp := range strings.Split(se.String(), "WARNING: DATA RACE")[1:] {
		var acc []string
		for _, sec := range strings.SplitN(rp, "Previous ", 2) {
			if m := raceFn.FindStringSubmatch(sec); m != nil {
				acc = append(acc, m[1]+":"+m[2])
			}
		}
		sort.Strings(acc)
		cands[strings.Join(acc, " / ")]++
	}
	res["free_runs"] = sum.Runs
	res["reps_per_thread_set"] = sum.PerConfig
	res["distinct_outcomes_per_thread_set"] = sum.Outcomes
	res["data_race_reports"] = reports
	res["race_candidates"] = cands
	res["free_run_oracle_mismatches"] = sum.Mismatches
	if reports == 0 && len(sum.Mismatches) == 0 {
		res["status"] = "clean"
	} else {
		var conf, open []string
		for k := range sum.Mismatches {
			if foundKinds[k] > 0 {
				conf = append(conf, k+": CONFIRMED — a SCHED schedule of the same class is reported with its replayable schedule")
			} else {
				open = append(open, k)
			}
		}
		sort.Strings(conf)
		sort.Strings(open)
		res["status"] = "race reports and free-run mismatches are violation CANDIDATES only; a candidate counts when a SCHED schedule exhibits the same class"
		res["confirmed_by_sched"] = conf
		res["not_confirmed"] = open
	}
	cov["race_pass"] = res
}

func tail(s string, n int) string {
	if len(s) > n {
		return s[len(s)-n:]
	}
	return s
}
