package sched

import (
	"encoding/json"
	"fmt"
	"sort"
	"sync"
	"time"
)

// Task is one program configuration whose schedules are to be explored.
type Task struct {
	Label   string      // short unique name (evidence, artefacts)
	Program string      // registered program
	Config  interface{} // marshalled to JSON for the factory
	Horizon int         // step horizon of one execution (0 = 100000)
	Rungs   int         // run only the first Rungs rungs of Limits.Rungs for this task (0 = all)
}

// Rung is one finite schedule space: every schedule with at most Bound
// preemptions (switches away from a thread that could have continued) and at
// most MaxFree non-default choices at the other decision points, where the
// running thread blocked, finished, slept or was de-prioritised as a spinner
// and the default is the lowest thread id (MaxFree < 0: unlimited = pure
// preemption bounding, the CHESS space).
type Rung struct {
	Bound   int
	MaxFree int
}

func (r Rung) String() string {
	if r.MaxFree < 0 {
		return fmt.Sprintf("preemptions<=%d", r.Bound)
	}
	return fmt.Sprintf("preemptions<=%d,free-switch-deviations<=%d", r.Bound, r.MaxFree)
}

// Limits says how far to explore.
type Limits struct {
	Rungs        []Rung    // spaces to exhaust, in this order (cheapest first)
	Deadline     time.Time // zero = none; passes cut by it are reported incomplete
	NoAfterLoads bool      // reduction: no scheduling point after atomic loads
}

// Pass is the result of exploring one task under one bound.
type Pass struct {
	Rung       Rung
	RungIndex  int
	Complete   bool
	Jobs       int
	Executions int64
	Replays    int
	Steps      int64
	PointsSum  int64
	PointsMin  int
	PointsMax  int
	ChoiceSum  int64
	Threads    int
	ByPreempt  map[int]int64
	Kinds      map[string]int64
	Outcomes   map[string]int64
	Classes    int
	ValHists   int
	Found      []Found
	RootObs    string
}

// TaskReport collects the passes of one task.
type TaskReport struct {
	Task   Task
	Passes []*Pass
}

// Report is the result of Explore.
type Report struct {
	Tasks          []*TaskReport
	Rungs          []Rung
	RungsCompleted int  // number of leading rungs completed for every task they apply to
	Exhaustive     bool // all rungs completed
	WallS          float64
}

type passAcc struct {
	mu      sync.Mutex
	p       *Pass
	classes map[uint64]struct{}
	vals    map[uint64]struct{}
	found   map[string]Found
}

func (a *passAcc) add(r *JobResult) {
	a.mu.Lock()
	defer a.mu.Unlock()
	p := a.p
	p.Jobs++
	if !r.Complete {
		p.Complete = false
	}
	p.Executions += r.Executions
	p.Replays += r.Replays
	p.Steps += r.Steps
	p.PointsSum += r.PointsSum
	p.ChoiceSum += r.ChoiceSum
	if r.PointsMin > 0 && (p.PointsMin == 0 || r.PointsMin < p.PointsMin) {
		p.PointsMin = r.PointsMin
	}
	if r.PointsMax > p.PointsMax {
		p.PointsMax = r.PointsMax
	}
	if r.Threads > p.Threads {
		p.Threads = r.Threads
	}
	for k, v := range r.ByPreempt {
		p.ByPreempt[k] += v
	}
	for k, v := range r.Kinds {
		p.Kinds[k] += v
	}
	for k, v := range r.Outcomes {
		p.Outcomes[k] += v
	}
	for _, c := range r.Classes {
		a.classes[c] = struct{}{}
	}
	for _, c := range r.ValHists {
		a.vals[c] = struct{}{}
	}
	for _, f := range r.Found {
		k := sigKey(f.Sig)
		old, ok := a.found[k]
		if !ok || f.Preemptions < old.Preemptions || (f.Preemptions == old.Preemptions && len(f.Choices) < len(old.Choices)) {
			a.found[k] = f
		}
	}
}

// Explore exhausts, for every task, the rungs of lim.Rungs in order (all tasks
// on rung k before any task on rung k+1), sharding each (task, rung) pass over
// the executor's workers by first-level subtrees.  An internal
// error of any execution (divergent replay, failed determinism proof) ends
// the process with exit code 2.
func Explore(ex Executor, tasks []Task, lim Limits) *Report {
	start := time.Now()
	rep := &Report{Rungs: lim.Rungs}
	for _, t := range tasks {
		rep.Tasks = append(rep.Tasks, &TaskReport{Task: t})
	}
	var idMu sync.Mutex
	nextID := 0
	newID := func() int {
		idMu.Lock()
		defer idMu.Unlock()
		nextID++
		return nextID
	}
	dl := int64(0)
	if !lim.Deadline.IsZero() {
		dl = lim.Deadline.UnixNano() / 1e6
	}
	expired := func() bool { return dl > 0 && time.Now().UnixNano()/1e6 > dl }
	sem := make(chan struct{}, ex.Workers()*4)
	allDone := true
	for ri, rung := range lim.Rungs {
		bound := rung.Bound
		if expired() {
			allDone = false
			break
		}
		var wg sync.WaitGroup
		accs := make([]*passAcc, len(tasks))
		for ti := range tasks {
			t := tasks[ti]
			if t.Rungs > 0 && ri >= t.Rungs {
				continue
			}
			cfg, err := json.Marshal(t.Config)
			if err != nil {
				InternalError("task %s: config: %v", t.Label, err)
			}
			acc := &passAcc{p: &Pass{Rung: rung, RungIndex: ri, Complete: true, ByPreempt: map[int]int64{}, Kinds: map[string]int64{}, Outcomes: map[string]int64{}},
				classes: map[uint64]struct{}{}, vals: map[uint64]struct{}{}, found: map[string]Found{}}
			accs[ti] = acc
			mk := func(mode string) *Job {
				return &Job{ID: newID(), Mode: mode, Program: t.Program, Config: cfg, Bound: bound, MaxFree: rung.MaxFree, Horizon: t.Horizon, Deadline: dl, NoAfterLoads: lim.NoAfterLoads}
			}
			wg.Add(1)
			go func() {
				defer wg.Done()
				if expired() {
					acc.p.Complete = false
					return
				}
				sem <- struct{}{}
				root := ex.Do(mk("root"))
				<-sem
				if root.Err != "" {
					InternalError("task %s (%s): %s", t.Label, rung, root.Err)
				}
				acc.add(root)
				acc.p.RootObs = root.RootObs
				var cw sync.WaitGroup
				// first-level subtrees, a few per job (small subtrees first
				// would starve the pool at the end: keep the order, early
				// deviations have the largest subtrees)
				per := len(root.Children)/ex.Workers() + 1
				if per > 48 {
					per = 48
				}
				for lo := 0; lo < len(root.Children); lo += per {
					if expired() {
						acc.mu.Lock()
						acc.p.Complete = false
						acc.mu.Unlock()
						break
					}
					hi := lo + per
					if hi > len(root.Children) {
						hi = len(root.Children)
					}
					j := mk("subtree")
					j.Batch = root.Children[lo:hi]
					cw.Add(1)
					sem <- struct{}{}
					go func() {
						defer cw.Done()
						r := ex.Do(j)
						<-sem
						if r.Err != "" {
							InternalError("task %s (%s) subtrees %v..: %s", t.Label, rung, j.Batch[0].Prefix, r.Err)
						}
						acc.add(r)
					}()
				}
				cw.Wait()
			}()
		}
		wg.Wait()
		complete := true
		for ti, acc := range accs {
			if acc == nil {
				continue
			}
			acc.p.Classes, acc.p.ValHists = len(acc.classes), len(acc.vals)
			keys := make([]string, 0, len(acc.found))
			for k := range acc.found {
				keys = append(keys, k)
			}
			sort.Strings(keys)
			for _, k := range keys {
				acc.p.Found = append(acc.p.Found, acc.found[k])
			}
			rep.Tasks[ti].Passes = append(rep.Tasks[ti].Passes, acc.p)
			if !acc.p.Complete {
				complete = false
			}
		}
		if !complete {
			allDone = false
			break
		}
		rep.RungsCompleted = ri + 1
	}
	rep.Exhaustive = allDone && len(lim.Rungs) > 0 && rep.RungsCompleted == len(lim.Rungs)
	rep.WallS = time.Since(start).Seconds()
	return rep
}

// Last returns the last pass of the task that completed (nil if none).
func (tr *TaskReport) Last() *Pass {
	var p *Pass
	for _, q := range tr.Passes {
		if q.Complete {
			p = q
		}
	}
	return p
}

// OutcomeSet returns the sorted distinct observations of a pass.
func (p *Pass) OutcomeSet() []string {
	var o []string
	for k := range p.Outcomes {
		o = append(o, k)
	}
	sort.Strings(o)
	return o
}

// Replay re-executes one recorded schedule in this process with tracing and
// returns the execution, the harness verdict and the readable trace.
func Replay(program string, cfg interface{}, choices []int32, horizon int) (kind string, v Verdict, trace []string) {
	b, err := json.Marshal(cfg)
	if err != nil {
		InternalError("replay: %v", err)
	}
	x, v, err := RunOnce(program, b, choices, nil, nil, horizon, true)
	if err != nil {
		InternalError("replay: %v", err)
	}
	if x.Kind == "diverged" {
		InternalError("replay of %v diverged at point %d: the artefact does not fit the current code under test (or the execution is not deterministic)", choices, x.BadPoint)
	}
	return x.Kind, v, x.Trace
}

// MaxPreemptionBound returns the largest b such that the pure preemption
// bound b (MaxFree < 0) was completed, and the largest b completed under any
// free-switch restriction (-1 = none).
func (rep *Report) MaxPreemptionBound() (pure, restricted int) {
	pure, restricted = -1, -1
	for i := 0; i < rep.RungsCompleted; i++ {
		r := rep.Rungs[i]
		if r.MaxFree < 0 && r.Bound > pure {
			pure = r.Bound
		}
		if r.Bound > restricted {
			restricted = r.Bound
		}
	}
	return
}

// Summary condenses a report into evidence fields shared by all clients.
func (rep *Report) Summary() map[string]interface{} {
	type rungSum struct {
		Space      string  `json:"space"`
		Tasks      int     `json:"tasks"`
		Complete   bool    `json:"complete"`
		Schedules  int64   `json:"schedules"`
		Jobs       int     `json:"subtree_jobs"`
		Classes    int     `json:"distinct_sync_orders"`
		ValHists   int     `json:"distinct_read_value_histories"`
		Outcomes   int     `json:"distinct_outcomes"`
		PointsMin  int     `json:"points_min"`
		PointsMax  int     `json:"points_max"`
		PointsMean float64 `json:"points_mean"`
		ChoiceMean float64 `json:"choice_points_mean"`
	}
	m := map[int]*rungSum{}
	var total, replays int64
	for _, tr := range rep.Tasks {
		for _, p := range tr.Passes {
			b := m[p.RungIndex]
			if b == nil {
				b = &rungSum{Space: p.Rung.String(), Complete: true}
				m[p.RungIndex] = b
			}
			b.Tasks++
			if !p.Complete {
				b.Complete = false
			}
			b.Schedules += p.Executions
			b.Jobs += p.Jobs
			b.Classes += p.Classes
			b.ValHists += p.ValHists
			b.Outcomes += len(p.Outcomes)
			if p.PointsMin > 0 && (b.PointsMin == 0 || p.PointsMin < b.PointsMin) {
				b.PointsMin = p.PointsMin
			}
			if p.PointsMax > b.PointsMax {
				b.PointsMax = p.PointsMax
			}
			b.PointsMean += float64(p.PointsSum)
			b.ChoiceMean += float64(p.ChoiceSum)
			total += p.Executions
			replays += int64(p.Replays)
		}
	}
	var bs []*rungSum
	for i := range rep.Rungs {
		x := m[i]
		if x == nil {
			continue
		}
		if x.Schedules > 0 {
			x.PointsMean = float64(int(x.PointsMean/float64(x.Schedules)*10)) / 10
			x.ChoiceMean = float64(int(x.ChoiceMean/float64(x.Schedules)*10)) / 10
		}
		bs = append(bs, x)
	}
	pure, restr := rep.MaxPreemptionBound()
	return map[string]interface{}{
		"per_space":                      bs,
		"spaces_completed":               rep.RungsCompleted,
		"max_preemption_bound_completed": restr,
		"max_preemption_bound_completed_with_unlimited_free_switches": pure,
		"schedules_executed_all_passes":                               total,
		"determinism_proof_replays":                                   replays,
		"explore_wall_s":                                              float64(int(rep.WallS*10)) / 10,
	}
}
