package sched

import (
	"encoding/json"
	"fmt"
	"sort"
	"sync"
	"time"
)

// Task is one program configuration whose schedules are to be explored.
type Task struct {
	Label   string      // short unique name (evidence, artefacts)
	Program string      // registered program
	Config  interface{} // marshalled to JSON for the factory
	Horizon int         // step horizon of one execution (0 = 100000)
}

// Limits says how far to explore.
type Limits struct {
	Bounds       []int     // preemption bounds to run, ascending (e.g. 0,1,2)
	MaxDev       int       // additional cap on non-default choices per schedule (0 = none)
	Deadline     time.Time // zero = none; passes cut by it are reported incomplete
	NoAfterLoads bool      // reduction: no scheduling point after atomic loads
}

// Pass is the result of exploring one task under one bound.
type Pass struct {
	Bound      int
	Complete   bool
	Jobs       int
	Executions int64
	Replays    int
	Steps      int64
	PointsSum  int64
	PointsMin  int
	PointsMax  int
	ChoiceSum  int64
	Threads    int
	ByPreempt  map[int]int64
	Kinds      map[string]int64
	Outcomes   map[string]int64
	Classes    int
	ValHists   int
	Found      []Found
	RootObs    string
}

// TaskReport collects the passes of one task.
type TaskReport struct {
	Task   Task
	Passes []*Pass
}

// Report is the result of Explore.
type Report struct {
	Tasks          []*TaskReport
	BoundCompleted int // largest bound completed for EVERY task (-1 = none)
	Exhaustive     bool
	WallS          float64
}

type passAcc struct {
	mu      sync.Mutex
	p       *Pass
	classes map[uint64]struct{}
	vals    map[uint64]struct{}
	found   map[string]Found
}

func (a *passAcc) add(r *JobResult) {
	a.mu.Lock()
	defer a.mu.Unlock()
	p := a.p
	p.Jobs++
	if !r.Complete {
		p.Complete = false
	}
	p.Executions += r.Executions
	p.Replays += r.Replays
	p.Steps += r.Steps
	p.PointsSum += r.PointsSum
	p.ChoiceSum += r.ChoiceSum
	if r.PointsMin > 0 && (p.PointsMin == 0 || r.PointsMin < p.PointsMin) {
		p.PointsMin = r.PointsMin
	}
	if r.PointsMax > p.PointsMax {
		p.PointsMax = r.PointsMax
	}
	if r.Threads > p.Threads {
		p.Threads = r.Threads
	}
	for k, v := range r.ByPreempt {
		p.ByPreempt[k] += v
	}
	for k, v := range r.Kinds {
		p.Kinds[k] += v
	}
	for k, v := range r.Outcomes {
		p.Outcomes[k] += v
	}
	for _, c := range r.Classes {
		a.classes[c] = struct{}{}
	}
	for _, c := range r.ValHists {
		a.vals[c] = struct{}{}
	}
	for _, f := range r.Found {
		k := sigKey(f.Sig)
		old, ok := a.found[k]
		if !ok || f.Preemptions < old.Preemptions || (f.Preemptions == old.Preemptions && len(f.Choices) < len(old.Choices)) {
			a.found[k] = f
		}
	}
}

// Explore runs every task under every bound of lim.Bounds (all tasks under
// bound b before any task under the next bound), sharding each (task, bound)
// pass over the executor's workers by first-level subtrees.  An internal
// error of any execution (divergent replay, failed determinism proof) ends
// the process with exit code 2.
func Explore(ex Executor, tasks []Task, lim Limits) *Report {
	start := time.Now()
	rep := &Report{BoundCompleted: -1}
	for _, t := range tasks {
		rep.Tasks = append(rep.Tasks, &TaskReport{Task: t})
	}
	var idMu sync.Mutex
	nextID := 0
	newID := func() int {
		idMu.Lock()
		defer idMu.Unlock()
		nextID++
		return nextID
	}
	dl := int64(0)
	if !lim.Deadline.IsZero() {
		dl = lim.Deadline.UnixNano() / 1e6
	}
	expired := func() bool { return dl > 0 && time.Now().UnixNano()/1e6 > dl }
	sem := make(chan struct{}, ex.Workers()*3)
	allDone := true
	for _, bound := range lim.Bounds {
		if expired() {
			allDone = false
			break
		}
		var wg sync.WaitGroup
		accs := make([]*passAcc, len(tasks))
		for ti := range tasks {
			t := tasks[ti]
			cfg, err := json.Marshal(t.Config)
			if err != nil {
				InternalError("task %s: config: %v", t.Label, err)
			}
			acc := &passAcc{p: &Pass{Bound: bound, Complete: true, ByPreempt: map[int]int64{}, Kinds: map[string]int64{}, Outcomes: map[string]int64{}},
				classes: map[uint64]struct{}{}, vals: map[uint64]struct{}{}, found: map[string]Found{}}
			accs[ti] = acc
			mk := func(mode string) *Job {
				return &Job{ID: newID(), Mode: mode, Program: t.Program, Config: cfg, Bound: bound, MaxDev: lim.MaxDev, Horizon: t.Horizon, Deadline: dl, NoAfterLoads: lim.NoAfterLoads}
			}
			wg.Add(1)
			go func() {
				defer wg.Done()
				if expired() {
					acc.p.Complete = false
					return
				}
				sem <- struct{}{}
				root := ex.Do(mk("root"))
				<-sem
				if root.Err != "" {
					InternalError("task %s bound %d: %s", t.Label, bound, root.Err)
				}
				acc.add(root)
				acc.p.RootObs = root.RootObs
				var cw sync.WaitGroup
				for _, ch := range root.Children {
					if expired() {
						acc.mu.Lock()
						acc.p.Complete = false
						acc.mu.Unlock()
						break
					}
					j := mk("subtree")
					j.Prefix, j.ExpN, j.ExpTid = ch.Prefix, ch.ExpN, ch.ExpTid
					cw.Add(1)
					sem <- struct{}{}
					go func() {
						defer cw.Done()
						r := ex.Do(j)
						<-sem
						if r.Err != "" {
							InternalError("task %s bound %d subtree %v: %s", t.Label, bound, j.Prefix, r.Err)
						}
						acc.add(r)
					}()
				}
				cw.Wait()
			}()
		}
		wg.Wait()
		complete := true
		for ti, acc := range accs {
			acc.p.Classes, acc.p.ValHists = len(acc.classes), len(acc.vals)
			keys := make([]string, 0, len(acc.found))
			for k := range acc.found {
				keys = append(keys, k)
			}
			sort.Strings(keys)
			for _, k := range keys {
				acc.p.Found = append(acc.p.Found, acc.found[k])
			}
			rep.Tasks[ti].Passes = append(rep.Tasks[ti].Passes, acc.p)
			if !acc.p.Complete {
				complete = false
			}
		}
		if !complete {
			allDone = false
			break
		}
		rep.BoundCompleted = bound
	}
	rep.Exhaustive = allDone && len(lim.Bounds) > 0 && rep.BoundCompleted == lim.Bounds[len(lim.Bounds)-1]
	rep.WallS = time.Since(start).Seconds()
	return rep
}

// Last returns the last pass of the task that completed (nil if none).
func (tr *TaskReport) Last() *Pass {
	var p *Pass
	for _, q := range tr.Passes {
		if q.Complete {
			p = q
		}
	}
	return p
}

// OutcomeSet returns the sorted distinct observations of a pass.
func (p *Pass) OutcomeSet() []string {
	var o []string
	for k := range p.Outcomes {
		o = append(o, k)
	}
	sort.Strings(o)
	return o
}

// Replay re-executes one recorded schedule in this process with tracing and
// returns the execution, the harness verdict and the readable trace.
func Replay(program string, cfg interface{}, choices []int32, horizon int) (kind string, v Verdict, trace []string) {
	b, err := json.Marshal(cfg)
	if err != nil {
		InternalError("replay: %v", err)
	}
	x, v, err := RunOnce(program, b, choices, nil, nil, horizon, true)
	if err != nil {
		InternalError("replay: %v", err)
	}
	if x.Kind == "diverged" {
		InternalError("replay of %v diverged at point %d: the artefact does not fit the current code under test (or the execution is not deterministic)", choices, x.BadPoint)
	}
	return x.Kind, v, x.Trace
}

// Summary condenses a report into evidence fields shared by all clients.
func (rep *Report) Summary() map[string]interface{} {
	type boundSum struct {
		Bound      int   `json:"bound"`
		Complete   bool  `json:"complete"`
		Schedules  int64 `json:"schedules"`
		Jobs       int   `json:"subtree_jobs"`
		Classes    int   `json:"distinct_sync_orders"`
		ValHists   int   `json:"distinct_read_value_histories"`
		Outcomes   int   `json:"distinct_outcomes"`
		PointsMin  int   `json:"points_min"`
		PointsMax  int   `json:"points_max"`
		PointsMean float64 `json:"points_mean"`
		ChoiceMean float64 `json:"choice_points_mean"`
	}
	m := map[int]*boundSum{}
	var order []int
	var total, replays int64
	kinds := map[string]int64{}
	byPre := map[string]int64{}
	for _, tr := range rep.Tasks {
		for _, p := range tr.Passes {
			b := m[p.Bound]
			if b == nil {
				b = &boundSum{Bound: p.Bound, Complete: true}
				m[p.Bound] = b
				order = append(order, p.Bound)
			}
			if !p.Complete {
				b.Complete = false
			}
			b.Schedules += p.Executions
			b.Jobs += p.Jobs
			b.Classes += p.Classes
			b.ValHists += p.ValHists
			b.Outcomes += len(p.Outcomes)
			if p.PointsMin > 0 && (b.PointsMin == 0 || p.PointsMin < b.PointsMin) {
				b.PointsMin = p.PointsMin
			}
			if p.PointsMax > b.PointsMax {
				b.PointsMax = p.PointsMax
			}
			b.PointsMean += float64(p.PointsSum)
			b.ChoiceMean += float64(p.ChoiceSum)
			total += p.Executions
			replays += int64(p.Replays)
		}
		if lp := tr.Last(); lp != nil {
			for k, v := range lp.Kinds {
				kinds[k] += v
			}
			for k, v := range lp.ByPreempt {
				byPre[fmt.Sprint(k)] += v
			}
		}
	}
	sort.Ints(order)
	var bs []*boundSum
	for _, b := range order {
		x := m[b]
		if x.Schedules > 0 {
			x.PointsMean = float64(int(x.PointsMean/float64(x.Schedules)*10)) / 10
			x.ChoiceMean = float64(int(x.ChoiceMean/float64(x.Schedules)*10)) / 10
		}
		bs = append(bs, x)
	}
	return map[string]interface{}{
		"per_bound":                    bs,
		"max_preemption_bound_completed": rep.BoundCompleted,
		"schedules_executed_all_passes":  total,
		"determinism_proof_replays":      replays,
		"termination_kinds_at_last_completed_bound": kinds,
		"schedules_by_preemptions_at_last_completed_bound": byPre,
		"explore_wall_s": float64(int(rep.WallS*10)) / 10,
	}
}
