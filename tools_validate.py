#!/usr/bin/env python3
# validates MANIFEST.json and evidence/*.json against the given schemas
import json,sys,glob
import jsonschema
ms=json.load(open('/root/.vp/MANIFEST.schema.json')); es=json.load(open('/root/.vp/EVIDENCE.schema.json'))
m=json.load(open('/verif/MANIFEST.json')); jsonschema.validate(m,ms)
props=[json.loads(l)['id'] for l in open('/verif/properties.jsonl')]
claimed=[c['property_id'] for c in m['checks']]; na=[c['property_id'] for c in m.get('not_applicable',[])]
assert sorted(claimed+na)==sorted(props),(sorted(set(props)-set(claimed+na)), [x for x in claimed if x in na])
ok=True
for c in m['checks']:
    p='/verif/'+c['evidence_file'] if not c['evidence_file'].startswith('/') else c['evidence_file']
    try:
        e=json.load(open(p)); jsonschema.validate(e,es)
        assert e['level']==c['level_claimed']['category'],(e['level'],c['level_claimed']['category'])
        print(c['property_id'],'ok',e['tier'],e['wall_s'],'s')
    except Exception as ex:
        ok=False; print(c['property_id'],'EVIDENCE PROBLEM',str(ex)[:300])
print('manifest ok; claimed',len(claimed),'n/a',len(na))
sys.exit(0 if ok else 1)
