// Package evmkit drives the REAL application chain/app/evm.EVMApp stand-alone,
// without a consensus engine: the harness plays the part of
// gemmill/state/execution.go (ExecBlock → OnExecute, CommitStateUpdateMempool →
// OnCommit) and hands the application blocks whose headers carry the AppHash /
// ReceiptsHash the previous commit returned, exactly as pbft's MakeBlock does.
//
// Shape of the API (see README.md for usage and gotchas):
//
//	evmkit.Silence()                                    // once per process
//	c, err := evmkit.Open(evmkit.Options{Dir: d, Alloc: ...})  // NewEVMApp + Start (LevelDB under d)
//	res, err := c.ExecBlock(txs)                        // MakeBlock + OnExecute + OnCommit, advances the chain
//	blk := c.MakeBlock(txs); er, err := c.Execute(blk); cr, err := c.Commit(blk)   // the same in steps
//	c.Reopen()  /  c.Close()                            // Stop + NewEVMApp + Start on the same directory
//	evmkit.CopyDir(src, dst)                            // clone a closed chain directory (cheap state clone)
//	c.Nonce(addr) c.Receipt(txhash) c.KVGet(key) c.CallContract(acc, to, data) c.BalanceVia(store, addr)
//
//	acc := evmkit.Key(i)                                // deterministic accounts
//	evmkit.Transfer / Create / Call / KVPut / AdminOp / Sign / EncodeTx      // signed, RLP-encoded txs ([]byte)
//	evmkit.StoreInit / LoopInit, StoreSet(w) / StoreFail() / StoreGet() / StoreBal(a)   // fixture contracts
//
// Nothing in this package judges anything; it only builds inputs and reads
// results.  All application entry points are called on the caller's goroutine
// (unless Chain.ViaHooks is set), so a panic inside OnExecute's executing loop
// propagates to the caller and can be captured with core.Try.
package evmkit

import (
	"crypto/ecdsa"
	"encoding/json"
	"fmt"
	"io"
	"io/ioutil"
	"math/big"
	"os"
	"path/filepath"
	"strings"
	"sync"
	"time"

	"github.com/spf13/viper"
	"go.uber.org/zap"

	"github.com/dappledger/AnnChain/chain/app/evm"
	rtypes "github.com/dappledger/AnnChain/chain/types"
	"github.com/dappledger/AnnChain/eth/accounts/abi"
	"github.com/dappledger/AnnChain/eth/common"
	ecore "github.com/dappledger/AnnChain/eth/core"
	etypes "github.com/dappledger/AnnChain/eth/core/types"
	"github.com/dappledger/AnnChain/eth/core/vm"
	"github.com/dappledger/AnnChain/eth/crypto"
	"github.com/dappledger/AnnChain/eth/rlp"
	glog "github.com/dappledger/AnnChain/gemmill/modules/go-log"
	gtypes "github.com/dappledger/AnnChain/gemmill/types"
)

// Silence routes the repository's zap logger to a no-op logger (the in-tree
// go-ethereum logger already discards by default).  Call once before Open.
func Silence() { glog.SetLog(zap.NewNop()) }

// ChainID is the chain id written into every block header.
const ChainID = "evmkit"

// DefaultGas is the gas limit the builders use unless told otherwise.  The
// chain runs with gas price 0 (nothing ever mints balance on this chain), so
// the limit only has to exceed the intrinsic gas.
const DefaultGas uint64 = 10000000

// ---------------------------------------------------------------- accounts

// Account is a deterministic secp256k1 key with its Ethereum address.
type Account struct {
	Priv *ecdsa.PrivateKey
	Addr common.Address
}

// Key returns the i-th deterministic account (private key = keccak256("evmkit-key-<i>")).
func Key(i int) *Account {
	seed := crypto.Keccak256([]byte(fmt.Sprintf("evmkit-key-%d", i)))
	k, err := crypto.ToECDSA(seed)
	if err != nil {
		panic(err)
	}
	return &Account{Priv: k, Addr: crypto.PubkeyToAddress(k.PublicKey)}
}

// ---------------------------------------------------------------- chain

// Options configures Open.
type Options struct {
	// Dir is the application's data directory (db_dir).  Created if missing.
	// Re-opening an existing directory resumes that chain.
	Dir string
	// Alloc pre-funds accounts.  Only honoured when Dir holds no chain yet: the
	// harness then writes the genesis state itself = the repository's
	// core.DefaultGenesis() (admin contract at 0x02000000) + these balances, and
	// records it as last block 0, which makes the application skip its own
	// writeGenesis.  NOTE: on the real chain no account is ever funded (there is
	// no allocation other than the admin contract and nothing mints), so a
	// funded state is a harness state; with Alloc == nil the genesis is written
	// by the application itself.
	Alloc map[common.Address]*big.Int
	// AllocNonce gives accounts a non-zero nonce in that harness genesis (only
	// together with the fresh-directory genesis described above; an address may
	// appear here without appearing in Alloc).
	AllocNonce map[common.Address]uint64
	// BlockSize is config key block_size (tx-pool limits are 10× this). Default 5000.
	BlockSize int
	// ViaHooks makes Execute/Commit go through the application's gtypes.Hook
	// objects (Hook.Sync: callback on a fresh goroutine) the way the angine's
	// event listeners do, instead of calling OnExecute/OnCommit directly.  A
	// panic of the callback then kills the process.
	ViaHooks bool
}

// Chain is one application instance plus the little bit of consensus state
// the harness has to carry from block to block.
type Chain struct {
	App  *evm.EVMApp
	Opts Options

	// Tip describes the last committed block (persisted in <Dir>/evmkit.json so
	// that a copied directory can be resumed with the right header fields).
	Tip Tip
}

// Tip is what the next block header is derived from.
type Tip struct {
	Height       int64  `json:"height"`
	AppHash      []byte `json:"app_hash"`      // returned by the last OnCommit (nil before block 1, like state.AppHash of a fresh chain)
	ReceiptsHash []byte `json:"receipts_hash"` // returned by the last OnCommit
	BlockHash    []byte `json:"block_hash"`    // hash of the last block (LastBlockID of the next)
}

const tipFile = "evmkit.json"

// Open constructs the application on opt.Dir and starts it.
func Open(opt Options) (*Chain, error) {
	if opt.Dir == "" {
		return nil, fmt.Errorf("evmkit: Options.Dir is empty")
	}
	if opt.BlockSize == 0 {
		opt.BlockSize = 5000
	}
	if err := os.MkdirAll(opt.Dir, 0755); err != nil {
		return nil, err
	}
	c := &Chain{Opts: opt}
	fresh := true
	if b, err := ioutil.ReadFile(filepath.Join(opt.Dir, tipFile)); err == nil {
		if err := json.Unmarshal(b, &c.Tip); err != nil {
			return nil, fmt.Errorf("evmkit: corrupt %s: %v", tipFile, err)
		}
		fresh = false
	}
	if fresh && len(opt.Alloc)+len(opt.AllocNonce) > 0 {
		if err := writeFundedGenesis(opt.Dir, opt.Alloc, opt.AllocNonce); err != nil {
			return nil, err
		}
	}
	if err := c.start(); err != nil {
		return nil, err
	}
	if fresh {
		c.saveTip()
	} else if info := c.App.Info(); info.LastBlockHeight != c.Tip.Height {
		c.App.Stop()
		return nil, fmt.Errorf("evmkit: directory %s: application is at height %d, %s says %d", opt.Dir, info.LastBlockHeight, tipFile, c.Tip.Height)
	}
	return c, nil
}

func (c *Chain) start() error {
	conf := viper.New()
	conf.Set("db_dir", c.Opts.Dir)
	conf.Set("block_size", c.Opts.BlockSize)
	app, err := evm.NewEVMApp(conf)
	if err != nil {
		return err
	}
	if err := app.Start(); err != nil {
		return err
	}
	c.App = app
	return nil
}

// writeFundedGenesis writes DefaultGenesis()+alloc into <dir>/chaindata and
// the matching last-block record, using the repository's own functions.
func writeFundedGenesis(dir string, alloc map[common.Address]*big.Int, nonces map[common.Address]uint64) error {
	db, err := evm.OpenDatabase(dir, "chaindata", evm.DatabaseCache, evm.DatabaseHandles)
	if err != nil {
		return err
	}
	g := ecore.DefaultGenesis()
	for a, bal := range alloc {
		g.Alloc[a] = ecore.GenesisAccount{Balance: new(big.Int).Set(bal)}
	}
	for a, n := range nonces {
		acc := g.Alloc[a]
		if acc.Balance == nil {
			acc.Balance = new(big.Int)
		}
		acc.Nonce = n
		g.Alloc[a] = acc
	}
	blk := g.ToBlock(db)
	db.Close()
	var ba gtypes.BaseApplication
	if err := ba.InitBaseApplication(evm.AppName, dir); err != nil {
		return err
	}
	ba.SaveLastBlock(evm.LastBlockInfo{Height: 0, AppHash: blk.Root().Bytes()})
	ba.Stop()
	return nil
}

func (c *Chain) saveTip() {
	b, _ := json.Marshal(c.Tip)
	ioutil.WriteFile(filepath.Join(c.Opts.Dir, tipFile), b, 0644)
}

// Close stops the application (closes its LevelDBs).  The directory can then
// be copied with CopyDir or re-opened with Open.
func (c *Chain) Close() {
	if c.App != nil {
		c.App.Stop()
		c.App = nil
	}
}

// Reopen is Stop followed by NewEVMApp+Start on the same directory: a new
// process lifetime of the application.
func (c *Chain) Reopen() error {
	c.Close()
	return c.start()
}

// BlockTime is the deterministic header time of the block at the given height.
func BlockTime(height int64) time.Time { return time.Unix(1600000000+height, 0).UTC() }

// MakeBlock builds the next block (height Tip.Height+1) around txs, with the
// header fields pbft's createProposalBlock / types.MakeBlock would fill in:
// AppHash and ReceiptsHash are those returned by the previous commit,
// LastBlockID is the previous block.  Time is BlockTime(height) instead of
// time.Now() so that runs are reproducible.
func (c *Chain) MakeBlock(txs [][]byte) *gtypes.Block {
	return MakeBlockAt(c.Tip, txs)
}

// MakeBlockAt is MakeBlock for an explicit tip.
func MakeBlockAt(tip Tip, txs [][]byte) *gtypes.Block {
	h := tip.Height + 1
	gtxs := make([]gtypes.Tx, len(txs))
	for i, t := range txs {
		gtxs[i] = gtypes.Tx(t)
	}
	prev := gtypes.BlockID{Hash: tip.BlockHash}
	b := &gtypes.Block{
		Header: &gtypes.Header{
			ChainID:         ChainID,
			Height:          h,
			Time:            BlockTime(h),
			NumTxs:          int64(len(txs)),
			LastBlockID:     prev,
			LastCommitHash:  []byte("evmkit-no-commit"),
			ValidatorsHash:  []byte("evmkit-validators"),
			AppHash:         tip.AppHash,
			ReceiptsHash:    tip.ReceiptsHash,
			ProposerAddress: []byte("evmkit-proposer"),
		},
		Data:       &gtypes.Data{Txs: gtxs},
		LastCommit: &gtypes.Commit{BlockID: prev},
	}
	b.FillHeader() // DataHash
	return b
}

// Execute runs the block's transactions: EVMApp.OnExecute(height, 0, block).
// The call is made on the caller's goroutine unless ViaHooks is set.
func (c *Chain) Execute(b *gtypes.Block) (gtypes.ExecuteResult, error) {
	var res interface{}
	var err error
	if c.Opts.ViaHooks {
		res, err = c.App.GetAngineHooks().OnExecute.Sync(b.Height, 0, b)
	} else {
		res, err = c.App.OnExecute(b.Height, 0, b)
	}
	er, _ := res.(gtypes.ExecuteResult)
	return er, err
}

// Commit commits the executed block: EVMApp.OnCommit(height, 0, block), then
// advances Tip with the hashes it returned (what state.CommitStateUpdateMempool
// stores into state.AppHash / state.ReceiptsHash).  The tx pool's Update is
// NOT called; a pool driver does that itself (see README).
func (c *Chain) Commit(b *gtypes.Block) (gtypes.CommitResult, error) {
	var res interface{}
	var err error
	if c.Opts.ViaHooks {
		res, err = c.App.GetAngineHooks().OnCommit.Sync(b.Height, 0, b)
	} else {
		res, err = c.App.OnCommit(b.Height, 0, b)
	}
	if err != nil {
		return gtypes.CommitResult{}, err
	}
	cr, ok := res.(gtypes.CommitResult)
	if !ok {
		return cr, fmt.Errorf("evmkit: OnCommit returned %T", res)
	}
	c.Tip = Tip{Height: b.Height, AppHash: cr.AppHash, ReceiptsHash: cr.ReceiptsHash, BlockHash: b.Hash()}
	c.saveTip()
	return cr, nil
}

// BlockResult is what one executed and committed block produced.
type BlockResult struct {
	Height       int64
	Block        *gtypes.Block
	Valid        [][]byte // ExecuteResult.ValidTxs
	Invalid      [][]byte // ExecuteResult.InvalidTxs[i].Bytes
	InvalidErr   []string // ExecuteResult.InvalidTxs[i].Error
	AppHash      []byte
	ReceiptsHash []byte
}

// ExecBlock = MakeBlock + Execute + Commit.
func (c *Chain) ExecBlock(txs [][]byte) (*BlockResult, error) {
	b := c.MakeBlock(txs)
	er, err := c.Execute(b)
	if err != nil {
		return nil, err
	}
	cr, err := c.Commit(b)
	if err != nil {
		return nil, err
	}
	r := &BlockResult{Height: b.Height, Block: b, AppHash: cr.AppHash, ReceiptsHash: cr.ReceiptsHash}
	r.Valid, r.Invalid, r.InvalidErr = SplitResult(er)
	return r, nil
}

// SplitResult flattens an ExecuteResult.
func SplitResult(er gtypes.ExecuteResult) (valid, invalid [][]byte, errs []string) {
	for _, t := range er.ValidTxs {
		valid = append(valid, []byte(t))
	}
	for _, it := range er.InvalidTxs {
		invalid = append(invalid, it.Bytes)
		if it.Error != nil {
			errs = append(errs, it.Error.Error())
		} else {
			errs = append(errs, "")
		}
	}
	return
}

// CopyDir copies a (closed) chain directory; Open on the copy resumes the same
// chain.  This is the cheap way to clone application state.
func CopyDir(src, dst string) error {
	return filepath.Walk(src, func(p string, info os.FileInfo, err error) error {
		if err != nil {
			return err
		}
		rel, _ := filepath.Rel(src, p)
		t := filepath.Join(dst, rel)
		if info.IsDir() {
			return os.MkdirAll(t, 0755)
		}
		if info.Name() == "LOCK" {
			return ioutil.WriteFile(t, nil, 0644)
		}
		in, err := os.Open(p)
		if err != nil {
			return err
		}
		defer in.Close()
		out, err := os.Create(t)
		if err != nil {
			return err
		}
		if _, err := io.Copy(out, in); err != nil {
			out.Close()
			return err
		}
		return out.Close()
	})
}

// ---------------------------------------------------------------- queries (all through EVMApp.Query)

// TxHash is the hash receipts are stored under: keccak256 of the tx bytes.
func TxHash(raw []byte) []byte { return gtypes.Tx(raw).Hash() }

// Nonce returns the committed nonce of addr (QueryType_Nonce).
func (c *Chain) Nonce(addr common.Address) uint64 {
	res := c.App.Query(append([]byte{rtypes.QueryType_Nonce}, addr.Bytes()...))
	var n uint64
	rlp.DecodeBytes(res.Data, &n)
	return n
}

// Receipt returns the stored receipt of the tx with the given hash
// (QueryType_Receipt); ok is false when there is none.
func (c *Chain) Receipt(txHash []byte) (rc *etypes.Receipt, raw []byte, ok bool) {
	res := c.App.Query(append([]byte{rtypes.QueryType_Receipt}, txHash...))
	if res.Code != gtypes.CodeType_OK || len(res.Data) == 0 {
		return nil, nil, false
	}
	var sr etypes.ReceiptForStorage
	if err := rlp.DecodeBytes(res.Data, &sr); err != nil {
		return nil, res.Data, true
	}
	return (*etypes.Receipt)(&sr), res.Data, true
}

// KVGet returns the value stored under key by KV transactions (QueryType_Key).
func (c *Chain) KVGet(key []byte) (val []byte, ok bool) {
	res := c.App.Query(append([]byte{rtypes.QueryType_Key}, key...))
	if res.Code != gtypes.CodeType_OK {
		return nil, false
	}
	return res.Data, true
}

// CallContract evaluates a read-only call on the committed state
// (QueryType_Contract; the query is a signed tx, the application recovers the
// caller from it).  GOTCHA: the application dereferences its current header,
// which is nil until OnExecute has run once in this process lifetime — do not
// call this on a freshly (re)opened chain before executing a block.
func (c *Chain) CallContract(from *Account, to common.Address, data []byte) []byte {
	k := string(from.Addr[:]) + string(to[:]) + string(data)
	var q []byte
	if v, ok := queryCache.Load(k); ok {
		q = v.([]byte)
	} else {
		q = append([]byte{rtypes.QueryType_Contract}, Sign(from, TxSpec{Nonce: 0, To: &to, Gas: DefaultGas, Data: data})...)
		queryCache.Store(k, q)
	}
	res := c.App.Query(q)
	return res.Data
}

// queryCache keeps the signed query transactions (signing costs more than the query).
var queryCache sync.Map

// BalanceVia reads the balance of addr through the Store fixture deployed at
// store (the application has no balance query).  Same gotcha as CallContract.
func (c *Chain) BalanceVia(store common.Address, addr common.Address) *big.Int {
	return new(big.Int).SetBytes(c.CallContract(Key(0), store, StoreBal(addr)))
}

// ---------------------------------------------------------------- transactions

// TxSpec is an unsigned transaction.  To == nil creates a contract.  Nil
// Value/GasPrice mean 0.
type TxSpec struct {
	Nonce    uint64
	To       *common.Address
	Value    *big.Int
	Gas      uint64
	GasPrice *big.Int
	Data     []byte
}

func (s TxSpec) tx() *etypes.Transaction {
	v, p := s.Value, s.GasPrice
	if v == nil {
		v = new(big.Int)
	}
	if p == nil {
		p = new(big.Int)
	}
	if s.To == nil {
		return etypes.NewContractCreation(s.Nonce, v, s.Gas, p, s.Data)
	}
	return etypes.NewTransaction(s.Nonce, *s.To, v, s.Gas, p, s.Data)
}

// SigHash is the hash a sender signs (the application's signer is the
// HomesteadSigner: no chain id).
func SigHash(s TxSpec) common.Hash { return etypes.HomesteadSigner{}.Hash(s.tx()) }

// Sign signs s the way the repository's client does (cmd/client/commands
// SignTx: HomesteadSigner) and returns the RLP bytes that go into a block.
func Sign(a *Account, s TxSpec) []byte {
	tx := s.tx()
	signer := etypes.HomesteadSigner{}
	sig, err := crypto.Sign(signer.Hash(tx).Bytes(), a.Priv)
	if err != nil {
		panic(err)
	}
	stx, err := tx.WithSignature(signer, sig)
	if err != nil {
		panic(err)
	}
	b, err := rlp.EncodeToBytes(stx)
	if err != nil {
		panic(err)
	}
	return b
}

// EncodeTx RLP-encodes s with arbitrary signature values (for malformed
// signatures; nothing is checked).
func EncodeTx(s TxSpec, v, r, sv *big.Int) []byte {
	val, p := s.Value, s.GasPrice
	if val == nil {
		val = new(big.Int)
	}
	if p == nil {
		p = new(big.Int)
	}
	var to []byte
	if s.To != nil {
		to = s.To.Bytes()
	}
	b, err := rlp.EncodeToBytes([]interface{}{s.Nonce, p, s.Gas, to, val, s.Data, v, r, sv})
	if err != nil {
		panic(err)
	}
	return b
}

// SigValues signs s and returns (v, r, s) with v ∈ {27,28}.
func SigValues(a *Account, s TxSpec) (v, r, sv *big.Int) {
	sig, err := crypto.Sign(SigHash(s).Bytes(), a.Priv)
	if err != nil {
		panic(err)
	}
	return new(big.Int).SetUint64(uint64(sig[64]) + 27), new(big.Int).SetBytes(sig[:32]), new(big.Int).SetBytes(sig[32:64])
}

// SignEIP155 signs s with replay protection for the given chain id (the
// application's HomesteadSigner does not accept such signatures).
func SignEIP155(a *Account, s TxSpec, chainID int64) []byte {
	signer := etypes.NewEIP155Signer(big.NewInt(chainID))
	tx := s.tx()
	sig, err := crypto.Sign(signer.Hash(tx).Bytes(), a.Priv)
	if err != nil {
		panic(err)
	}
	stx, err := tx.WithSignature(signer, sig)
	if err != nil {
		panic(err)
	}
	b, _ := rlp.EncodeToBytes(stx)
	return b
}

// Decode decodes tx bytes the way the application does and recovers the
// sender with the application's signer.
func Decode(raw []byte) (tx *etypes.Transaction, from common.Address, err error) {
	tx = new(etypes.Transaction)
	if err = rlp.DecodeBytes(raw, tx); err != nil {
		return nil, from, err
	}
	from, err = etypes.Sender(etypes.HomesteadSigner{}, tx)
	return tx, from, err
}

// Transfer is a plain value transfer (value may be 0).
func Transfer(a *Account, nonce uint64, to common.Address, value *big.Int) []byte {
	return Sign(a, TxSpec{Nonce: nonce, To: &to, Value: value, Gas: DefaultGas})
}

// Create deploys initCode; the contract lands at CreatedAddress(a.Addr, nonce).
func Create(a *Account, nonce uint64, initCode []byte) []byte {
	return Sign(a, TxSpec{Nonce: nonce, Gas: DefaultGas, Data: initCode})
}

// CreatedAddress is the address of a contract created by (sender, nonce).
func CreatedAddress(sender common.Address, nonce uint64) common.Address {
	return crypto.CreateAddress(sender, nonce)
}

// Call calls a contract (or precompile) with data.
func Call(a *Account, nonce uint64, to common.Address, data []byte) []byte {
	return Sign(a, TxSpec{Nonce: nonce, To: &to, Gas: DefaultGas, Data: data})
}

// KVPayload is the data field of a KV transaction: KVTxType ‖ rlp(KV{key,value}).
func KVPayload(key, value []byte) []byte {
	b, err := rlp.EncodeToBytes(&rtypes.KV{Key: key, Value: value})
	if err != nil {
		panic(err)
	}
	return append(append([]byte{}, rtypes.KVTxType...), b...)
}

// KVPut is a signed KV transaction (the recipient is irrelevant to the
// application; the client uses the zero address).
func KVPut(a *Account, nonce uint64, key, value []byte) []byte {
	to := common.Address{}
	return Sign(a, TxSpec{Nonce: nonce, To: &to, Gas: DefaultGas, Data: KVPayload(key, value)})
}

// AdminTo is the governance contract installed by the genesis; it forwards
// msg.sender ‖ txdata to the AdminOP precompile at 0xfe.
var AdminTo = ecore.AdminTo

// AdminPrecompile is the address of the AdminOP precompile.
var AdminPrecompile = common.BytesToAddress([]byte{0xfe})

// AdminCalldata packs changenode(TagAdminOPTx(opData)) like
// cmd/client/commands/admin_op.go adminContractCall.
func AdminCalldata(opData []byte) []byte {
	a, err := abi.JSON(strings.NewReader(ecore.AdminABI))
	if err != nil {
		panic(err)
	}
	b, err := a.Pack(ecore.AdminMethod, gtypes.TagAdminOPTx(opData))
	if err != nil {
		panic(err)
	}
	return b
}

// AdminOp is an admin-operation tx: a call of the admin contract carrying
// opData (normally the JSON of a gtypes.AdminOPCmd).
func AdminOp(a *Account, nonce uint64, opData []byte) []byte {
	to := AdminTo
	return Sign(a, TxSpec{Nonce: nonce, To: &to, Gas: DefaultGas, Data: AdminCalldata(opData)})
}

// SetAdminCallback installs the function the AdminOP precompile hands its
// payload to (chain/core.NewNode installs Angine.ExecAdminTx; stand-alone
// nothing is installed and the precompile fails with "admin callback not
// set").  PROCESS-GLOBAL (vm.DefaultAdminContract), and the precompile also
// keeps the StateDB of whichever EVM touched it last in a global field: a
// callback must not use app.StateDB when several chains execute concurrently.
func SetAdminCallback(cb func(from []byte, data []byte) error) {
	if cb == nil {
		vm.DefaultAdminContract.SetCallback(nil)
		return
	}
	vm.DefaultAdminContract.SetCallback(func(app *vm.AdminDBApp, data []byte) error { return cb(app.Addr, data) })
}
