package evmkit

import (
	"bytes"
	"math/big"
	"os"
	"path/filepath"
	"testing"

	"github.com/dappledger/AnnChain/eth/common"
)

// Self-test of the kit (not a property check):
//
//	cd /verif && go test -tags verif ./evmkit
func TestKit(t *testing.T) {
	Silence()
	root := filepath.Join(os.Getenv("VERIF_ROOT"), ".work", "evmkit-test")
	if os.Getenv("VERIF_ROOT") == "" {
		root = "/verif/.work/evmkit-test"
	}
	os.RemoveAll(root)
	defer os.RemoveAll(root)
	a, b := Key(1), Key(2)
	c, err := Open(Options{Dir: filepath.Join(root, "a"), Alloc: map[common.Address]*big.Int{a.Addr: big.NewInt(1000)}})
	if err != nil {
		t.Fatal(err)
	}
	store, loop := CreatedAddress(a.Addr, 0), CreatedAddress(a.Addr, 1)
	r, err := c.ExecBlock([][]byte{Create(a, 0, StoreInit()), Create(a, 1, LoopInit()), Call(a, 2, store, StoreSet(7)), KVPut(b, 0, []byte("k"), []byte("v")), Transfer(a, 3, b.Addr, big.NewInt(10))})
	if err != nil {
		t.Fatal(err)
	}
	if len(r.Valid) != 5 || len(r.Invalid) != 0 {
		t.Fatalf("valid %d invalid %d %v", len(r.Valid), len(r.Invalid), r.InvalidErr)
	}
	if c.Nonce(a.Addr) != 4 || c.Nonce(b.Addr) != 1 {
		t.Fatalf("nonces %d %d", c.Nonce(a.Addr), c.Nonce(b.Addr))
	}
	if v, ok := c.KVGet([]byte("k")); !ok || string(v) != "v" {
		t.Fatalf("kv %q %v", v, ok)
	}
	if got := new(big.Int).SetBytes(c.CallContract(a, store, StoreGet())); got.Uint64() != 7 {
		t.Fatalf("slot0 = %v", got)
	}
	if got := c.BalanceVia(store, b.Addr); got.Uint64() != 10 {
		t.Fatalf("balance b = %v", got)
	}
	if got := c.BalanceVia(store, a.Addr); got.Uint64() != 990 {
		t.Fatalf("balance a = %v", got)
	}
	if len(StoreRuntime()) != 106 {
		t.Fatalf("store runtime length %d", len(StoreRuntime()))
	}
	rc, _, ok := c.Receipt(TxHash(r.Valid[2]))
	if !ok || rc.Status != 1 || len(rc.Logs) != 1 || rc.Logs[0].Topics[0] != StoreTopic {
		t.Fatalf("receipt of set: %+v %v", rc, ok)
	}
	rc, _, ok = c.Receipt(TxHash(r.Valid[1]))
	if !ok || rc.ContractAddress != loop {
		t.Fatalf("receipt of loop deployment: %+v", rc)
	}
	// reverting call is included with status 0 and its SSTORE undone; bad nonce is invalid
	r2, err := c.ExecBlock([][]byte{Call(a, 4, store, StoreFail()), Call(a, 9, store, StoreSet(8)), AdminOp(a, 5, []byte("x"))})
	if err != nil {
		t.Fatal(err)
	}
	if len(r2.Valid) != 2 || len(r2.Invalid) != 1 {
		t.Fatalf("block 2: valid %d invalid %d %v", len(r2.Valid), len(r2.Invalid), r2.InvalidErr)
	}
	if rc, _, ok := c.Receipt(TxHash(r2.Valid[0])); !ok || rc.Status != 0 {
		t.Fatalf("revert receipt %+v", rc)
	}
	// clone, reopen, continue identically on both
	tip := c.Tip
	c.Close()
	if err := CopyDir(filepath.Join(root, "a"), filepath.Join(root, "b")); err != nil {
		t.Fatal(err)
	}
	c1, err := Open(Options{Dir: filepath.Join(root, "a")})
	if err != nil {
		t.Fatal(err)
	}
	c2, err := Open(Options{Dir: filepath.Join(root, "b"), ViaHooks: true})
	if err != nil {
		t.Fatal(err)
	}
	if c1.Tip.Height != tip.Height || !bytes.Equal(c2.Tip.AppHash, tip.AppHash) {
		t.Fatalf("tips differ")
	}
	txs := [][]byte{Call(a, 6, store, StoreSet(9)), KVPut(b, 1, []byte("k"), []byte("w")), Call(a, 7, store, StorePut(5))}
	x1, err1 := c1.ExecBlock(txs)
	x2, err2 := c2.ExecBlock(txs)
	if err1 != nil || err2 != nil {
		t.Fatal(err1, err2)
	}
	if !bytes.Equal(x1.AppHash, x2.AppHash) || !bytes.Equal(x1.ReceiptsHash, x2.ReceiptsHash) || len(x1.Valid) != 3 {
		t.Fatalf("clone diverged: %x %x / %x %x", x1.AppHash, x2.AppHash, x1.ReceiptsHash, x2.ReceiptsHash)
	}
	if g0, g1, g2 := c1.CallContract(a, store, StoreGetSlot(0)), c1.CallContract(a, store, StoreGetSlot(1)), c1.CallContract(a, store, StoreGetSlot(2)); new(big.Int).SetBytes(g0).Uint64() != 9 || new(big.Int).SetBytes(g1).Sign() != 0 || new(big.Int).SetBytes(g2).Uint64() != 5 {
		t.Fatalf("slots %x %x %x", g0, g1, g2)
	}
	if rc, _, ok := c1.Receipt(TxHash(txs[2])); !ok || rc.Status != 1 || len(rc.Logs) != 0 {
		t.Fatalf("put receipt %+v", rc)
	}
	c1.Close()
	c2.Close()
}
