package evmkit

import (
	"encoding/binary"
	"math/big"

	"github.com/dappledger/AnnChain/eth/common"
)

// Two hand-assembled fixture contracts.
//
// Store (runtime, 106 bytes).  Dispatch on the first 4 calldata bytes:
//
//	00000001 ‖ word   set:  SSTORE(0, word); LOG1(data = word, topic = 0x42); STOP
//	00000002          fail: SSTORE(1, 1); REVERT(0, 0)        — state change must be rolled back, tx is still included (status 0)
//	00000003 [‖ slot] get:  RETURN SLOAD(slot)                — slot defaults to 0
//	00000004 ‖ addr   bal:  RETURN BALANCE(addr)              — addr as a 32-byte word
//	00000005 ‖ word   put:  SSTORE(2, word); STOP             — like set but without a log
//	anything else     STOP (accepts value)
//
//	00 6000 35 60e0 1c            PUSH1 0  CALLDATALOAD  PUSH1 0xe0  SHR          ; selector
//	06 80 6001 14 602a 57         DUP1 PUSH1 1 EQ PUSH1 set  JUMPI
//	0d 80 6002 14 603d 57         DUP1 PUSH1 2 EQ PUSH1 fail JUMPI
//	14 80 6003 14 6048 57         DUP1 PUSH1 3 EQ PUSH1 get  JUMPI
//	1b 80 6004 14 6055 57         DUP1 PUSH1 4 EQ PUSH1 bal  JUMPI
//	22 80 6005 14 6062 57         DUP1 PUSH1 5 EQ PUSH1 put  JUMPI
//	29 00                         STOP
//	2a 5b 6004 35 80 6000 55      set:  JUMPDEST PUSH1 4 CALLDATALOAD DUP1 PUSH1 0 SSTORE
//	32 6000 52                    PUSH1 0 MSTORE
//	35 6042 6020 6000 a1 00       PUSH1 0x42 PUSH1 0x20 PUSH1 0 LOG1 STOP
//	3d 5b 6001 6001 55            fail: JUMPDEST PUSH1 1 PUSH1 1 SSTORE
//	43 6000 6000 fd               PUSH1 0 PUSH1 0 REVERT
//	48 5b 6004 35 54 6000 52      get:  JUMPDEST PUSH1 4 CALLDATALOAD SLOAD PUSH1 0 MSTORE
//	50 6020 6000 f3               PUSH1 0x20 PUSH1 0 RETURN
//	55 5b 6004 35 31 6000 52      bal:  JUMPDEST PUSH1 4 CALLDATALOAD BALANCE PUSH1 0 MSTORE
//	5d 6020 6000 f3               PUSH1 0x20 PUSH1 0 RETURN
//	62 5b 6004 35 6002 55 00      put:  JUMPDEST PUSH1 4 CALLDATALOAD PUSH1 2 SSTORE STOP
//
// Loop (runtime, 4 bytes): 5b 6000 56 = JUMPDEST PUSH1 0 JUMP — never
// terminates by itself; it ends when the interpreter's budget
// (evm.EVMGasLimit = 100,000,000 gas per transaction) is exhausted.
//
// Constructor prefix (11 bytes) for a runtime of length L:
//
//	60 L 80 60 0b 60 00 39 60 00 f3   PUSH1 L DUP1 PUSH1 11 PUSH1 0 CODECOPY PUSH1 0 RETURN
const (
	StoreRuntimeHex = "60003560e01c" +
		"80600114602a57" + "80600214603d57" + "80600314604857" + "80600414605557" + "80600514606257" + "00" +
		"5b60043580600055" + "600052" + "604260206000a100" +
		"5b6001600155" + "60006000fd" +
		"5b60043554600052" + "60206000f3" +
		"5b60043531600052" + "60206000f3" +
		"5b6004356002" + "5500"
	LoopRuntimeHex = "5b600056"
)

// StoreTopic is the topic of the LOG1 emitted by Store.set.
var StoreTopic = common.BigToHash(big.NewInt(0x42))

func initCode(runtime []byte) []byte {
	if len(runtime) > 255 {
		panic("runtime too long for PUSH1")
	}
	pre := []byte{0x60, byte(len(runtime)), 0x80, 0x60, 0x0b, 0x60, 0x00, 0x39, 0x60, 0x00, 0xf3}
	return append(pre, runtime...)
}

// StoreRuntime / LoopRuntime are the deployed codes.
func StoreRuntime() []byte { return common.Hex2Bytes(StoreRuntimeHex) }
func LoopRuntime() []byte  { return common.Hex2Bytes(LoopRuntimeHex) }

// StoreInit / LoopInit are the creation codes (payload of a Create tx).
func StoreInit() []byte { return initCode(StoreRuntime()) }
func LoopInit() []byte  { return initCode(LoopRuntime()) }

func selector(n uint32, word []byte) []byte {
	b := make([]byte, 4, 36)
	binary.BigEndian.PutUint32(b, n)
	if word != nil {
		b = append(b, common.LeftPadBytes(word, 32)...)
	}
	return b
}

// StoreSet is calldata for set(word): stores word in slot 0 and logs it.
func StoreSet(word uint64) []byte { return selector(1, new(big.Int).SetUint64(word).Bytes()) }

// StoreFail is calldata for the reverting entry point.
func StoreFail() []byte { return selector(2, nil) }

// StoreGet is calldata for get(): returns slot 0.
func StoreGet() []byte { return selector(3, nil) }

// StoreGetSlot is calldata for get(slot) (set writes slot 0, fail would write
// slot 1, put writes slot 2).
func StoreGetSlot(slot uint64) []byte { return selector(3, new(big.Int).SetUint64(slot).Bytes()) }

// StorePut is calldata for put(word): stores word in slot 2, no log.
func StorePut(word uint64) []byte { return selector(5, new(big.Int).SetUint64(word).Bytes()) }

// StoreBal is calldata for bal(addr): returns the balance of addr.
func StoreBal(a common.Address) []byte { return selector(4, a.Bytes()) }
