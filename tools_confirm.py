#!/usr/bin/env python3
"""Confirm a seeded change written by an independent author and file it under /verif/seeded/<ID>-<k>/.
usage: tools_confirm.py <out-dir with patch.diff, zz_demo_*_test.go, notes.json> <ID>-<k> <CHECK_ID>[,<CHECK_ID>...]
Steps (all in a scratch worktree of /repo under /tmp, removed at the end): patch applies; `go build ./...`; the
demonstration passes without and fails with the patch; the existing tests of every package that depends on a touched
package pass with the patch; then tools_seed.py runs the named checks' quick tiers against the patch."""
import sys, os, subprocess, json, glob, shutil, time
out=os.path.abspath(sys.argv[1]); sid=sys.argv[2]; checks=sys.argv[3]
env=dict(os.environ,GOFLAGS='-mod=mod',GOPROXY='off',GOSUMDB='off',GOTOOLCHAIN='local')
notes=json.load(open(out+'/notes.json'))
patch=out+'/patch.diff'
demos=[f for f in glob.glob(out+'/zz_demo_*_test.go')]
wt='/tmp/seedconf-'+sid.lower()
subprocess.call(['git','-C','/repo','worktree','remove','--force',wt],stderr=subprocess.DEVNULL)
subprocess.check_call(['git','-C','/repo','worktree','add','-q','--detach',wt,'HEAD'])
head=subprocess.check_output(['git','-C','/repo','rev-parse','--short','HEAD'],text=True).strip()
ran=[]; conf={}
def sh(cmd,timeout=1800):
    ran.append(cmd)
    r=subprocess.run(cmd,shell=True,cwd=wt,env=env,capture_output=True,text=True,timeout=timeout)
    return r.returncode,(r.stdout+r.stderr)
try:
    rc,o=sh(f'git apply --check {patch}'); conf['applies']=rc==0
    if rc!=0: print('does not apply',o); sys.exit(2)
    pkg=notes['demo_pkg'].strip('./'); run=notes.get('demo_run','Demo')
    for d in demos: shutil.copy(d,os.path.join(wt,pkg))
    rc0,o0=sh(f"go test -vet=off -count=1 -timeout 10m -run '{run}' ./{pkg}/")
    conf['demo_passes_without_patch']=rc0==0
    sh(f'git apply {patch}')
    rcb,ob=sh('go build ./...'); conf['builds']=rcb==0
    rc1,o1=sh(f"go test -vet=off -count=1 -timeout 10m -run '{run}' ./{pkg}/")
    conf['demo_fails_with_patch']=rc1!=0
    if rc0!=0: print('DEMO FAILS WITHOUT PATCH\n',o0[-1500:])
    if rc1==0: print('DEMO PASSES WITH PATCH\n',o1[-800:])
    for d in demos: os.remove(os.path.join(wt,pkg,os.path.basename(d)))
    touched=set(os.path.dirname(l[3:].strip()) for l in subprocess.check_output(['git','-C',wt,'status','--porcelain'],text=True).split('\n') if l.strip().endswith('.go'))
    mod='github.com/dappledger/AnnChain/'
    lst=subprocess.run("go list -test -f '{{.ImportPath}}|{{len .TestGoFiles}}|{{len .XTestGoFiles}}|{{join .Deps \",\"}}' ./...",shell=True,cwd=wt,env=env,capture_output=True,text=True).stdout
    pk=set()
    for l in lst.split('\n'):
        f=l.split('|')
        if len(f)<4 or f[0].endswith('.test'): continue
        f[0]=f[0].split(' ')[0]
        if int(f[1])+int(f[2])==0: continue
        deps=set(d.split(' ')[0] for d in f[3].split(','))|{f[0]}
        if any(mod+t in deps for t in touched): pk.add('./'+f[0][len(mod):])
    pk=sorted(pk)
    rct,ot=sh('go test -vet=off -count=1 -timeout 25m '+' '.join(pk)) if pk else (0,'')
    if rct!=0:
        # timing-dependent tests (eth/core tx pool) fail on a loaded machine: re-run the failing packages once, alone
        fp=[l.split()[1] for l in ot.split('\n') if l.startswith('FAIL\t')]
        if fp: rct,ot=sh('go test -vet=off -count=1 -p 1 -timeout 25m '+' '.join(fp))
    fails=[l for l in ot.split('\n') if l.startswith('FAIL') or l.startswith('--- FAIL')]
    conf['existing_tests']=' '.join(pk)+(': all ok' if rct==0 else ': FAILURES '+'; '.join(fails[:10]))
    conf['existing_tests_pass']=rct==0
    print(json.dumps(conf,indent=1))
    ok=all([conf['applies'],conf['builds'],conf['demo_fails_with_patch'],conf['demo_passes_without_patch'],conf['existing_tests_pass']])
finally:
    subprocess.call(['git','-C','/repo','worktree','remove','--force',wt])
res={}
if ok:
    started=time.ctime()
    r=subprocess.run(['/verif/tools_seed.py',patch,checks,'quick'],capture_output=True,text=True)
    print(r.stdout[-3000:]); cur=None
    for l in r.stdout.split('\n'):
        if l.startswith('== '):
            cur=l.split()[1]; ex=int(l.split('exit ')[1].split(';')[0]); res[cur]={'tier':'quick','exit':ex,'caught':ex==1,'violation_sigs':[],'started':started}
        elif cur and l.strip().startswith('sig'): res[cur]['violation_sigs'].append(l.strip()[:300])
        elif cur and l.strip().startswith('VIOLATION'): res[cur].setdefault('violation_lines',[]).append(l.strip()[:200])
dst='/verif/seeded/'+sid
os.makedirs(dst,exist_ok=True)
shutil.copy(patch,dst)
for d in demos: shutil.copy(d,dst)
shutil.copy(out+'/notes.json',dst+'/author_notes.json')
meta={'property':notes.get('property',sid.split('-')[0]).upper(),'summary':notes['summary'],'needs':notes['needs'],'author':'independent sub-agent, saw only the property text and one-line summaries of earlier changes','repo_head_at_confirmation':head,'kept':ok,'confirmed':conf,'checks':res,'what_i_ran':ran+[f'/verif/tools_seed.py {patch} {checks} quick'],'wave':3}
json.dump(meta,open(dst+'/meta.json','w'),indent=1)
print('filed',dst,'kept' if ok else 'NOT KEPT',{k:v['caught'] for k,v in res.items()})
