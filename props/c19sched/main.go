// c19sched runs the SCHED part of property C19 (interleavings of concurrent
// submitters with the commit path on the real gemmill/mempool.Mempool)
// stand-alone (`./vcheck c19sched quick`).  The exploration itself is the
// library verif/sched/c19b.  The C19 check (props/c19) runs this binary as a
// subprocess and merges its evidence and violations, because this binary is
// built with the import-rewriting overlay (BUILDFLAGS, prebuild.sh) and the
// rest of C19 is built from the unmodified sources.
package main

import (
	"verif/core"
	"verif/sched/c19b"
)

func main() {
	run := core.Start("C19", "model_checking", "SCHED")
	if run.ReplayPath != "" {
		if !c19b.Replay(run) {
			core.Fatal("%s is not a SCHED replay artefact of C19", run.ReplayPath)
		}
		run.Finish(nil, nil)
	}
	cov := c19b.Run(run)
	run.Finish(cov, c19b.Assumptions())
}
