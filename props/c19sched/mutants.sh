#!/bin/bash
# Detection demonstrations for the SCHED part of C19 ("overlay on overlay"):
# each mutant is a copy of a CURRENT repository file with one realistic change;
# overlaygen reads the copy instead of the repo file (VERIF_OVERLAY_SUBST), the
# check is built by hand against that overlay and run in the quick tier with a
# private VERIF_ROOT (known_findings.txt + the proposed lines of
# props/c19/PROPOSED_KNOWN.txt), so neither /repo nor the real evidence/replays
# are touched (exit 1 = caught).  `repair-lock-receivetx` is not a mutant but
# the proposed repair: it must give exit 0 with NO known-finding class matched.
#   usage: props/c19sched/mutants.sh [name...]      (default: all)
set -u
ROOT=$(cd "$(dirname "$0")/../.." && pwd)
REPO=${VERIF_REPO:-/repo}
export GOFLAGS=-mod=mod GOPROXY=off GOSUMDB=off GOTOOLCHAIN=local
ALL="ignore-push-result cache-push-split pushback-unlocked update-forgets-commit repair-lock-receivetx"
[ $# -gt 0 ] && ALL="$*"
for m in $ALL; do
  W=$ROOT/.work/c19sched/mut/$m
  rm -rf "$W"; mkdir -p "$W/root"
  cp "$ROOT/known_findings.txt" "$W/root/"
  grep "^known:" "$ROOT/props/c19/PROPOSED_KNOWN.txt" >> "$W/root/known_findings.txt"
  SRC=gemmill/mempool/mempool.go
  [ "$m" = pushback-unlocked ] && SRC=gemmill/modules/go-clist/clist.go
  python3 - "$REPO/$SRC" "$W/mutant.go" "$m" <<'PY' || { echo "MUTANT $m: cannot apply (source changed?)"; continue; }
import sys
src, dst, m = sys.argv[1:4]
s = open(src).read()
def rep(old, new, count=1):
    global s
    assert s.count(old) >= 1, "pattern not found: " + old
    s = s.replace(old, new, count)
if m == "ignore-push-result":       # seeded change C19-3: only the non-atomic Exists ... Push remains
    rep("\tif !mem.cache.Push(tx) {\n\t\treturn ErrTxInCache\n\t}\n", "\tmem.cache.Push(tx)\n")
elif m == "cache-push-split":       # the cache tests and inserts under two separate critical sections
    rep("\tcache.mtx.Lock()\n\tdefer cache.mtx.Unlock()\n\n\tif _, exists := cache.checkMap[string(tx)]; exists {\n\t\treturn false\n\t}\n",
        "\tif cache.Exists(tx) {\n\t\treturn false\n\t}\n\tcache.mtx.Lock()\n\tdefer cache.mtx.Unlock()\n")
elif m == "pushback-unlocked":      # the concurrent list appends without its mutex
    rep("func (l *CList) PushBack(v interface{}) *CElement {\n\tl.mtx.Lock()\n\tdefer l.mtx.Unlock()\n", "func (l *CList) PushBack(v interface{}) *CElement {\n")
elif m == "update-forgets-commit":  # Update no longer remembers committed txs (the defect repaired in e520fda) — sequential too
    rep("\tfor _, tx := range txs {\n\t\tmem.cache.Push(tx)\n\t}\n\tmem.Unlock()\n", "\tmem.Unlock()\n")
elif m == "repair-lock-receivetx":  # proposed repair of the four findings: submitters take the pool's lock
    rep("func (mem *Mempool) ReceiveTx(tx types.Tx) (err error) {\n", "func (mem *Mempool) ReceiveTx(tx types.Tx) (err error) {\n\tmem.mtx.Lock()\n\tdefer mem.mtx.Unlock()\n")
else:
    sys.exit("unknown mutant " + m)
open(dst, "w").write(s)
PY
  ( cd "$ROOT" && C19B_NO_RACE=1 VERIF_OVERLAY_SUBST="$SRC=$W/mutant.go" ./props/c19sched/prebuild.sh "$W" 2>"$W/prebuild.log" \
      && go build -tags verif -overlay "$W/overlay.json" -o "$W/bin" ./props/c19sched ) || { echo "MUTANT $m: BUILD FAILED (see $W/prebuild.log)"; continue; }
  start=$(date +%s)
  VERIF_ROOT="$W/root" C19B_RACE_BIN=/nonexistent ${MUT_ENV:-} "$W/bin" quick > "$W/out.txt" 2>"$W/err.txt"
  rc=$?
  echo "MUTANT $m: exit $rc ($(( $(date +%s) - start )) s)"
  grep -A1 -E "^VIOLATION|^KNOWN-FINDING|INTERNAL|^C19 " "$W/out.txt" "$W/err.txt" | grep -E "sig:|KNOWN-FINDING|INTERNAL|new violations" | cut -c1-230 | sed 's/^/    /'
done
