package main

// Parts (b) and (c) of the C16 check.
//
// (b) CONSNET: real ConsensusState replicas under network rules that make some
// of them go through rounds the others skip, restart, or catch up; the monitor
// (consnet.Monitors.checkProposer) compares the proposer every honest replica
// has for its current (height, round) with the one that follows from the
// validator-set history alone.
//
// (c) state chains: the real state.State.ApplyBlock is driven height by height
// with an IBlockExecutable whose EndBlock changes the validator set the way
// plugin.AdminOp.updateValidators does (Add / Update / Remove); after the change
// the set is unchanged, so every window of T consecutive round-0 proposers must
// select each validator exactly as often as its voting power.

import (
	"crypto/sha256"
	"encoding/json"
	"fmt"
	"io/ioutil"
	"os"
	"sort"
	"sync"
	"time"

	"verif/consnet"
	"verif/core"

	crypto "github.com/dappledger/AnnChain/gemmill/go-crypto"
	clist "github.com/dappledger/AnnChain/gemmill/modules/go-clist"
	dbm "github.com/dappledger/AnnChain/gemmill/modules/go-db"
	"github.com/dappledger/AnnChain/gemmill/modules/go-events"
	sm "github.com/dappledger/AnnChain/gemmill/state"
	"github.com/dappledger/AnnChain/gemmill/types"
)

// ---------------------------------------------------------------- (b) replicas

func netWorkerEntry() {
	if consnet.IsWorker() {
		consnet.WorkerMain(os.Getenv("VERIF_WORKER_DIR"), consnet.DefaultRun)
		os.Exit(0)
	}
}

// netReplay handles artefacts of parts (b) and (c); false = not one of them.
func netReplay(run *core.Run) bool {
	b, err := ioutil.ReadFile(run.ReplayPath)
	if err != nil {
		return false
	}
	var art struct {
		Case map[string]json.RawMessage `json:"case"`
	}
	if json.Unmarshal(b, &art) != nil {
		return false
	}
	if _, ok := art.Case["chain_powers"]; ok {
		var k chainCase
		if err := run.ReplayCase(&k); err != nil {
			core.Fatal("cannot load replay: %v", err)
		}
		if v := runChainCase(k); v != nil {
			run.Report(v.sig, k, v.detail)
		}
		return true
	}
	if _, ok := art.Case["heights"]; !ok {
		return false
	}
	var sc consnet.Scenario
	if err := run.ReplayCase(&sc); err != nil {
		core.Fatal("cannot load replay: %v", err)
	}
	res := consnet.DefaultRun(&sc, run.WorkDir()+"/replay")
	for _, l := range res.Trace {
		fmt.Println("  ", l)
	}
	for _, v := range res.Viols {
		if v.Prop == "C16" {
			run.Report(v.Sig, &sc, v.Detail)
		}
	}
	return true
}

func netPart(run *core.Run) core.Coverage {
	cfgs := []consnet.Scenario{
		{Powers: []int64{1, 1, 1, 1}, Byz: -1, Heights: 3},
		{Powers: []int64{1, 2, 2, 3}, Byz: -1, Heights: 3},
		{Powers: []int64{1, 1, 1, 1}, Byz: -1, Heights: 3, ValChange: &consnet.ValChange{Height: 1, Index: 3, Power: 3}},
		{Powers: []int64{2, 2, 3, 2}, Byz: -1, Heights: 3, ValChange: &consnet.ValChange{Height: 1, Index: 2, Power: 1}},
	}
	if !run.Quick() {
		cfgs = append(cfgs,
			consnet.Scenario{Powers: []int64{3, 1, 2, 2}, Byz: -1, Heights: 4},
			consnet.Scenario{Powers: []int64{2, 2, 3}, Byz: -1, Heights: 3},
			consnet.Scenario{Powers: []int64{1, 1, 1, 1}, Byz: 0, Heights: 3},
			consnet.Scenario{Powers: []int64{1, 2, 2, 3}, Byz: -1, Heights: 3, ValChange: &consnet.ValChange{Height: 2, Index: 0, Power: 3}},
		)
	}
	menu := func(cfg consnet.Scenario) []consnet.Rule {
		return consnet.BuildMenu(consnet.MenuOpts{N: len(cfg.Powers), Byz: cfg.Byz, Rounds: []int64{0, 1}, Heights: []int64{1, 2},
			Hold: true, Mute: true, Early: true, ByzBasic: cfg.Byz >= 0})
	}
	d := run.Pick(1, 2)
	scs := consnet.Product(cfgs, menu, d)
	// restarts: a crash before every (quick: every 3rd) durable write in executions that go through a round change
	roundChange := []consnet.Rule{{Kind: "mute", Node: 0, Msg: "proposal", Height: 1, Round: 0}}
	crashBases := []consnet.Scenario{
		{Powers: []int64{1, 2, 2, 3}, Byz: -1, Heights: 3},
		{Powers: []int64{1, 1, 1, 1}, Byz: -1, Heights: 3, Rules: roundChange},
		{Powers: []int64{1, 1, 1, 1}, Byz: -1, Heights: 3, NoProposerFix: true},
	}
	for i := range crashBases {
		if len(crashBases[i].Rules) > 0 {
			p := consnet.ProposerAt(&crashBases[i], 1, 0)
			crashBases[i].Rules[0].Node = p
		}
	}
	if run.Quick() {
		crashBases = crashBases[1:]
	}
	crashes, crashInfo := consnet.CrashScenarios(crashBases, run.WorkDir()+"/crashref", run.Pick(4, 1), []int{0, 1})
	scs = append(scs, crashes...)
	seen := map[string]bool{}
	var uniq []*consnet.Scenario
	for _, sc := range scs {
		if k := sc.String(); !seen[k] {
			seen[k] = true
			uniq = append(uniq, sc)
		}
	}
	uniq = consnet.Interleave(uniq)
	sum := consnet.RunCampaign(run, uniq, consnet.CampaignOpts{Focus: map[string]bool{"C16": true}, Budget: time.Duration(run.Pick(600, 600)) * time.Second})
	cov := sum.Coverage("every compatible subset of <= d network rules (hold/mute a message kind towards/from a node, early timeout; rounds 0-1 of heights 1-2) over each configuration (power vectors, with and without a validator-set change in block 1|2), plus a crash of each honest node before every (quick: every third) durable write of three base executions (one going through a round change, one without the harness repair of the reloaded proposer); each execution runs 4 (3) real ConsensusState replicas to the target height under the fair default schedule; oracle: the proposer each honest replica holds for its current (height, round), checked once per (replica, height, round), equals the proposer derived from the validator-set history alone",
		map[string]interface{}{"deviation_bound": d, "configurations": len(cfgs), "crash_scenarios": len(crashes), "crash_info": crashInfo})
	return cov
}

// ---------------------------------------------------------------- (c) state chains

type chainCase struct {
	Powers []int64 `json:"chain_powers"`
	Kind   string  `json:"change"` // none | add | update | remove
	Pos    int     `json:"pos"`    // add: rank of the new address among the old ones (0 = lowest); update/remove: position in the sorted set
	Power  int64   `json:"power"`  // add/update: the new power
	Height int64   `json:"height"` // block whose EndBlock makes the change
}

func (k chainCase) String() string {
	return fmt.Sprintf("%v %s(pos %d, power %d) in block %d", k.Powers, k.Kind, k.Pos, k.Power, k.Height)
}

type chainViol struct {
	sig    map[string]string
	detail string
}

type chainExecutor struct {
	k   chainCase
	add crypto.PrivKeyEd25519
	err error
}

func (e *chainExecutor) BeginBlock(*types.Block, events.Fireable, *types.PartSetHeader) error {
	return nil
}
func (e *chainExecutor) ExecBlock(*types.Block, events.Fireable, *types.ExecuteResult) error {
	return nil
}
func (e *chainExecutor) EndBlock(b *types.Block, _ events.Fireable, _ *types.PartSetHeader, _ []*types.ValidatorAttr, next *types.ValidatorSet) error {
	if b.Height != e.k.Height {
		return nil
	}
	switch e.k.Kind {
	case "add":
		if !next.Add(types.NewValidator(e.add.PubKey(), e.k.Power, true)) {
			e.err = fmt.Errorf("Add refused")
		}
	case "update":
		_, v := next.GetByIndex(e.k.Pos)
		v = v.Copy()
		v.VotingPower = e.k.Power
		if !next.Update(v) {
			e.err = fmt.Errorf("Update refused")
		}
	case "remove":
		addr, _ := next.GetByIndex(e.k.Pos)
		if _, ok := next.Remove(addr); !ok {
			e.err = fmt.Errorf("Remove refused")
		}
	}
	return nil
}

type okVerifier struct{}

func (okVerifier) ValidateBlock(*types.Block) error { return nil }

type chainPool struct{}

func (chainPool) Lock()                                     {}
func (chainPool) Unlock()                                   {}
func (chainPool) Reap(int) []types.Tx                       { return nil }
func (chainPool) ReceiveTx(types.Tx) error                  { return nil }
func (chainPool) Update(int64, []types.Tx)                  {}
func (chainPool) Size() int                                 { return 0 }
func (chainPool) TxsFrontWait() *clist.CElement             { return nil }
func (chainPool) Flush()                                    {}
func (chainPool) RegisterFilter(types.IFilter)              {}
func (chainPool) GetPendingMaxNonce([]byte) (uint64, error) { return 0, nil }

var (
	chainKeyOnce sync.Once
	chainKeyList []crypto.PrivKeyEd25519 // 7 keys sorted by address
)

// chainKeys: members take the odd ranks 1,3,5 of seven address-sorted keys, so a
// new member can be placed below, between and above them (ranks 0,2,4,6).
func chainKeys() []crypto.PrivKeyEd25519 {
	chainKeyOnce.Do(func() {
		for i := 0; i < 7; i++ {
			chainKeyList = append(chainKeyList, crypto.GenPrivKeyEd25519FromSecret([]byte(fmt.Sprintf("c16-chain-%d", i))))
		}
		sort.Slice(chainKeyList, func(i, j int) bool {
			return string(chainKeyList[i].PubKey().Address()) < string(chainKeyList[j].PubKey().Address())
		})
	})
	return chainKeyList
}

func installChainApp(evsw types.EventSwitch) {
	types.AddListenerForEvent(evsw, "c16", types.EventStringHookNewRound(), func(ed types.TMEventData) {
		ed.(types.EventDataHookNewRound).ResCh <- types.NewRoundResult{}
	})
	types.AddListenerForEvent(evsw, "c16", types.EventStringHookExecute(), func(ed types.TMEventData) {
		d := ed.(types.EventDataHookExecute)
		d.ResCh <- types.ExecuteResult{ValidTxs: d.Block.Data.Txs}
	})
	types.AddListenerForEvent(evsw, "c16", types.EventStringHookCommit(), func(ed types.TMEventData) {
		d := ed.(types.EventDataHookCommit)
		h := sha256.Sum256([]byte(fmt.Sprintf("c16|%d", d.Block.Height)))
		d.ResCh <- types.CommitResult{AppHash: h[:20], ReceiptsHash: h[12:32]}
	})
}

// runChainCase drives the real State through the heights and checks every window after the change.
func runChainCase(k chainCase) *chainViol {
	keys := chainKeys()
	gen := &types.GenesisDoc{ChainID: "verif-c16", GenesisTime: time.Unix(1500000000, 0)}
	for i, p := range k.Powers {
		gen.Validators = append(gen.Validators, types.GenesisValidator{PubKey: keys[2*i+1].PubKey(), Amount: p, Name: fmt.Sprintf("v%d", i), IsCA: true})
	}
	st := sm.MakeGenesisState(dbm.NewMemDB(), gen)
	ex := &chainExecutor{k: k}
	if k.Kind == "add" {
		ex.add = keys[2*k.Pos]
	}
	st.SetBlockExecutable(ex)
	st.SetBlockVerifier(okVerifier{})
	evsw := types.NewEventSwitch()
	evsw.Start()
	defer evsw.Stop()
	installChainApp(evsw)

	// expected powers after the change
	want := map[string]int64{}
	for i, p := range k.Powers {
		want[string(keys[2*i+1].PubKey().Address())] = p
	}
	switch k.Kind {
	case "add":
		want[string(ex.add.PubKey().Address())] = k.Power
	case "update":
		want[string(keys[2*k.Pos+1].PubKey().Address())] = k.Power
	case "remove":
		delete(want, string(keys[2*k.Pos+1].PubKey().Address()))
	}
	var total int64
	for _, p := range want {
		total += p
	}
	from := k.Height + 1 // first height with the changed set
	if k.Kind == "none" {
		from = 1
	}
	last := from + 2*total - 1 // 2T selections: T+1 windows
	proposers := map[int64]string{1: string(st.Validators.Proposer().Address)}
	for h := int64(1); h < last; h++ {
		block, parts := types.MakeBlock(h, st.ChainID, nil, nil, &types.Commit{}, st.Validators.Proposer().Address,
			st.LastBlockID, st.Validators.Hash(), st.AppHash, st.ReceiptsHash, 4096)
		block.Header.Time = time.Unix(1600000000+h*7, 0)
		stCopy := st.Copy()
		var err error
		if p, v, _ := core.Try(func() { err = stCopy.ApplyBlock(evsw, block, parts.Header(), chainPool{}, 0) }); p {
			return &chainViol{map[string]string{"site": "State.ApplyBlock", "kind": "panic", "history": "after-" + k.Kind}, fmt.Sprintf("%s: ApplyBlock of height %d panicked: %v", k, h, core.FirstLine(v))}
		}
		if err != nil || ex.err != nil {
			core.Fatal("chain %s: height %d: %v %v", k, h, err, ex.err)
		}
		st = stCopy
		p := st.Validators.Proposer()
		if p == nil {
			return &chainViol{map[string]string{"site": "State.ApplyBlock", "kind": "no-proposer", "history": "after-" + k.Kind}, fmt.Sprintf("%s: no proposer for height %d", k, h+1)}
		}
		proposers[h+1] = string(p.Address)
	}
	// membership of the set in force after the change
	if st.Validators.Size() != len(want) {
		return &chainViol{map[string]string{"site": "State.ApplyBlock", "kind": "membership-differs", "history": "after-" + k.Kind}, fmt.Sprintf("%s: the set has %d members, %d expected", k, st.Validators.Size(), len(want))}
	}
	for w := from; w+total-1 <= last; w++ {
		cnt := map[string]int64{}
		for h := w; h < w+total; h++ {
			cnt[proposers[h]]++
		}
		for a, p := range want {
			if cnt[a] != p {
				seq := ""
				for h := int64(1); h <= last; h++ {
					seq += fmt.Sprintf(" h%d:%X", h, []byte(proposers[h])[:2])
				}
				hist := "after-" + k.Kind
				if k.Kind == "update" || k.Kind == "remove" {
					hist = "after-remove-or-update"
				}
				site := "State.ExecBlock"
				if hist == "after-remove-or-update" {
					site = "ValidatorSet.IncrementAccum" // the class the set-level exploration reports for the same behaviour
				}
				return &chainViol{map[string]string{"site": site, "kind": "window-not-proportional", "history": hist},
					fmt.Sprintf("%s: in the %d heights %d..%d (set unchanged since height %d) validator %X with power %d proposes %d times; round-0 proposers:%s", k, total, w, w+total-1, from, []byte(a)[:2], p, cnt[a], seq)}
			}
		}
	}
	return nil
}

func chainCases(quick bool) []chainCase {
	var out []chainCase
	pw := []int64{1, 2, 3}
	var vecs [][]int64
	for _, a := range pw {
		for _, b := range pw {
			vecs = append(vecs, []int64{a, b})
			for _, c := range pw {
				vecs = append(vecs, []int64{a, b, c})
			}
		}
	}
	heights := []int64{1, 2, 3}
	if !quick {
		heights = []int64{1, 2, 3, 4, 5}
	}
	for _, v := range vecs {
		out = append(out, chainCase{Powers: v, Kind: "none"})
		for _, h := range heights {
			for pos := 0; pos <= len(v); pos++ {
				for _, p := range pw {
					out = append(out, chainCase{Powers: v, Kind: "add", Pos: pos, Power: p, Height: h})
				}
			}
			for pos := 0; pos < len(v); pos++ {
				for _, p := range pw {
					if p != v[pos] {
						out = append(out, chainCase{Powers: v, Kind: "update", Pos: pos, Power: p, Height: h})
					}
				}
				out = append(out, chainCase{Powers: v, Kind: "remove", Pos: pos, Height: h})
			}
		}
	}
	return out
}

func chainPart(run *core.Run) core.Coverage {
	cases := chainCases(run.Quick())
	classes := core.NewCounter()
	seqs := 0
	var fails int
	// sequential on purpose: gemmill/state keeps one package-level TPS calculator that
	// ExecBlock feeds without a lock (a node applies one block at a time)
	for i := range cases {
		v := runChainCase(cases[i])
		seqs++
		if v == nil {
			classes.Add(cases[i].Kind + "/proportional")
			continue
		}
		fails++
		classes.Add(cases[i].Kind + "/" + v.sig["kind"])
		run.Report(v.sig, cases[i], v.detail)
	}
	return core.Coverage{
		"evaluations":         len(cases),
		"distinct_nontrivial": classes.Len(),
		"outcome_classes":     classes.Map(),
		"cases_failing":       fails,
		"rule":                "every genesis power vector in {1,2,3}^2 and {1,2,3}^3 x (no change | Add of a new validator at every address rank with power 1|2|3 | Update of every member to every other power | Remove of every member) x the block whose EndBlock makes the change (quick 1..3, thorough 1..5); the real state.State.ApplyBlock (ExecBlock + commit through the hook events) is driven for change height + 2T heights; oracle: every window of T consecutive round-0 proposers after the change selects each validator exactly power times, and the membership is the expected one",
		"exhaustive":          true,
	}
}
