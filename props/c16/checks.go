package main

// The relational oracles R1..R6 (DESIGN §5 C16).  None of them contains an
// expected proposer: each relates two executions of the real code, or an
// execution to arithmetic facts stated in the property (counts per window,
// sum of powers, ordering).

import (
	"bytes"
	"crypto/sha256"
	"fmt"
	"sort"
	"strings"
	"sync"
	"sync/atomic"

	"verif/core"

	"github.com/dappledger/AnnChain/gemmill/types"
)

type kaseT struct {
	Powers      []int64 `json:"powers"`                 // start set: member i (by address) has Powers[i]
	Ops         []opT   `json:"ops"`                    // the history
	Check       string  `json:"check"`                  // which relation failed (informative; replay re-evaluates all)
	Slot        int     `json:"slot"`                   // copy on which it failed
	Path        []int64 `json:"path,omitempty"`         // R2: round increments taken (e.g. [3] versus [1,1,1])
	OtherPowers []int64 `json:"other_powers,omitempty"` // merge oracle: the history it was merged with
	OtherOps    []opT   `json:"other_ops,omitempty"`
}

type viol struct {
	sig    map[string]string
	kase   kaseT
	detail func() string // built only for the first case of a class
}

type ctx struct {
	run       *core.Run
	maxRound  int // R2: rounds compared
	fairCap   int64
	classes   *core.Counter // outcome classes
	seqs      *core.Counter // distinct selection sequences (R5)
	firstMu   sync.Mutex
	firstCase map[string]map[string]interface{}
	memo      [64]memoShard
	memoCap   int64
	memoN     int64

	nBuilds, nR1, nR2paths, nR2fail, nR3, nR4, nR4fail, nR5, nR5windows, nR5fail, nR5skip, nR6, nR2skip, nMemoHit int64
	r2FreshFail                                                                                                   int64
}

type memoShard struct {
	mu sync.Mutex
	m  map[string][2]key
}

func sigStr(sig map[string]string) string {
	ks := make([]string, 0, len(sig))
	for k := range sig {
		ks = append(ks, k)
	}
	sort.Strings(ks)
	var b strings.Builder
	for _, k := range ks {
		fmt.Fprintf(&b, "%s=%s;", k, sig[k])
	}
	return b.String()
}

// report hands violations to core in a deterministic (enumeration) order and
// remembers the first case of every class (BFS order ⇒ minimal depth, then
// smallest start set) for the evidence file.
func (c *ctx) report(vs []viol) {
	for _, v := range vs {
		s := sigStr(v.sig)
		c.firstMu.Lock()
		e, ok := c.firstCase[s]
		if ok {
			e["count"] = e["count"].(int) + 1
			c.firstMu.Unlock()
			c.run.Report(v.sig, v.kase, "(further case of this class)") // counted; only the first case of a class is kept
			continue
		}
		d := v.detail()
		c.firstCase[s] = map[string]interface{}{"powers": v.kase.Powers, "history": histString(v.kase.Ops), "path": v.kase.Path, "detail": d, "count": 1}
		c.firstMu.Unlock()
		c.run.Report(v.sig, v.kase, d)
	}
}

func slotName(u int) string { return fmt.Sprintf("copy %d", u) }

func obsDigest(o slotObs) key {
	var buf bytes.Buffer
	putObs(&buf, o)
	h := sha256.Sum256(buf.Bytes())
	var k key
	copy(k[:], h[:16])
	return k
}

// liteDigest executes a derived history (a lineage, or a history without its
// save/load steps) on the real code and returns the digests of the
// observations of both copies.  Results are memoised per (start set, history):
// the same derived history is the comparison partner of many enumerated
// histories, and it is executed once.
func (c *ctx) liteDigest(pw []int64, hist []opT) (d [2]key, enabled bool) {
	var kb strings.Builder
	for _, p := range pw {
		fmt.Fprintf(&kb, "%d,", p)
	}
	for _, o := range hist {
		kb.WriteByte(o.K[0])
		kb.WriteByte(o.K[len(o.K)-1])
		kb.WriteByte(byte('0' + o.S))
		kb.WriteByte(byte('5' + o.A))
		kb.WriteByte(byte('5' + o.P))
	}
	ks := kb.String()
	sh := &c.memo[int(sha256.Sum256([]byte(ks))[0])%len(c.memo)]
	sh.mu.Lock()
	if v, ok := sh.m[ks]; ok {
		sh.mu.Unlock()
		atomic.AddInt64(&c.nMemoHit, 1)
		return v, v[0] != key{}
	}
	sh.mu.Unlock()
	in, en := build(pw, hist, 0)
	atomic.AddInt64(&c.nBuilds, 1)
	if en {
		obs := in.observeAll(false)
		d = [2]key{obsDigest(obs[0]), obsDigest(obs[1])}
	}
	if atomic.LoadInt64(&c.memoN) < c.memoCap {
		sh.mu.Lock()
		if sh.m == nil {
			sh.m = map[string][2]key{}
		}
		if _, dup := sh.m[ks]; !dup {
			sh.m[ks] = d
			atomic.AddInt64(&c.memoN, 1)
		}
		sh.mu.Unlock()
	}
	return d, en
}

// ---------------------------------------------------------------- per-history relations

// relate evaluates, for ONE history whose main execution gave obs (without
// hashes), the relations whose comparison partner depends on the history
// itself: R3, R4 and the membership reference.
func (c *ctx) relate(pw []int64, hist []opT, obs [2]slotObs, model [2]map[int]int64) (out []viol) {
	kase := kaseT{Powers: pw, Ops: hist}

	// membership reference (plain map maintained next to the real calls)
	for u := 0; u < 2; u++ {
		if !obs[u].Live {
			continue
		}
		if msg := membershipDiff(obs[u], model[u]); msg != "" {
			k := kase
			k.Check, k.Slot = "membership", u
			o := obs[u]
			out = append(out, viol{map[string]string{"site": "ValidatorSet." + lastKind(lineage(hist, u)), "kind": "membership-differs-from-reference"}, k,
				func() string {
					return fmt.Sprintf("%v after %s: %s: %s; set is %v", pw, histString(hist), slotName(k.Slot), msg, o)
				}})
		}
	}

	// R3 independence of copies: the content of copy u must be what its own
	// lineage alone produces; operations on the other copy, before or after
	// the Copy, must be invisible, and the Copy itself must be faithful.
	if hasKind(hist, "copy") {
		for u := 0; u < 2; u++ {
			if !obs[u].Live {
				continue
			}
			lin := lineage(hist, u)
			atomic.AddInt64(&c.nR3, 1)
			dg, en := c.liteDigest(pw, lin)
			if en && dg[0] == obsDigest(obs[u]) {
				continue
			}
			d := "enabledness"
			var o3 slotObs
			if en {
				in3, _ := build(pw, lin, 0)
				o3 = observe(in3.vs[0], false)
				d = diffObs(obs[u], o3)
			}
			k := kase
			k.Check, k.Slot = "R3", u
			o := obs[u]
			out = append(out, viol{map[string]string{"site": "ValidatorSet.Copy", "kind": "copy-not-independent", "differs": d}, k,
				func() string {
					return fmt.Sprintf("%v, history %s: %s is %v, but its own lineage %s alone gives %v (differs in %s): an operation on the other copy is visible", pw, histString(hist), slotName(k.Slot), o, histString(lin), o3, d)
				}})
			break
		}
	}

	// R4 persistence: a replica that saved and reloaded its state any number
	// of times must observe what a replica that never restarted observes.
	if hasKind(hist, "rt") {
		h4 := without(hist, "rt")
		atomic.AddInt64(&c.nR4, 1)
		dg, en := c.liteDigest(pw, h4)
		for u := 0; u < 2; u++ {
			if en && dg[u] == obsDigest(obs[u]) {
				continue
			}
			d := "enabledness"
			var obs4 [2]slotObs
			if en {
				in4, _ := build(pw, h4, 0)
				obs4 = in4.observeAll(false)
				d = diffObs(obs[u], obs4[u])
			}
			atomic.AddInt64(&c.nR4fail, 1)
			k := kase
			k.Check, k.Slot = "R4", u
			sig := map[string]string{"site": "State.Save/LoadState", "kind": "set-differs-after-persistence-roundtrip", "differs": d}
			if d == "proposer" {
				sig = map[string]string{"site": "ValidatorSet.Proposer", "kind": "differs-after-persistence-roundtrip"}
			}
			o, o4 := obs[u], obs4[u]
			out = append(out, viol{sig, k,
				func() string {
					return fmt.Sprintf("%v, history %s: with the save/load steps %s is %v; the same history without them gives %v (differs in %s)", pw, histString(hist), slotName(k.Slot), o, o4, d)
				}})
			break
		}
	}
	return
}

func (c *ctx) panicViol(pw []int64, hist []opT, stack string, pv interface{}, where string) viol {
	msg := core.FirstLine(pv)
	return viol{map[string]string{"site": core.PanicSite(stack), "kind": "panic", "after": lastOpKind(hist)}, kaseT{Powers: pw, Ops: hist, Check: "panic"},
		func() string { return fmt.Sprintf("%v, history %s: panic%s: %v", pw, histString(hist), where, msg) }}
}

// historyChecks is what every enumerated history (transition) goes through:
// one execution on a fresh set, observation at the end, R3/R4/membership.
func (c *ctx) historyChecks(pw []int64, hist []opT) (obs [2]slotObs, fp fpParts, ok bool, out []viol) {
	panicked, pv, stack := core.Try(func() {
		in, enabled := build(pw, hist, 0)
		atomic.AddInt64(&c.nBuilds, 1)
		if !enabled {
			return
		}
		ok = true
		fp = hiddenFP(in) // before any observer call fills a cache
		obs = in.observeAll(false)
		out = c.relate(pw, hist, obs, in.model)
	})
	if panicked {
		ok = false
		out = append(out, c.panicViol(pw, hist, stack, pv, ""))
	}
	return
}

func lastOpKind(hist []opT) string {
	if len(hist) == 0 {
		return "NewValidatorSet"
	}
	return hist[len(hist)-1].K
}

func membershipDiff(o slotObs, m map[int]int64) string {
	seen := map[int]bool{}
	for _, x := range o.Mem {
		p, ok := m[x.ID]
		if !ok {
			return fmt.Sprintf("member id%d should not be in the set", x.ID)
		}
		if p != x.P {
			return fmt.Sprintf("member id%d has power %d, expected %d", x.ID, x.P, p)
		}
		seen[x.ID] = true
	}
	for id := range m {
		if !seen[id] {
			return fmt.Sprintf("member id%d is missing", id)
		}
	}
	return ""
}

// ---------------------------------------------------------------- per-state relations

// compositions of r into positive parts, all-ones excluded.
func compositions(r int) [][]int64 {
	var out [][]int64
	var rec func(left int, cur []int64)
	rec = func(left int, cur []int64) {
		if left == 0 {
			if len(cur) < r {
				out = append(out, append([]int64(nil), cur...))
			}
			return
		}
		for d := 1; d <= left; d++ {
			rec(left-d, append(cur, int64(d)))
		}
	}
	rec(r, nil)
	return out
}

var compCache = func() map[int][][]int64 {
	m := map[int][][]int64{}
	for r := 2; r <= 8; r++ {
		m[r] = compositions(r)
	}
	return m
}()

// walkRounds does what pbft.ConsensusState.enterNewRound does for every round
// change: validators = validators.Copy(); validators.IncrementAccum(delta).
func walkRounds(base *types.ValidatorSet, path []int64) (*types.ValidatorSet, bool) {
	v := base
	for _, d := range path {
		if !incInRange(v, d) {
			return nil, false
		}
		v = v.Copy()
		v.IncrementAccum(d)
	}
	return v, true
}

// stateChecks is evaluated for the first history that reaches each canonical
// state (and in replays): R1, R2, R5, R6 and the per-history relations.
func (c *ctx) stateChecks(pw []int64, hist []opT) (out []viol) {
	kase := kaseT{Powers: pw, Ops: hist}
	panicked, pv, stack := core.Try(func() {
		in, enabled := build(pw, hist, 0)
		atomic.AddInt64(&c.nBuilds, 1)
		if !enabled {
			return
		}
		var lins [2][]opT
		var hclass [2]string
		for u := 0; u < 2; u++ {
			lins[u] = lineage(hist, u)
			hclass[u] = historyClass(lins[u])
		}

		// ---- R2 (first: Copy only reads the set, nothing has been observed yet).
		// The proposer of round r must not depend on which earlier rounds a
		// replica entered: every way of reaching round r (compositions of r)
		// against entering every round.
		for u := 0; u < 2; u++ {
			base := in.vs[u]
			if base == nil {
				continue
			}
			// reference: entering every round; refs[r] = observation at round +r
			refs := make([]slotObs, c.maxRound+1)
			refOK := make([]bool, c.maxRound+1)
			{
				v, okv := base, true
				for r := 1; r <= c.maxRound && okv; r++ {
					if v, okv = walkRounds(v, []int64{1}); okv {
						refs[r], refOK[r] = observe(v, false), true
					}
				}
			}
			// every other way of getting there: depth-first over jump sequences,
			// each node one Copy+IncrementAccum from its parent
			type r2bad struct {
				path        []int64
				df          string
				ref, gotObs slotObs
			}
			worst := map[string]*r2bad{} // per kind of difference, the shortest jump sequence
			var dfs func(v *types.ValidatorSet, sum int, path []int64, allOnes bool)
			dfs = func(v *types.ValidatorSet, sum int, path []int64, allOnes bool) {
				for d := 1; sum+d <= c.maxRound; d++ {
					ones := allOnes && d == 1
					nv, okn := walkRounds(v, []int64{int64(d)})
					if !okn || !refOK[sum+d] {
						atomic.AddInt64(&c.nR2skip, 1)
						continue
					}
					p2 := append(append(make([]int64, 0, len(path)+1), path...), int64(d))
					if !ones {
						atomic.AddInt64(&c.nR2paths, 1)
						gotObs := observe(nv, false)
						if df := diffObs(refs[sum+d], gotObs); df != "" {
							atomic.AddInt64(&c.nR2fail, 1)
							w := worst[df]
							if w == nil || sum+d < sumOf(w.path) || (sum+d == sumOf(w.path) && len(p2) < len(w.path)) {
								worst[df] = &r2bad{p2, df, refs[sum+d], gotObs}
							}
						}
					}
					dfs(nv, sum+d, p2, ones)
				}
			}
			dfs(base, 0, nil, true)
			r2failed := len(worst) > 0
			if r2failed && len(hist) == 0 {
				atomic.AddInt64(&c.r2FreshFail, 1)
			}
			for _, df := range []string{"members", "powers", "accums", "total", "proposer"} {
				w := worst[df]
				if w == nil {
					continue
				}
				c.classes.Add("R2:batched-differs/" + df)
				k := kase
				k.Check, k.Slot, k.Path = "R2", u, w.path
				from := readMembers(base)
				out = append(out, viol{map[string]string{"site": "ValidatorSet.IncrementAccum", "kind": "batched-differs-from-sequential", "differs": df}, k,
					func() string {
						return fmt.Sprintf("%v after %s: from %s with members %v, a replica that enters every round up to round +%d gets %v; a replica that jumps by %v (Copy+IncrementAccum per jump, as enterNewRound does) gets %v", pw, histString(hist), slotName(k.Slot), from, sumOf(w.path), w.ref, w.path, w.gotObs)
					}})
			}
			if !r2failed {
				c.classes.Add("R2:agree")
			}
		}

		// ---- observation of the main execution, R6
		fullObs := in.observeAll(true)
		lite := fullObs
		lite[0].Hash, lite[1].Hash = "", ""
		for u := 0; u < 2; u++ {
			vs := in.vs[u]
			if vs == nil {
				continue
			}
			site := "ValidatorSet." + lastKind(lins[u])
			if len(hist) > 0 && hist[len(hist)-1].K == "copy" && 1-hist[len(hist)-1].S == u {
				site = "ValidatorSet.Copy"
			}
			atomic.AddInt64(&c.nR6, 1)
			ms := fullObs[u].Mem
			var sum int64
			uu := u
			r6 := func(kind, msg string) {
				k := kase
				k.Check, k.Slot = "R6", uu
				out = append(out, viol{map[string]string{"site": site, "kind": kind}, k,
					func() string {
						return fmt.Sprintf("%v after %s: %s: %s", pw, histString(hist), slotName(uu), msg)
					}})
			}
			for i, v := range vs.Validators {
				sum += v.VotingPower
				if i > 0 {
					switch cmp := bytes.Compare(vs.Validators[i-1].Address, v.Address); {
					case cmp == 0:
						r6("duplicate-address", fmt.Sprintf("positions %d and %d hold the same address; members %v", i-1, i, ms))
					case cmp > 0:
						r6("not-sorted-by-address", fmt.Sprintf("position %d sorts after position %d; members %v", i-1, i, ms))
					}
				}
			}
			if t := fullObs[u].Total; t != sum {
				r6("total-voting-power-not-sum", fmt.Sprintf("TotalVotingPower()=%d, sum of powers=%d", t, sum))
			}
			isMember := false
			for _, m := range ms {
				if m.ID == fullObs[u].Prop && m.ID >= 0 {
					isMember = true
				}
			}
			if !isMember {
				r6("proposer-not-a-member", fmt.Sprintf("Proposer() is id%d, members %v", fullObs[u].Prop, ms))
			}
			// hash of a set built from scratch with the same members/powers/accums
			// (NewValidatorSet(nil), then Add in descending address order)
			scratch := types.NewValidatorSet(nil)
			for i := len(vs.Validators) - 1; i >= 0; i-- {
				v := vs.Validators[i]
				nv := &types.Validator{Address: append([]byte(nil), v.Address...), PubKey: v.PubKey, VotingPower: v.VotingPower, Accum: v.Accum, IsCA: v.IsCA}
				scratch.Add(nv)
			}
			if d := diffObs(slotObs{Live: true, Mem: ms}, slotObs{Live: true, Mem: readMembers(scratch)}); d != "" {
				r6("rebuilt-set-differs", fmt.Sprintf("a set rebuilt with Add from the same members differs in %s: %v versus %v", d, readMembers(scratch), ms))
			} else if h2 := fmt.Sprintf("%x", scratch.Hash()); h2 != fullObs[u].Hash || h2 == "" {
				r6("hash-differs-from-rebuilt-set", fmt.Sprintf("Hash()=%s, hash of a set rebuilt from the same members/powers/accums=%s", fullObs[u].Hash, h2))
			}
		}

		// ---- R1 determinism: the same history on a fresh set (members offered
		// to NewValidatorSet in the opposite order, all objects new)
		atomic.AddInt64(&c.nR1, 1)
		in2, en2 := build(pw, hist, 1)
		atomic.AddInt64(&c.nBuilds, 1)
		obs2 := in2.observeAll(true)
		for u := 0; u < 2; u++ {
			d := "enabledness"
			if en2 {
				d = diffObs(fullObs[u], obs2[u])
			}
			if d != "" {
				k := kase
				k.Check, k.Slot = "R1", u
				a, b := fullObs[u], obs2[u]
				out = append(out, viol{map[string]string{"site": "ValidatorSet", "kind": "same-history-different-result", "differs": d}, k,
					func() string {
						return fmt.Sprintf("%v, history %s run twice on fresh sets: %s differs in %s: %v versus %v", pw, histString(hist), slotName(k.Slot), d, a, b)
					}})
				break
			}
		}

		// ---- R3, R4, membership
		out = append(out, c.relate(pw, hist, lite, in.model)...)

		// ---- R5 (last: destructive).  2T consecutive single selections; every
		// window of T of them must select each member exactly power times.
		for u := 0; u < 2; u++ {
			base := in.vs[u]
			if base == nil {
				continue
			}
			ms := readMembers(base)
			var T int64
			for _, m := range ms {
				T += m.P
			}
			if T > c.fairCap || !incInRange(base, 1) {
				atomic.AddInt64(&c.nR5skip, 1)
				continue
			}
			atomic.AddInt64(&c.nR5, 1)
			n := int(2 * T)
			seq := make([]int, n)
			sk := make([]byte, 0, n+3*len(ms))
			for _, m := range ms {
				sk = append(sk, byte(m.ID), byte(m.P), byte(m.A))
			}
			for i := 0; i < n; i++ {
				base.IncrementAccum(1)
				seq[i] = idOfAddr(addrOf(base.Proposer()))
				sk = append(sk, byte(seq[i]))
			}
			want := map[int]int64{}
			for _, m := range ms {
				want[m.ID] = m.P
			}
			cnt := map[int]int64{}
			for i := 0; i < int(T); i++ {
				cnt[seq[i]]++
			}
			bad := -1
			for w := 0; ; w++ {
				atomic.AddInt64(&c.nR5windows, 1)
				okW := len(cnt) <= len(want)
				for id, p := range want {
					if cnt[id] != p {
						okW = false
					}
				}
				if !okW {
					bad = w
					break
				}
				if w == int(T) {
					break
				}
				cnt[seq[w]]--
				if cnt[seq[w]] == 0 {
					delete(cnt, seq[w])
				}
				cnt[seq[w+int(T)]]++
			}
			c.seqs.Add(string(sk))
			if bad < 0 {
				c.classes.Add("R5:proportional/" + hclass[u])
				continue
			}
			atomic.AddInt64(&c.nR5fail, 1)
			c.classes.Add("R5:not-proportional/" + hclass[u])
			k := kase
			k.Check, k.Slot = "R5", u
			out = append(out, viol{map[string]string{"site": "ValidatorSet.IncrementAccum", "kind": "window-not-proportional", "history": hclass[u]}, k,
				func() string {
					return fmt.Sprintf("%v after %s: %s has members %v (total power %d); the next %d single selections (IncrementAccum(1), Proposer()) are %v; the window of %d starting at selection %d does not select every member exactly power times", pw, histString(hist), slotName(k.Slot), ms, T, n, seq, T, bad)
				}})
		}
	})
	if panicked {
		out = append(out, c.panicViol(pw, hist, stack, pv, " (history or follow-up operations)"))
	}
	return
}

func sumOf(p []int64) int {
	n := 0
	for _, x := range p {
		n += int(x)
	}
	return n
}

func addrOf(v *types.Validator) []byte {
	if v == nil {
		return nil
	}
	return v.Address
}
