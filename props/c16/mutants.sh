#!/bin/bash
# Detection demo for C16: builds the check against mutated copies of
# gemmill/types/validator_set.go / validator.go (go build -overlay; /repo is
# not touched) and runs the quick tier on each.  Expected: exit 1 for the
# "caught" group, exit 0 for the "equivalent under the property / inside a
# known class" group.  Usage: props/c16/mutants.sh [name]
# The known C16 classes are added to the mutants' private known_findings.txt
# so that only NEW violations are shown.
set -u
cd "$(dirname "$0")/../.."
export GOFLAGS=-mod=mod GOPROXY=off GOSUMDB=off GOTOOLCHAIN=local
W=$PWD/.work/c16/mut
rm -rf "$W"; mkdir -p "$W"
python3 - "$W" <<'EOF'
import os, json, sys
W = sys.argv[1]
vs = open('/repo/gemmill/types/validator_set.go').read()
v = open('/repo/gemmill/types/validator.go').read()
INV = '''		// Invalidate cache
		valSet.proposer = nil
		valSet.totalVotingPower = 0
'''
muts = {
 # ---- caught
 'a_update_no_invalidate': ('validator_set.go', vs, '		valSet.Validators[index] = val.Copy()\n' + INV, '		valSet.Validators[index] = val.Copy()\n'),
 'b_copy_shallow': ('validator_set.go', vs, '		validators[i] = val.Copy()\n	}\n	return &ValidatorSet{', '		validators[i] = val\n	}\n	return &ValidatorSet{'),
 'c1_heap_less_flipped': ('validator_set.go', vs, 'return int64(ac) > int64(o.(accumComparable))', 'return int64(ac) < int64(o.(accumComparable))'),
 'd1_remove_keeps_proposer': ('validator_set.go', vs, '		valSet.Validators = newValidators\n' + INV + '		return removedVal, true', '		valSet.Validators = newValidators\n		valSet.totalVotingPower = 0\n		return removedVal, true'),
 'd2_new_not_sorted': ('validator_set.go', vs, '	sort.Sort(ValidatorsByAddress(validators))\n	vs := &ValidatorSet{', '	vs := &ValidatorSet{'),
 'd3_add_middle_keeps_total': ('validator_set.go', vs, '		valSet.Validators = newValidators\n' + INV + '		return true', '		valSet.Validators = newValidators\n		valSet.proposer = nil\n		return true'),
 'd4_copy_shares_slice': ('validator_set.go', vs, '	return &ValidatorSet{\n		Validators:       validators,\n		proposer:         valSet.proposer,', '	validators = valSet.Validators\n	return &ValidatorSet{\n		Validators:       validators,\n		proposer:         valSet.proposer,'),
 # ---- not caught: tie-break rules are not fixed by the property; the fallback in
 # Proposer() is only reachable through the known persistence class; a wrong
 # proposer of a batched increment lies inside the known batched class
 'c2_heap_tie_ge': ('validator_set.go', vs, 'return int64(ac) > int64(o.(accumComparable))', 'return int64(ac) >= int64(o.(accumComparable))'),
 'c3_compareaccum_tie_flipped': ('validator.go', v, 'if bytes.Compare(v.Address, other.Address) < 0 {\n			return v\n		} else if bytes.Compare(v.Address, other.Address) > 0 {', 'if bytes.Compare(v.Address, other.Address) > 0 {\n			return v\n		} else if bytes.Compare(v.Address, other.Address) < 0 {'),
 'c4_compareaccum_order_flipped': ('validator.go', v, '	if v.Accum > other.Accum {\n		return v\n	} else if v.Accum < other.Accum {', '	if v.Accum < other.Accum {\n		return v\n	} else if v.Accum > other.Accum {'),
 'd5_inc_proposer_first_step': ('validator_set.go', vs, 'if i == int(times-1) {', 'if i == 0 {'),
 # ---- proposed repairs (expected: the corresponding classes disappear)
 'fix_r2_loop_single_steps': ('validator_set.go', vs, 'func (valSet *ValidatorSet) IncrementAccum(times int64) {\n', 'func (valSet *ValidatorSet) IncrementAccum(times int64) {\n	if times > 1 {\n		for i := int64(0); i < times; i++ {\n			valSet.IncrementAccum(1)\n		}\n		return\n	}\n'),
}
for name, (f, src, old, new) in muts.items():
    assert old in src, name
    d = os.path.join(W, name); os.makedirs(d)
    open(os.path.join(d, f), 'w').write(src.replace(old, new, 1))
    json.dump({"Replace": {"/repo/gemmill/types/" + f: os.path.join(d, f)}}, open(os.path.join(d, 'overlay.json'), 'w'))
EOF
[ $? -eq 0 ] || { echo "cannot generate mutants (anchored source text changed?)"; exit 2; }
for d in "$W"/*/; do
  n=$(basename "$d")
  [ -n "${1:-}" ] && [ "$1" != "$n" ] && continue
  root=$d/root; mkdir -p "$root"
  cp known_findings.txt "$root/"
  if [ "${n#fix_}" = "$n" ]; then
    cat >> "$root/known_findings.txt" <<'EOF'
known: property=C16 match=site=ValidatorSet.IncrementAccum;kind=batched-differs-from-sequential x
known: property=C16 match=site=ValidatorSet.Proposer;kind=differs-after-persistence-roundtrip x
known: property=C16 match=site=ValidatorSet.IncrementAccum;kind=window-not-proportional;history=after-batched-increment x
known: property=C16 match=site=ValidatorSet.IncrementAccum;kind=window-not-proportional;history=after-remove-or-update x
EOF
  fi
  if go build -tags verif -overlay "$d/overlay.json" -o "$d/bin" ./props/c16 2> "$root/build.log"; then
    VERIF_ROOT=$root "$d/bin" quick > "$root/out.txt" 2>&1; rc=$?
    echo "== $n exit=$rc"
    grep "sig:" "$root/out.txt" | sort | uniq -c
    tail -1 "$root/out.txt"
  else
    echo "== $n BUILD FAILED"; head -5 "$root/build.log"
  fi
done
