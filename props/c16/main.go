// C16 — proposer selection is deterministic and proportional to voting power;
// set mutation keeps the set sorted, duplicate-free, independent of copies and
// hash-equal on all replicas.  Explicit-state exhaustive enumeration of
// operation histories on the real gemmill/types.ValidatorSet (DESIGN §5 C16,
// engine XSTATE §4.2): breadth-first over histories, every history replayed on
// a fresh set, canonical-key deduplication with a merge oracle, relational
// oracles R1..R6 (checks.go).
package main

import (
	"crypto/sha256"
	"fmt"
	"os"
	"runtime/debug"
	"runtime/pprof"
	"sort"
	"sync"
	"sync/atomic"
	"syscall"
	"time"

	"verif/core"
)

// ---------------------------------------------------------------- alphabets

var allOps []opT
var opIndex = map[opT]uint8{}

func opID(o opT) uint8 {
	if i, ok := opIndex[o]; ok {
		return i
	}
	if len(allOps) >= 255 {
		core.Fatal("operation table overflow")
	}
	allOps = append(allOps, o)
	opIndex[o] = uint8(len(allOps) - 1)
	return opIndex[o]
}

// wideAlphabet: every position, every power, every insertion point.
func wideAlphabet(addPowers []int64) []uint8 {
	var a []uint8
	for s := 0; s < 2; s++ {
		for k := 1; k <= 3; k++ {
			a = append(a, opID(opT{K: "inc", S: s, A: k}))
		}
		a = append(a, opID(opT{K: "prop", S: s}), opID(opT{K: "hash", S: s}), opID(opT{K: "rt", S: s}))
		for e := 0; e < 3; e++ {
			for _, p := range addPowers {
				a = append(a, opID(opT{K: "add", S: s, A: e, P: p}))
			}
		}
		a = append(a, opID(opT{K: "adddup", S: s, A: 0, P: 2}))
		for pos := 0; pos < 4; pos++ {
			for _, p := range powerCycle {
				a = append(a, opID(opT{K: "upd", S: s, A: pos, P: p}))
			}
			a = append(a, opID(opT{K: "rem", S: s, A: pos}))
		}
		a = append(a, opID(opT{K: "copy", S: s}))
	}
	return a
}

// coreAlphabet: the same operation kinds with representative arguments
// (first and last member by address, middle insertion point, power one step
// up / one step down the cycle 1,2,3,5).  The observer calls Proposer()/Hash()
// inside a history are part of the wide alphabet only.
func coreAlphabet() []uint8 {
	var a []uint8
	for s := 0; s < 2; s++ {
		for k := 1; k <= 3; k++ {
			a = append(a, opID(opT{K: "inc", S: s, A: k}))
		}
		a = append(a,
			opID(opT{K: "rt", S: s}),
			opID(opT{K: "add", S: s, A: 1, P: 2}),
			opID(opT{K: "upd", S: s, A: 0, P: -1}),
			opID(opT{K: "upd", S: s, A: -1, P: -2}),
			opID(opT{K: "rem", S: s, A: 0}),
			opID(opT{K: "rem", S: s, A: -1}),
			opID(opT{K: "copy", S: s}))
	}
	return a
}

// mergeAlphabet: next operations whose observations are compared whenever two
// histories are merged under one canonical key: the operations that read,
// drop, hand on or reset the two cache fields.  First half addresses copy 0,
// second half copy 1, in the same order.
func mergeAlphabet() []uint8 {
	var a []uint8
	for s := 0; s < 2; s++ {
		a = append(a,
			opID(opT{K: "inc", S: s, A: 1}),
			opID(opT{K: "rt", S: s}),
			opID(opT{K: "upd", S: s, A: 0, P: -1}),
			opID(opT{K: "copy", S: s}))
	}
	return a
}

// ---------------------------------------------------------------- start sets

func startSets() [][]int64 {
	var out [][]int64
	for n := 1; n <= 3; n++ {
		idx := make([]int, n)
		for {
			v := make([]int64, n)
			for i := range v {
				v[i] = powerCycle[idx[i]]
			}
			out = append(out, v)
			i := n - 1
			for i >= 0 {
				idx[i]++
				if idx[i] < len(powerCycle) {
					break
				}
				idx[i] = 0
				i--
			}
			if i < 0 {
				break
			}
		}
	}
	out = append(out,
		[]int64{1, 1, 1, 1}, // all ties
		[]int64{1, 2, 3, 5},
		[]int64{5, 3, 2, 1},
		[]int64{2, 2, 3, 3}, // pairwise ties
		[]int64{1, 1, 1, 5},
		[]int64{1 << 60, 1 << 60, 1 << 59, 1}, // ≈2^60
	)
	return out
}

// ---------------------------------------------------------------- search

type entry struct {
	start   uint8
	swapped bool // the representative history reaches the mirror image of the canonical orientation
	ops     []uint8
	once    sync.Once
	fut     key
	fp      string          // concrete-state fingerprint of the representative (canonical orientation)
	fps     map[string]bool // further fingerprints whose futures were compared already
}

type search struct {
	c        *ctx
	starts   [][]int64
	mergeA   []uint8
	seen     map[key]*entry
	depthFor func(pw []int64) int // stated bound on the history length
	extFor   func(pw []int64) int // >= depthFor: optional extension, explored after everything else if time remains

	extStartBy                             time.Time
	extNodes, extNodesDone, extTransitions int64
	extSkipped, extCapped                  bool
	mergesAtLeaf                           int64

	transitions, merges, mergesChecked, mergesSameConcrete, mergeConflicts, futBuilds int64
	levelStates, levelTrans                                                           []int64
	tPhase                                                                            [4]time.Duration
}

func decode(ops []uint8) []opT {
	h := make([]opT, len(ops))
	for i, x := range ops {
		h[i] = allOps[x]
	}
	return h
}

// futures returns the canonical keys reached by each operation of the merge
// alphabet from the end of a history, listed in the canonical orientation.
func (s *search) futures(pw []int64, hist []opT, swapped bool) []key {
	out := make([]key, len(s.mergeA))
	for i, x := range s.mergeA {
		h := append(append(make([]opT, 0, len(hist)+1), hist...), allOps[x])
		panicked, _, _ := core.Try(func() {
			in, ok := build(pw, h, 0)
			if !ok {
				return
			}
			// the future's observation includes Hash(): a cache that only a later
			// Hash() shows (e.g. a memoised hash that an operation forgets to reset)
			// separates two histories here
			obs := in.observeAll(true)
			k, sw := symCanon(obs)
			h0, h1 := obs[0].Hash, obs[1].Hash
			if sw {
				h0, h1 = h1, h0
			}
			hh := sha256.New()
			hh.Write(k[:])
			hh.Write([]byte(h0 + "|" + h1))
			copy(out[i][:], hh.Sum(nil)[:len(out[i])])
		})
		atomic.AddInt64(&s.futBuilds, 1)
		if panicked {
			out[i] = key{0xff}
		}
	}
	if swapped {
		h := len(out) / 2
		out = append(append([]key{}, out[h:]...), out[:h]...)
	}
	return out
}

func digest(ks []key) key {
	h := sha256.New()
	for _, k := range ks {
		h.Write(k[:])
	}
	var o key
	copy(o[:], h.Sum(nil)[:16])
	return o
}

func (s *search) entryFut(e *entry) key {
	e.once.Do(func() { e.fut = digest(s.futures(s.starts[e.start], decode(e.ops), e.swapped)) })
	return e.fut
}

// mergeCheck is the merge oracle: a history that reaches a canonical key seen
// before must have the same next-operation observations as the representative.
func (s *search) mergeCheck(e *entry, start uint8, ops []uint8, swapped bool) []viol {
	pw, hist := s.starts[start], decode(ops)
	if digest(s.futures(pw, hist, swapped)) == s.entryFut(e) {
		return nil
	}
	fa, fb := s.futures(s.starts[e.start], decode(e.ops), e.swapped), s.futures(pw, hist, swapped)
	which := "?"
	for i := range fa {
		if fa[i] != fb[i] {
			which = allOps[s.mergeA[i]].K
			break
		}
	}
	return []viol{{map[string]string{"site": "ValidatorSet", "kind": "equal-observations-different-futures", "next": which},
		kaseT{Powers: pw, Ops: hist, Check: "merge", OtherPowers: s.starts[e.start], OtherOps: decode(e.ops)},
		func() string {
			return fmt.Sprintf("%v %s and %v %s give identical observations of both copies (up to exchanging them), but differ after one further operation (%s): state that no observation shows influences later results", pw, histString(hist), s.starts[e.start], histString(decode(e.ops)), which)
		}}}
}

type child struct {
	ops     []uint8
	fp      string
	k       key
	swapped bool
	viols   []viol
	isNew   bool
	rep     *entry
	viols3  []viol
}

func (s *search) run(maxDepth int, alphaAt func(level int) []uint8, deadline time.Time, samples *core.Sampler) (completedDepth int, capped bool) {
	c := s.c
	var frontier []*entry
	// level 0
	{
		res := make([]child, len(s.starts))
		core.Par(len(s.starts), func(i int) {
			obs, fp, ok, v := c.historyChecks(s.starts[i], nil)
			if !ok {
				core.Fatal("start set %v cannot be built", s.starts[i])
			}
			k, _ := symCanon(obs)
			res[i] = child{k: k, fp: fp.compose(false), viols: v}
		})
		var news []*entry
		for i := range res {
			c.report(res[i].viols)
			if _, dup := s.seen[res[i].k]; dup {
				core.Fatal("two start sets share a canonical key")
			}
			e := &entry{start: uint8(i), fp: res[i].fp}
			s.seen[res[i].k] = e
			news = append(news, e)
		}
		out := make([][]viol, len(news))
		core.Par(len(news), func(i int) { out[i] = c.stateChecks(s.starts[news[i].start], nil) })
		for _, v := range out {
			c.report(v)
		}
		frontier = news
		s.levelStates = append(s.levelStates, int64(len(news)))
		s.levelTrans = append(s.levelTrans, 0)
	}

	const chunk = 1024
	// processChunk expands the nodes of part by every operation of alpha.
	processChunk := func(part []*entry, alpha []uint8, next *[]*entry) (lt int64) {
		// phase 1 (parallel): execute every enabled operation from every node
		tp := time.Now()
		kids := make([][]child, len(part))
		core.Par(len(part), func(i int) {
			e := part[i]
			pw := s.starts[e.start]
			base := decode(e.ops)
			for _, x := range alpha {
				hist := append(append(make([]opT, 0, len(base)+1), base...), allOps[x])
				obs, fp, ok, v := c.historyChecks(pw, hist)
				if !ok && len(v) == 0 {
					continue // not enabled here
				}
				ops := append(append(make([]uint8, 0, len(e.ops)+1), e.ops...), x)
				ch := child{ops: ops, viols: v}
				if ok {
					ch.k, ch.swapped = symCanon(obs)
					ch.fp = fp.compose(ch.swapped)
				} else {
					ch.k = key{0xfe} // panicked: terminal
				}
				kids[i] = append(kids[i], ch)
			}
		})
		// phase 2 (sequential, enumeration order): deduplicate
		s.tPhase[0] += time.Since(tp)
		tp = time.Now()
		type work struct{ i, j int }
		var todo []work
		for i := range kids {
			for j := range kids[i] {
				ch := &kids[i][j]
				lt++
				c.report(ch.viols)
				if ch.k == (key{0xfe}) {
					continue
				}
				if e, dup := s.seen[ch.k]; dup {
					ch.rep = e
					s.merges++
					if len(ch.ops) >= s.extFor(s.starts[part[i].start]) {
						// a history of maximal length is never expanded, so merging it
						// cannot hide anything: no futures to compare
						s.mergesAtLeaf++
						continue
					}
					if hiddenOK && (e.fp == ch.fp || e.fps[ch.fp]) {
						// same canonical key AND same cache fields as a history whose
						// futures were already compared: identical concrete state
						s.mergesSameConcrete++
						continue
					}
					if e.fps == nil {
						e.fps = map[string]bool{}
					}
					e.fps[ch.fp] = true
					s.mergesChecked++
				} else {
					e := &entry{start: part[i].start, ops: ch.ops, fp: ch.fp, swapped: ch.swapped}
					s.seen[ch.k] = e
					ch.isNew, ch.rep = true, e
					*next = append(*next, e)
					if len(s.seen)%4099 == 0 {
						samples.Add(map[string]interface{}{"powers": s.starts[e.start], "history": histString(decode(e.ops))})
					}
				}
				todo = append(todo, work{i, j})
			}
		}
		// phase 3 (parallel): state relations on new states, merge oracle on merged histories
		s.tPhase[1] += time.Since(tp)
		tp = time.Now()
		core.Par(len(todo), func(t int) {
			w := todo[t]
			ch := &kids[w.i][w.j]
			if ch.isNew {
				ch.viols3 = c.stateChecks(s.starts[part[w.i].start], decode(ch.ops))
			} else {
				ch.viols3 = s.mergeCheck(ch.rep, part[w.i].start, ch.ops, ch.swapped)
			}
		})
		s.tPhase[2] += time.Since(tp)
		tp = time.Now()
		for _, w := range todo {
			ch := &kids[w.i][w.j]
			if !ch.isNew && len(ch.viols3) > 0 {
				s.mergeConflicts++
			}
			c.report(ch.viols3)
		}
		s.tPhase[3] += time.Since(tp)
		return lt
	}

	for depth := 0; depth < maxDepth; depth++ {
		alpha := alphaAt(depth)
		var next []*entry
		var lt int64
		// nodes inside the stated bound first; nodes of the optional extension
		// (one more operation for some set sizes, only if time remains) after them
		var baseNodes, extNodes []*entry
		for _, e := range frontier {
			pw := s.starts[e.start]
			switch {
			case len(e.ops) < s.depthFor(pw):
				baseNodes = append(baseNodes, e)
			case len(e.ops) < s.extFor(pw):
				extNodes = append(extNodes, e)
			}
		}
		for lo := 0; lo < len(baseNodes); lo += chunk {
			if time.Now().After(deadline) {
				return depth, true
			}
			hi := lo + chunk
			if hi > len(baseNodes) {
				hi = len(baseNodes)
			}
			lt += processChunk(baseNodes[lo:hi], alpha, &next)
		}
		if len(extNodes) > 0 {
			s.extNodes += int64(len(extNodes))
			if time.Now().After(s.extStartBy) {
				s.extSkipped = true
			} else {
				for lo := 0; lo < len(extNodes); lo += chunk {
					if time.Now().After(deadline) {
						s.extCapped = true
						break
					}
					hi := lo + chunk
					if hi > len(extNodes) {
						hi = len(extNodes)
					}
					n := processChunk(extNodes[lo:hi], alpha, &next)
					lt += n
					s.extTransitions += n
					s.extNodesDone += int64(hi - lo)
				}
			}
		}
		s.transitions += lt
		if os.Getenv("VERIF_C16_DEBUG") != "" {
			var ru syscall.Rusage
			syscall.Getrusage(syscall.RUSAGE_SELF, &ru)
			fmt.Fprintf(os.Stderr, "depth %d: %d transitions, %d new; phases %v; cpu user %.1fs sys %.1fs; builds %d fut %d; maxrss %d MB\n", depth+1, lt, len(next), s.tPhase,
				float64(ru.Utime.Sec)+float64(ru.Utime.Usec)/1e6, float64(ru.Stime.Sec)+float64(ru.Stime.Usec)/1e6, atomic.LoadInt64(&c.nBuilds), atomic.LoadInt64(&s.futBuilds), ru.Maxrss/1024)
		}
		s.levelStates = append(s.levelStates, int64(len(next)))
		s.levelTrans = append(s.levelTrans, lt)
		frontier = next
	}
	return maxDepth, false
}

// ---------------------------------------------------------------- main

func main() {
	netWorkerEntry()
	run := core.Start("C16", "model_checking", "XSTATE")
	if run.ReplayPath != "" && netReplay(run) {
		run.Finish(nil, nil)
	}
	if pf := os.Getenv("VERIF_C16_PROF"); pf != "" {
		f, _ := os.Create(pf)
		pprof.StartCPUProfile(f) // development aid; stopped before Finish
	}
	initPool()
	debug.SetGCPercent(run.Pick(200, 100))
	debug.SetMemoryLimit(5 << 29) // 2.5 GiB soft limit
	c := &ctx{run: run, classes: core.NewCounter(), seqs: core.NewCounter(), firstCase: map[string]map[string]interface{}{}, fairCap: 64, memoCap: 1500000}
	c.maxRound = run.Pick(3, 4)

	addPowers := []int64{2}
	if !run.Quick() {
		addPowers = []int64{1, 3}
	}
	wide, coreA, mergeA := wideAlphabet(addPowers), coreAlphabet(), mergeAlphabet()
	// depth of histories per start-set size (index n); wideDepth leading
	// operations range over the wide alphabet
	// (measured: the number of histories grows about 6-7x per operation; all
	// 90 sets to length 4 are ~0.9M histories / ~170 cpu-s, the sets of 3 and 4
	// members to length 5 another ~5M, so the tiers give the longer histories
	// to the small sets and let the follow-up checks R2/R4/R5 look 3..2T
	// operations past the end of every history)
	depthByN := map[int]int{1: 4, 2: 4, 3: 3, 4: 3}
	extByN := map[int]int{}
	wideDepth := 1
	if !run.Quick() {
		depthByN = map[int]int{1: 6, 2: 5, 3: 4, 4: 4}
		// extension: sets of 2 members one operation further (another ~4M
		// histories), started only if less than 40% of the time budget is used
		extByN = map[int]int{2: 6}
	}
	if v := os.Getenv("VERIF_C16_DEPTHS"); v != "" { // development aid: "d1,d2,d3,d4,wide"
		var d [5]int
		if n, _ := fmt.Sscanf(v, "%d,%d,%d,%d,%d", &d[0], &d[1], &d[2], &d[3], &d[4]); n == 5 {
			depthByN = map[int]int{1: d[0], 2: d[1], 3: d[2], 4: d[3]}
			extByN = map[int]int{}
			wideDepth = d[4]
		}
	}
	maxDepth := 0
	for n, d := range depthByN {
		if extByN[n] < d {
			extByN[n] = d
		}
		if extByN[n] > maxDepth {
			maxDepth = extByN[n]
		}
		if d > maxDepth {
			maxDepth = d
		}
	}
	s := &search{c: c, starts: startSets(), mergeA: mergeA, seen: map[key]*entry{},
		depthFor: func(pw []int64) int { return depthByN[len(pw)] },
		extFor:   func(pw []int64) int { return extByN[len(pw)] }}

	if run.ReplayPath != "" {
		var k kaseT
		if err := run.ReplayCase(&k); err != nil {
			core.Fatal("cannot load replay: %v", err)
		}
		c.maxRound = 4
		c.report(c.stateChecks(k.Powers, k.Ops))
		if k.OtherOps != nil || k.OtherPowers != nil {
			a, oka := build(k.Powers, k.Ops, 0)
			b, okb := build(k.OtherPowers, k.OtherOps, 0)
			if oka && okb {
				ka, swa := symCanon(a.observeAll(false))
				kb, swb := symCanon(b.observeAll(false))
				fa, fb := s.futures(k.Powers, k.Ops, swa), s.futures(k.OtherPowers, k.OtherOps, swb)
				if ka == kb && digest(fa) != digest(fb) {
					c.report([]viol{{map[string]string{"site": "ValidatorSet", "kind": "equal-observations-different-futures", "next": "replay"}, k, func() string { return "histories with identical observations differ after one further operation" }}})
				}
			}
		}
		run.Finish(nil, nil)
	}

	// determinism of the machinery itself (ground rule 2): the first and one
	// further history are executed twice and must give identical digests.
	for _, h := range [][]opT{nil, {{K: "inc", S: 0, A: 2}, {K: "copy", S: 0}, {K: "rt", S: 1}, {K: "upd", S: 1, A: 0, P: -1}, {K: "inc", S: 1, A: 1}}} {
		pw := []int64{2, 3, 5}
		a, oka := build(pw, h, 0)
		b, okb := build(pw, h, 0)
		oa, ob := a.observeAll(true), b.observeAll(true)
		if !oka || !okb || canon(oa) != canon(ob) || oa[0].Hash != ob[0].Hash || oa[1].Hash != ob[1].Hash {
			core.Fatal("replay of %s is not reproducible", histString(h))
		}
	}

	budget := time.Duration(run.Pick(360, 12*60+30)) * time.Second // quick: a safety net (the quick depths take well under a minute on an idle machine)
	if v := os.Getenv("VERIF_C16_BUDGET"); v != "" {
		if d, err := time.ParseDuration(v); err == nil {
			budget = d
		}
	}
	samples := core.NewSampler(6, run.Seed)
	samples.Add(map[string]interface{}{"powers": s.starts[len(s.starts)/2], "history": "[]"})
	t0 := time.Now()
	s.extStartBy = t0.Add(budget * 2 / 5)
	done, capped := s.run(maxDepth, func(level int) []uint8 {
		if level < wideDepth {
			return wide
		}
		return coreA
	}, t0.Add(budget), samples)

	first := map[string]interface{}{}
	for k, v := range c.firstCase {
		first[k] = v
	}
	levels := []map[string]int64{}
	for i := range s.levelStates {
		levels = append(levels, map[string]int64{"depth": int64(i), "new_states": s.levelStates[i], "transitions": s.levelTrans[i]})
	}
	alphaNames := func(a []uint8) []string {
		var o []string
		for _, x := range a {
			o = append(o, allOps[x].String())
		}
		sort.Strings(o)
		return o
	}
	extension := map[string]interface{}{"depth_by_set_size": extByN, "nodes": s.extNodes, "nodes_expanded": s.extNodesDone, "transitions": s.extTransitions,
		"skipped_for_time": s.extSkipped, "stopped_by_time_cap": s.extCapped, "complete": s.extNodes > 0 && s.extNodesDone == s.extNodes}
	if s.extSkipped || s.extCapped {
		run.Notes = append(run.Notes, fmt.Sprintf("the optional extension (sets of 2 members to length 6) was not completed within the time budget: %d of %d nodes expanded; the stated bounds depth_by_set_size are complete", s.extNodesDone, s.extNodes))
	}
	if capped {
		run.Notes = append(run.Notes, fmt.Sprintf("time cap of %v reached while expanding depth %d (histories of length %d): all histories of length <= %d are complete, longer ones only partly", budget, done, done+1, done))
	}
	execs := atomic.LoadInt64(&c.nBuilds) + atomic.LoadInt64(&s.futBuilds)
	pprof.StopCPUProfile()
	chainCov := chainPart(run)
	netCov := netPart(run)
	addInt := func(k string) int64 {
		var t int64
		for _, c := range []core.Coverage{chainCov, netCov} {
			switch x := c[k].(type) {
			case int:
				t += int64(x)
			case int64:
				t += x
			}
		}
		return t
	}
	exhaustiveAll := !capped
	if e, ok := netCov["exhaustive"].(bool); ok && !e {
		exhaustiveAll = false
	}
	run.Finish(core.Coverage{
		"state_chains":                  chainCov,
		"replicas":                      netCov,
		"states":                        len(s.seen),
		"transitions":                   s.transitions,
		"traces_validated_against_impl": s.transitions + int64(len(s.starts)) + addInt("evaluations"),
		"evaluations":                   execs + addInt("evaluations"),
		"distinct_nontrivial":           c.seqs.Len(),
		"rule": "breadth-first over ALL operation histories of length <= depth_by_set_size[n] from every start set of n members (plus, time permitting, the extension_beyond_bounds, reported separately and not part of 'exhaustive') (powers in {1,2,3,5}^n, n<=3: all 84; n=4: 6 vectors incl. all-equal, pairwise-equal and one ~2^60); " +
			"the first wide_depth operations of a history range over the wide alphabet (IncrementAccum 1|2|3, Proposer, Hash, save/load through state.State, Add of a new member below/between/above the existing ones, Add of an existing address, Update of every position to every other power in {1,2,3,5}, Remove of every position, Copy; each addressed to either of two live copies), later operations over the core alphabet (IncrementAccum 1|2|3, save/load, Add in the middle, Update first member one power step up / last member one step down, Remove first/last, Copy; either copy); " +
			"every history is replayed on a fresh real ValidatorSet and observed only at its end; states = distinct canonical keys (members+powers+accums in order, Proposer().Address, TotalVotingPower() of both copies, modulo exchanging the copies); a history reaching a known key is not expanded again, instead its next-operation observations are compared with the representative's (merge oracle) unless its complete concrete state incl. cache fields equals one already compared or it has maximal length (never expanded anyway); " +
			"per history: R3 (lineage of each copy alone), R4 (same history without save/load steps), membership reference; per state: R1 (second run, members offered in opposite order, incl. Hash), R6, R2 (every composition of rounds 2..max_round via Copy+IncrementAccum), R5 (2T single selections, all T+1 windows); " +
			"transitions = enabled (state, operation) pairs executed; traces_validated_against_impl = enumerated histories (start sets + transitions), every one executed on the real code; evaluations = executions of a history on the real code (main runs, comparison partners, follow-ups of the merge oracle); distinct_nontrivial = distinct (member list, selection sequence) pairs seen in R5",
		"exhaustive":                      exhaustiveAll,
		"exhaustive_set_histories":        !capped,
		"bounds":                          map[string]interface{}{"depth_by_set_size": depthByN, "wide_depth": wideDepth, "depth_completed": done, "max_round_R2": c.maxRound, "fairness_total_power_cap": c.fairCap, "start_sets": len(s.starts), "wide_alphabet": len(wide), "core_alphabet": len(coreA), "merge_alphabet": len(mergeA), "time_cap_s": budget.Seconds()},
		"extension_beyond_bounds":         extension,
		"levels":                          levels,
		"merges":                          s.merges,
		"merges_futures_compared":         s.mergesChecked,
		"merges_identical_concrete_state": s.mergesSameConcrete,
		"merges_of_maximal_histories":     s.mergesAtLeaf,
		"concrete_state_fingerprint":      hiddenOK,
		"merge_conflicts":                 s.mergeConflicts,
		"derived_history_memo_hits":       c.nMemoHit,
		"R1_reruns":                       c.nR1,
		"R2_paths_compared":               c.nR2paths,
		"R2_paths_differing":              c.nR2fail,
		"R2_paths_skipped_int64":          c.nR2skip,
		"R2_start_sets_failing_fresh":     c.r2FreshFail,
		"R3_lineage_comparisons":          c.nR3,
		"R4_comparisons":                  c.nR4,
		"R4_differing":                    c.nR4fail,
		"R5_states":                       c.nR5,
		"R5_windows":                      c.nR5windows,
		"R5_states_failing":               c.nR5fail,
		"R5_skipped_total_above_cap":      c.nR5skip,
		"R6_sets":                         c.nR6,
		"outcome_classes":                 c.classes.Map(),
		"first_case_per_class":            first,
		"wide_ops":                        alphaNames(wide),
		"core_ops":                        alphaNames(coreA),
		"samples":                         samples.List(),
	}, []string{
		"collision resistance of the hashes used for canonical keys (sha256/128 bit) and of the code's own set hash",
		"histories stay inside int64: an IncrementAccum that would overflow (only possible with the ~2^60 vector) is treated as not enabled; the code itself carries a 'TODO: mind overflow'",
		"sets never become empty (Remove of the last member is not enumerated): IncrementAccum on an empty set dereferences a nil heap entry, which is outside this property",
		"canonical-key merging is sound for the code as it stands (argument at canon() and symCanon()); the merge oracle compares next-operation observations over the merge alphabet on merges and reports a difference as a violation",
		"R1 and the Hash() comparisons are evaluated for the first history reaching each canonical state; every further history reaching it is compared on members, powers, accums, total and proposer (R3, R4, membership, merge oracle)",
		"fairness (R5) is not evaluated for sets whose total power exceeds 64 (the ~2^60 vector)",
		"state chains (coverage.state_chains): block validity is not the subject, the block-verifier hook of state.State accepts every block and blocks carry an empty last commit; the application behind the hook events is a stub",
		"replicas (coverage.replicas): CONSNET executions as in C01/C12 (network, timers and disk played by the harness, fair default schedule); the reference proposer is computed by the monitor with the same ValidatorSet code on the path 'one step per height, then one per round' - what is compared is the path a replica took, not the selection arithmetic (that is parts a and c)",
	})
}
