package main

// Operations, instances and observations of the real types.ValidatorSet.

import (
	"bytes"
	"crypto/sha256"
	"encoding/binary"
	"encoding/hex"
	"fmt"
	"math/big"
	"reflect"
	"sort"
	"strconv"
	"strings"
	"sync"
	"time"
	"unsafe"

	crypto "github.com/dappledger/AnnChain/gemmill/go-crypto"
	wire "github.com/dappledger/AnnChain/gemmill/go-wire"
	dbm "github.com/dappledger/AnnChain/gemmill/modules/go-db"
	sm "github.com/dappledger/AnnChain/gemmill/state"
	"github.com/dappledger/AnnChain/gemmill/types"
)

// ---------------------------------------------------------------- identities

// A pool of 9 deterministic Ed25519 public keys, sorted by address.  Start
// sets use pool positions 1,3,5,7 (so position i of a start set is its i-th
// member by address); Add draws from positions 0 (below every member), 4
// (in the middle) and 8 (above every member).
const poolN = 9

var (
	pool     []crypto.PubKey
	poolVal  []*types.Validator // NewValidator(pool[i], 0, true), made once (Address() costs a wire encoding)
	poolAddr [][]byte
	idOf     map[string]int
	basePos  = []int{1, 3, 5, 7}
	extraPos = []int{0, 4, 8}
)

func initPool() {
	for i := 0; i < poolN; i++ {
		var b [32]byte
		for j := range b {
			b[j] = byte(i*31 + j*7 + 1)
		}
		pool = append(pool, crypto.PubKeyEd25519(b))
	}
	sort.Slice(pool, func(a, b int) bool { return bytes.Compare(pool[a].Address(), pool[b].Address()) < 0 })
	idOf = map[string]int{}
	for i, p := range pool {
		a := p.Address()
		poolAddr = append(poolAddr, a)
		if _, dup := idOf[string(a)]; dup {
			panic("pool address collision")
		}
		idOf[string(a)] = i
		poolVal = append(poolVal, types.NewValidator(p, 0, true))
	}
	initHidden()
}

// newVal is types.NewValidator(pool[id], power, true) without recomputing the address.
func newVal(id int, power int64) *types.Validator {
	v := poolVal[id].Copy()
	v.VotingPower = power
	return v
}

func idOfAddr(a []byte) int {
	if id, ok := idOf[string(a)]; ok {
		return id
	}
	return -9
}

// ---------------------------------------------------------------- operations

// opT is one operation of a history.  S is the addressed copy (0|1).
//
//	inc    IncrementAccum(A)
//	copy   slot[1-S] = slot[S].Copy()
//	add    Add(NewValidator(pool[extraPos[A]], P, true))            (new member unless already added)
//	adddup Add(NewValidator(pubkey of member at position A, P))     (address already present)
//	upd    as plugin/admin_op does: GetByAddress(member at position A), set VotingPower, Update;
//	       P>0 explicit power, P=-1 next / P=-2 previous power in the cycle 1,2,3,5
//	rem    Remove(address of member at position A)                  (never the last member)
//	rt     slot[S] = reload(save(slot[S])) through state.State.Save / state.LoadState
//	prop   Proposer()      hash   Hash()                            (observer calls inside a history)
type opT struct {
	K string `json:"k"`
	S int    `json:"s"`
	A int    `json:"a"`
	P int64  `json:"p"`
}

func (o opT) String() string {
	switch o.K {
	case "inc":
		return fmt.Sprintf("%d.Inc(%d)", o.S, o.A)
	case "copy":
		return fmt.Sprintf("%d:=%d.Copy()", 1-o.S, o.S)
	case "add":
		return fmt.Sprintf("%d.Add(id%d,p%d)", o.S, extraPos[o.A], o.P)
	case "adddup":
		return fmt.Sprintf("%d.AddExisting(pos%d,p%d)", o.S, o.A, o.P)
	case "upd":
		return fmt.Sprintf("%d.Update(pos%d,p%d)", o.S, o.A, o.P)
	case "rem":
		return fmt.Sprintf("%d.Remove(pos%d)", o.S, o.A)
	case "rt":
		return fmt.Sprintf("%d.SaveLoad()", o.S)
	case "prop":
		return fmt.Sprintf("%d.Proposer()", o.S)
	case "hash":
		return fmt.Sprintf("%d.Hash()", o.S)
	}
	return "?"
}

func histString(h []opT) string {
	s := make([]string, len(h))
	for i, o := range h {
		s[i] = o.String()
	}
	return "[" + strings.Join(s, " ; ") + "]"
}

var powerCycle = []int64{1, 2, 3, 5}

func cyclePower(cur int64, dir int64) int64 {
	for i, p := range powerCycle {
		if p == cur {
			if dir == -1 {
				return powerCycle[(i+1)%len(powerCycle)]
			}
			return powerCycle[(i+len(powerCycle)-1)%len(powerCycle)]
		}
	}
	if dir == -1 {
		return 1
	}
	return 5
}

// ---------------------------------------------------------------- instances

type inst struct {
	vs    [2]*types.ValidatorSet
	model [2]map[int]int64 // membership reference: pool id -> power (plain Go; accums are never modelled)
}

func newInst(pw []int64, variant int) *inst {
	vals := make([]*types.Validator, len(pw))
	m := map[int]int64{}
	for i, p := range pw {
		vals[i] = newVal(basePos[i], p)
		m[basePos[i]] = p
	}
	if variant == 1 { // R1: same members offered in the opposite order, fresh objects
		for i, j := 0, len(vals)-1; i < j; i, j = i+1, j-1 {
			vals[i], vals[j] = vals[j], vals[i]
		}
	}
	in := &inst{}
	in.vs[0] = types.NewValidatorSet(vals)
	in.model[0] = m
	return in
}

var (
	maxI64 = big.NewInt(0).SetUint64(1<<63 - 1)
	minI64 = big.NewInt(0).Neg(big.NewInt(0).SetUint64(1 << 63))
)

// incInRange says whether IncrementAccum(k) stays inside int64 (the code has
// "TODO: mind overflow"; overflow is outside the property's quantifier).  Only
// the ≈2^60 vector can get near the limit.  Bound used: additions acc+p*k must
// fit; every decrement hits the current maximum, which is at least the mean,
// so no value falls below (S-(k-1)T)/n - T where S is the sum after adding.
func incInRange(vs *types.ValidatorSet, k int64) bool {
	big60 := false
	for _, v := range vs.Validators {
		if v.VotingPower > 1<<40 || v.Accum > 1<<40 || v.Accum < -(1<<40) {
			big60 = true
		}
	}
	if !big60 {
		return true
	}
	S, T := big.NewInt(0), big.NewInt(0)
	for _, v := range vs.Validators {
		x := big.NewInt(0).Mul(big.NewInt(v.VotingPower), big.NewInt(k))
		x.Add(x, big.NewInt(v.Accum))
		if x.Cmp(maxI64) > 0 || x.Cmp(minI64) < 0 {
			return false
		}
		S.Add(S, x)
		T.Add(T, big.NewInt(v.VotingPower))
	}
	if T.Cmp(maxI64) > 0 {
		return false
	}
	lo := big.NewInt(0).Mul(T, big.NewInt(k-1))
	lo.Sub(S, lo)
	lo.Div(lo, big.NewInt(int64(len(vs.Validators))))
	lo.Sub(lo, T)
	lo.Sub(lo, big.NewInt(1))
	return lo.Cmp(minI64) >= 0
}

// apply executes one operation on the real objects.  ok=false: the operation
// is not enabled in this state (it is then not part of any enumerated history).
func (in *inst) apply(o opT) (ok bool) {
	if o.S < 0 || o.S > 1 {
		return false
	}
	vs := in.vs[o.S]
	if vs == nil {
		return false
	}
	switch o.K {
	case "inc":
		if o.A < 1 || !incInRange(vs, int64(o.A)) {
			return false
		}
		vs.IncrementAccum(int64(o.A))
	case "copy":
		in.vs[1-o.S] = vs.Copy()
		m := map[int]int64{}
		for k, v := range in.model[o.S] {
			m[k] = v
		}
		in.model[1-o.S] = m
	case "add":
		if o.A < 0 || o.A >= len(extraPos) || o.P <= 0 {
			return false
		}
		id := extraPos[o.A]
		vs.Add(newVal(id, o.P))
		if _, present := in.model[o.S][id]; !present {
			in.model[o.S][id] = o.P
		}
	case "adddup":
		if o.A < 0 || o.A >= vs.Size() || o.P <= 0 {
			return false
		}
		_, v := vs.GetByIndex(o.A)
		if did := idOfAddr(v.Address); did >= 0 {
			vs.Add(newVal(did, o.P))
		} else {
			vs.Add(types.NewValidator(v.PubKey, o.P, true))
		}
		// model: an address that is already present stays present exactly once
		// (whether its power is kept or replaced is not fixed by the property)
		if _, now := vs.GetByAddress(v.Address); now != nil {
			if id := idOfAddr(v.Address); id >= 0 {
				if _, present := in.model[o.S][id]; present {
					in.model[o.S][id] = now.VotingPower
				}
			}
		}
	case "upd":
		a := o.A
		if a < 0 { // -1 = last member by address
			a += vs.Size()
		}
		if a < 0 || a >= vs.Size() {
			return false
		}
		addr, _ := vs.GetByIndex(a)
		_, val := vs.GetByAddress(addr)
		if val == nil {
			return false
		}
		p := o.P
		if p < 0 {
			p = cyclePower(val.VotingPower, p)
		}
		if p <= 0 || p == val.VotingPower {
			return false
		}
		val.VotingPower = p
		vs.Update(val)
		if id := idOfAddr(addr); id >= 0 {
			in.model[o.S][id] = p
		}
	case "rem":
		a := o.A
		if a < 0 {
			a += vs.Size()
		}
		if a < 0 || a >= vs.Size() || vs.Size() < 2 {
			return false
		}
		addr, _ := vs.GetByIndex(a)
		vs.Remove(addr)
		delete(in.model[o.S], idOfAddr(addr))
	case "rt":
		in.vs[o.S] = roundTrip(vs)
	case "prop":
		vs.Proposer()
	case "hash":
		vs.Hash()
	default:
		return false
	}
	return true
}

// build replays a history on a fresh instance.
func build(pw []int64, hist []opT, variant int) (*inst, bool) {
	in := newInst(pw, variant)
	for _, o := range hist {
		if !in.apply(o) {
			return in, false
		}
	}
	return in, true
}

// ---------------------------------------------------------------- persistence

// roundTrip persists and reloads a validator set exactly as a node does:
// the set sits in state.State.Validators, State.Save() writes
// wire.WriteBinary(state) under "stateKey", state.LoadState(db) reads it back
// with wire.ReadBinaryPtr.  LoadState calls os.Exit on a decoding error, so the
// bytes are decoded once beforehand with the same wire call and a decoding
// error is turned into a panic that the caller reports.
type rtCtx struct {
	db *dbm.MemDB
	st *sm.State
}

var rtPool = sync.Pool{New: func() interface{} {
	db := dbm.NewMemDB()
	gd := &types.GenesisDoc{ChainID: "c16", GenesisTime: time.Unix(1, 0),
		Validators: []types.GenesisValidator{{PubKey: pool[0], Amount: 1}}}
	return &rtCtx{db: db, st: sm.MakeGenesisState(db, gd)}
}}

func roundTrip(vs *types.ValidatorSet) *types.ValidatorSet {
	rc := rtPool.Get().(*rtCtx)
	defer rtPool.Put(rc)
	rc.st.Validators = vs
	b := rc.st.Bytes()
	var probe *sm.State
	n, err := new(int), new(error)
	wire.ReadBinaryPtr(&probe, bytes.NewReader(b), 0, n, err)
	if *err != nil {
		rc.st.Validators = nil
		panic(fmt.Sprintf("persisted state does not decode: %v", *err))
	}
	rc.st.Save()
	rc.st.Validators = nil
	l := sm.LoadState(rc.db)
	if l == nil || l.Validators == nil {
		panic("LoadState returned no validator set")
	}
	return l.Validators
}

// ---------------------------------------------------------------- observations

type mem struct {
	ID   int
	P, A int64
}

// slotObs is everything the property lets one see of a set: member order,
// powers, accums (they decide every later selection), Proposer().Address,
// TotalVotingPower() and Hash().
type slotObs struct {
	Live  bool
	Mem   []mem
	Prop  int // pool id; -1 nil; -9 not a pool address
	Total int64
	Hash  string // only in full observations
}

func readMembers(vs *types.ValidatorSet) []mem {
	ms := make([]mem, len(vs.Validators))
	for i, v := range vs.Validators {
		ms[i] = mem{idOfAddr(v.Address), v.VotingPower, v.Accum}
	}
	return ms
}

// observe is taken at the END of a replay only (Proposer() and
// TotalVotingPower() fill caches); the instance is thrown away afterwards or
// used for checks that are insensitive to that.
func observe(vs *types.ValidatorSet, full bool) slotObs {
	if vs == nil {
		return slotObs{}
	}
	o := slotObs{Live: true, Mem: readMembers(vs), Prop: -1}
	if p := vs.Proposer(); p != nil {
		o.Prop = idOfAddr(p.Address)
	}
	o.Total = vs.TotalVotingPower()
	if full {
		o.Hash = hex.EncodeToString(vs.Hash())
	}
	return o
}

func (in *inst) observeAll(full bool) [2]slotObs {
	return [2]slotObs{observe(in.vs[0], full), observe(in.vs[1], full)}
}

// diffObs names the first component in which two observations differ.
func diffObs(a, b slotObs) string {
	if a.Live != b.Live {
		return "liveness"
	}
	if len(a.Mem) != len(b.Mem) {
		return "members"
	}
	for i := range a.Mem {
		if a.Mem[i].ID != b.Mem[i].ID {
			return "members"
		}
	}
	for i := range a.Mem {
		if a.Mem[i].P != b.Mem[i].P {
			return "powers"
		}
	}
	for i := range a.Mem {
		if a.Mem[i].A != b.Mem[i].A {
			return "accums"
		}
	}
	if a.Total != b.Total {
		return "total"
	}
	if a.Hash != b.Hash {
		return "hash"
	}
	if a.Prop != b.Prop {
		return "proposer"
	}
	return ""
}

func (o slotObs) String() string {
	if !o.Live {
		return "-"
	}
	var b strings.Builder
	for _, m := range o.Mem {
		fmt.Fprintf(&b, "[id%d p%d a%d]", m.ID, m.P, m.A)
	}
	fmt.Fprintf(&b, " proposer=id%d total=%d", o.Prop, o.Total)
	if o.Hash != "" {
		fmt.Fprintf(&b, " hash=%s", o.Hash[:8])
	}
	return b.String()
}

type key [16]byte

func putObs(buf *bytes.Buffer, o slotObs) {
	var t [8]byte
	w := func(x int64) {
		binary.LittleEndian.PutUint64(t[:], uint64(x))
		buf.Write(t[:])
	}
	if !o.Live {
		w(-1)
		return
	}
	w(int64(len(o.Mem)))
	for _, m := range o.Mem {
		w(int64(m.ID))
		w(m.P)
		w(m.A)
	}
	w(int64(o.Prop))
	w(o.Total)
}

// canon is the canonical key of a state (pair of copies).
//
// Why merged states have equal futures (argument for the code as it stands;
// the merge oracle below re-checks it on every merge): a ValidatorSet consists
// of Validators (exported, fully in the key: address, power, accum, order —
// PubKey and IsCA are functions of the address here) and two caches.  The
// totalVotingPower cache is either 0 or the sum; every operation that changes
// a power resets it, so TotalVotingPower() — which is in the key — is all that
// any later operation can see of it.  The proposer cache is nil or a pointer;
// Proposer().Address — in the key — is what it yields now, IncrementAccum
// overwrites it from accums/powers alone, Add/Update/Remove reset it, the
// persistence round trip drops it (the result is then recomputed from the
// accums, which are in the key), Copy hands the pointer on, and no operation
// that leaves the cache alone changes an accum of this set, so cached and
// recomputed answers cannot drift apart after the merge point in a way that
// differs between two merged states.  Hash() is a function of Validators only.
// Two states with the same key therefore answer every later operation
// sequence identically in all observed components.
func canon(obs [2]slotObs) key {
	var buf bytes.Buffer
	putObs(&buf, obs[0])
	putObs(&buf, obs[1])
	h := sha256.Sum256(buf.Bytes())
	var k key
	copy(k[:], h[:16])
	return k
}

// ---------------------------------------------------------------- concrete-state fingerprint

// hiddenFP describes the part of the concrete state that canon() leaves out:
// the two unexported cache fields of each copy, with pointers named by what
// they point to.  It is used ONLY to avoid repeating the merge oracle for a
// history whose complete concrete state (key + fingerprint) equals one whose
// futures were compared already — the code being deterministic, the result
// would be the same.  If ValidatorSet no longer has exactly the fields
// {Validators, proposer *Validator, totalVotingPower int64} the fingerprint is
// unavailable and the merge oracle runs on every merge.
var (
	hiddenOK          bool
	fProposer, fTotal int
)

func initHidden() {
	t := reflect.TypeOf(types.ValidatorSet{})
	if t.NumField() != 3 {
		return
	}
	f0, ok0 := t.FieldByName("Validators")
	f1, ok1 := t.FieldByName("proposer")
	f2, ok2 := t.FieldByName("totalVotingPower")
	hiddenOK = ok0 && ok1 && ok2 &&
		f0.Type == reflect.TypeOf([]*types.Validator(nil)) &&
		f1.Type == reflect.TypeOf((*types.Validator)(nil)) &&
		f2.Type.Kind() == reflect.Int64
	if hiddenOK {
		fProposer, fTotal = f1.Index[0], f2.Index[0]
	}
}

// symCanon is canon() modulo exchanging the two copies.  Exchanging is a
// symmetry of the whole system: the alphabet addresses both copies alike
// (every operation on copy 0 exists on copy 1, Copy exists in both
// directions) and every oracle treats the copies alike, so a state and its
// mirror image have mirrored futures and only one of them is expanded.
// swapped reports that the mirror image gave the smaller key.
func symCanon(obs [2]slotObs) (k key, swapped bool) {
	k = canon(obs)
	if !obs[1].Live {
		return k, false
	}
	k2 := canon([2]slotObs{obs[1], obs[0]})
	if bytes.Compare(k2[:], k[:]) < 0 {
		return k2, true
	}
	return k, false
}

// fpParts: fingerprint of copy 0, of copy 1, and whether both proposer
// caches hold the same pointer.  Cross references are relative (same copy /
// other copy), so exchanging the parts describes the state with the copies
// exchanged.
type fpParts [3]string

func (f fpParts) compose(swapped bool) string {
	if swapped {
		return f[1] + "|" + f[0] + "|" + f[2]
	}
	return f[0] + "|" + f[1] + "|" + f[2]
}

func hiddenFP(in *inst) (out fpParts) {
	if !hiddenOK {
		return
	}
	var pps [2]uintptr
	for u := 0; u < 2; u++ {
		vs := in.vs[u]
		if vs == nil {
			out[u] = "-"
			continue
		}
		rv := reflect.ValueOf(vs).Elem()
		pf := rv.Field(fProposer)
		tv := rv.Field(fTotal).Int()
		b := make([]byte, 0, 48)
		b = append(b, 't')
		b = strconv.AppendInt(b, tv, 10)
		if pf.IsNil() {
			out[u] = string(append(b, "nil"...))
			continue
		}
		pp := pf.Pointer()
		pps[u] = pp
		found := false
		for w := 0; w < 2 && !found; w++ {
			if in.vs[w] == nil {
				continue
			}
			for i, v := range in.vs[w].Validators {
				if uintptr(unsafe.Pointer(v)) == pp {
					b = append(b, 's', byte('0'+(w-u+2)%2), ':')
					b = strconv.AppendInt(b, int64(i), 10)
					found = true
					break
				}
			}
		}
		if !found {
			x := (*types.Validator)(pf.UnsafePointer())
			b = append(b, "det"...)
			b = strconv.AppendInt(b, int64(idOfAddr(x.Address)), 10)
			b = append(b, ',')
			b = strconv.AppendInt(b, x.VotingPower, 10)
			b = append(b, ',')
			b = strconv.AppendInt(b, x.Accum, 10)
		}
		out[u] = string(b)
	}
	if pps[0] != 0 && pps[0] == pps[1] {
		out[2] = "eq"
	}
	return
}

// ---------------------------------------------------------------- history algebra

// lineage returns the operations that the final content of copy u descends
// from, re-addressed to copy 0 and with the Copy operations themselves removed
// (a Copy must hand over an observationally identical, independent set).
func lineage(hist []opT, u int) []opT {
	cur := u
	var rev []opT
	for i := len(hist) - 1; i >= 0; i-- {
		o := hist[i]
		if o.K == "copy" {
			if 1-o.S == cur {
				cur = o.S
			}
			continue
		}
		if o.S == cur {
			o.S = 0
			rev = append(rev, o)
		}
	}
	for i, j := 0, len(rev)-1; i < j; i, j = i+1, j-1 {
		rev[i], rev[j] = rev[j], rev[i]
	}
	return rev
}

func hasKind(hist []opT, k string) bool {
	for _, o := range hist {
		if o.K == k {
			return true
		}
	}
	return false
}

func without(hist []opT, k string) []opT {
	var out []opT
	for _, o := range hist {
		if o.K != k {
			out = append(out, o)
		}
	}
	return out
}

// historyClass classifies the lineage of one copy for the fairness verdict
// (DESIGN §6.2) by the strongest reason it gives for accums to be off the
// periodic orbit: a Remove or Update (accum sum no longer zero / powers changed
// under existing accums), else a batched increment (see R2), else an Add (new
// member enters with accum 0, sum stays zero), else nothing.
func historyClass(lin []opT) string {
	remupd, batched, add := false, false, false
	for _, o := range lin {
		switch o.K {
		case "upd", "rem":
			remupd = true
		case "add", "adddup":
			add = true
		case "inc":
			if o.A > 1 {
				batched = true
			}
		}
	}
	switch {
	case remupd:
		return "after-remove-or-update"
	case batched:
		return "after-batched-increment"
	case add:
		return "after-add-only"
	}
	return "no-mutation-single-increments"
}

func lastKind(lin []opT) string {
	if len(lin) == 0 {
		return "NewValidatorSet"
	}
	switch lin[len(lin)-1].K {
	case "inc":
		return "IncrementAccum"
	case "add", "adddup":
		return "Add"
	case "upd":
		return "Update"
	case "rem":
		return "Remove"
	case "rt":
		return "SaveLoad"
	case "prop":
		return "Proposer"
	case "hash":
		return "Hash"
	}
	return lin[len(lin)-1].K
}
