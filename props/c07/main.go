// C07 — WAL replay restores the in-progress height after a crash.  CONSNET with
// crash rules as the primary dimension (DESIGN §5 C07): every durable write of
// every honest node in several base executions is a crash point; the node is
// rebuilt from its files through the real Start() (marker search, catchupReplay).
package main

import (
	"fmt"
	"os"
	"strconv"
	"strings"
	"time"

	"verif/consnet"
	"verif/core"
)

type base struct {
	name string
	sc   consnet.Scenario
}

func bases(quick bool) []base {
	b := []base{
		{"happy", consnet.Scenario{Powers: []int64{1, 1, 1, 1}, Byz: -1, Heights: 2}},
		{"silent-proposer-two-rounds", consnet.Scenario{Powers: []int64{1, 1, 1, 1}, Byz: 0, Heights: 2, Rules: []consnet.Rule{{Kind: "byz-silent", Msg: "proposal", Round: 0}}}},
		{"lock-in-round-0-commit-later", consnet.Scenario{Powers: []int64{1, 1, 1, 1}, Byz: -1, Heights: 2, Rules: []consnet.Rule{{Kind: "hold", Node: 1, Msg: "proposal", Round: 0}, {Kind: "hold", Node: 3, Msg: "prevote", Round: 0}}}},
	}
	b = append(b, base{"every-honest-vote-needed", consnet.Scenario{Powers: []int64{1, 1, 1, 1}, Byz: 3, Heights: 2, Rules: []consnet.Rule{
		{Kind: "byz-silent", Msg: "prevote", Round: 0}, {Kind: "byz-silent", Msg: "precommit", Round: 0},
		{Kind: "byz-silent", Msg: "prevote", Height: 2, Round: 0}, {Kind: "byz-silent", Msg: "precommit", Height: 2, Round: 0}}}})
	// a height that goes through six undecided rounds with a prevote-wait each (two nodes do not see the
	// proposal, so the prevotes split 2:2): a restart late in that height replays more timeouts than the
	// ticker buffers.  Only node 1 is crashed, at the writes of the last third of its log.
	var many []consnet.Rule
	plain := consnet.Scenario{Powers: []int64{1, 1, 1, 1}, Byz: -1, Heights: 1}
	for r := int64(0); r < 6; r++ {
		p := consnet.ProposerAt(&plain, 1, r)
		held := 0
		for j := 3; j >= 0 && held < 2; j-- {
			if j != p {
				many = append(many, consnet.Rule{Kind: "hold", Node: j, Msg: "proposal", Round: r})
				held++
			}
		}
	}
	// the same lock history on nodes that start their consensus the way a default node does (through the
	// reactor's SwitchToConsensus): node 1 only
	b = append(b, base{"lock-in-round-0-via-switch", consnet.Scenario{Powers: []int64{1, 1, 1, 1}, Byz: -1, Heights: 2, ViaSwitch: true, Rules: []consnet.Rule{{Kind: "hold", Node: 1, Msg: "proposal", Round: 0}, {Kind: "hold", Node: 3, Msg: "prevote", Round: 0}}}})
	b = append(b, base{"six-undecided-rounds", consnet.Scenario{Powers: []int64{1, 1, 1, 1}, Byz: -1, Heights: 1, Rules: many}})
	if !quick {
		b = append(b, base{"split-precommit-two-rounds", consnet.Scenario{Powers: []int64{1, 1, 1, 1}, Byz: 0, Heights: 2, Rules: []consnet.Rule{{Kind: "byz-split", Msg: "precommit", Round: 0, Set: []int{2}, Alt: "nil"}, {Kind: "hold", Node: 1, Msg: "prevote", Round: 0}}}})
	}
	return b
}

func main() {
	if consnet.IsWorker() {
		consnet.WorkerMain(os.Getenv("VERIF_WORKER_DIR"), consnet.RunC07)
		return
	}
	run := core.Start("C07", "fault_enumeration", "CONSNET")
	focus := map[string]bool{"C07": true, "C03": true, "C01": true, "C12": true, "C04": true}
	if run.ReplayPath != "" {
		var sc consnet.Scenario
		if err := run.ReplayCase(&sc); err != nil {
			core.Fatal("replay: %v", err)
		}
		res := consnet.RunC07(&sc, run.WorkDir()+"/replay")
		for _, l := range res.Trace {
			fmt.Println("  ", l)
		}
		for _, v := range res.Viols {
			if focus[v.Prop] {
				v.Sig["prop"] = v.Prop
				run.Report(v.Sig, &sc, v.Detail)
			}
		}
		run.Finish(nil, nil)
	}
	bs := bases(run.Quick())
	// phase 1: reference runs give the number of durable writes of each node
	var refs []*consnet.Scenario
	for i := range bs {
		sc := bs[i].sc
		refs = append(refs, &sc)
	}
	writes := map[int]map[int]int{}
	refSteps := map[int]int{}
	base := run.WorkDir() + "/pool"
	for i, sc := range refs {
		sc.ID = i
	}
	err := consnet.RunPool(refs, consnet.PoolOpts{WorkBase: base}, func(o consnet.CaseOutcome) {
		if o.Res == nil {
			core.Fatal("reference run of base %q failed: %s %s", bs[o.Sc.ID].name, o.PanicLine, o.Stderr)
		}
		if len(o.Res.Viols) > 0 || !o.Res.Done {
			for _, v := range o.Res.Viols {
				if focus[v.Prop] {
					v.Sig["prop"] = v.Prop
					run.Report(v.Sig, o.Sc, "in the crash-free base run: "+v.Detail)
				}
			}
		}
		refSteps[o.Sc.ID] = o.Res.Steps
		writes[o.Sc.ID] = map[int]int{}
		for _, kv := range strings.Split(o.Res.Extra["writes"], ",") {
			p := strings.Split(kv, "=")
			if len(p) == 2 {
				n, _ := strconv.Atoi(p[0])
				w, _ := strconv.Atoi(p[1])
				writes[o.Sc.ID][n] = w
			}
		}
	})
	if err != nil {
		core.Fatal("pool: %v", err)
	}
	// phase 2: every write of every honest node is a crash point
	var scs []*consnet.Scenario
	totalPoints := 0
	for bi, b := range bs {
		for n := 0; n < len(b.sc.Powers); n++ {
			if n == b.sc.Byz {
				continue
			}
			w := writes[bi][n]
			k0 := 1
			if b.name == "six-undecided-rounds" {
				if n != 1 {
					continue
				}
				k0 = w - w/3
			}
			if b.name == "lock-in-round-0-via-switch" && n != 1 && n != 3 {
				continue
			}
			for k := k0; k <= w; k++ {
				delays := []int{0, 1}
				if run.Quick() && k%4 != 0 {
					delays = []int{0}
				}
				for _, d := range delays {
					sc := b.sc
					sc.Rules = append(append([]consnet.Rule{}, b.sc.Rules...), consnet.Rule{Kind: "crash", Node: n, K: k, Delay: d})
					sc.Extra = b.name
					scs = append(scs, &sc)
				}
				totalPoints++
				if !run.Quick() {
					// torn tail: cut 1.. bytes off the last WAL record before the restart
					for _, t := range []int{1, 2, 7, 40, 200} {
						sc := b.sc
						sc.Rules = append(append([]consnet.Rule{}, b.sc.Rules...), consnet.Rule{Kind: "crash", Node: n, K: k, Trunc: t})
						sc.Extra = b.name
						scs = append(scs, &sc)
					}
				}
			}
		}
		// two crashes: the second one at a write of the node's life after the first restart
		if b.name == "six-undecided-rounds" || b.name == "lock-in-round-0-via-switch" {
			continue
		}
		if bi == 0 || !run.Quick() {
			n := 1
			w := writes[bi][n]
			k1step, k2s := 3, []int{4, 10, 16, 22, 28}
			if !run.Quick() {
				k1step = 1
				k2s = nil
				for k := 1; k <= 40; k += 2 {
					k2s = append(k2s, k)
				}
			}
			for k1 := 1; k1 <= w; k1 += k1step {
				for _, k2 := range k2s {
					sc := b.sc
					sc.Rules = append(append([]consnet.Rule{}, b.sc.Rules...), consnet.Rule{Kind: "crash", Node: n, K: k1}, consnet.Rule{Kind: "crash2", Node: n, K: k2})
					sc.Extra = b.name + "+second-crash"
					scs = append(scs, &sc)
				}
			}
		}
		// WAL rotation at a record boundary, then crash points after it
		rot := []int{3, 9}
		if !run.Quick() {
			rot = nil
			for k := 1; k <= 30; k++ {
				rot = append(rot, k)
			}
		}
		for _, rk := range rot {
			n := 1
			w := writes[bi][n]
			stepK := 1
			if run.Quick() {
				stepK = 5
			}
			for k := 1; k <= w; k += stepK {
				sc := b.sc
				sc.Rules = append(append([]consnet.Rule{}, b.sc.Rules...), consnet.Rule{Kind: "rotate", Node: n, K: rk}, consnet.Rule{Kind: "crash", Node: n, K: k})
				sc.Extra = b.name + "+rotate"
				scs = append(scs, &sc)
			}
		}
	}
	compared, uncompared := 0, 0
	budget := 600 * time.Second // a safety net: the quick list completes in 1-3 minutes unless the machine is heavily loaded
	if !run.Quick() {
		budget = 13 * time.Minute
	}
	scs = consnet.Interleave(scs)
	sum := consnet.RunCampaign(run, scs, consnet.CampaignOpts{Focus: focus, DeathProp: "C07", Budget: budget, OnResult: func(sc *consnet.Scenario, r *consnet.Result) {
		c, _ := strconv.Atoi(r.Extra["compared"])
		u, _ := strconv.Atoi(r.Extra["uncompared"])
		compared += c
		uncompared += u
	}})
	cov := sum.Coverage("for each base execution (happy / silent proposer with a round change / lock in round 0 and commit later [/ Byzantine split precommit]) and each honest node: a crash (death of that node's goroutine, files and DBs kept) immediately before EVERY durable write it issues during the run (WAL record, signer-file step, block-store and state-DB write), restart through the real Start() either at once or after the others went on; plus WAL rotation at a record boundary followed by each crash point; thorough adds a torn WAL tail (1,2,7,40,200 bytes cut) at every crash point. Oracles: no panic, round state after replay == reference state after the last completely logged input, no contradicting signature, all nodes finish 2 heights with equal blocks. distinct = distinct outcomes",
		map[string]interface{}{"bases": len(bs), "crash_points": totalPoints, "heights": 2})
	cov["replay_states_compared"] = compared
	cov["replay_states_without_reference"] = uncompared
	cov["base_steps"] = refSteps
	run.Finish(cov, []string{"crash model: process death between system calls; completed writes are durable, none is torn (DESIGN §6.4) except the explicitly torn WAL tail of the thorough tier",
		"default (non-light) WAL mode", "the reference for replay equivalence is the same execution without the crash (deterministic schedule)"})
}
