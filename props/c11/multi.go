// C11 (b) continued — (1) proofs handed out by StateDB.GetProof /
// GetStorageProof; (2) several StateDBs over ONE state.Database: a state
// opened at a committed root reproduces exactly the content committed at that
// root, whatever other holders of a state at that root (or the StateDB that
// committed it) do afterwards.
package main

import (
	"bytes"
	"crypto/sha256"
	"fmt"
	"strings"

	ucrypto "github.com/ethereum/go-ethereum/crypto"

	"verif/core"
)

// ------------------------------------------------------------------ proofs

type sdbProofs struct {
	acct [nAddr][][]byte
	aerr [nAddr]error
	stor [nAddr][nSlot][][]byte
	serr [nAddr][nSlot]error
}

// takeProofs asks for every proof first (one per address, one per slot of
// every live account) and keeps what the calls returned; verification happens
// afterwards, on the slices as the caller holds them then.
func takeProofs(x *sdbInst, live *[nAddr]bool) *sdbProofs {
	p := &sdbProofs{}
	for a := 0; a < nAddr; a++ {
		p.acct[a], p.aerr[a] = x.proof(a)
	}
	for a := 0; a < nAddr; a++ {
		if !live[a] {
			continue
		}
		for s := 0; s < nSlot; s++ {
			p.stor[a][s], p.serr[a][s] = x.sproof(a, s)
		}
	}
	return p
}

func proofOfNodes(nodes [][]byte) *proofMap {
	pm := newProofMap()
	for _, n := range nodes {
		pm.Put(ucrypto.Keccak256(n), n)
	}
	return pm
}

func sameNodeList(a, b [][]byte) bool {
	if len(a) != len(b) {
		return false
	}
	for i := range a {
		if !bytes.Equal(a[i], b[i]) {
			return false
		}
	}
	return true
}

// checkSDBProofs: m = the model right after a root computation (content =
// finalised content), root = the root the in-tree StateDB returned (already
// known to be the root of that content).  Every account proof must verify
// against root (in-tree and reference verifier) and yield the account's RLP or
// its absence; every storage proof must verify against the storage root found
// in that account and yield the slot's RLP or its absence; where the reference
// StateDB is a witness (upOK) its proofs must be the same node lists.  A trie
// without entries has no node to prove anything with: nothing is demanded there.
// nProofs counts the proofs judged, nDeep those made of at least two nodes.
func checkSDBProofs(in, up *sdbInst, m *sModel, root [32]byte, upOK bool, bad func(kind, getter, format string, a ...interface{})) (nProofs, nDeep int) {
	rc := m.refContent()
	ip := takeProofs(in, &m.cur.Live)
	var upP *sdbProofs
	if upOK {
		upP = takeProofs(up, &m.cur.Live)
	}
	judge := func(getter, what string, nodes [][]byte, err error, unodes [][]byte, root [32]byte, path, want []byte) {
		nProofs++
		if len(nodes) >= 2 {
			nDeep++
		}
		if err != nil {
			bad("proof-error", getter, "%s returned %v", what, err)
			return
		}
		pm := proofOfNodes(nodes)
		v1, e1 := verifyIn(root, path, pm)
		v2, e2 := verifyUp(root, path, pm)
		switch {
		case e1 != nil:
			bad("proof-rejected", getter, "%s: proof of %d nodes does not verify against root %x: %v", what, len(nodes), root[:6], e1)
		case !bytes.Equal(v1, want):
			bad("proof-wrong-value", getter, "%s: proof yields %s, content has %s", what, short(v1), short(want))
		case e2 != nil || !bytes.Equal(v2, want):
			bad("proof-rejected-by-reference-verifier", getter, "%s: reference VerifyProof gives %s, %v; content has %s", what, short(v2), e2, short(want))
		case upP != nil && !sameNodeList(nodes, unodes):
			bad("proof-differs-from-reference", getter, "%s: %d proof nodes, the reference StateDB driven by the same history returns %d (or a node differs)", what, len(nodes), len(unodes))
		}
	}
	anyLive := false
	for a := 0; a < nAddr; a++ {
		anyLive = anyLive || m.cur.Live[a]
	}
	for a := 0; a < nAddr && anyLive; a++ {
		var un [][]byte
		if upP != nil {
			un = upP.acct[a]
		}
		judge("GetProof", fmt.Sprintf("GetProof(a%d)", a), ip.acct[a], ip.aerr[a], un, root, ucrypto.Keccak256(sdbAddrs[a][:]), rc.acct[a])
	}
	for a := 0; a < nAddr; a++ {
		if !m.cur.Live[a] {
			continue
		}
		anySlot := false
		for s := 0; s < nSlot; s++ {
			anySlot = anySlot || rc.slot[a][s] != nil
		}
		for s := 0; s < nSlot && anySlot; s++ {
			var un [][]byte
			if upP != nil {
				un = upP.stor[a][s]
			}
			judge("GetStorageProof", fmt.Sprintf("GetStorageProof(a%d,s%d)", a, s), ip.stor[a][s], ip.serr[a][s], un, rc.sroot[a], ucrypto.Keccak256(sdbSlots[s][:]), rc.slot[a][s])
		}
	}
	return
}

// ------------------------------------------------------------------ several StateDBs over one Database

// mOp: an op of the StateDB alphabet performed on handle H (Open: H unused).
type mOp struct {
	H int `json:"h"`
	sOp
}

func (o mOp) String() string {
	if o.Op == "Open" {
		return "Open"
	}
	return fmt.Sprintf("h%d.%s", o.H, o.sOp.String())
}

func mHistString(ops []mOp) string {
	var p []string
	for _, o := range ops {
		p = append(p, o.String())
	}
	return strings.Join(p, " ")
}

// multiAlphabet: Open (one more StateDB at the root of the last Commit, from the
// same state.Database) and, per handle: per address AddBalance(5),
// SetState(slot 0, 7|0), Suicide, Read (Exist/GetBalance/GetNonce/GetState);
// IntermediateRoot, Commit (the handle keeps being used), Commit + state.New
// at the committed root (same Database; replaces the handle).
func multiAlphabet(maxHandles int) []mOp {
	a := []mOp{{0, sOp{"Open", 0, 0, 0}}}
	for h := 0; h < maxHandles; h++ {
		for ad := 0; ad < nAddr; ad++ {
			a = append(a, mOp{h, sOp{"AddBalance", ad, addAmt, 0}}, mOp{h, sOp{"SetState", ad, 0, 1}}, mOp{h, sOp{"SetState", ad, 0, 0}},
				mOp{h, sOp{"Suicide", ad, 0, 0}}, mOp{h, sOp{"Read", ad, 0, 0}})
		}
		a = append(a, mOp{h, sOp{"IntermediateRoot", 0, 0, 0}}, mOp{h, sOp{"Commit", 0, 0, 0}}, mOp{h, sOp{"CommitReopen", 0, 1, 0}})
	}
	return a
}

// hModel: one stack-of-copies model per handle (they are independent: that is
// the property) + the content of the last Commit (what Open must reproduce).
type hModel struct {
	max      int
	hs       []*sModel
	loaded   [][nAddr]bool // per handle: a call addressed the (live) account on this StateDB instance since it was opened
	commLive [nAddr]bool
	commA    [nAddr]mAcct
}

func newHModel(maxHandles int) *hModel {
	return &hModel{max: maxHandles, hs: []*sModel{{}}, loaded: [][nAddr]bool{{}}}
}

func (m *hModel) enabled(o mOp) bool {
	if o.Op == "Open" {
		return len(m.hs) < m.max
	}
	return o.H < len(m.hs) && m.hs[o.H].enabled(o.sOp)
}

// atCommitted: number of handles whose finalised content is the content of the
// last Commit (the handles that may hold the very trie other opens are served from).
func (m *hModel) atCommitted() int {
	n := 0
	for _, h := range m.hs {
		if h.cur.BaseLive == m.commLive && h.cur.Base == m.commA {
			n++
		}
	}
	return n
}

func (m *hModel) setCommitted(h *sModel) {
	m.commLive, m.commA = h.cur.Live, h.cur.A
}

func (m *hModel) apply(o mOp) string {
	switch o.Op {
	case "Open":
		eff := fmt.Sprintf("handles=%d/at-that-root=%d", len(m.hs), m.atCommitted())
		h := &sModel{}
		h.cur.Live, h.cur.A = m.commLive, m.commA
		h.cur.BaseLive, h.cur.Base = m.commLive, m.commA
		m.hs = append(m.hs, h)
		m.loaded = append(m.loaded, [nAddr]bool{})
		return eff
	case "Read":
		live := m.hs[o.H].cur.Live[o.A]
		was := m.loaded[o.H][o.A]
		m.loaded[o.H][o.A] = was || live
		return fmt.Sprintf("live=%v/loaded=%v", live, was)
	case "Commit":
		h := m.hs[o.H]
		others := m.atCommitted()
		d := h.finalise()
		h.cur.IR = true
		m.setCommitted(h)
		return fmt.Sprintf("deleted=%d/handles=%d/at-old-root=%d", d, len(m.hs), others)
	case "CommitReopen":
		h := m.hs[o.H]
		eff := h.apply(o.sOp)
		m.setCommitted(h)
		m.loaded[o.H] = [nAddr]bool{}
		return eff + fmt.Sprintf("/handles=%d", len(m.hs))
	case "IntermediateRoot":
		return m.hs[o.H].apply(o.sOp) + fmt.Sprintf("/handles=%d/at-committed=%d", len(m.hs), m.atCommitted())
	}
	eff := m.hs[o.H].apply(o.sOp)
	m.loaded[o.H][o.A] = m.loaded[o.H][o.A] || m.hs[o.H].cur.Live[o.A]
	return eff
}

func (m *hModel) key() skey {
	var b bytes.Buffer
	for i, h := range m.hs {
		k := h.key()
		b.Write(k[:])
		f := byte(0)
		for a := 0; a < nAddr; a++ {
			if m.loaded[i][a] {
				f |= 1 << uint(a)
			}
		}
		b.WriteByte(f)
	}
	b.WriteByte(0xfd)
	encAccts(&b, &m.commLive, &m.commA)
	h := sha256.Sum256(b.Bytes())
	var k skey
	copy(k[:], h[:])
	return k
}

func multiPrefix(prefix []sOp) []mOp {
	var out []mOp
	for _, o := range prefix {
		out = append(out, mOp{0, o})
	}
	return out
}

type multiRes struct {
	key                skey
	class              string
	hasRoot            bool
	ckey               string
	root               [32]byte
	handles            int
	viols              []viol
	proofs, deepProofs int
}

func (r *multiRes) digest() string { return core.Hash(r.key, r.root, r.class, len(r.viols)) }

// runMulti executes one history on a fresh in-tree state.Database and a fresh
// reference one.  After the last op EVERY handle is read through all getters
// and judged against its own model (and against the reference handle); a root
// computed by the last op is judged against the content of the handle that
// computed it.
func runMulti(maxHandles int, ops []mOp) (res multiRes) {
	m := newHModel(maxHandles)
	last := mOp{0, sOp{Op: "none"}}
	if len(ops) > 0 {
		last = ops[len(ops)-1]
	}
	bad := func(kind, getter, format string, a ...interface{}) {
		sig := map[string]string{"part": "statedb-handles", "kind": kind, "op": last.Op}
		if getter != "" {
			sig["getter"] = getter
		}
		res.viols = append(res.viols, viol{sig: sig, detail: fmt.Sprintf("[statedb-handles] after %q: ", mHistString(ops)) + fmt.Sprintf(format, a...)})
	}
	panicked, pv, stack := core.Try(func() {
		in, up := newInSDB(), newUpSDB()
		var ids []int // no snapshots in this family
		for i, o := range ops {
			isLast := i == len(ops)-1
			if !m.enabled(o) {
				core.Fatal("history %q contains a disabled op", mHistString(ops))
			}
			eff := m.apply(o)
			if isLast {
				res.class = o.Op + "|" + eff
			}
			if o.Op != "Open" {
				in.sel(o.H)
				up.sel(o.H)
			}
			r1, has, e1 := in.apply(o.sOp, &ids)
			r2, _, e2 := up.apply(o.sOp, &ids)
			if e2 != nil {
				core.Fatal("reference StateDB failed on %q: %v", mHistString(ops[:i+1]), e2)
			}
			if e1 != nil {
				if isLast {
					bad("reopen-error", "", "%v", e1)
				}
				return
			}
			if isLast && has {
				hm := m.hs[o.H]
				res.hasRoot, res.root, res.ckey = true, r1, hm.contentKey()
				rr := hm.refRoot()
				if r2 == rr && r1 != r2 {
					bad("root-differs-from-reference", "", "h%d.%s root %x, reference StateDB driven by the same history %x", o.H, o.Op, r1[:6], r2[:6])
				}
				if r1 != rr {
					bad("root-not-function-of-content", "", "h%d.%s root %x, root of that handle's account/storage content built directly with the reference trie %x (reference StateDB: %x)", o.H, o.Op, r1[:6], rr[:6], r2[:6])
				} else {
					res.proofs, res.deepProofs = checkSDBProofs(in, up, hm, r1, r2 == rr, bad)
				}
			}
		}
		res.handles = len(m.hs)
		// the handle the last op worked on is read last
		order := make([]int, 0, len(m.hs))
		for h := range m.hs {
			if h != last.H || last.Op == "Open" {
				order = append(order, h)
			}
		}
		if last.Op != "Open" && len(ops) > 0 {
			order = append(order, last.H)
		}
		for _, h := range order {
			in.sel(h)
			up.sel(h)
			got, ref, want := in.obs(), up.obs(), m.hs[h].obs()
			who := "another handle than the one the last op worked on"
			if h == last.H && last.Op != "Open" {
				who = "the handle the last op worked on"
			}
			rg, _ := ref.diff(want)
			if g, d := got.diff(want); g != "" {
				bad("handle-content-differs", g, "handle h%d (%s): in-tree vs that handle's own content: %s (reference StateDB agrees with the content: %v)", h, who, d, rg == "")
			} else if rg == "" {
				if g, d := got.diff(ref); g != "" {
					bad("getter-differs-from-reference", g, "handle h%d (%s): in-tree vs reference StateDB: %s", h, who, d)
				}
			}
		}
	})
	if panicked {
		site := core.PanicSite(stack)
		if site == "unknown" {
			core.Fatal("panic outside the code under test in history %q: %v\n%s", mHistString(ops), pv, stack)
		}
		res.viols = append(res.viols, viol{
			sig:    map[string]string{"part": "statedb-handles", "kind": "panic", "op": last.Op, "site": site},
			detail: fmt.Sprintf("[statedb-handles] after %q: panic in %s: %s", mHistString(ops), site, core.FirstLine(pv)),
		})
	}
	res.key = m.key()
	if len(ops) == 0 {
		res.class = "initial|"
	}
	return
}

// multiModelAfter replays a history on the model only.
func multiModelAfter(maxHandles int, ops []mOp) *hModel {
	m := newHModel(maxHandles)
	for _, o := range ops {
		if !m.enabled(o) {
			core.Fatal("history %q contains a disabled op", mHistString(ops))
		}
		m.apply(o)
	}
	return m
}

type multiStats struct {
	partStats
	Handles        int `json:"max_handles"`
	OpensAtShared  int `json:"opens_at_a_root_another_live_handle_is_at"`
	ReadsOfOthers  int `json:"executions_reading_a_handle_after_another_handle_computed_a_root"`
	ThreeHandleExe int `json:"executions_with_three_handles"`
}

// exploreMulti: the same BFS as exploreSDB over the handle alphabet.
func (c *ctx) exploreMulti(prefix []sOp, depth, maxHandles int, sh *sdbShared) multiStats {
	alpha := multiAlphabet(maxHandles)
	st := multiStats{partStats: partStats{Alphabet: len(alpha)}, Handles: maxHandles}
	visited := map[skey]bool{}
	pre := multiPrefix(prefix)
	opsOf := func(hist []uint8, extra int) []mOp {
		ops := make([]mOp, 0, len(pre)+len(hist)+1)
		ops = append(ops, pre...)
		for _, i := range hist {
			ops = append(ops, alpha[i])
		}
		if extra >= 0 {
			ops = append(ops, alpha[extra])
		}
		return ops
	}
	absorb := func(ops []mOp, r *multiRes) bool {
		st.Transitions++
		k := kase{Part: "statedb-handles", History: mHistString(ops), MOps: ops, MaxHandles: maxHandles}
		sh.proofs, sh.deepProofs = sh.proofs+r.proofs, sh.deepProofs+r.deepProofs
		if len(r.viols) > 0 {
			c.report(k, r.viols)
		}
		c.sample(k)
		c.classes.Add("statedb-handles:" + r.class)
		c.coarse.Add("statedb-handles:" + strings.SplitN(r.class, "|", 2)[0])
		if len(ops) > 0 {
			l := ops[len(ops)-1]
			if l.Op == "Open" && !strings.HasSuffix(r.class, "at-that-root=0") {
				st.OpensAtShared++
			}
			if (l.Op == "IntermediateRoot" || l.Op == "Commit" || l.Op == "CommitReopen") && r.handles > 1 {
				st.ReadsOfOthers++
			}
		}
		if r.handles >= 3 {
			st.ThreeHandleExe++
		}
		if r.hasRoot {
			// merge oracle shared with the single-StateDB explorations
			if prev, ok := sh.rootOf[r.ckey]; ok {
				if prev != r.root {
					k.OtherSOps = sh.rootHist[r.ckey]
					c.run.Report(map[string]string{"part": "statedb-handles", "kind": "merge-root-differs", "op": ops[len(ops)-1].Op}, k,
						fmt.Sprintf("[statedb-handles] histories %q and %q end in the same content but have roots %x and %x", sHistString(sh.rootHist[r.ckey]), mHistString(ops), prev[:6], r.root[:6]))
				}
			}
			sh.roots[r.root] = true
		}
		if visited[r.key] {
			st.Merges++
			return false
		}
		visited[r.key] = true
		st.States++
		return true
	}
	r0 := runMulti(maxHandles, opsOf(nil, -1))
	absorb(opsOf(nil, -1), &r0)
	frontier := [][]uint8{{}}
	st.PerLevel = append(st.PerLevel, 1)
	const chunk = 1024
	type task struct{ node, op int }
	for level := 1; level <= depth; level++ {
		var next [][]uint8
		newStates := 0
		for lo := 0; lo < len(frontier); lo += chunk {
			hi := lo + chunk
			if hi > len(frontier) {
				hi = len(frontier)
			}
			perNode := make([][]int, hi-lo)
			core.Par(hi-lo, func(i int) {
				m := multiModelAfter(maxHandles, opsOf(frontier[lo+i], -1))
				for oi, o := range alpha {
					if m.enabled(o) {
						perNode[i] = append(perNode[i], oi)
					}
				}
			})
			var tasks []task
			for i, ops := range perNode {
				for _, oi := range ops {
					tasks = append(tasks, task{lo + i, oi})
				}
			}
			results := make([]multiRes, len(tasks))
			core.Par(len(tasks), func(i int) {
				results[i] = runMulti(maxHandles, opsOf(frontier[tasks[i].node], tasks[i].op))
			})
			for i := range results {
				hist, op := frontier[tasks[i].node], tasks[i].op
				if absorb(opsOf(hist, op), &results[i]) {
					newStates++
					if level < depth {
						h := make([]uint8, len(hist)+1)
						copy(h, hist)
						h[len(hist)] = uint8(op)
						next = append(next, h)
					}
				}
			}
		}
		st.PerLevel = append(st.PerLevel, newStates)
		st.Depth = level
		frontier = next
	}
	return st
}
