// C11 — State trie and state DB: root is a function of content; commit/revert
// exact.  XSTATE + DIFFREF (DESIGN §5 C11): breadth-first exploration of
// operation histories on the real in-tree eth/trie and eth/core/state, with
// canonical-state deduplication, against (1) plain-Go reference models and (2)
// upstream go-ethereum v1.8.27 linked into the same binary.
//
// A state is identified by the history that reaches it; a successor is
// computed on fresh instances (replay + one more op), so no execution can
// disturb another one.
package main

import (
	"fmt"
	"os"
	"runtime/pprof"
	"strings"
	"time"

	"verif/core"
)

type kase struct {
	Part    string `json:"part"` // trie | securetrie | statedb
	History string `json:"history"`
	Heavy   bool   `json:"full_state_oracle,omitempty"`
	TOps    []tOp  `json:"trie_ops,omitempty"`
	SOps    []sOp  `json:"statedb_ops,omitempty"`
}

type partStats struct {
	States      int            `json:"states"`
	Transitions int            `json:"transitions"`
	Merges      int            `json:"merges"`
	Depth       int            `json:"max_depth_completed"`
	PerLevel    []int          `json:"new_states_per_depth"`
	Roots       int            `json:"distinct_roots"`
	Alphabet    int            `json:"alphabet"`
	Classes     map[string]int `json:"-"`
}

type ctx struct {
	run     *core.Run
	samples *core.Sampler
	classes *core.Counter // full outcome classes (part|op|mode|effect)
	coarse  *core.Counter // histogram written to the evidence
	nth     int
}

func (c *ctx) report(k kase, vs []viol) {
	for _, v := range vs {
		c.run.Report(v.sig, k, v.detail)
	}
}

func (c *ctx) sample(k kase) {
	c.nth++
	if c.nth%50021 == 1 {
		c.samples.Add(k)
	}
}

// ------------------------------------------------------------------ trie BFS

func tOpsOf(d *trieDriver, hist []uint8, extra int) []tOp {
	ops := make([]tOp, 0, len(hist)+1)
	for _, i := range hist {
		ops = append(ops, d.alpha[i])
	}
	if extra >= 0 {
		ops = append(ops, d.alpha[extra])
	}
	return ops
}

func coarseTrieClass(part, class string) string {
	p := strings.Split(class, "|")
	if len(p) == 3 {
		return part + ":" + p[0] + "/" + p[2]
	}
	return part + ":" + class
}

type tNode struct {
	hist []uint8
	key  uint32
}

func (c *ctx) exploreTrie(d *trieDriver, depth int) partStats {
	st := partStats{Alphabet: len(d.alpha)}
	visited := map[uint32]bool{}
	rootOf := map[uint32][32]byte{} // merge oracle: content -> root of the first history that reached it
	rootHist := map[uint32][]tOp{}
	roots := map[[32]byte]bool{}

	absorb := func(hist []uint8, op int, heavy bool, r *trieRes) {
		st.Transitions++
		c.nth++
		mk := func() kase {
			ops := tOpsOf(d, hist, op)
			return kase{Part: d.part, History: histString(ops), TOps: ops, Heavy: heavy}
		}
		if len(r.viols) > 0 {
			c.report(mk(), r.viols)
		}
		if c.nth%50021 == 1 {
			c.samples.Add(mk())
		}
		c.classes.Add(d.part + ":" + r.class)
		c.coarse.Add(coarseTrieClass(d.part, r.class))
		if r.root != ([32]byte{}) {
			if prev, ok := rootOf[r.ckey]; ok {
				if prev != r.root {
					k := mk()
					lk := "none"
					if len(k.TOps) > 0 {
						lk = k.TOps[len(k.TOps)-1].Op
					}
					c.run.Report(map[string]string{"part": d.part, "kind": "merge-root-differs", "op": lk}, k,
						fmt.Sprintf("[%s] histories %q and %q end in the same content but have roots %x and %x", d.part, histString(rootHist[r.ckey]), k.History, prev[:6], r.root[:6]))
				}
			} else {
				rootOf[r.ckey] = r.root
				rootHist[r.ckey] = tOpsOf(d, hist, op)
			}
			roots[r.root] = true
		}
		if heavy {
			st.States++
		} else {
			st.Merges++
		}
	}

	k0 := (&tState{content: make([]int, len(d.keys))}).key()
	r0 := d.run(nil, true)
	visited[k0] = true
	absorb(nil, -1, true, &r0)
	frontier := []tNode{{nil, k0}}
	st.PerLevel = append(st.PerLevel, 1)
	na := len(d.alpha)
	const chunk = 2048
	for level := 1; level <= depth; level++ {
		var next []tNode
		newStates := 0
		for lo := 0; lo < len(frontier); lo += chunk {
			hi := lo + chunk
			if hi > len(frontier) {
				hi = len(frontier)
			}
			n := (hi - lo) * na
			// The successor's canonical key is known from the model alone, so
			// which executions discover a new state is decided here, in
			// enumeration order (deterministic whatever the worker schedule).
			heavy := make([]bool, n)
			for i := 0; i < n; i++ {
				s := stateOfKey(frontier[lo+i/na].key, len(d.keys))
				s.apply(d.alpha[i%na])
				if k := s.key(); !visited[k] {
					visited[k] = true
					heavy[i] = true
					newStates++
					if level < depth {
						hist := frontier[lo+i/na].hist
						h := make([]uint8, len(hist)+1)
						copy(h, hist)
						h[len(hist)] = uint8(i % na)
						next = append(next, tNode{h, k})
					}
				}
			}
			results := make([]trieRes, n)
			core.Par(n, func(i int) {
				results[i] = d.run(tOpsOf(d, frontier[lo+i/na].hist, i%na), heavy[i])
			})
			for i := range results {
				if heavy[i] && results[i].key != 0 && !visited[results[i].key] {
					core.Fatal("model key prediction diverged")
				}
				absorb(frontier[lo+i/na].hist, i%na, heavy[i], &results[i])
			}
		}
		st.PerLevel = append(st.PerLevel, newStates)
		st.Depth = level
		frontier = next
	}
	st.Roots = len(roots)
	return st
}

// ------------------------------------------------------------------ StateDB BFS

func sOpsOf(prefix []sOp, alpha []sOp, hist []uint8, extra int) []sOp {
	ops := make([]sOp, 0, len(prefix)+len(hist)+1)
	ops = append(ops, prefix...)
	for _, i := range hist {
		ops = append(ops, alpha[i])
	}
	if extra >= 0 {
		ops = append(ops, alpha[extra])
	}
	return ops
}

type sdbShared struct {
	rootOf   map[string][32]byte
	rootHist map[string][]sOp
	roots    map[[32]byte]bool
}

func (c *ctx) exploreSDB(start string, prefix []sOp, depth int, sh *sdbShared) partStats {
	alpha := sdbAlphabet(depth)
	st := partStats{Alphabet: len(alpha)}
	visited := map[skey]bool{}

	absorb := func(ops []sOp, r *sdbRes) bool {
		st.Transitions++
		k := kase{Part: "statedb", History: sHistString(ops), SOps: ops}
		if len(r.viols) > 0 {
			c.report(k, r.viols)
		}
		c.sample(k)
		c.classes.Add("statedb:" + r.class)
		c.coarse.Add("statedb:" + strings.SplitN(r.class, "|", 2)[0])
		if r.hasRoot {
			if prev, ok := sh.rootOf[r.ckey]; ok {
				if prev != r.root {
					c.run.Report(map[string]string{"part": "statedb", "kind": "merge-root-differs", "op": ops[len(ops)-1].Op, "input": r.input}, k,
						fmt.Sprintf("[statedb] histories %q and %q end in the same content but have roots %x and %x", sHistString(sh.rootHist[r.ckey]), sHistString(ops), prev[:6], r.root[:6]))
				}
			} else {
				sh.rootOf[r.ckey] = r.root
				sh.rootHist[r.ckey] = ops
			}
			sh.roots[r.root] = true
		}
		if visited[r.key] {
			st.Merges++
			return false
		}
		visited[r.key] = true
		st.States++
		return true
	}

	r0 := runSDB(sOpsOf(prefix, alpha, nil, -1))
	absorb(sOpsOf(prefix, alpha, nil, -1), &r0)
	frontier := [][]uint8{{}}
	st.PerLevel = append(st.PerLevel, 1)
	const chunk = 4096
	type task struct {
		node int
		op   int
	}
	for level := 1; level <= depth; level++ {
		var next [][]uint8
		newStates := 0
		for lo := 0; lo < len(frontier); lo += chunk {
			hi := lo + chunk
			if hi > len(frontier) {
				hi = len(frontier)
			}
			// enabled ops per node come from the model
			perNode := make([][]int, hi-lo)
			core.Par(hi-lo, func(i int) {
				m := modelAfter(sOpsOf(prefix, alpha, frontier[lo+i], -1))
				for oi, o := range alpha {
					if m.enabled(o) {
						perNode[i] = append(perNode[i], oi)
					}
				}
			})
			var tasks []task
			for i, ops := range perNode {
				for _, oi := range ops {
					tasks = append(tasks, task{lo + i, oi})
				}
			}
			results := make([]sdbRes, len(tasks))
			core.Par(len(tasks), func(i int) {
				results[i] = runSDB(sOpsOf(prefix, alpha, frontier[tasks[i].node], tasks[i].op))
			})
			for i := range results {
				hist, op := frontier[tasks[i].node], tasks[i].op
				if absorb(sOpsOf(prefix, alpha, hist, op), &results[i]) {
					newStates++
					if level < depth {
						h := make([]uint8, len(hist)+1)
						copy(h, hist)
						h[len(hist)] = uint8(op)
						next = append(next, h)
					}
				}
			}
		}
		st.PerLevel = append(st.PerLevel, newStates)
		st.Depth = level
		frontier = next
	}
	_ = start
	return st
}

// ------------------------------------------------------------------ self check

// selfCheck: ground rule 2 — the first execution and one further execution of
// every part are run twice and must give identical observation digests.
func selfCheck(tds []*trieDriver) {
	for _, d := range tds {
		for _, h := range [][]tOp{nil, {{"update", 1, 2}, {"update", 0, 1}, {"reopen", 0, 3}, {"delete", 1, 0}}} {
			a, b := d.run(h, true), d.run(h, true)
			if a.digest() != b.digest() {
				core.Fatal("non-deterministic execution of %s history %q", d.part, histString(h))
			}
		}
	}
	for _, h := range [][]sOp{nil, append(append([]sOp{}, seedPrefix...), sOp{"Snapshot", 0, 0, 0}, sOp{"Suicide", 0, 0, 0}, sOp{"Revert", 0, 0, 0}, sOp{"IntermediateRoot", 0, 0, 0})} {
		a, b := runSDB(h), runSDB(h)
		if a.digest() != b.digest() {
			core.Fatal("non-deterministic execution of statedb history %q", sHistString(h))
		}
	}
}

// ------------------------------------------------------------------ main

func main() {
	run := core.Start("C11", "model_checking", "XSTATE+DIFFREF")
	initUniverse()
	c := &ctx{run: run, samples: core.NewSampler(6, run.Seed), classes: core.NewCounter(), coarse: core.NewCounter()}
	plain, secure := newTrieDriver("trie"), newTrieDriver("securetrie")

	if run.ReplayPath != "" {
		var k kase
		if err := run.ReplayCase(&k); err != nil {
			core.Fatal("cannot load replay: %v", err)
		}
		switch k.Part {
		case "trie":
			r := plain.run(k.TOps, k.Heavy)
			c.report(k, r.viols)
		case "securetrie":
			r := secure.run(k.TOps, k.Heavy)
			c.report(k, r.viols)
		case "statedb":
			r := runSDB(k.SOps)
			c.report(k, r.viols)
		default:
			core.Fatal("unknown part %q in replay artefact", k.Part)
		}
		run.Finish(nil, nil)
	}

	selfCheck([]*trieDriver{plain, secure})
	if pf := os.Getenv("VERIF_CPUPROFILE"); pf != "" {
		f, _ := os.Create(pf)
		pprof.StartCPUProfile(f)
		defer pprof.StopCPUProfile()
	}

	trieDepth := run.Pick(5, 7)
	secDepth := run.Pick(5, 7)
	sdbDepth := run.Pick(4, 5)

	t0 := time.Now()
	lap := func(what string, st partStats) {
		if os.Getenv("VERIF_DEBUG") != "" {
			fmt.Fprintf(os.Stderr, "%-16s %8.1fs states=%d transitions=%d merges=%d per-depth=%v\n", what, time.Since(t0).Seconds(), st.States, st.Transitions, st.Merges, st.PerLevel)
		}
		t0 = time.Now()
	}
	stPlain := c.exploreTrie(plain, trieDepth)
	lap("trie", stPlain)
	stSecure := c.exploreTrie(secure, secDepth)
	lap("securetrie", stSecure)
	pprof.StopCPUProfile()
	sh := &sdbShared{rootOf: map[string][32]byte{}, rootHist: map[string][]sOp{}, roots: map[[32]byte]bool{}}
	stEmpty := c.exploreSDB("empty", nil, sdbDepth, sh)
	lap("statedb/empty", stEmpty)
	stSeeded := c.exploreSDB("seeded", seedPrefix, sdbDepth, sh)
	lap("statedb/seeded", stSeeded)
	stEmpty.Roots, stSeeded.Roots = len(sh.roots), len(sh.roots)

	states := stPlain.States + stSecure.States + stEmpty.States + stSeeded.States
	trans := stPlain.Transitions + stSecure.Transitions + stEmpty.Transitions + stSeeded.Transitions
	merges := stPlain.Merges + stSecure.Merges + stEmpty.Merges + stSeeded.Merges

	run.Finish(core.Coverage{
		"states":                        states,
		"transitions":                   trans,
		"traces_validated_against_impl": trans,
		"evaluations":                   trans,
		"merges":                        merges,
		"distinct_nontrivial":           c.classes.Len(),
		"rule": "BFS over operation histories, one execution (fresh in-tree instance + fresh reference instance, replay, one more op, full oracle on the state reached) per (representative history, enabled op). " +
			"Trie / SecureTrie: alphabet = update(k,v) for 3 value sizes (1/31/33 B), delete(k), update(k,empty), get(k), prove(k) for every key, hash, commit, commit+reopen in 3 variants (same node db; after Database.Commit to disk; brand-new Database on the disk db); 8 keys for the plain trie (nibble prefixes 0,1,2,3,4,63 shared; strict nibble-prefix keys incl. the empty key; two 32-byte keys), 6 keys for the secure trie (keccak images sharing 0..3 nibbles); canonical key = content map + residency mode (never committed|committed|reopened×3) × (clean|dirty|hashed). " +
			"StateDB: 2 addresses, alphabet = AddBalance(0|5), SubBalance(5) if affordable, SetNonce, SetCode, SetState(2 slots × {0,7}), Suicide, CreateAccount per address, AddLog, AddRefund, Snapshot, RevertToSnapshot(every live snapshot), IntermediateRoot(true), Commit(true)+state.New in 2 variants (same state.Database; TrieDB().Commit + brand-new state.Database on the disk db), from two start states (empty; seeded = contract with committed storage + funded account, built through the API); canonical key = all getter-observable state of the current revision and of every live snapshot. " +
			"distinct_nontrivial = distinct (part, op, residency mode or model effect) outcome classes observed; a state is distinct by canonical key.",
		"exhaustive": true,
		"bounds": map[string]int{"trie_depth": trieDepth, "securetrie_depth": secDepth, "statedb_depth": sdbDepth,
			"trie_keys": len(plain.keys), "securetrie_keys": len(secure.keys), "value_sizes": len(trieVals) - 1, "addresses": nAddr, "slots": nSlot},
		"trie":            stPlain,
		"securetrie":      stSecure,
		"statedb_empty":   stEmpty,
		"statedb_seeded":  stSeeded,
		"outcome_classes": c.coarse.Map(),
		"samples":         c.samples.List(),
	}, []string{
		"upstream go-ethereum v1.8.27 (trie, core/state, rlp, keccak) is the trusted reference; it is linked into the same binary (build tag nocgo only removes the duplicate libsecp256k1 C symbols, which this check never calls)",
		"collision resistance of keccak256: equal roots are taken to mean equal tries",
		"a proof for a key in an EMPTY trie has no node; the only demand there is that verification yields no value",
		"snapshots are live until the next IntermediateRoot/Commit (Finalise ends the transaction and clears journal and refund — reference semantics); RevertToSnapshot is only issued for live snapshots, SubBalance only when the balance covers it (a negative balance cannot be RLP-encoded by either implementation)",
		"every execution runs on the real in-tree code (traces_validated_against_impl = all transitions); database = in-memory ethdb (MemDatabase), no LevelDB",
	})
}
