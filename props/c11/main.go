// C11 — State trie and state DB: root is a function of content; commit/revert
// exact.  XSTATE + DIFFREF (DESIGN §5 C11): breadth-first exploration of
// operation histories on the real in-tree eth/trie and eth/core/state, with
// canonical-state deduplication, against (1) plain-Go reference models and (2)
// upstream go-ethereum v1.8.27 linked into the same binary.
//
// A state is identified by the history that reaches it; a successor is
// computed on fresh instances (replay + one more op), so no execution can
// disturb another one.
//
// Families: trie.go (one trie), fork.go (a trie and a copy of it, both operated
// on), sweep.go (value sizes swept over the embed/hash boundary), statedb.go.
package main

import (
	"fmt"
	"os"
	"strings"
	"time"

	"verif/core"
)

type kase struct {
	Part    string `json:"part"` // trie | securetrie | statedb | <trie part>-fork | <trie part>-sweep
	History string `json:"history"`
	Heavy   bool   `json:"full_state_oracle,omitempty"`
	TOps    []tOp  `json:"trie_ops,omitempty"`
	SOps    []sOp  `json:"statedb_ops,omitempty"`
	// several StateDBs over one state.Database (multi.go)
	MOps       []mOp `json:"handle_ops,omitempty"`
	MaxHandles int   `json:"max_handles,omitempty"`
	// merge-oracle counterexamples: a second history ending in the same content
	OtherTOps []tOp `json:"other_trie_ops,omitempty"`
	OtherSOps []sOp `json:"other_statedb_ops,omitempty"`
	// fork family (two copies of one trie)
	FOps []fOp `json:"fork_ops,omitempty"`
	// sweep family: key indexes (insertion order) and value spec per key (see sweepValue)
	SKeys []int `json:"sweep_keys,omitempty"`
	SVals []int `json:"sweep_values,omitempty"`
}

type partStats struct {
	States      int            `json:"states"`
	Transitions int            `json:"transitions"`
	Merges      int            `json:"merges"`
	Depth       int            `json:"max_depth_completed"`
	PerLevel    []int          `json:"new_states_per_depth"`
	Roots       int            `json:"distinct_roots"`
	Alphabet    int            `json:"alphabet"`
	Classes     map[string]int `json:"-"`
}

type ctx struct {
	run     *core.Run
	samples *core.Sampler
	classes *core.Counter // full outcome classes (part|op|mode|effect)
	coarse  *core.Counter // histogram written to the evidence
	nth     int
}

func (c *ctx) report(k kase, vs []viol) {
	for _, v := range vs {
		c.run.Report(v.sig, k, v.detail)
	}
}

func (c *ctx) sample(k kase) {
	c.nth++
	if c.nth%50021 == 1 {
		c.samples.Add(k)
	}
}

// ------------------------------------------------------------------ trie BFS

func tOpsOf(d *trieDriver, hist []uint8, extra int) []tOp {
	ops := make([]tOp, 0, len(hist)+1)
	for _, i := range hist {
		ops = append(ops, d.alpha[i])
	}
	if extra >= 0 {
		ops = append(ops, d.alpha[extra])
	}
	return ops
}

func coarseTrieClass(part, class string) string {
	p := strings.Split(class, "|")
	if len(p) == 3 {
		return part + ":" + p[0] + "/" + p[2]
	}
	return part + ":" + class
}

type tNode struct {
	hist []uint8
	key  uint32
}

// exploreTrie: BFS to the given depth.  refCache: executions that do not
// discover a new state compare the in-tree root with the root the reference
// trie produced when the same content was first reached, instead of driving the
// reference trie through the same history again.
func (c *ctx) exploreTrie(d *trieDriver, depth int, refCache bool) partStats {
	st := partStats{Alphabet: len(d.alpha)}
	visited := map[uint32]bool{}
	upRoot := map[uint32]*[32]byte{} // content -> reference root
	rootOf := map[uint32][32]byte{}  // merge oracle: content -> root of the first history that reached it
	rootHist := map[uint32][]tOp{}
	roots := map[[32]byte]bool{}

	absorb := func(hist []uint8, op int, heavy bool, r *trieRes) {
		st.Transitions++
		c.nth++
		mk := func() kase {
			ops := tOpsOf(d, hist, op)
			return kase{Part: d.part, History: histString(ops), TOps: ops, Heavy: heavy}
		}
		if len(r.viols) > 0 {
			c.report(mk(), r.viols)
		}
		if c.nth%50021 == 1 {
			c.samples.Add(mk())
		}
		c.classes.Add(d.part + ":" + r.class)
		c.coarse.Add(coarseTrieClass(d.part, r.class))
		if r.root != ([32]byte{}) {
			if prev, ok := rootOf[r.ckey]; ok {
				if prev != r.root {
					k := mk()
					k.OtherTOps = rootHist[r.ckey]
					if k.OtherTOps == nil {
						k.OtherTOps = []tOp{}
					}
					lk := "none"
					if len(k.TOps) > 0 {
						lk = k.TOps[len(k.TOps)-1].Op
					}
					c.run.Report(map[string]string{"part": d.part, "kind": "merge-root-differs", "op": lk}, k,
						fmt.Sprintf("[%s] histories %q and %q end in the same content but have roots %x and %x", d.part, histString(rootHist[r.ckey]), k.History, prev[:6], r.root[:6]))
				}
			} else {
				rootOf[r.ckey] = r.root
				rootHist[r.ckey] = tOpsOf(d, hist, op)
			}
			roots[r.root] = true
			if _, ok := upRoot[r.ckey]; !ok && refCache {
				u := r.uroot
				upRoot[r.ckey] = &u
			}
		}
		if heavy {
			st.States++
		} else {
			st.Merges++
		}
	}

	k0 := (&tState{content: make([]int, len(d.keys)), coarse: d.coarse}).key()
	r0 := d.run(nil, true, nil)
	visited[k0] = true
	absorb(nil, -1, true, &r0)
	frontier := []tNode{{nil, k0}}
	st.PerLevel = append(st.PerLevel, 1)
	na := len(d.alpha)
	const chunk = 512
	for level := 1; level <= depth; level++ {
		var next []tNode
		newStates := 0
		for lo := 0; lo < len(frontier); lo += chunk {
			hi := lo + chunk
			if hi > len(frontier) {
				hi = len(frontier)
			}
			n := (hi - lo) * na
			// The successor's canonical key is known from the model alone, so
			// which executions discover a new state is decided here, in
			// enumeration order (deterministic whatever the worker schedule).
			heavy := make([]bool, n)
			refs := make([]*[32]byte, n)
			for i := 0; i < n; i++ {
				s := stateOfKey(frontier[lo+i/na].key, len(d.keys), d.coarse)
				s.apply(d.alpha[i%na])
				k := s.key()
				if visited[k] {
					refs[i] = upRoot[s.contentKey()] // nil unless refCache and already known
				} else {
					visited[k] = true
					heavy[i] = true
					newStates++
					if level < depth {
						hist := frontier[lo+i/na].hist
						h := make([]uint8, len(hist)+1)
						copy(h, hist)
						h[len(hist)] = uint8(i % na)
						next = append(next, tNode{h, k})
					}
				}
			}
			results := make([]trieRes, n)
			core.Par(hi-lo, func(j int) {
				for i := j * na; i < (j+1)*na; i++ {
					results[i] = d.run(tOpsOf(d, frontier[lo+j].hist, i%na), heavy[i], refs[i])
				}
			})
			for i := range results {
				if heavy[i] && results[i].key != 0 && !visited[results[i].key] {
					core.Fatal("model key prediction diverged")
				}
				absorb(frontier[lo+i/na].hist, i%na, heavy[i], &results[i])
			}
		}
		st.PerLevel = append(st.PerLevel, newStates)
		st.Depth = level
		frontier = next
	}
	st.Roots = len(roots)
	return st
}

// ------------------------------------------------------------------ StateDB BFS

func sOpsOf(prefix []sOp, alpha []sOp, hist []uint8, extra int) []sOp {
	ops := make([]sOp, 0, len(prefix)+len(hist)+1)
	ops = append(ops, prefix...)
	for _, i := range hist {
		ops = append(ops, alpha[i])
	}
	if extra >= 0 {
		ops = append(ops, alpha[extra])
	}
	return ops
}

type sdbShared struct {
	rootOf   map[string][32]byte
	rootHist map[string][]sOp
	roots    map[[32]byte]bool
	// StateDB.GetProof / GetStorageProof proofs judged, and those made of >= 2 nodes
	proofs, deepProofs int
}

func (c *ctx) exploreSDB(start string, prefix []sOp, depth, nA int, sh *sdbShared) partStats {
	alpha := sdbAlphabet(depth, nA)
	st := partStats{Alphabet: len(alpha)}
	visited := map[skey]bool{}

	absorb := func(ops []sOp, r *sdbRes) bool {
		st.Transitions++
		k := kase{Part: "statedb", History: sHistString(ops), SOps: ops}
		if len(r.viols) > 0 {
			c.report(k, r.viols)
		}
		c.sample(k)
		c.classes.Add("statedb:" + r.class)
		c.coarse.Add("statedb:" + strings.SplitN(r.class, "|", 2)[0])
		sh.proofs, sh.deepProofs = sh.proofs+r.proofs, sh.deepProofs+r.deepProofs
		if r.hasRoot {
			if prev, ok := sh.rootOf[r.ckey]; ok {
				if prev != r.root {
					k.OtherSOps = sh.rootHist[r.ckey]
					sig := map[string]string{"part": "statedb", "kind": "merge-root-differs", "op": ops[len(ops)-1].Op, "input": r.input}
					if r.input != "plain" {
						sig = map[string]string{"part": "statedb", "input": r.input}
					}
					c.run.Report(sig, k,
						fmt.Sprintf("[statedb] histories %q and %q end in the same content but have roots %x and %x", sHistString(sh.rootHist[r.ckey]), sHistString(ops), prev[:6], r.root[:6]))
				}
			} else if r.input == "plain" {
				// (a history of a known-defective input class never becomes the
				// reference history other histories are compared with)
				sh.rootOf[r.ckey] = r.root
				sh.rootHist[r.ckey] = ops
			}
			sh.roots[r.root] = true
		}
		if visited[r.key] {
			st.Merges++
			return false
		}
		visited[r.key] = true
		st.States++
		return true
	}

	r0 := runSDB(sOpsOf(prefix, alpha, nil, -1))
	absorb(sOpsOf(prefix, alpha, nil, -1), &r0)
	frontier := [][]uint8{{}}
	st.PerLevel = append(st.PerLevel, 1)
	const chunk = 1024
	type task struct {
		node int
		op   int
	}
	for level := 1; level <= depth; level++ {
		var next [][]uint8
		newStates := 0
		for lo := 0; lo < len(frontier); lo += chunk {
			hi := lo + chunk
			if hi > len(frontier) {
				hi = len(frontier)
			}
			// enabled ops per node come from the model
			perNode := make([][]int, hi-lo)
			core.Par(hi-lo, func(i int) {
				m := modelAfter(sOpsOf(prefix, alpha, frontier[lo+i], -1))
				for oi, o := range alpha {
					if m.enabled(o) {
						perNode[i] = append(perNode[i], oi)
					}
				}
			})
			var tasks []task
			for i, ops := range perNode {
				for _, oi := range ops {
					tasks = append(tasks, task{lo + i, oi})
				}
			}
			results := make([]sdbRes, len(tasks))
			core.Par(len(tasks), func(i int) {
				results[i] = runSDB(sOpsOf(prefix, alpha, frontier[tasks[i].node], tasks[i].op))
			})
			for i := range results {
				hist, op := frontier[tasks[i].node], tasks[i].op
				if absorb(sOpsOf(prefix, alpha, hist, op), &results[i]) {
					newStates++
					if level < depth {
						h := make([]uint8, len(hist)+1)
						copy(h, hist)
						h[len(hist)] = uint8(op)
						next = append(next, h)
					}
				}
			}
		}
		st.PerLevel = append(st.PerLevel, newStates)
		st.Depth = level
		frontier = next
	}
	_ = start
	return st
}

// ------------------------------------------------------------------ self check

// selfCheck: ground rule 2 — the first execution and one further execution of
// every part are run twice and must give identical observation digests.
func selfCheck(tds []*trieDriver) {
	for _, d := range tds {
		for _, h := range [][]tOp{nil, {{"update", 1, 2}, {"update", 0, 1}, {"reopen", 0, 3}, {"delete", 1, 0}}} {
			a, b := d.run(h, true, nil), d.run(h, true, nil)
			if a.digest() != b.digest() {
				core.Fatal("non-deterministic execution of %s history %q", d.part, histString(h))
			}
		}
	}
	for _, part := range []string{"trie", "securetrie"} {
		f := newForkDriver(part, []int{1, 3}, []int{3})
		h := []fOp{{"update", 0, 1, 0}, {"update", 1, 3, 0}, {"fork", 0, 0, 0}, {"delete", 1, 0, 1}, {"reopen", 0, 3, 0}}
		a, b := f.run(h, true), f.run(h, true)
		if a.digest() != b.digest() {
			core.Fatal("non-deterministic execution of %s history %q", f.part, fHistString(h))
		}
		k := sweepCase{[]int{0, 1}, []int{29, 0}}
		x, y := f.d.runSweep(k), f.d.runSweep(k)
		if x.digest() != y.digest() {
			core.Fatal("non-deterministic execution of %s sweep case %s", part, sweepString(f.d, k))
		}
	}
	for _, h := range [][]mOp{nil, append(multiPrefix(seedPrefix), mOp{0, sOp{"Open", 0, 0, 0}}, mOp{0, sOp{"AddBalance", 0, addAmt, 0}}, mOp{0, sOp{"Commit", 0, 0, 0}}, mOp{1, sOp{"Read", 1, 0, 0}}, mOp{0, sOp{"Open", 0, 0, 0}}, mOp{2, sOp{"Suicide", 0, 0, 0}}, mOp{2, sOp{"IntermediateRoot", 0, 0, 0}})} {
		a, b := runMulti(3, h), runMulti(3, h)
		if a.digest() != b.digest() {
			core.Fatal("non-deterministic execution of statedb-handles history %q", mHistString(h))
		}
	}
	for _, h := range [][]sOp{nil, append(append([]sOp{}, seedPrefix...), sOp{"Snapshot", 0, 0, 0}, sOp{"Suicide", 0, 0, 0}, sOp{"Revert", 0, 0, 0}, sOp{"IntermediateRoot", 0, 0, 0})} {
		a, b := runSDB(h), runSDB(h)
		if a.digest() != b.digest() {
			core.Fatal("non-deterministic execution of statedb history %q", sHistString(h))
		}
	}
}

// ------------------------------------------------------------------ main

type trieRun struct {
	name     string
	part     string
	coarse   bool
	full     bool // full alphabet (with update(k, empty))
	depth    int
	refCache bool
}

func main() {
	run := core.Start("C11", "model_checking", "XSTATE+DIFFREF")
	initUniverse()
	c := &ctx{run: run, samples: core.NewSampler(6, run.Seed), classes: core.NewCounter(), coarse: core.NewCounter()}

	if run.ReplayPath != "" {
		var k kase
		if err := run.ReplayCase(&k); err != nil {
			core.Fatal("cannot load replay: %v", err)
		}
		switch k.Part {
		case "trie", "securetrie":
			d := newTrieDriver(k.Part, false, true)
			r := d.run(k.TOps, k.Heavy, nil)
			c.report(k, r.viols)
			if k.OtherTOps != nil {
				if o := d.run(k.OtherTOps, false, nil); o.ckey == r.ckey && o.root != r.root {
					run.Report(map[string]string{"part": k.Part, "kind": "merge-root-differs", "op": "replay"}, k,
						fmt.Sprintf("[%s] histories %q and %q end in the same content but have roots %x and %x", k.Part, histString(k.OtherTOps), histString(k.TOps), o.root[:6], r.root[:6]))
				}
			}
		case "trie-fork", "securetrie-fork":
			f := newForkDriver(strings.TrimSuffix(k.Part, "-fork"), []int{1, 2, 3}, []int{1, 2, 3})
			r := f.run(k.FOps, k.Heavy)
			c.report(k, r.viols)
		case "trie-sweep", "securetrie-sweep":
			if len(k.SKeys) != len(k.SVals) || len(k.SKeys) == 0 {
				core.Fatal("malformed sweep case in replay artefact")
			}
			d := newTrieDriver(strings.TrimSuffix(k.Part, "-sweep"), true, false)
			r := d.runSweep(sweepCase{k.SKeys, k.SVals})
			c.report(k, r.viols)
		case "statedb":
			r := runSDB(k.SOps)
			c.report(k, r.viols)
			if k.OtherSOps != nil {
				if o := runSDB(k.OtherSOps); o.hasRoot && r.hasRoot && o.ckey == r.ckey && o.root != r.root {
					run.Report(map[string]string{"part": "statedb", "kind": "merge-root-differs", "op": "replay", "input": r.input}, k,
						fmt.Sprintf("[statedb] histories %q and %q end in the same content but have roots %x and %x", sHistString(k.OtherSOps), sHistString(k.SOps), o.root[:6], r.root[:6]))
				}
			}
		case "statedb-handles":
			mh := k.MaxHandles
			if mh == 0 {
				mh = 3
			}
			r := runMulti(mh, k.MOps)
			c.report(k, r.viols)
		default:
			core.Fatal("unknown part %q in replay artefact", k.Part)
		}
		run.Finish(nil, nil)
	}

	selfCheck([]*trieDriver{newTrieDriver("trie", false, true), newTrieDriver("securetrie", false, true)})

	// quick: coarse residency classes, reference root cached per content;
	// thorough: the stated bound (depth 7) under the coarse classes (reference
	// root cached per content as well) plus depth 5 under the fine classes with
	// the reference trie driven through every history.
	runs := []trieRun{
		{"trie", "trie", true, false, 5, true},
		{"securetrie", "securetrie", true, false, 4, true},
	}
	sdbDepth, sdb1Depth := 4, 5
	// several StateDBs over one state.Database: depth, number of handles
	multiDepth, multiHandles := 4, 3
	// fork family: depth, value indexes, reopen variants; sweep family: bound of
	// the full three-key product, sizes of the third key next to the full
	// two-key product.
	forkDepth, forkVals, forkReopens := 4, []int{1, 3}, []int{3}
	sweepSmall, sweepThird := 12, []int{-1}
	secSweepSmall, secSweepThird := 0, []int{}
	if !run.Quick() {
		runs = []trieRun{
			{"trie", "trie", true, true, 7, true},
			{"trie_fine_residency", "trie", false, true, 5, false},
			{"securetrie", "securetrie", true, true, 7, true},
			{"securetrie_fine_residency", "securetrie", false, true, 5, false},
		}
		sdbDepth, sdb1Depth = 5, 6
		multiDepth = 5
		forkDepth = 5
		sweepSmall, sweepThird = 14, []int{-1}
		secSweepSmall, secSweepThird = 2, []int{-1}
	}
	if v := os.Getenv("VERIF_C11_DEPTHS"); v != "" { // development aid only
		var td, sd int
		fmt.Sscanf(v, "%d,%d,%d,%d,%d,%d,%d", &td, &sd, &sdbDepth, &sdb1Depth, &forkDepth, &sweepSmall, &multiDepth)
		for i := range runs {
			if runs[i].part == "trie" && runs[i].depth > td {
				runs[i].depth = td
			}
			if runs[i].part == "securetrie" && runs[i].depth > sd {
				runs[i].depth = sd
			}
		}
	}

	t0 := time.Now()
	lap := func(what string, st partStats) {
		if os.Getenv("VERIF_DEBUG") != "" {
			fmt.Fprintf(os.Stderr, "%-26s %8.1fs states=%d transitions=%d merges=%d per-depth=%v\n", what, time.Since(t0).Seconds(), st.States, st.Transitions, st.Merges, st.PerLevel)
		}
		t0 = time.Now()
	}
	cov := core.Coverage{}
	bounds := map[string]int{"value_sizes": len(trieVals) - 1, "addresses": nAddr, "slots": nSlot, "statedb_depth": sdbDepth, "statedb_one_account_depth": sdb1Depth}
	states, trans, merges := 0, 0, 0
	add := func(name string, st partStats) {
		if !strings.HasPrefix(name, "statedb") {
			lap(name, st)
		}
		cov[name] = st
		states, trans, merges = states+st.States, trans+st.Transitions, merges+st.Merges
	}
	for _, tr := range runs {
		d := newTrieDriver(tr.part, tr.coarse, tr.full)
		add(tr.name, c.exploreTrie(d, tr.depth, tr.refCache))
		bounds[tr.name+"_depth"] = tr.depth
		bounds[tr.part+"_keys"] = len(d.keys)
	}
	for _, part := range []string{"trie", "securetrie"} {
		f := newForkDriver(part, forkVals, forkReopens)
		fs := c.exploreFork(f, forkDepth)
		lap(part+"_fork", fs.partStats)
		cov[part+"_fork"] = fs
		states, trans, merges = states+fs.States, trans+fs.Transitions, merges+fs.Merges
		bounds[part+"_fork_depth"] = forkDepth
		bounds["fork_value_sizes"] = len(forkVals)
		if fs.DeletesByShape["collapse-merge-with-extension"] == 0 && forkDepth >= 4 {
			core.Fatal("%s fork family: no delete after the fork collapses a branch under an extension node (vacuous)", part)
		}
	}
	if sweepSmall >= 0 {
		for _, part := range []string{"trie", "securetrie"} {
			d := newTrieDriver(part, true, false)
			small, third := sweepSmall, sweepThird
			if d.secure {
				small, third = secSweepSmall, secSweepThird
			}
			t1 := time.Now()
			ss := c.exploreSweep(d, run.Quick(), small, third)
			if os.Getenv("VERIF_DEBUG") != "" {
				fmt.Fprintf(os.Stderr, "%-26s %8.1fs cases=%d n31=%d n32=%d n33=%d kinds=%v\n", part+"_sweep", time.Since(t1).Seconds(), ss.Cases, ss.N31, ss.N32, ss.N33, ss.Kinds)
			}
			t0 = time.Now()
			cov[part+"_value_size_sweep"] = ss
			// one case = one distinct content (a state), reached by two histories
			states, trans, merges = states+ss.Cases, trans+2*ss.Cases, merges+ss.Cases
			if part == "trie" && ss.N32 == 0 {
				core.Fatal("value-size sweep: no case contains a non-root node of exactly 32 bytes (vacuous)")
			}
		}
	}
	sh := &sdbShared{rootOf: map[string][32]byte{}, rootHist: map[string][]sOp{}, roots: map[[32]byte]bool{}}
	stEmpty := c.exploreSDB("empty", nil, sdbDepth, nAddr, sh)
	lap("statedb_empty", stEmpty)
	stSeeded := c.exploreSDB("seeded", seedPrefix, sdbDepth, nAddr, sh)
	lap("statedb_seeded", stSeeded)
	stEmpty1 := c.exploreSDB("empty", nil, sdb1Depth, 1, sh)
	lap("statedb_one_account_empty", stEmpty1)
	stSeeded1 := c.exploreSDB("seeded", seedPrefix, sdb1Depth, 1, sh)
	lap("statedb_one_account_seeded", stSeeded1)
	for _, start := range []string{"empty", "seeded"} {
		var pre []sOp
		if start == "seeded" {
			pre = seedPrefix
		}
		ms := c.exploreMulti(pre, multiDepth, multiHandles, sh)
		lap("statedb_handles_"+start, ms.partStats)
		ms.Roots = len(sh.roots)
		cov["statedb_handles_"+start] = ms
		states, trans, merges = states+ms.States, trans+ms.Transitions, merges+ms.Merges
		if ms.OpensAtShared == 0 || ms.ReadsOfOthers == 0 || (multiHandles >= 3 && multiDepth >= 3 && ms.ThreeHandleExe == 0) {
			core.Fatal("statedb_handles_%s: no state is opened at a root another live handle is at, or no handle is read after another one computed a root, or no execution has three handles (vacuous)", start)
		}
	}
	bounds["statedb_handles_depth"], bounds["statedb_handles"] = multiDepth, multiHandles
	cov["statedb_proofs_judged"] = sh.proofs
	cov["statedb_proofs_of_two_or_more_nodes"] = sh.deepProofs
	if sh.deepProofs == 0 {
		core.Fatal("statedb: no GetProof/GetStorageProof proof of two or more nodes was judged (vacuous)")
	}
	stEmpty.Roots, stSeeded.Roots, stEmpty1.Roots, stSeeded1.Roots = len(sh.roots), len(sh.roots), len(sh.roots), len(sh.roots)
	add("statedb_empty", stEmpty)
	add("statedb_seeded", stSeeded)
	add("statedb_one_account_empty", stEmpty1)
	add("statedb_one_account_seeded", stSeeded1)

	refRule := "the reference trie is driven through the same history on every execution that discovers a new state; the other executions compare the in-tree root with the reference root recorded for the same content"
	if !run.Quick() {
		refRule += " (in the *_fine_residency explorations the reference trie is driven through every history)"
	}
	cov["states"] = states
	cov["transitions"] = trans
	cov["traces_validated_against_impl"] = trans
	cov["evaluations"] = trans
	cov["merges"] = merges
	cov["distinct_nontrivial"] = states
	cov["outcome_class_count"] = c.classes.Len()
	cov["rule"] = "BFS over operation histories; one execution = fresh in-tree instance (+ fresh reference instance), replay of the representative history, one more op, oracle on the op and on the state reached; every (representative history, enabled op) pair is executed; a state is distinct by canonical key. " +
		"Trie / SecureTrie: alphabet = update(k,v) for 3 value sizes (1/31/33 B), delete(k), [thorough: update(k,empty)], get(k), prove(k) for every key, hash, commit, commit+reopen in 3 variants (same node database; after Database.Commit to the disk db; brand-new Database on the disk db); 8 keys for the plain trie (shared nibble prefixes 0,1,3,4,63; a three-way branch with hashed children; strict nibble-prefix keys incl. the empty key; two 32-byte keys differing in the last nibble), 6 32-byte keys for the secure trie (keccak images sharing 0,1,2,3 nibbles, three-way root branch); canonical key = content map + residency class (coarse: never committed|committed|reopened × clean|dirty; fine: never committed|committed|reopened×3 variants × clean|dirty|hashed). Light oracle on every execution: every Get = content, root = reference root = root of a fresh in-tree trie built by sorted insertion, merge oracle (equal content ⇒ equal root); full oracle on every execution that discovers a state: additionally Prove→VerifyProof (in-tree and reference verifier) for every key incl. absent ones, leaf iteration = content, root unchanged by reads; " + refRule + ". " +
		"Copies of a trie (<part>_fork): the same BFS over an alphabet with one more op, fork = copy the live trie the way the package's users do (plain trie: value copy `c := *t`; SecureTrie.Copy(); both are what state.Database.CopyTrie / StateDB.Copy do), allowed once per history; before it the ops work on the original, after it every op exists once per copy: update(k,v) for 2 value sizes (1/33 B), delete(k), hash, commit, commit+flush+reopen over a brand-new Database; canonical key = (content, residency class) of the original and of the copy; reference model = one content map per copy. After every execution BOTH copies are examined (the one the last op did not work on first): root = root upstream gives for that copy's content = root of a fresh in-tree trie of that content, every Get = that copy's content; on executions that discover a state additionally proofs for every key, leaf iteration and root stability on both copies. post_fork_deletes_by_shape classifies (from the key set alone) every delete executed after the fork: the branch the key hangs off keeps two children / collapses into a short node / collapses under an extension node and is merged with it (counted; the run aborts as vacuous if the last class is empty). " +
		"Value sizes (<part>_value_size_sweep): for every set of 1–3 keys of the part's key pool (plain trie: keys of 0, 1, 2 and 32 bytes through the raw trie API; secure trie: 32-byte keys hashed, as account and storage tries are used) and value sizes swept over the contiguous range value_sizes_swept (plus the single byte 0x05 that RLP encodes as itself, spec -1; size 0 = inserted and removed again): 1 key: every size; 2 keys: full product of sizes; 3 keys: full product of the sizes up to triple_full_product_up_to_size, plus full product for the first two keys × third key of the sizes triple_third_key_sizes. One case = one content reached by two histories (in order + Hash, then Get/Prove→VerifyProof by both verifiers for every key, Commit, flush, reopen over a brand-new Database, Get, Hash; and reverse order with 33-byte values committed first, then overwritten/removed); oracle: root = root of the upstream trie driven by the same history = root of the second history = root after reopen, Gets and proofs yield the content. The node blobs of the committed REFERENCE trie are walked (embedded nodes inside their parent, hashed ones through the node database) and the cases containing a non-root node whose RLP is exactly 31 / 32 / 33 bytes are counted per node kind (cases_with_non_root_node_of_exactly_32_bytes is measured, > 0 enforced for the plain trie; with 32-byte hashed keys such nodes cannot occur this close to the root, the secure-trie count is reported as measured). " +
		"StateDB: 2 addresses, alphabet = AddBalance(0|5), SubBalance(5) if affordable, SetNonce, SetCode, SetState(2 slots × {0,7}), Suicide, CreateAccount per address, AddLog, AddRefund, Snapshot, RevertToSnapshot(every live snapshot), IntermediateRoot(true), Commit(true)+state.New in 2 variants (same state.Database; TrieDB().Commit + brand-new state.Database on the disk db), from two start states (empty; seeded = contract with committed storage + funded account, built through the API); canonical key = all getter-observable state of the current revision and of every live snapshot + the account content as of the last finalisation + which accounts were addressed in the current transaction (pending in the journal) + whether the instance was finalised in place (IntermediateRoot) since it was opened + whether a live account was re-created in the current transaction + for which accounts a call was rolled back by RevertToSnapshot in the current transaction (so the state after a rollback is expanded on the instance that performed the rollback instead of being merged with the state the snapshot was taken in); the reference StateDB is driven through the same history on every execution. statedb_one_account_*: the same exploration with the per-address ops restricted to one address, one op deeper (covers modify A; Snapshot; modify A; RevertToSnapshot; IntermediateRoot/Commit — outcome classes IntermediateRoot|…/rollback-over-pending=true count those executions). " +
		"StateDB proofs: after every execution whose last op computes a root (IntermediateRoot, Commit, Commit+reopen; all StateDB explorations) StateDB.GetProof is taken for every address and StateDB.GetStorageProof for every slot of every live account — all of them first, then each is judged on the slices the calls returned: it verifies (in-tree and reference VerifyProof) against the state root / against the storage root of that account's content and yields the RLP of the account or slot, or its absence, and it is the same node list the reference StateDB driven by the same history returns (statedb_proofs_judged, statedb_proofs_of_two_or_more_nodes are measured, > 0 enforced; a trie without entries has no node and nothing is demanded of it). The sink given to Trie.Prove in the trie families likewise retains the node slices it is handed (as the list behind GetProof does), and every proof is also compared node by node with the proof of a reference trie holding the same content. " +
		"Several StateDBs over ONE state.Database (statedb_handles_*): the same BFS over an alphabet in which every op names the handle it works on: Open = state.New(root of the last Commit, the same state.Database) adds a handle (at most max_handles; every handle stays live and usable), per handle and address AddBalance(5), SetState(slot 0, 7|0), Suicide, Read (Exist/GetBalance/GetNonce/GetState: loads the account into that handle), per handle IntermediateRoot(true), Commit (IntermediateRoot(true)+Commit(true), the handle keeps being used) and Commit(true)+state.New at that root from the same Database (replaces the handle); from the empty and the seeded start. Reference model = one independent stack-of-copies model per handle + the content of the last Commit (what Open must reproduce); canonical key = every handle's key (as above) + which accounts each handle has loaded + the last committed content. After every execution EVERY handle (the one the last op worked on last) is read through all getters and judged against its own model and the reference handle; a root computed by the last op is judged against the content of the handle that computed it (+ merge oracle shared with the other StateDB explorations, + proofs). opens_at_a_root_another_live_handle_is_at, executions_reading_a_handle_after_another_handle_computed_a_root, executions_with_three_handles are measured (> 0 enforced). " +
		"distinct_nontrivial = number of distinct canonical states reached (an execution that ends in an already known canonical state is a merge and is not counted) plus one per value-size-sweep case (each is a distinct content; its two histories count as two transitions, one of them a merge); outcome_class_count = distinct (part, op, residency class or model effect) classes observed, outcome_classes = their histogram without the residency component."
	rb := 0
	for cl, n := range c.classes.Map() {
		if strings.HasPrefix(cl, "statedb:") && strings.HasSuffix(cl, "rollback-over-pending=true") {
			rb += n
		}
	}
	cov["statedb_root_computations_after_rollback_over_pending_change"] = rb
	if rb == 0 && sdb1Depth >= 5 {
		core.Fatal("statedb: no root computation follows a rollback over an account with a surviving pending change (vacuous)")
	}
	cov["exhaustive"] = true
	cov["bounds"] = bounds
	cov["outcome_classes"] = c.coarse.Map()
	cov["samples"] = c.samples.List()
	run.Finish(cov, []string{
		"upstream go-ethereum v1.8.27 (trie, core/state, rlp, keccak) is the trusted reference; it is linked into the same binary (build tag nocgo only removes the duplicate libsecp256k1 C symbols, which this check never calls)",
		"collision resistance of keccak256: equal roots are taken to mean equal tries",
		"a proof for a key in an EMPTY trie has no node; the only demand there is that verification yields no value",
		"SecureTrie.Prove and VerifyProof are given the keccak image of the key (the calling convention of StateDB.GetProof in both implementations)",
		"snapshots are live until the next IntermediateRoot/Commit (Finalise ends the transaction and clears journal and refund — reference semantics); RevertToSnapshot is only issued for live snapshots, SubBalance only when the balance covers it (a negative balance cannot be RLP-encoded by either implementation)",
		"a copy of a trie and its original are used from one goroutine, one op at a time (no concurrent use); both share one node database",
		"several StateDBs over one state.Database are used from one goroutine, one op at a time; a StateDB that keeps being used after Commit was finalised (IntermediateRoot) right before the Commit, the way a block is processed (Commit alone does not mark self-destructed objects deleted in the instance — reference semantics)",
		"a proof handed out by Prove / GetProof / GetStorageProof is the caller's: its bytes must not change after the call returned or while further proof nodes are produced",
		"every execution runs on the real in-tree code (traces_validated_against_impl = all transitions); database = in-memory ethdb (MemDatabase), no LevelDB",
	})
}
