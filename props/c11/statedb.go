// C11 (b) — StateDB: getters agree with a stack-of-copies model, revert restores
// the snapshot exactly, the root is a function of the content and equals the
// reference implementation's, commit+reopen reproduces the content.
package main

import (
	"bytes"
	"crypto/sha256"
	"fmt"
	"math/big"

	icommon "github.com/dappledger/AnnChain/eth/common"
	istate "github.com/dappledger/AnnChain/eth/core/state"
	itypes "github.com/dappledger/AnnChain/eth/core/types"
	iethdb "github.com/dappledger/AnnChain/eth/ethdb"

	ucommon "github.com/ethereum/go-ethereum/common"
	ustate "github.com/ethereum/go-ethereum/core/state"
	utypes "github.com/ethereum/go-ethereum/core/types"
	ucrypto "github.com/ethereum/go-ethereum/crypto"
	uethdb "github.com/ethereum/go-ethereum/ethdb"
	urlp "github.com/ethereum/go-ethereum/rlp"
	utrie "github.com/ethereum/go-ethereum/trie"

	"verif/core"
)

// ------------------------------------------------------------------ universe

const (
	nAddr  = 2
	nSlot  = 2
	addAmt = 5
	refAmt = 3
)

var (
	sdbAddrs      [nAddr][20]byte
	sdbSlots      [nSlot][32]byte
	slotVals      = [2][32]byte{{}, {31: 7}} // value index 0 = zero, 1 = 7
	theCode       = []byte{0x60, 0x00, 0x56}
	emptyCodeHash [32]byte
	theCodeHash   [32]byte
)

// initUniverse picks two addresses and two storage slots whose keccak images
// share their first nibble (so the account trie and the storage tries contain
// an extension/branch below the root rather than a root branch only).
func initUniverse() {
	copy(emptyCodeHash[:], ucrypto.Keccak256(nil))
	copy(theCodeHash[:], ucrypto.Keccak256(theCode))
	pick := func(n int, mk func(ctr int) []byte) [][]byte {
		var out [][]byte
		var h0 []byte
		for ctr := 1; ctr < 1<<16 && len(out) < n; ctr++ {
			c := mk(ctr)
			h := ucrypto.Keccak256(c)
			if len(out) == 0 {
				out, h0 = append(out, c), h
			} else if h[0]>>4 == h0[0]>>4 {
				out = append(out, c)
			}
		}
		if len(out) < n {
			core.Fatal("universe search failed")
		}
		return out
	}
	as := pick(nAddr, func(ctr int) []byte {
		a := make([]byte, 20)
		a[0], a[18], a[19] = 0xc1, byte(ctr>>8), byte(ctr)
		return a
	})
	for i := range sdbAddrs {
		copy(sdbAddrs[i][:], as[i])
	}
	ss := pick(nSlot, func(ctr int) []byte {
		s := make([]byte, 32)
		s[30], s[31] = byte((ctr-1)>>8), byte(ctr-1) // first candidate is slot 0
		return s
	})
	for i := range sdbSlots {
		copy(sdbSlots[i][:], ss[i])
	}
}

// ------------------------------------------------------------------ ops

type sOp struct {
	Op string `json:"op"`
	A  int    `json:"a"` // address index
	X  int    `json:"x"` // amount | slot | snapshot stack position | reopen variant
	V  int    `json:"v"` // storage value index
}

func (o sOp) String() string {
	switch o.Op {
	case "AddBalance", "SubBalance":
		return fmt.Sprintf("%s(a%d,%d)", o.Op, o.A, o.X)
	case "SetNonce", "SetCode", "Suicide", "CreateAccount", "Read":
		return fmt.Sprintf("%s(a%d)", o.Op, o.A)
	case "SetState":
		return fmt.Sprintf("SetState(a%d,s%d,%d)", o.A, o.X, slotVals[o.V][31])
	case "Revert":
		return fmt.Sprintf("RevertToSnapshot(#%d)", o.X)
	case "CommitReopen":
		return fmt.Sprintf("Commit+reopen%d", o.X)
	}
	return o.Op
}

// sdbAlphabet: nA = number of addresses the alphabet operates on (the
// single-account exploration uses 1; the canonical key always covers all).
func sdbAlphabet(maxDepth, nA int) []sOp {
	var a []sOp
	for ad := 0; ad < nA; ad++ {
		a = append(a, sOp{"AddBalance", ad, 0, 0}, sOp{"AddBalance", ad, addAmt, 0}, sOp{"SubBalance", ad, addAmt, 0},
			sOp{"SetNonce", ad, 0, 0}, sOp{"SetCode", ad, 0, 0})
		for s := 0; s < nSlot; s++ {
			for v := 0; v < 2; v++ {
				a = append(a, sOp{"SetState", ad, s, v})
			}
		}
		a = append(a, sOp{"Suicide", ad, 0, 0}, sOp{"CreateAccount", ad, 0, 0})
	}
	a = append(a, sOp{"AddLog", 0, 0, 0}, sOp{"AddRefund", 0, 0, 0}, sOp{"Snapshot", 0, 0, 0})
	for i := 0; i < maxDepth; i++ {
		a = append(a, sOp{"Revert", 0, i, 0})
	}
	a = append(a, sOp{"IntermediateRoot", 0, 0, 0}, sOp{"CommitReopen", 0, 1, 0}, sOp{"CommitReopen", 0, 2, 0})
	return a
}

// seedPrefix: history that produces the "seeded" start state (a0 = contract
// with nonce, balance, code and one committed storage slot; a1 funded), all
// through the real API, committed and reopened.
var seedPrefix = []sOp{
	{"SetNonce", 0, 0, 0}, {"AddBalance", 0, addAmt, 0}, {"SetCode", 0, 0, 0}, {"SetState", 0, 0, 1},
	{"AddBalance", 1, addAmt, 0}, {"CommitReopen", 0, 1, 0},
}

// ------------------------------------------------------------------ model

type mAcct struct {
	Bal      int64
	Nonce    uint64
	Code     bool
	Stor     [nSlot]int // current value index
	Comm     [nSlot]int // value index as of the last finalisation (of this incarnation)
	Suicided bool
}

func (a *mAcct) empty() bool { return a.Nonce == 0 && a.Bal == 0 && !a.Code }

type mState struct {
	Live   [nAddr]bool
	A      [nAddr]mAcct
	Refund uint64
	Logs   int
	// Input-shape bookkeeping (names the class of history in violation
	// signatures; see inputClass): Recreated[a] = CreateAccount(a) hit a live
	// account in the current transaction and no state-changing call on a
	// followed; Stale = some finalisation happened while Recreated[a] held.
	Recreated [nAddr]bool
	Stale     bool
	// IR: an IntermediateRoot has run on this StateDB instance since it was
	// opened (the instance then holds finalised-but-uncommitted objects and trie
	// nodes).  Not observable through getters; part of the canonical key so that
	// "finalised in place" and "committed and reopened" are explored separately.
	IR bool
	// Touched[a]: some call addressed account a in the current transaction
	// (since the last finalisation) and has not been reverted.  Separates "same
	// content, still pending in the journal" from "same content, finalised".
	Touched [nAddr]bool
	// Base: the account content as of the last finalisation (what the state
	// trie holds underneath the pending changes).
	BaseLive [nAddr]bool
	Base     [nAddr]mAcct
	// Rev[a]: in the current transaction a RevertToSnapshot rolled back at
	// least one call that addressed account a (index nAddr: AddLog/AddRefund).
	// Not observable through getters (the content is that of the snapshot); part
	// of the canonical key so that a state reached by a rollback is not merged
	// with the state the snapshot was taken in: what follows a rollback
	// (further calls, Finalise, Commit) is explored on the instance that really
	// performed the rollback.
	Rev [nAddr + 1]bool
}

// sModel: current state + stack of copies taken at Snapshot (arrays only, so
// assignment is a deep copy).
type sModel struct {
	cur   mState
	snaps []mState
	since [][nAddr + 1]bool // per live snapshot: accounts addressed since it was taken
}

func (m *sModel) mark(i int) {
	for s := range m.since {
		m.since[s][i] = true
	}
}

func (m *sModel) enabled(o sOp) bool {
	switch o.Op {
	case "SubBalance":
		return m.cur.Live[o.A] && m.cur.A[o.A].Bal >= int64(o.X)
	case "Revert":
		return o.X < len(m.snaps)
	}
	return true
}

func (m *sModel) getOrNew(a int) *mAcct {
	if !m.cur.Live[a] {
		m.cur.Live[a] = true
		m.cur.A[a] = mAcct{}
	}
	return &m.cur.A[a]
}

func (m *sModel) finalise() (deleted int) {
	for a := 0; a < nAddr; a++ {
		if !m.cur.Live[a] {
			continue
		}
		ac := &m.cur.A[a]
		if m.cur.Recreated[a] {
			m.cur.Stale = true
		}
		if ac.Suicided || ac.empty() {
			m.cur.Live[a] = false
			*ac = mAcct{}
			deleted++
			continue
		}
		ac.Comm = ac.Stor
	}
	m.cur.BaseLive, m.cur.Base = m.cur.Live, m.cur.A
	m.cur.Recreated = [nAddr]bool{}
	m.cur.Touched = [nAddr]bool{}
	m.cur.Rev = [nAddr + 1]bool{}
	m.cur.Refund = 0
	m.snaps, m.since = nil, nil
	return
}

// inputClass names the shape of the history for violation signatures.
func (m *sModel) inputClass() string {
	if m.cur.Stale {
		return "recreated-live-account-finalised-untouched"
	}
	return "plain"
}

// apply returns the effect class of the op.
func (m *sModel) apply(o sOp) string {
	switch o.Op {
	case "AddBalance", "SubBalance", "SetNonce", "SetCode", "SetState", "CreateAccount":
		m.cur.Touched[o.A] = true
		m.mark(o.A)
	case "Suicide":
		m.cur.Touched[o.A] = m.cur.Touched[o.A] || m.cur.Live[o.A]
		if m.cur.Live[o.A] {
			m.mark(o.A)
		}
	case "AddLog", "AddRefund":
		m.mark(nAddr)
	}
	switch o.Op {
	case "AddBalance":
		was := m.cur.Live[o.A]
		m.getOrNew(o.A).Bal += int64(o.X)
		if o.X != 0 {
			m.cur.Recreated[o.A] = false
		}
		return fmt.Sprintf("live=%v/amt=%d", was, o.X)
	case "SubBalance":
		was := m.cur.Live[o.A]
		ac := m.getOrNew(o.A)
		ac.Bal -= int64(o.X)
		m.cur.Recreated[o.A] = false
		return fmt.Sprintf("live=%v/left=%d", was, ac.Bal)
	case "SetNonce":
		was := m.cur.Live[o.A]
		m.getOrNew(o.A).Nonce = 1
		m.cur.Recreated[o.A] = false
		return fmt.Sprintf("live=%v", was)
	case "SetCode":
		was := m.cur.Live[o.A]
		m.getOrNew(o.A).Code = true
		m.cur.Recreated[o.A] = false
		return fmt.Sprintf("live=%v", was)
	case "SetState":
		was := m.cur.Live[o.A]
		ac := m.getOrNew(o.A)
		old := ac.Stor[o.X]
		ac.Stor[o.X] = o.V
		if old != o.V {
			m.cur.Recreated[o.A] = false
		}
		return fmt.Sprintf("live=%v/%d->%d/committed=%d", was, old, o.V, ac.Comm[o.X])
	case "Suicide":
		if !m.cur.Live[o.A] {
			return "absent"
		}
		ac := &m.cur.A[o.A]
		eff := fmt.Sprintf("live/again=%v", ac.Suicided)
		ac.Suicided = true
		ac.Bal = 0
		m.cur.Recreated[o.A] = false
		return eff
	case "CreateAccount":
		was := m.cur.Live[o.A]
		var bal int64
		sui := false
		if was {
			bal, sui = m.cur.A[o.A].Bal, m.cur.A[o.A].Suicided
		}
		m.cur.Live[o.A] = true
		m.cur.A[o.A] = mAcct{Bal: bal}
		m.cur.Recreated[o.A] = was
		return fmt.Sprintf("live=%v/suicided=%v", was, sui)
	case "AddLog":
		m.cur.Logs++
		return ""
	case "AddRefund":
		m.cur.Refund += refAmt
		return ""
	case "Snapshot":
		m.snaps = append(m.snaps, m.cur)
		m.since = append(m.since, [nAddr + 1]bool{})
		return fmt.Sprintf("depth=%d", len(m.snaps))
	case "Revert":
		undone := m.since[o.X]
		eff := fmt.Sprintf("pos=%d/of=%d/changed=%v/undone=%v/over-pending=%v", o.X, len(m.snaps), m.snaps[o.X] != m.cur, undone != [nAddr + 1]bool{}, m.revertsOverPending(o.X))
		m.cur = m.snaps[o.X]
		for i, u := range undone {
			m.cur.Rev[i] = m.cur.Rev[i] || u
		}
		m.snaps, m.since = m.snaps[:o.X], m.since[:o.X]
		return eff
	case "IntermediateRoot":
		ns, rb := len(m.snaps), m.rolledBackOverPending()
		d := m.finalise()
		m.cur.IR = true
		return fmt.Sprintf("deleted=%d/snaps=%d/rollback-over-pending=%v", d, ns, rb)
	case "CommitReopen":
		ns, rb := len(m.snaps), m.rolledBackOverPending()
		d := m.finalise()
		m.cur.Logs = 0
		m.cur.IR = false
		return fmt.Sprintf("v%d/deleted=%d/snaps=%d/rollback-over-pending=%v", o.X, d, ns, rb)
	}
	core.Fatal("unknown statedb op %q", o.Op)
	return ""
}

// revertsOverPending: reverting to snapshot x rolls back a call on an account
// that already had a pending (surviving) change when the snapshot was taken.
func (m *sModel) revertsOverPending(x int) bool {
	for a := 0; a < nAddr; a++ {
		if m.since[x][a] && m.snaps[x].Touched[a] {
			return true
		}
	}
	return false
}

// rolledBackOverPending: some account has a pending change of the current
// transaction AND a later call on it was rolled back (the shape "modify A;
// Snapshot; modify A; RevertToSnapshot" followed by a finalisation).
func (m *sModel) rolledBackOverPending() bool {
	for a := 0; a < nAddr; a++ {
		if m.cur.Rev[a] && m.cur.Touched[a] {
			return true
		}
	}
	return false
}

func encState(b *bytes.Buffer, s *mState) {
	encAccts(b, &s.Live, &s.A)
	encAccts(b, &s.BaseLive, &s.Base)
	b.WriteByte(byte(s.Refund))
	b.WriteByte(byte(s.Logs))
	f := byte(0)
	for a := 0; a < nAddr; a++ {
		if s.Recreated[a] {
			f |= 1 << uint(a)
		}
		if s.Touched[a] {
			f |= 4 << uint(a)
		}
	}
	if s.Stale {
		f |= 0x80
	}
	if s.IR {
		f |= 0x40
	}
	b.WriteByte(f)
	f = 0
	for i, r := range s.Rev {
		if r {
			f |= 1 << uint(i)
		}
	}
	b.WriteByte(f)
}

func encAccts(b *bytes.Buffer, live *[nAddr]bool, accts *[nAddr]mAcct) {
	for a := 0; a < nAddr; a++ {
		if !live[a] {
			b.WriteByte(0xff)
			continue
		}
		ac := &accts[a]
		f := byte(0)
		if ac.Code {
			f |= 1
		}
		if ac.Suicided {
			f |= 2
		}
		b.WriteByte(f)
		b.WriteByte(byte(ac.Bal))
		b.WriteByte(byte(ac.Nonce))
		for i := 0; i < nSlot; i++ {
			b.WriteByte(byte(ac.Stor[i]<<4 | ac.Comm[i]))
		}
	}
}

type skey [12]byte

// key: canonical key of a StateDB state = everything the exported getters can
// observe now (accounts, storage, committed storage, suicide flags, refund,
// logs) plus the same for every live snapshot, i.e. everything they can observe
// after any sequence of reverts, plus history shape that getters cannot see
// (Base, Recreated, Stale, IR, Touched, Rev — see mState): pending-in-journal versus
// finalised versus committed-and-reopened states, and equal pending content
// over different finalised content, are explored separately.
func (m *sModel) key() skey {
	var b bytes.Buffer
	encState(&b, &m.cur)
	for i := range m.snaps {
		b.WriteByte(0xfe)
		encState(&b, &m.snaps[i])
	}
	h := sha256.Sum256(b.Bytes())
	var k skey
	copy(k[:], h[:])
	return k
}

// contentKey: accounts + storage only (what the root is a function of).
func (m *sModel) contentKey() string {
	var b bytes.Buffer
	for a := 0; a < nAddr; a++ {
		if !m.cur.Live[a] {
			b.WriteByte(0xff)
			continue
		}
		ac := &m.cur.A[a]
		fmt.Fprintf(&b, "%d/%d/%v/%v;", ac.Bal, ac.Nonce, ac.Code, ac.Stor)
	}
	return b.String()
}

// ------------------------------------------------------------------ observations

type acctObs struct {
	Exist, Empty, Suicided bool
	Balance                string
	Nonce                  uint64
	Code                   string
	CodeSize               int
	CodeHash               [32]byte
	State                  [nSlot][32]byte
	Committed              [nSlot][32]byte
}

type logObs struct {
	Addr  [20]byte
	Data  string
	Index uint
}

type sObs struct {
	A      [nAddr]acctObs
	Refund uint64
	Logs   []logObs
	DBErr  string
}

// diff names the first getter on which two observations differ.
func (x *sObs) diff(y *sObs) (getter, detail string) {
	for a := 0; a < nAddr; a++ {
		p, q := &x.A[a], &y.A[a]
		switch {
		case p.Exist != q.Exist:
			return "Exist", fmt.Sprintf("Exist(a%d) = %v vs %v", a, p.Exist, q.Exist)
		case p.Empty != q.Empty:
			return "Empty", fmt.Sprintf("Empty(a%d) = %v vs %v", a, p.Empty, q.Empty)
		case p.Suicided != q.Suicided:
			return "HasSuicided", fmt.Sprintf("HasSuicided(a%d) = %v vs %v", a, p.Suicided, q.Suicided)
		case p.Balance != q.Balance:
			return "GetBalance", fmt.Sprintf("GetBalance(a%d) = %s vs %s", a, p.Balance, q.Balance)
		case p.Nonce != q.Nonce:
			return "GetNonce", fmt.Sprintf("GetNonce(a%d) = %d vs %d", a, p.Nonce, q.Nonce)
		case p.Code != q.Code:
			return "GetCode", fmt.Sprintf("GetCode(a%d) = %x vs %x", a, p.Code, q.Code)
		case p.CodeSize != q.CodeSize:
			return "GetCodeSize", fmt.Sprintf("GetCodeSize(a%d) = %d vs %d", a, p.CodeSize, q.CodeSize)
		case p.CodeHash != q.CodeHash:
			return "GetCodeHash", fmt.Sprintf("GetCodeHash(a%d) = %x vs %x", a, p.CodeHash[:4], q.CodeHash[:4])
		}
		for s := 0; s < nSlot; s++ {
			if p.State[s] != q.State[s] {
				return "GetState", fmt.Sprintf("GetState(a%d,s%d) = %d vs %d", a, s, p.State[s][31], q.State[s][31])
			}
			if p.Committed[s] != q.Committed[s] {
				return "GetCommittedState", fmt.Sprintf("GetCommittedState(a%d,s%d) = %d vs %d", a, s, p.Committed[s][31], q.Committed[s][31])
			}
		}
	}
	if x.Refund != y.Refund {
		return "GetRefund", fmt.Sprintf("GetRefund() = %d vs %d", x.Refund, y.Refund)
	}
	if len(x.Logs) != len(y.Logs) {
		return "Logs", fmt.Sprintf("len(Logs()) = %d vs %d", len(x.Logs), len(y.Logs))
	}
	for i := range x.Logs {
		if x.Logs[i] != y.Logs[i] {
			return "Logs", fmt.Sprintf("Logs()[%d] = %+v vs %+v", i, x.Logs[i], y.Logs[i])
		}
	}
	return "", ""
}

func (m *sModel) obs() *sObs {
	o := &sObs{Refund: m.cur.Refund}
	for a := 0; a < nAddr; a++ {
		p := &o.A[a]
		p.Balance = "0"
		p.Empty = true
		if !m.cur.Live[a] {
			continue
		}
		ac := &m.cur.A[a]
		p.Exist, p.Empty, p.Suicided = true, ac.empty(), ac.Suicided
		p.Balance, p.Nonce = fmt.Sprint(ac.Bal), ac.Nonce
		p.CodeHash = emptyCodeHash
		if ac.Code {
			p.Code, p.CodeSize, p.CodeHash = string(theCode), len(theCode), theCodeHash
		}
		for s := 0; s < nSlot; s++ {
			p.State[s], p.Committed[s] = slotVals[ac.Stor[s]], slotVals[ac.Comm[s]]
		}
	}
	for i := 0; i < m.cur.Logs; i++ {
		o.Logs = append(o.Logs, logObs{Addr: sdbAddrs[0], Data: "\x01", Index: uint(i)})
	}
	return o
}

// refContent: what the state trie must hold for the model's content, computed
// with the reference trie and RLP directly (no StateDB involved): the state
// root, per live account its RLP encoding and storage root, per non-zero slot
// the RLP encoding stored in the storage trie.
type refContent struct {
	root  [32]byte
	acct  [nAddr][]byte // nil = absent
	sroot [nAddr][32]byte
	slot  [nAddr][nSlot][]byte // nil = absent
}

func (m *sModel) refContent() *refContent {
	type account struct {
		Nonce    uint64
		Balance  *big.Int
		Root     ucommon.Hash
		CodeHash []byte
	}
	rc := &refContent{}
	acc, err := utrie.NewSecure(ucommon.Hash{}, utrie.NewDatabase(uethdb.NewMemDatabase()), 0)
	if err != nil {
		core.Fatal("reference trie: %v", err)
	}
	for a := 0; a < nAddr; a++ {
		if !m.cur.Live[a] {
			continue
		}
		ac := &m.cur.A[a]
		st, _ := utrie.NewSecure(ucommon.Hash{}, utrie.NewDatabase(uethdb.NewMemDatabase()), 0)
		for s := 0; s < nSlot; s++ {
			if ac.Stor[s] != 0 {
				v := slotVals[ac.Stor[s]]
				enc, _ := urlp.EncodeToBytes(bytes.TrimLeft(v[:], "\x00"))
				st.Update(sdbSlots[s][:], enc)
				rc.slot[a][s] = enc
			}
		}
		ch := emptyCodeHash
		if ac.Code {
			ch = theCodeHash
		}
		rc.sroot[a] = st.Hash()
		enc, err := urlp.EncodeToBytes(&account{ac.Nonce, big.NewInt(ac.Bal), st.Hash(), ch[:]})
		if err != nil {
			core.Fatal("reference account encoding: %v", err)
		}
		acc.Update(sdbAddrs[a][:], enc)
		rc.acct[a] = enc
	}
	rc.root = acc.Hash()
	return rc
}

// refRoot: the state root the content must have.
func (m *sModel) refRoot() [32]byte { return m.refContent().root }

// ------------------------------------------------------------------ instances

type sdbInst struct {
	apply func(o sOp, snapIDs *[]int) (root [32]byte, hasRoot bool, err error)
	obs   func() *sObs
	// proofs as handed out by StateDB.GetProof(address) / GetStorageProof(address, slot)
	proof  func(a int) ([][]byte, error)
	sproof func(a, s int) ([][]byte, error)
	// several StateDBs over ONE state.Database (multi.go): sel makes handle h the
	// one apply/obs/proof work on; the ops Open (state.New at the root of the last
	// Commit, same Database: one more handle) and Commit (the handle keeps being
	// used) are understood by apply.
	sel func(h int)
}

func newInSDB() *sdbInst {
	disk := iethdb.NewMemDatabase()
	db := istate.NewDatabase(disk)
	s, err := istate.New(icommon.Hash{}, db)
	if err != nil {
		core.Fatal("in-tree state.New on an empty database: %v", err)
	}
	addr := func(i int) icommon.Address { return icommon.Address(sdbAddrs[i]) }
	hs, cur := []*istate.StateDB{s}, 0
	var lastRoot icommon.Hash // root of the last Commit (zero: nothing committed, the empty state)
	return &sdbInst{
		sel: func(h int) {
			hs[cur] = s
			cur, s = h, hs[h]
		},
		proof: func(a int) ([][]byte, error) { return s.GetProof(addr(a)) },
		sproof: func(a, i int) ([][]byte, error) {
			return s.GetStorageProof(addr(a), icommon.Hash(sdbSlots[i]))
		},
		apply: func(o sOp, ids *[]int) (root [32]byte, hasRoot bool, err error) {
			switch o.Op {
			case "AddBalance":
				s.AddBalance(addr(o.A), big.NewInt(int64(o.X)))
			case "SubBalance":
				s.SubBalance(addr(o.A), big.NewInt(int64(o.X)))
			case "SetNonce":
				s.SetNonce(addr(o.A), 1)
			case "SetCode":
				s.SetCode(addr(o.A), append([]byte(nil), theCode...))
			case "SetState":
				s.SetState(addr(o.A), icommon.Hash(sdbSlots[o.X]), icommon.Hash(slotVals[o.V]))
			case "Suicide":
				s.Suicide(addr(o.A))
			case "CreateAccount":
				s.CreateAccount(addr(o.A))
			case "AddLog":
				s.AddLog(&itypes.Log{Address: addr(0), Data: []byte{1}, BlockNumber: 1})
			case "AddRefund":
				s.AddRefund(refAmt)
			case "Snapshot":
				*ids = append(*ids, s.Snapshot())
			case "Revert":
				s.RevertToSnapshot((*ids)[o.X])
				*ids = (*ids)[:o.X]
			case "IntermediateRoot":
				*ids = nil
				return s.IntermediateRoot(true), true, nil
			case "Read":
				ad := addr(o.A)
				s.Exist(ad)
				s.GetBalance(ad)
				s.GetNonce(ad)
				s.GetState(ad, icommon.Hash(sdbSlots[0]))
			case "Open":
				ns, err := istate.New(lastRoot, db)
				if err != nil {
					return lastRoot, false, fmt.Errorf("state.New at the last committed root: %v", err)
				}
				hs = append(hs, ns)
			case "Commit":
				// the way a block is processed: the last transaction is finalised,
				// then the block is committed; the StateDB keeps being used
				*ids = nil
				s.IntermediateRoot(true)
				r, err := s.Commit(true)
				if err != nil {
					return r, true, fmt.Errorf("Commit: %v", err)
				}
				lastRoot = r
				return r, true, nil
			case "CommitReopen":
				*ids = nil
				r, err := s.Commit(true)
				if err != nil {
					return r, true, fmt.Errorf("Commit: %v", err)
				}
				lastRoot = r
				if o.X == 2 {
					if err := db.TrieDB().Commit(r, false); err != nil {
						return r, true, fmt.Errorf("TrieDB().Commit: %v", err)
					}
					db = istate.NewDatabase(disk)
				}
				ns, err := istate.New(r, db)
				if err != nil {
					return r, true, fmt.Errorf("state.New at the committed root: %v", err)
				}
				s = ns
				return r, true, nil
			}
			return
		},
		obs: func() *sObs {
			o := &sObs{Refund: s.GetRefund()}
			for a := 0; a < nAddr; a++ {
				p, ad := &o.A[a], addr(a)
				p.Exist, p.Empty, p.Suicided = s.Exist(ad), s.Empty(ad), s.HasSuicided(ad)
				p.Balance, p.Nonce = s.GetBalance(ad).String(), s.GetNonce(ad)
				p.Code, p.CodeSize, p.CodeHash = string(s.GetCode(ad)), s.GetCodeSize(ad), s.GetCodeHash(ad)
				for i := 0; i < nSlot; i++ {
					p.State[i] = s.GetState(ad, icommon.Hash(sdbSlots[i]))
					p.Committed[i] = s.GetCommittedState(ad, icommon.Hash(sdbSlots[i]))
				}
			}
			for _, l := range s.Logs() {
				o.Logs = append(o.Logs, logObs{Addr: l.Address, Data: string(l.Data), Index: l.Index})
			}
			if e := s.Error(); e != nil {
				o.DBErr = e.Error()
			}
			return o
		},
	}
}

func newUpSDB() *sdbInst {
	disk := uethdb.NewMemDatabase()
	db := ustate.NewDatabase(disk)
	s, err := ustate.New(ucommon.Hash{}, db)
	if err != nil {
		core.Fatal("reference state.New on an empty database: %v", err)
	}
	addr := func(i int) ucommon.Address { return ucommon.Address(sdbAddrs[i]) }
	hs, cur := []*ustate.StateDB{s}, 0
	var lastRoot ucommon.Hash // root of the last Commit (zero: nothing committed, the empty state)
	return &sdbInst{
		sel: func(h int) {
			hs[cur] = s
			cur, s = h, hs[h]
		},
		proof: func(a int) ([][]byte, error) { return s.GetProof(addr(a)) },
		sproof: func(a, i int) ([][]byte, error) {
			return s.GetStorageProof(addr(a), ucommon.Hash(sdbSlots[i]))
		},
		apply: func(o sOp, ids *[]int) (root [32]byte, hasRoot bool, err error) {
			switch o.Op {
			case "AddBalance":
				s.AddBalance(addr(o.A), big.NewInt(int64(o.X)))
			case "SubBalance":
				s.SubBalance(addr(o.A), big.NewInt(int64(o.X)))
			case "SetNonce":
				s.SetNonce(addr(o.A), 1)
			case "SetCode":
				s.SetCode(addr(o.A), append([]byte(nil), theCode...))
			case "SetState":
				s.SetState(addr(o.A), ucommon.Hash(sdbSlots[o.X]), ucommon.Hash(slotVals[o.V]))
			case "Suicide":
				s.Suicide(addr(o.A))
			case "CreateAccount":
				s.CreateAccount(addr(o.A))
			case "AddLog":
				s.AddLog(&utypes.Log{Address: addr(0), Data: []byte{1}, BlockNumber: 1})
			case "AddRefund":
				s.AddRefund(refAmt)
			case "Snapshot":
				*ids = append(*ids, s.Snapshot())
			case "Revert":
				s.RevertToSnapshot((*ids)[o.X])
				*ids = (*ids)[:o.X]
			case "IntermediateRoot":
				*ids = nil
				return s.IntermediateRoot(true), true, nil
			case "Read":
				ad := addr(o.A)
				s.Exist(ad)
				s.GetBalance(ad)
				s.GetNonce(ad)
				s.GetState(ad, ucommon.Hash(sdbSlots[0]))
			case "Open":
				ns, err := ustate.New(lastRoot, db)
				if err != nil {
					return lastRoot, false, err
				}
				hs = append(hs, ns)
			case "Commit":
				*ids = nil
				s.IntermediateRoot(true)
				r, err := s.Commit(true)
				if err != nil {
					return r, true, err
				}
				lastRoot = r
				return r, true, nil
			case "CommitReopen":
				*ids = nil
				r, err := s.Commit(true)
				if err != nil {
					return r, true, err
				}
				lastRoot = r
				if o.X == 2 {
					if err := db.TrieDB().Commit(r, false); err != nil {
						return r, true, err
					}
					db = ustate.NewDatabase(disk)
				}
				ns, err := ustate.New(r, db)
				if err != nil {
					return r, true, err
				}
				s = ns
				return r, true, nil
			}
			return
		},
		obs: func() *sObs {
			o := &sObs{Refund: s.GetRefund()}
			for a := 0; a < nAddr; a++ {
				p, ad := &o.A[a], addr(a)
				p.Exist, p.Empty, p.Suicided = s.Exist(ad), s.Empty(ad), s.HasSuicided(ad)
				p.Balance, p.Nonce = s.GetBalance(ad).String(), s.GetNonce(ad)
				p.Code, p.CodeSize, p.CodeHash = string(s.GetCode(ad)), s.GetCodeSize(ad), s.GetCodeHash(ad)
				for i := 0; i < nSlot; i++ {
					p.State[i] = s.GetState(ad, ucommon.Hash(sdbSlots[i]))
					p.Committed[i] = s.GetCommittedState(ad, ucommon.Hash(sdbSlots[i]))
				}
			}
			for _, l := range s.Logs() {
				o.Logs = append(o.Logs, logObs{Addr: l.Address, Data: string(l.Data), Index: l.Index})
			}
			if e := s.Error(); e != nil {
				o.DBErr = e.Error()
			}
			return o
		},
	}
}

// ------------------------------------------------------------------ one execution

type sdbRes struct {
	key     skey
	hasRoot bool
	ckey    string // content key after a root-bearing last op
	root    [32]byte
	class   string
	input   string
	viols   []viol
	// proofs (GetProof / GetStorageProof) judged after a root-bearing last op; deepProofs = those of >= 2 nodes
	proofs, deepProofs int
}

func (r *sdbRes) digest() string { return core.Hash(r.key, r.root, r.class, len(r.viols)) }

func sHistString(ops []sOp) string {
	s := ""
	for i, o := range ops {
		if i > 0 {
			s += " "
		}
		s += o.String()
	}
	return s
}

// modelAfter replays a history on the model only.
func modelAfter(ops []sOp) *sModel {
	m := &sModel{}
	for _, o := range ops {
		if !m.enabled(o) {
			core.Fatal("history %q contains a disabled op", sHistString(ops))
		}
		m.apply(o)
	}
	return m
}

// runSDB executes one history on a fresh in-tree StateDB and a fresh reference
// StateDB and evaluates the oracle after the last op (exploration and replay
// are the same execution).
func runSDB(ops []sOp) (res sdbRes) {
	m := &sModel{}
	last := sOp{Op: "none"}
	if len(ops) > 0 {
		last = ops[len(ops)-1]
	}
	bad := func(kind, getter, format string, a ...interface{}) {
		sig := map[string]string{"part": "statedb", "kind": kind, "op": last.Op, "input": m.inputClass()}
		if getter != "" {
			sig["getter"] = getter
		}
		if m.inputClass() != "plain" {
			// one input class with one cause: every symptom (stale root, stale
			// content after reopen, getters after reopen) is the same class
			sig = map[string]string{"part": "statedb", "input": m.inputClass()}
		}
		res.viols = append(res.viols, viol{sig: sig, detail: fmt.Sprintf("[statedb] after %q: ", sHistString(ops)) + fmt.Sprintf(format, a...)})
	}
	panicked, pv, stack := core.Try(func() {
		in, up := newInSDB(), newUpSDB()
		var inIDs, upIDs []int
		for i, o := range ops {
			isLast := i == len(ops)-1
			if !m.enabled(o) {
				core.Fatal("history %q contains a disabled op", sHistString(ops))
			}
			eff := m.apply(o)
			if isLast {
				res.class = o.Op + "|" + eff
			}
			r1, has, e1 := in.apply(o, &inIDs)
			r2, _, e2 := up.apply(o, &upIDs)
			if e2 != nil {
				core.Fatal("reference StateDB failed on %q: %v", sHistString(ops[:i+1]), e2)
			}
			if e1 != nil {
				if isLast {
					bad("reopen-error", "", "%v", e1)
				}
				return
			}
			if isLast && has {
				res.hasRoot, res.root, res.ckey = true, r1, m.contentKey()
				// The content-derived root (reference trie + RLP over the model's
				// content) is the authority; the reference StateDB is a second
				// witness wherever it agrees with it (it shares the CreateAccount
				// defect recorded in known_findings.txt, so on those histories it
				// is not a witness for anything).
				rr := m.refRoot()
				if r2 == rr && r1 != r2 {
					bad("root-differs-from-reference", "", "%s root %x, reference StateDB driven by the same history %x", o.Op, r1[:6], r2[:6])
				}
				if r1 != rr {
					bad("root-not-function-of-content", "", "%s root %x, root of the same account/storage content built directly with the reference trie %x (reference StateDB: %x)", o.Op, r1[:6], rr[:6], r2[:6])
				} else {
					res.proofs, res.deepProofs = checkSDBProofs(in, up, m, r1, r2 == rr, bad)
				}
			}
		}
		got, ref, want := in.obs(), up.obs(), m.obs()
		if rg, _ := ref.diff(want); rg == "" {
			if g, d := got.diff(ref); g != "" {
				bad("getter-differs-from-reference", g, "in-tree vs reference StateDB: %s", d)
			}
		}
		if g, d := got.diff(want); g != "" {
			kind := "getter-differs-from-model"
			switch last.Op {
			case "Revert":
				kind = "revert-not-exact"
			case "CommitReopen":
				kind = "reopen-content-differs"
			}
			rg, _ := ref.diff(want)
			bad(kind, g, "in-tree vs model: %s (reference StateDB agrees with the model: %v)", d, rg == "")
		}
	})
	if panicked {
		site := core.PanicSite(stack)
		if site == "unknown" {
			core.Fatal("panic outside the code under test in history %q: %v\n%s", sHistString(ops), pv, stack)
		}
		res.viols = append(res.viols, viol{
			sig:    map[string]string{"part": "statedb", "kind": "panic", "op": last.Op, "site": site, "input": m.inputClass()},
			detail: fmt.Sprintf("[statedb] after %q: panic in %s: %s", sHistString(ops), site, core.FirstLine(pv)),
		})
	}
	res.key, res.input = m.key(), m.inputClass()
	if len(ops) == 0 {
		res.class = "initial|"
	}
	return
}
