// C11 (a”) — value-size sweep: "values of every size".  For every set of 1–3
// keys out of the key pool of the part (plain trie: the 8 keys of trie.go with
// lengths 0, 1, 2 and 32 bytes and shared nibble prefixes of 0, 1, 3, 4 and 63
// nibbles; secure trie: the 6 keys of trie.go) and value sizes swept over a
// contiguous range, the trie is built on the real in-tree code and on upstream
// and the oracle of the property is evaluated.  The sweep makes node encodings
// of every length around the embed/hash boundary (RLP < 32 bytes: stored inside
// the parent; ≥ 32: replaced by its hash) occur for leaves, extension nodes and
// branch nodes; how many cases contain a non-root node of exactly 31 / 32 / 33
// bytes is MEASURED on the reference trie's node blobs and reported.
package main

import (
	"bytes"
	"fmt"

	urlp "github.com/ethereum/go-ethereum/rlp"

	"verif/core"
)

// Value spec: n > 0 = n bytes 0x85 (a single such byte is RLP-encoded in two
// bytes), -1 = the single byte 0x05 (RLP-encoded as itself), 0 = no value: the
// key is inserted (1 byte) and removed again before the root is taken.
func sweepValue(spec int) []byte {
	switch {
	case spec < 0:
		return []byte{0x05}
	case spec == 0:
		return nil
	}
	return bytes.Repeat([]byte{0x85}, spec)
}

// sweepSpecs: -1, 0..maxLen, and the sizes around the 55/56 boundary of the RLP
// string header (thorough: also around 255/256).
func sweepSpecs(quick bool) []int {
	hi, extra := 40, []int{54, 55, 56, 57}
	if !quick {
		hi, extra = 64, []int{254, 255, 256, 257}
	}
	s := []int{-1}
	for n := 0; n <= hi; n++ {
		s = append(s, n)
	}
	return append(s, extra...)
}

type sweepCase struct {
	keys []int
	vals []int
}

// sweepCases enumerates (in a fixed order):
//   - 1 key:  every spec;
//   - 2 keys: every pair of keys × the full product of specs;
//   - 3 keys: every triple of keys × { full product of the SMALL specs
//     (-1, 0..smallMax: the only sizes at which three nodes can be embedded
//     together) } ∪ { full product of all specs for the first two keys × third
//     key ∈ thirdSpecs } (duplicates removed).
func sweepCases(nkeys int, specs []int, smallMax int, thirdSpecs []int) []sweepCase {
	var out []sweepCase
	for a := 0; a < nkeys; a++ {
		for _, s := range specs {
			out = append(out, sweepCase{[]int{a}, []int{s}})
		}
	}
	for a := 0; a < nkeys; a++ {
		for b := a + 1; b < nkeys; b++ {
			for _, s := range specs {
				for _, t := range specs {
					out = append(out, sweepCase{[]int{a, b}, []int{s, t}})
				}
			}
		}
	}
	small := func(s int) bool { return s <= smallMax }
	isThird := func(s int) bool {
		for _, t := range thirdSpecs {
			if t == s {
				return true
			}
		}
		return false
	}
	for a := 0; a < nkeys; a++ {
		for b := a + 1; b < nkeys; b++ {
			for c := b + 1; c < nkeys; c++ {
				for _, s := range specs {
					for _, t := range specs {
						for _, u := range specs {
							if (small(s) && small(t) && small(u)) || isThird(u) {
								out = append(out, sweepCase{[]int{a, b, c}, []int{s, t, u}})
							}
						}
					}
				}
			}
		}
	}
	return out
}

// nodeSizes walks the node blobs of a committed trie (embedded nodes inside
// their parent's blob, hashed nodes through the node database) and reports
// kind and RLP length of every node.
func nodeSizes(node func(h [32]byte) ([]byte, error), blob []byte, root bool, visit func(kind string, size int, root bool)) {
	content, _, err := urlp.SplitList(blob)
	if err != nil {
		core.Fatal("reference node blob is not a list: %v", err)
	}
	n, _ := urlp.CountValues(content)
	child := func(item []byte, k urlp.Kind, c []byte) {
		switch {
		case k == urlp.List:
			nodeSizes(node, item, false, visit)
		case len(c) == 32:
			var h [32]byte
			copy(h[:], c)
			b, err := node(h)
			if err != nil || len(b) == 0 {
				core.Fatal("reference node %x missing in the node database: %v", h[:6], err)
			}
			nodeSizes(node, b, false, visit)
		}
	}
	switch n {
	case 2:
		_, key, rest, _ := urlp.Split(content)
		if len(key) > 0 && key[0]&0x20 != 0 {
			visit("leaf", len(blob), root)
			return
		}
		visit("extension", len(blob), root)
		k, c, rest2, _ := urlp.Split(rest)
		child(rest[:len(rest)-len(rest2)], k, c)
	case 17:
		visit("branch", len(blob), root)
		rest := content
		for i := 0; i < 16; i++ {
			k, c, r2, _ := urlp.Split(rest)
			child(rest[:len(rest)-len(r2)], k, c)
			rest = r2
		}
	default:
		core.Fatal("reference node blob with %d items", n)
	}
}

type sweepRes struct {
	root  [32]byte
	class string
	n     [3]bool         // the case has a non-root node of exactly 31 / 32 / 33 bytes
	kinds map[string]bool // "<kind>-<size>" for non-root nodes of 31..33 bytes
	viols []viol
}

func (r *sweepRes) digest() string { return core.Hash(r.root, r.class, len(r.viols)) }

func sweepString(d *trieDriver, k sweepCase) string {
	s := ""
	for i := range k.keys {
		if i > 0 {
			s += " "
		}
		switch {
		case k.vals[i] < 0:
			s += fmt.Sprintf("k%d=05", k.keys[i])
		case k.vals[i] == 0:
			s += fmt.Sprintf("k%d=<inserted,removed>", k.keys[i])
		default:
			s += fmt.Sprintf("k%d=%dB", k.keys[i], k.vals[i])
		}
	}
	return s
}

// runSweep: one case = one content, two histories.
//
//	H1: insert the keys in order (a key with "no value" is inserted with one
//	    byte), remove the "no value" keys, Hash; then Get / Prove→VerifyProof
//	    (both verifiers) for every key of the case, Commit, flush, reopen over a
//	    brand-new node database, Get again, Hash again.
//	H2: fresh trie: insert the keys in reverse order with a 33-byte value each,
//	    Commit, then overwrite / remove in reverse order; Hash.
//
// Oracle: H1 root = reference root (upstream trie driven through H1) = H2 root
// = root after reopen; every Get = content; every proof verifies and yields the
// content.
func (d *trieDriver) runSweep(k sweepCase) (res sweepRes) {
	part := d.part + "-sweep"
	res.kinds = map[string]bool{}
	shape := "unknown"
	bad := func(kind, format string, a ...interface{}) {
		res.viols = append(res.viols, viol{
			sig:    map[string]string{"part": part, "kind": kind, "shape": shape},
			detail: fmt.Sprintf("[%s] %s: ", part, sweepString(d, k)) + fmt.Sprintf(format, a...),
		})
	}
	want := make([][]byte, len(k.keys))
	for i, s := range k.vals {
		want[i] = sweepValue(s)
	}
	// reference first: it also names the shape of the case
	up := newUpTrie(d.secure)
	build := func(t *trieInst) error {
		for i, key := range k.keys {
			v := want[i]
			if v == nil {
				v = []byte{0x05}
			}
			if err := t.update(d.keys[key], v); err != nil {
				return fmt.Errorf("TryUpdate(k%d, %s): %v", key, short(v), err)
			}
		}
		for i, key := range k.keys {
			if want[i] == nil {
				if err := t.del(d.keys[key]); err != nil {
					return fmt.Errorf("TryDelete(k%d): %v", key, err)
				}
			}
		}
		return nil
	}
	if err := build(up); err != nil {
		core.Fatal("reference trie failed on %s: %v", sweepString(d, k), err)
	}
	ur, err := up.commit()
	if err != nil {
		core.Fatal("reference trie commit failed on %s: %v", sweepString(d, k), err)
	}
	entries := 0
	for _, w := range want {
		if w != nil {
			entries++
		}
	}
	if entries > 0 {
		blob, err := up.node(ur)
		if err != nil {
			core.Fatal("reference root node missing: %v", err)
		}
		nodeSizes(up.node, blob, true, func(kind string, size int, root bool) {
			if !root && size >= 31 && size <= 33 {
				res.n[size-31] = true
				res.kinds[fmt.Sprintf("%s-%d", kind, size)] = true
			}
		})
	}
	shape = "no-node-of-exactly-32-bytes"
	if res.n[1] {
		shape = "has-node-of-exactly-32-bytes"
	}
	res.class = fmt.Sprintf("%d-keys/%d-entries/%s", len(k.keys), entries, shape)

	panicked, pv, stack := core.Try(func() {
		in := newInTrie(d.secure)
		if err := build(in); err != nil {
			bad("op-error", "%v", err)
			return
		}
		r1 := in.hash()
		res.root = r1
		if r1 != ur {
			bad("root-differs-from-reference", "Hash() = %x, reference trie driven by the same history %x", r1[:6], ur[:6])
		}
		check := func(when string) {
			for i, key := range k.keys {
				v, err := in.get(d.keys[key])
				if err != nil || !bytes.Equal(v, want[i]) {
					bad("get-mismatch", "%s: Get(k%d) = %s, %v; content has %s", when, key, short(v), err, short(want[i]))
				}
			}
		}
		check("after the updates")
		if entries > 0 {
			for i, key := range k.keys {
				pm := newProofMap()
				path := d.path(d.keys[key])
				if err := in.prove(path, pm); err != nil {
					bad("proof-error", "Prove(k%d) returned %v", key, err)
					continue
				}
				v1, e1 := verifyIn(r1, path, pm)
				v2, e2 := verifyUp(r1, path, pm)
				switch {
				case e1 != nil:
					bad("proof-rejected", "Prove(k%d) → VerifyProof against root %x fails: %v", key, r1[:6], e1)
				case !bytes.Equal(v1, want[i]):
					bad("proof-wrong-value", "Prove(k%d) → VerifyProof yields %s, content has %s", key, short(v1), short(want[i]))
				case e2 != nil || !bytes.Equal(v2, want[i]):
					bad("proof-rejected-by-reference-verifier", "proof for k%d verified by the reference VerifyProof: %s, %v; content has %s", key, short(v2), e2, short(want[i]))
				default:
					um := newProofMap()
					if err := up.prove(path, um); err != nil {
						core.Fatal("reference trie Prove failed: %v", err)
					}
					if !sameProof(pm, um) {
						bad("proof-differs-from-reference", "Prove(k%d): %d proof nodes, the reference trie driven by the same history gives %d (or a node differs)", key, len(pm.m), len(um.m))
					}
				}
			}
		}
		r2, err := in.reopen(3)
		if err != nil {
			bad("reopen-error", "commit + reopen over a new node database failed: %v", err)
			return
		}
		if r2 != r1 {
			bad("root-changed-by-commit", "Hash() = %x, Commit() = %x", r1[:6], r2[:6])
		}
		check("after commit + reopen")
		if r3 := in.hash(); r3 != r1 {
			bad("reopen-content-differs", "root %x before commit, %x after reopen", r1[:6], r3[:6])
		}
		// second history, same content
		h2 := newInTrie(d.secure)
		filler := bytes.Repeat([]byte{0x21}, 33)
		for i := len(k.keys) - 1; i >= 0; i-- {
			h2.update(d.keys[k.keys[i]], filler)
		}
		h2.commit()
		for i := len(k.keys) - 1; i >= 0; i-- {
			if want[i] == nil {
				h2.update(d.keys[k.keys[i]], nil)
			} else {
				h2.update(d.keys[k.keys[i]], want[i])
			}
		}
		if r4 := h2.hash(); r4 != r1 {
			bad("root-history-dependent", "root %x, another history (reverse order, 33-byte values committed first, then overwritten) ending in the same content %x", r1[:6], r4[:6])
		}
	})
	if panicked {
		site := core.PanicSite(stack)
		if site == "unknown" {
			core.Fatal("panic outside the code under test in sweep case %s: %v\n%s", sweepString(d, k), pv, stack)
		}
		res.viols = append(res.viols, viol{
			sig:    map[string]string{"part": part, "kind": "panic", "site": site, "shape": shape},
			detail: fmt.Sprintf("[%s] %s: panic in %s: %s", part, sweepString(d, k), site, core.FirstLine(pv)),
		})
	}
	return
}

type sweepStats struct {
	Cases    int            `json:"cases"`
	Keys     int            `json:"key_pool"`
	Specs    []int          `json:"value_sizes_swept"`
	SmallMax int            `json:"triple_full_product_up_to_size"`
	Third    []int          `json:"triple_third_key_sizes"`
	N31      int            `json:"cases_with_non_root_node_of_exactly_31_bytes"`
	N32      int            `json:"cases_with_non_root_node_of_exactly_32_bytes"`
	N33      int            `json:"cases_with_non_root_node_of_exactly_33_bytes"`
	Kinds    map[string]int `json:"cases_by_boundary_node_kind_and_size"`
	Roots    int            `json:"distinct_roots"`
}

func (c *ctx) exploreSweep(d *trieDriver, quick bool, smallMax int, third []int) sweepStats {
	specs := sweepSpecs(quick)
	cases := sweepCases(len(d.keys), specs, smallMax, third)
	st := sweepStats{Cases: len(cases), Keys: len(d.keys), Specs: specs, SmallMax: smallMax, Third: third, Kinds: map[string]int{}}
	roots := map[[32]byte]bool{}
	part := d.part + "-sweep"
	const chunk = 8192
	for lo := 0; lo < len(cases); lo += chunk {
		hi := lo + chunk
		if hi > len(cases) {
			hi = len(cases)
		}
		results := make([]sweepRes, hi-lo)
		core.Par(hi-lo, func(i int) { results[i] = d.runSweep(cases[lo+i]) })
		for i := range results {
			r, k := &results[i], cases[lo+i]
			c.nth++
			if len(r.viols) > 0 || c.nth%50021 == 1 {
				ks := kase{Part: part, History: sweepString(d, k), SKeys: k.keys, SVals: k.vals}
				if len(r.viols) > 0 {
					c.report(ks, r.viols)
				}
				if c.nth%50021 == 1 {
					c.samples.Add(ks)
				}
			}
			c.classes.Add(part + ":" + r.class)
			c.coarse.Add(part + ":" + r.class)
			roots[r.root] = true
			if r.n[0] {
				st.N31++
			}
			if r.n[1] {
				st.N32++
			}
			if r.n[2] {
				st.N33++
			}
			for kd := range r.kinds {
				st.Kinds[kd]++
			}
		}
	}
	st.Roots = len(roots)
	return st
}
