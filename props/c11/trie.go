// C11 (a) — Merkle Patricia trie: the root is a function of the content alone,
// equals the reference implementation's root, commit+reopen reproduces the
// content, proofs verify.  Explicit-state BFS over operation histories on the
// real in-tree trie, differential against upstream go-ethereum v1.8.27.
package main

import (
	"bytes"
	"errors"
	"fmt"
	"sort"
	"sync"

	icommon "github.com/dappledger/AnnChain/eth/common"
	iethdb "github.com/dappledger/AnnChain/eth/ethdb"
	itrie "github.com/dappledger/AnnChain/eth/trie"

	ucommon "github.com/ethereum/go-ethereum/common"
	ucrypto "github.com/ethereum/go-ethereum/crypto"
	uethdb "github.com/ethereum/go-ethereum/ethdb"
	utrie "github.com/ethereum/go-ethereum/trie"

	"verif/core"
)

// ------------------------------------------------------------------ key sets

// plainKeys: 8 keys whose hex-nibble forms share prefixes of length 0, 1, 3, 4
// and 63: the empty key is a strict nibble-prefix of everything (value slot of
// the root branch), "1235" is a strict prefix of the two 32-byte keys (value
// slot of an inner branch), "1234"/"1235"/"1236" meet in a three-way branch,
// "1300" leaves after one shared nibble, "2f" shares nothing, and the two
// 32-byte keys differ in their last nibble only (63-nibble extension above two
// leaves that are embedded when the values are small).
func plainKeys() [][]byte {
	long := func(last byte) []byte {
		k := append([]byte{0x12, 0x35}, bytes.Repeat([]byte{0xab}, 29)...)
		return append(k, last)
	}
	return [][]byte{
		{},
		{0x2f},
		{0x13, 0x00},
		{0x12, 0x34},
		{0x12, 0x35},
		{0x12, 0x36},
		long(0x01),
		long(0x02),
	}
}

func nibbleLCP(a, b []byte) int {
	n := 0
	for i := 0; i < len(a) && i < len(b); i++ {
		if a[i]>>4 != b[i]>>4 {
			return n
		}
		n++
		if a[i]&15 != b[i]&15 {
			return n
		}
		n++
	}
	return n
}

// secureKeys: the two 32-byte keys plus four 32-byte keys found by a fixed
// search so that the keccak images (the paths really used by a SecureTrie) share
// exactly 1, 2 and 3 nibbles with the image of the first key, and one that
// shares nothing with either (so the root branch has at least three children).
func secureKeys() [][]byte {
	pk := plainKeys()
	ks := [][]byte{pk[6], pk[7]}
	h0 := ucrypto.Keccak256(pk[6])
	h1 := ucrypto.Keccak256(pk[7])
	want := []func(h []byte) bool{
		func(h []byte) bool { return nibbleLCP(h, h0) == 1 },
		func(h []byte) bool { return nibbleLCP(h, h0) == 2 },
		func(h []byte) bool { return nibbleLCP(h, h0) == 3 },
		func(h []byte) bool { return nibbleLCP(h, h1) == 0 && nibbleLCP(h, h0) == 0 },
	}
	for _, ok := range want {
		found := false
		for ctr := 0; ctr < 1<<20 && !found; ctr++ {
			c := bytes.Repeat([]byte{0xee}, 32)
			c[29], c[30], c[31] = byte(ctr>>16), byte(ctr>>8), byte(ctr)
			if ok(ucrypto.Keccak256(c)) {
				dup := false
				for _, k := range ks {
					dup = dup || bytes.Equal(k, c)
				}
				if !dup {
					ks = append(ks, c)
					found = true
				}
			}
		}
		if !found {
			core.Fatal("secure key search failed")
		}
	}
	return ks
}

// values: index 0 = absent; 1 byte (embedded leaf), 31 bytes (RLP 32 → hashed), 33 bytes.
var trieVals = [][]byte{nil, {0x05}, bytes.Repeat([]byte{0x1f}, 31), bytes.Repeat([]byte{0x21}, 33)}

// ------------------------------------------------------------------ proof set

// proofMap is the sink handed to Prove.  Put RETAINS the value slice it is
// given (only the key is copied): that is what the list behind
// StateDB.GetProof / GetStorageProof does, so a proof node must stay intact
// after it has been handed over — while the rest of the proof is produced and
// afterwards.
type proofMap struct{ m map[string][]byte }

func newProofMap() *proofMap { return &proofMap{m: map[string][]byte{}} }
func (p *proofMap) Put(k, v []byte) error {
	p.m[string(k)] = v
	return nil
}

// sameProof: the two proofs consist of the same nodes under the same hashes.
func sameProof(a, b *proofMap) bool {
	if len(a.m) != len(b.m) {
		return false
	}
	for k, v := range a.m {
		if w, ok := b.m[k]; !ok || !bytes.Equal(v, w) {
			return false
		}
	}
	return true
}
func (p *proofMap) Get(k []byte) ([]byte, error) {
	v, ok := p.m[string(k)]
	if !ok {
		return nil, errors.New("not found")
	}
	return v, nil
}
func (p *proofMap) Has(k []byte) (bool, error) { _, ok := p.m[string(k)]; return ok, nil }

// ------------------------------------------------------------------ instances

type kv struct{ k, v []byte }

// trieInst is one live trie (in-tree or reference, plain or secure).
type trieInst struct {
	update func(k, v []byte) error
	del    func(k []byte) error
	get    func(k []byte) ([]byte, error)
	hash   func() [32]byte
	commit func() ([32]byte, error)
	reopen func(variant int) ([32]byte, error)
	prove  func(k []byte, into *proofMap) error
	leaves func() ([]kv, error)
	// fork: a second live trie made the way users of the package copy a trie
	// (plain trie: value copy `c := *t`, as state.Database.CopyTrie /
	// SecureTrie.Copy do underneath; secure trie: SecureTrie.Copy()); both share
	// the node database and, copy-on-write, every node resident at that moment.
	fork func() *trieInst
	// node: the RLP blob of a hashed node from the node database (dirty cache or disk).
	node func(h [32]byte) ([]byte, error)
}

const secureCacheLimit = 1

type inT interface {
	TryGet(key []byte) ([]byte, error)
	TryUpdate(key, value []byte) error
	TryDelete(key []byte) error
	Hash() icommon.Hash
	Commit(onleaf itrie.LeafCallback) (icommon.Hash, error)
	Prove(key []byte, fromLevel uint, proofDb iethdb.Putter) error
	NodeIterator(start []byte) itrie.NodeIterator
}

func newInTrie(secure bool) *trieInst {
	disk := iethdb.NewMemDatabase()
	db := itrie.NewDatabase(disk)
	inst, err := mkInTrie(secure, disk, db, nil)
	if err != nil {
		core.Fatal("cannot create empty in-tree trie: %v", err)
	}
	return inst
}

func mkInTrie(secure bool, disk *iethdb.MemDatabase, db *itrie.Database, t inT) (*trieInst, error) {
	open := func(root icommon.Hash) error {
		if secure {
			st, err := itrie.NewSecure(root, db, secureCacheLimit)
			if err != nil {
				return err
			}
			t = st
			return nil
		}
		pt, err := itrie.New(root, db)
		if err != nil {
			return err
		}
		t = pt
		return nil
	}
	if t == nil {
		if err := open(icommon.Hash{}); err != nil {
			return nil, err
		}
	}
	inst := &trieInst{
		fork: func() *trieInst {
			var c inT
			if secure {
				c = t.(*itrie.SecureTrie).Copy()
			} else {
				cp := *(t.(*itrie.Trie))
				c = &cp
			}
			f, _ := mkInTrie(secure, disk, db, c)
			return f
		},
		node:   func(h [32]byte) ([]byte, error) { return db.Node(icommon.Hash(h)) },
		update: func(k, v []byte) error { return t.TryUpdate(k, v) },
		del:    func(k []byte) error { return t.TryDelete(k) },
		get:    func(k []byte) ([]byte, error) { return t.TryGet(k) },
		hash:   func() [32]byte { return t.Hash() },
		commit: func() ([32]byte, error) { r, err := t.Commit(nil); return r, err },
		reopen: func(variant int) ([32]byte, error) {
			root, err := t.Commit(nil)
			if err != nil {
				return root, fmt.Errorf("commit: %v", err)
			}
			if variant >= 2 {
				if err := db.Commit(root, false); err != nil {
					return root, fmt.Errorf("database commit: %v", err)
				}
			}
			if variant == 3 {
				db = itrie.NewDatabase(disk)
			}
			if err := open(root); err != nil {
				return root, fmt.Errorf("open at committed root: %v", err)
			}
			return root, nil
		},
		prove: func(k []byte, into *proofMap) error { return t.Prove(k, 0, into) },
		leaves: func() ([]kv, error) {
			var out []kv
			it := itrie.NewIterator(t.NodeIterator(nil))
			for it.Next() {
				out = append(out, kv{append([]byte(nil), it.Key...), append([]byte(nil), it.Value...)})
			}
			return out, it.Err
		},
	}
	return inst, nil
}

type upT interface {
	TryGet(key []byte) ([]byte, error)
	TryUpdate(key, value []byte) error
	TryDelete(key []byte) error
	Hash() ucommon.Hash
	Commit(onleaf utrie.LeafCallback) (ucommon.Hash, error)
	Prove(key []byte, fromLevel uint, proofDb uethdb.Putter) error
	NodeIterator(start []byte) utrie.NodeIterator
}

func newUpTrie(secure bool) *trieInst {
	disk := uethdb.NewMemDatabase()
	db := utrie.NewDatabase(disk)
	inst, err := mkUpTrie(secure, disk, db, nil)
	if err != nil {
		core.Fatal("cannot create empty reference trie: %v", err)
	}
	return inst
}

func mkUpTrie(secure bool, disk *uethdb.MemDatabase, db *utrie.Database, t upT) (*trieInst, error) {
	open := func(root ucommon.Hash) error {
		if secure {
			st, err := utrie.NewSecure(root, db, secureCacheLimit)
			if err != nil {
				return err
			}
			t = st
			return nil
		}
		pt, err := utrie.New(root, db)
		if err != nil {
			return err
		}
		t = pt
		return nil
	}
	if t == nil {
		if err := open(ucommon.Hash{}); err != nil {
			return nil, err
		}
	}
	inst := &trieInst{
		fork: func() *trieInst {
			var c upT
			if secure {
				c = t.(*utrie.SecureTrie).Copy()
			} else {
				cp := *(t.(*utrie.Trie))
				c = &cp
			}
			f, _ := mkUpTrie(secure, disk, db, c)
			return f
		},
		node:   func(h [32]byte) ([]byte, error) { return db.Node(ucommon.Hash(h)) },
		update: func(k, v []byte) error { return t.TryUpdate(k, v) },
		del:    func(k []byte) error { return t.TryDelete(k) },
		get:    func(k []byte) ([]byte, error) { return t.TryGet(k) },
		hash:   func() [32]byte { return t.Hash() },
		commit: func() ([32]byte, error) { r, err := t.Commit(nil); return r, err },
		reopen: func(variant int) ([32]byte, error) {
			root, err := t.Commit(nil)
			if err != nil {
				return root, err
			}
			if variant >= 2 {
				if err := db.Commit(root, false); err != nil {
					return root, err
				}
			}
			if variant == 3 {
				db = utrie.NewDatabase(disk)
			}
			return root, open(root)
		},
		prove: func(k []byte, into *proofMap) error { return t.Prove(k, 0, into) },
		leaves: func() ([]kv, error) {
			var out []kv
			it := utrie.NewIterator(t.NodeIterator(nil))
			for it.Next() {
				out = append(out, kv{append([]byte(nil), it.Key...), append([]byte(nil), it.Value...)})
			}
			return out, it.Err
		},
	}
	return inst, nil
}

func verifyIn(root [32]byte, path []byte, p *proofMap) ([]byte, error) {
	v, _, err := itrie.VerifyProof(icommon.Hash(root), path, p)
	return v, err
}

func verifyUp(root [32]byte, path []byte, p *proofMap) ([]byte, error) {
	v, _, err := utrie.VerifyProof(ucommon.Hash(root), path, p)
	return v, err
}

// ------------------------------------------------------------------ ops / model

type tOp struct {
	Op string `json:"op"` // update | updempty | delete | get | prove | hash | commit | reopen
	K  int    `json:"k"`
	V  int    `json:"v"` // value index for update, variant for reopen
}

func (o tOp) String() string {
	switch o.Op {
	case "update":
		return fmt.Sprintf("update(k%d,v%d)", o.K, o.V)
	case "reopen":
		return fmt.Sprintf("reopen%d", o.V)
	case "hash", "commit":
		return o.Op
	}
	return fmt.Sprintf("%s(k%d)", o.Op, o.K)
}

func trieAlphabet(nkeys int) []tOp {
	var a []tOp
	for k := 0; k < nkeys; k++ {
		for v := 1; v < len(trieVals); v++ {
			a = append(a, tOp{"update", k, v})
		}
	}
	for k := 0; k < nkeys; k++ {
		a = append(a, tOp{"delete", k, 0})
	}
	for k := 0; k < nkeys; k++ {
		a = append(a, tOp{"updempty", k, 0}) // Update with an empty value = delete
	}
	for k := 0; k < nkeys; k++ {
		a = append(a, tOp{"get", k, 0})
	}
	for k := 0; k < nkeys; k++ {
		a = append(a, tOp{"prove", k, 0})
	}
	a = append(a, tOp{"hash", 0, 0}, tOp{"commit", 0, 0}, tOp{"reopen", 0, 1}, tOp{"reopen", 0, 2}, tOp{"reopen", 0, 3})
	return a
}

// Canonical key of a trie state = content (value index per key) + residency
// mode.  base: 0 never committed, 1 committed (live nodes), 2 reopened over the
// same node database, 3 reopened after flushing the node database to disk, 4
// reopened over a brand-new node database; phase: 0 unchanged since base, 1
// changed, 2 changed and hashed.  Two histories with the same key hold the same
// content; whatever else differs (which nodes are resident, cached hashes) is
// not content, and the merge oracle demands equal roots for equal content.
type tState struct {
	content []int
	base    int
	phase   int
	coarse  bool // quick tier: the three reopen variants share one residency class and "hashed" counts as "dirty"
}

func (s *tState) contentKey() uint32 {
	var k uint32
	for i, v := range s.content {
		k |= uint32(v) << (2 * uint(i))
	}
	return k
}
func (s *tState) key() uint32 {
	if s.coarse {
		if s.base > 2 {
			s.base = 2
		}
		if s.phase > 1 {
			s.phase = 1
		}
	}
	return s.contentKey() | uint32(s.base)<<16 | uint32(s.phase)<<20
}

func (s *tState) modeName() string {
	if s.coarse {
		s.key()
		return [...]string{"new", "committed", "reopened"}[s.base] + "/" + [...]string{"clean", "dirty"}[s.phase]
	}
	return [...]string{"new", "committed", "reopen1", "reopen2", "reopen3"}[s.base] + "/" + [...]string{"clean", "dirty", "hashed"}[s.phase]
}

// apply updates the model and returns the effect class of the op.
func (s *tState) apply(o tOp) string {
	switch o.Op {
	case "update":
		old := s.content[o.K]
		s.content[o.K] = o.V
		switch {
		case old == o.V:
			return "same-value"
		case old == 0:
			s.phase = 1
			return "insert"
		default:
			s.phase = 1
			return fmt.Sprintf("overwrite-v%d-by-v%d", old, o.V)
		}
	case "delete", "updempty":
		old := s.content[o.K]
		s.content[o.K] = 0
		if old == 0 {
			return "absent"
		}
		s.phase = 1
		return "present"
	case "get", "prove":
		if s.content[o.K] == 0 {
			return "absent"
		}
		return fmt.Sprintf("present-v%d", s.content[o.K])
	case "hash":
		if s.phase == 1 {
			s.phase = 2
			return "dirty"
		}
		return "nothing-to-do"
	case "commit":
		eff := [...]string{"clean", "dirty", "hashed"}[s.phase]
		s.base, s.phase = 1, 0
		return eff
	case "reopen":
		eff := [...]string{"clean", "dirty", "hashed"}[s.phase]
		s.base, s.phase = 1+o.V, 0
		return eff
	}
	core.Fatal("unknown trie op %q", o.Op)
	return ""
}

// ------------------------------------------------------------------ one execution

type viol struct {
	sig    map[string]string
	detail string
}

type trieRes struct {
	key   uint32
	ckey  uint32
	root  [32]byte
	uroot [32]byte // reference root for the same content
	class string
	shape string
	viols []viol
}

func (r *trieRes) digest() string { return core.Hash(r.key, r.root, r.class, r.shape, len(r.viols)) }

func stateOfKey(key uint32, nkeys int, coarse bool) *tState {
	s := &tState{content: make([]int, nkeys), base: int(key >> 16 & 15), phase: int(key >> 20 & 15), coarse: coarse}
	for i := range s.content {
		s.content[i] = int(key >> (2 * uint(i)) & 3)
	}
	return s
}

type trieDriver struct {
	part   string // "trie" | "securetrie"
	secure bool
	coarse bool
	keys   [][]byte
	alpha  []tOp
	fresh  sync.Map // content key -> [32]byte root of a freshly built in-tree trie
}

// newTrieDriver: coarse selects the coarse residency classes; fullAlphabet
// includes update(k, empty) next to delete(k) (same code path underneath).
func newTrieDriver(part string, coarse, fullAlphabet bool) *trieDriver {
	d := &trieDriver{part: part, secure: part == "securetrie", coarse: coarse}
	if d.secure {
		d.keys = secureKeys()
	} else {
		d.keys = plainKeys()
	}
	for _, o := range trieAlphabet(len(d.keys)) {
		if o.Op != "updempty" || fullAlphabet {
			d.alpha = append(d.alpha, o)
		}
	}
	return d
}

// path of a key inside the trie (what VerifyProof and the leaf iterator see).
func (d *trieDriver) path(k []byte) []byte {
	if d.secure {
		return ucrypto.Keccak256(k)
	}
	return k
}

// freshRoot builds a brand-new in-tree trie from the content by sorted
// insertion and returns its root (history-independence reference).
func (d *trieDriver) freshRoot(s *tState) [32]byte {
	ck := s.contentKey()
	if r, ok := d.fresh.Load(ck); ok {
		return r.([32]byte)
	}
	type pair struct{ k, v []byte }
	var ps []pair
	for i, v := range s.content {
		if v != 0 {
			ps = append(ps, pair{d.keys[i], trieVals[v]})
		}
	}
	sort.Slice(ps, func(i, j int) bool { return bytes.Compare(ps[i].k, ps[j].k) < 0 })
	t := newInTrie(d.secure)
	for _, p := range ps {
		if err := t.update(p.k, p.v); err != nil {
			core.Fatal("fresh trie update failed: %v", err)
		}
	}
	r := t.hash()
	d.fresh.Store(ck, r)
	return r
}

func short(b []byte) string {
	if b == nil {
		return "<nil>"
	}
	if len(b) > 6 {
		return fmt.Sprintf("%x…(%dB)", b[:3], len(b))
	}
	return fmt.Sprintf("%x", b)
}

func histString(ops []tOp) string {
	s := ""
	for i, o := range ops {
		if i > 0 {
			s += " "
		}
		s += o.String()
	}
	return s
}

// run executes one history on a fresh instance of the in-tree trie and a fresh
// instance of the reference trie and evaluates the op-level oracle of the last
// op and the state oracle of the state reached.  It is the only code path
// (exploration and replay are the same execution).
//
// heavy selects the full state oracle (proofs for every key through both
// verifiers, leaf iteration, root stability under reads); the light oracle
// (root against the reference and against a fresh trie, every Get) is
// evaluated on every execution.  The explorer asks for the heavy oracle on
// every execution that discovers a new canonical state.
//
// refRoot, when not nil, is the root the reference trie produced earlier for
// the same final content (on the history that discovered that content); the
// reference instance is then not driven again and the in-tree root is compared
// with *refRoot.  Replay always passes nil (drives the reference itself).
func (d *trieDriver) run(ops []tOp, heavy bool, refRoot *[32]byte) (res trieRes) {
	st := &tState{content: make([]int, len(d.keys)), coarse: d.coarse}
	lastKind := "none"
	if len(ops) > 0 {
		lastKind = ops[len(ops)-1].Op
	}
	bad := func(kind, format string, a ...interface{}) {
		res.viols = append(res.viols, viol{
			sig:    map[string]string{"part": d.part, "kind": kind, "op": lastKind},
			detail: fmt.Sprintf("[%s] after %q: ", d.part, histString(ops)) + fmt.Sprintf(format, a...),
		})
	}
	var in, up *trieInst
	panicked, pv, stack := core.Try(func() {
		in = newInTrie(d.secure)
		if refRoot == nil {
			up = newUpTrie(d.secure)
		}
		ref := func(r [32]byte, err error) [32]byte { // reference root at the last op
			if err != nil {
				core.Fatal("reference trie failed on %q: %v", histString(ops), err)
			}
			return r
		}
		for i, o := range ops {
			last := i == len(ops)-1
			want := trieVals[st.content[o.K]] // value before the op (for get/prove)
			modeBefore := st.modeName()
			eff := st.apply(o)
			if last {
				res.class = o.Op + "|" + modeBefore + "|" + eff
			}
			key := d.keys[o.K]
			switch o.Op {
			case "update", "updempty":
				val := trieVals[o.V]
				if o.Op == "updempty" {
					val = nil
				}
				if up != nil {
					if e2 := up.update(key, val); e2 != nil {
						core.Fatal("reference trie update failed: %v", e2)
					}
				}
				if e1 := in.update(key, val); e1 != nil && last {
					bad("op-error", "TryUpdate(k%d, %s) returned %v", o.K, short(val), e1)
				}
			case "delete":
				if up != nil {
					if e2 := up.del(key); e2 != nil {
						core.Fatal("reference trie delete failed: %v", e2)
					}
				}
				if e1 := in.del(key); e1 != nil && last {
					bad("op-error", "TryDelete(k%d) returned %v", o.K, e1)
				}
			case "get":
				if up != nil {
					if v2, e2 := up.get(key); e2 != nil || !bytes.Equal(v2, want) {
						core.Fatal("reference trie get disagrees with the content map: %x %v", v2, e2)
					}
				}
				if v1, e1 := in.get(key); last && (e1 != nil || !bytes.Equal(v1, want)) {
					bad("get-mismatch", "Get(k%d) = %s, %v; content has %s", o.K, short(v1), e1, short(want))
				}
			case "prove":
				if up != nil {
					up.prove(d.path(key), newProofMap())
				}
				if last {
					d.checkProof(in, nil, st, o.K, bad)
				} else {
					in.prove(d.path(key), newProofMap())
				}
			case "hash":
				r1 := in.hash()
				if up != nil {
					if r2 := up.hash(); last && r1 != r2 {
						bad("root-differs-from-reference", "Hash() = %x, reference %x", r1[:6], r2[:6])
					}
				} else if last && r1 != *refRoot {
					bad("root-differs-from-reference", "Hash() = %x, reference %x", r1[:6], refRoot[:6])
				}
			case "commit", "reopen":
				var r1, r2 [32]byte
				var e1 error
				if o.Op == "commit" {
					r1, e1 = in.commit()
				} else {
					r1, e1 = in.reopen(o.V)
				}
				switch {
				case up != nil && o.Op == "commit":
					r2 = ref(up.commit())
				case up != nil:
					r2 = ref(up.reopen(o.V))
				default:
					r2 = *refRoot // only meaningful (and only used) at the last op
				}
				if e1 != nil {
					if last && o.Op == "commit" {
						bad("op-error", "Commit returned %v", e1)
					} else if last {
						bad("reopen-error", "%s failed: %v", o.String(), e1)
					}
					if o.Op == "reopen" {
						return // no usable instance any more
					}
				} else if last && r1 != r2 {
					bad("root-differs-from-reference", "%s returned root %x, reference %x", o.String(), r1[:6], r2[:6])
				}
			}
		}
		d.checkState(in, up, refRoot, st, &res, heavy, bad)
	})
	if panicked {
		site := core.PanicSite(stack)
		if site == "unknown" {
			core.Fatal("panic outside the code under test in history %q: %v\n%s", histString(ops), pv, stack)
		}
		res.viols = append(res.viols, viol{
			sig:    map[string]string{"part": d.part, "kind": "panic", "op": lastKind, "site": site},
			detail: fmt.Sprintf("[%s] after %q: panic in %s: %s", d.part, histString(ops), site, core.FirstLine(pv)),
		})
	}
	res.key, res.ckey = st.key(), st.contentKey()
	if len(ops) == 0 {
		res.class = "initial||"
	}
	return
}

// upFresh: a reference trie holding the content (sorted insertion); the nodes
// on the path to a key, hence the proof, are a function of the content.
func (d *trieDriver) upFresh(st *tState) *trieInst {
	type pair struct{ k, v []byte }
	var ps []pair
	for i, v := range st.content {
		if v != 0 {
			ps = append(ps, pair{d.keys[i], trieVals[v]})
		}
	}
	sort.Slice(ps, func(i, j int) bool { return bytes.Compare(ps[i].k, ps[j].k) < 0 })
	t := newUpTrie(d.secure)
	for _, p := range ps {
		if err := t.update(p.k, p.v); err != nil {
			core.Fatal("reference trie update failed: %v", err)
		}
	}
	return t
}

// checkProof: upT = a reference trie holding the same content (nil: built here).
func (d *trieDriver) checkProof(in, upT *trieInst, st *tState, k int, bad func(kind, format string, a ...interface{})) {
	want := trieVals[st.content[k]]
	pm := newProofMap()
	// (SecureTrie.Prove, like VerifyProof, takes the hashed key: that is how
	// StateDB.GetProof calls it in both implementations)
	if err := in.prove(d.path(d.keys[k]), pm); err != nil {
		bad("proof-error", "Prove(k%d) returned %v", k, err)
		return
	}
	root := in.hash()
	empty := true
	for _, v := range st.content {
		empty = empty && v == 0
	}
	v1, e1 := verifyIn(root, d.path(d.keys[k]), pm)
	v2, e2 := verifyUp(root, d.path(d.keys[k]), pm)
	if empty {
		// An empty trie has no node to prove anything with; the only demand is
		// that no value is produced.
		if v1 != nil || v2 != nil {
			bad("proof-wrong-value", "proof for k%d in an empty trie yields a value %s / %s", k, short(v1), short(v2))
		}
		return
	}
	if e1 != nil {
		bad("proof-rejected", "Prove(k%d) → VerifyProof against root %x fails: %v (%d proof nodes; content %s)", k, root[:6], e1, len(pm.m), short(want))
		return
	}
	if !bytes.Equal(v1, want) {
		bad("proof-wrong-value", "Prove(k%d) → VerifyProof yields %s, content has %s", k, short(v1), short(want))
		return
	}
	if e2 != nil || !bytes.Equal(v2, want) {
		bad("proof-rejected-by-reference-verifier", "proof for k%d verified by the reference VerifyProof: %s, %v; content has %s", k, short(v2), e2, short(want))
		return
	}
	if upT == nil {
		upT = d.upFresh(st)
	}
	um := newProofMap()
	if err := upT.prove(d.path(d.keys[k]), um); err != nil {
		core.Fatal("reference trie Prove failed: %v", err)
	}
	if !sameProof(pm, um) {
		bad("proof-differs-from-reference", "Prove(k%d): %d proof nodes, the reference trie holding the same content gives %d (or a node differs)", k, len(pm.m), len(um.m))
	}
}

func (d *trieDriver) checkState(in, up *trieInst, refRoot *[32]byte, st *tState, res *trieRes, heavy bool, bad func(kind, format string, a ...interface{})) {
	root := in.hash()
	res.root = root
	if up != nil {
		res.uroot = up.hash()
		if root != res.uroot {
			bad("root-differs-from-reference", "root %x, reference trie driven by the same history %x", root[:6], res.uroot[:6])
		}
	} else {
		res.uroot = *refRoot
		if root != *refRoot {
			bad("root-differs-from-reference", "root %x, reference trie holding the same content %x", root[:6], refRoot[:6])
		}
	}
	if fr := d.freshRoot(st); root != fr {
		bad("root-history-dependent", "root %x, fresh trie built by sorted insertion of the same content %x", root[:6], fr[:6])
	}
	n := 0
	for k := range d.keys {
		want := trieVals[st.content[k]]
		if want != nil {
			n++
		}
		v, err := in.get(d.keys[k])
		if err != nil || !bytes.Equal(v, want) {
			bad("get-mismatch", "Get(k%d) = %s, %v; content has %s", k, short(v), err, short(want))
		}
		if up != nil {
			if v2, e2 := up.get(d.keys[k]); e2 != nil || !bytes.Equal(v2, want) {
				core.Fatal("reference trie get disagrees with the content map")
			}
		}
	}
	res.shape = fmt.Sprintf("%d-entries", n)
	if !heavy {
		return
	}
	upT := d.upFresh(st)
	for k := range d.keys {
		d.checkProof(in, upT, st, k, bad)
	}
	leaves, err := in.leaves()
	if err != nil {
		bad("iterator-error", "leaf iteration failed: %v", err)
	} else {
		got := map[string]string{}
		for _, l := range leaves {
			got[string(l.k)] = string(l.v)
		}
		ok := len(got) == n && len(leaves) == n
		for k := range d.keys {
			if w := trieVals[st.content[k]]; w != nil {
				g, present := got[string(d.path(d.keys[k]))]
				ok = ok && present && g == string(w)
			}
		}
		if !ok {
			bad("iterator-content-mismatch", "leaf iteration yields %d leaves, content has %d entries (or a leaf differs)", len(leaves), n)
		}
	}
	if r2 := in.hash(); r2 != root {
		bad("root-changed-by-read", "root %x before reads/proofs, %x after", root[:6], r2[:6])
	}
	res.shape = fmt.Sprintf("%d-entries", n)
}
