// C11 (a') — copies of a trie.  Users of the trie package copy a live trie by
// value (state.Database.CopyTrie, SecureTrie.Copy, StateDB.Copy underneath) and
// keep operating on both; the nodes resident at that moment are shared,
// copy-on-write.  The property speaks about "the current content" of a trie:
// after the copy there are two tries with two contents, and each one's root,
// gets, proofs and leaves must be a function of ITS OWN content alone, whatever
// is done to the other one.
//
// Same engine as trie.go: BFS over operation histories, fresh instances per
// execution, canonical-key deduplication.  The alphabet has one more op, fork
// (allowed once per history), and after it every op exists once per copy.  The
// reference model is one content map per copy; the reference root of a copy is
// the root upstream go-ethereum gives for that content.
package main

import (
	"bytes"
	"fmt"
	"sort"
	"sync"

	"verif/core"
)

type fOp struct {
	Op string `json:"op"` // update | delete | hash | commit | reopen | fork
	K  int    `json:"k"`
	V  int    `json:"v"`
	T  int    `json:"on"` // which copy the op works on: 0 = original, 1 = copy
}

func (o fOp) String() string {
	if o.Op == "fork" {
		return "fork"
	}
	return fmt.Sprintf("%s@%c", tOp{o.Op, o.K, o.V}.String(), 'A'+byte(o.T))
}

func fHistString(ops []fOp) string {
	s := ""
	for i, o := range ops {
		if i > 0 {
			s += " "
		}
		s += o.String()
	}
	return s
}

type forkDriver struct {
	d      *trieDriver
	part   string // d.part + "-fork"
	alpha  []fOp
	upRoot sync.Map // content key -> [32]byte reference root (upstream trie built from the content)
	hex    [][]byte // nibble path (with terminator) of every key
}

// newForkDriver: vals = value indexes used by update; reopens = reopen variants.
func newForkDriver(part string, vals, reopens []int) *forkDriver {
	f := &forkDriver{d: newTrieDriver(part, true, false), part: part + "-fork"}
	for t := 0; t < 2; t++ {
		for k := range f.d.keys {
			for _, v := range vals {
				f.alpha = append(f.alpha, fOp{"update", k, v, t})
			}
		}
		for k := range f.d.keys {
			f.alpha = append(f.alpha, fOp{"delete", k, 0, t})
		}
		f.alpha = append(f.alpha, fOp{"hash", 0, 0, t}, fOp{"commit", 0, 0, t})
		for _, v := range reopens {
			f.alpha = append(f.alpha, fOp{"reopen", 0, v, t})
		}
	}
	f.alpha = append(f.alpha, fOp{"fork", 0, 0, 0})
	for _, k := range f.d.keys {
		p := f.d.path(k)
		h := make([]byte, 0, 2*len(p)+1)
		for _, b := range p {
			h = append(h, b>>4, b&15)
		}
		f.hex = append(f.hex, append(h, 16))
	}
	return f
}

// ------------------------------------------------------------------ model

type fState struct {
	forked bool
	s      [2]*tState
}

func (f *forkDriver) initial() *fState {
	return &fState{s: [2]*tState{
		{content: make([]int, len(f.d.keys)), coarse: true},
		{content: make([]int, len(f.d.keys)), coarse: true},
	}}
}

func (s *fState) key() uint64 {
	k := uint64(s.s[0].key())
	if s.forked {
		k |= uint64(s.s[1].key())<<24 | 1<<48
	}
	return k
}

func fStateOfKey(key uint64, nkeys int) *fState {
	s := &fState{forked: key>>48&1 == 1}
	s.s[0] = stateOfKey(uint32(key&0xffffff), nkeys, true)
	s.s[1] = stateOfKey(uint32(key>>24&0xffffff), nkeys, true)
	return s
}

func (s *fState) enabled(o fOp) bool {
	if o.Op == "fork" {
		return !s.forked
	}
	return o.T == 0 || s.forked
}

func hexLCP(a, b []byte) int {
	n := 0
	for n < len(a) && n < len(b) && a[n] == b[n] {
		n++
	}
	return n
}

// deleteShape classifies, from the key set alone, what removing key k does to
// the shape of the (canonical) trie holding the present keys: the branch node k
// hangs off keeps at least two other children ("branch-stays"), or is left
// with one child and collapses into a short node, which is either the root / a
// direct child of the parent branch ("collapse") or sits under an extension
// node and is merged with it ("collapse-merge-with-extension").
func (f *forkDriver) deleteShape(content []int, k int) string {
	if content[k] == 0 {
		return "absent"
	}
	me := f.hex[k]
	p := -1
	var others [][]byte
	for i, v := range content {
		if v != 0 && i != k {
			others = append(others, f.hex[i])
			if l := hexLCP(me, f.hex[i]); l > p {
				p = l
			}
		}
	}
	if len(others) == 0 {
		return "last-key"
	}
	next := map[byte]bool{}
	q := -1 // depth of the parent branch (-1: none)
	for _, o := range others {
		if l := hexLCP(me, o); l == p {
			next[o[p]] = true
		} else if l > q {
			q = l
		}
	}
	if len(next) >= 2 {
		return "branch-stays"
	}
	if p-(q+1) > 0 {
		return "collapse-merge-with-extension"
	}
	return "collapse"
}

// apply returns the effect class of the op.
func (f *forkDriver) apply(s *fState, o fOp) string {
	if o.Op == "fork" {
		s.forked = true
		c := *s.s[0]
		c.content = append([]int(nil), s.s[0].content...)
		s.s[1] = &c
		return "fork|" + s.s[0].modeName() + "|"
	}
	me, other := s.s[o.T], s.s[1-o.T]
	mode := me.modeName()
	shared := ""
	if s.forked {
		// does the other copy still hold the entry this op replaces / removes?
		shared = "|other-differs"
		if other.content[o.K] == me.content[o.K] {
			shared = "|other-same"
		}
		if o.Op != "update" && o.Op != "delete" {
			shared = "|forked"
		}
	}
	eff := ""
	if o.Op == "delete" {
		eff = f.deleteShape(me.content, o.K)
		me.apply(tOp{o.Op, o.K, o.V})
	} else {
		eff = me.apply(tOp{o.Op, o.K, o.V})
	}
	return o.Op + "|" + mode + "|" + eff + shared
}

// refRoot: the root the reference implementation gives for a content.
func (f *forkDriver) refRoot(st *tState) [32]byte {
	ck := st.contentKey()
	if r, ok := f.upRoot.Load(ck); ok {
		return r.([32]byte)
	}
	type pair struct{ k, v []byte }
	var ps []pair
	for i, v := range st.content {
		if v != 0 {
			ps = append(ps, pair{f.d.keys[i], trieVals[v]})
		}
	}
	sort.Slice(ps, func(i, j int) bool { return bytes.Compare(ps[i].k, ps[j].k) < 0 })
	t := newUpTrie(f.d.secure)
	for _, p := range ps {
		if err := t.update(p.k, p.v); err != nil {
			core.Fatal("reference trie update failed: %v", err)
		}
	}
	r := t.hash()
	f.upRoot.Store(ck, r)
	return r
}

// ------------------------------------------------------------------ one execution

type forkRes struct {
	key   uint64
	roots [2][32]byte
	class string
	viols []viol
}

func (r *forkRes) digest() string { return core.Hash(r.key, r.roots, r.class, len(r.viols)) }

// run executes one history on a fresh in-tree trie (and the copy made of it by
// the fork op) and evaluates the op-level oracle of the last op and the state
// oracle on BOTH copies.  Exploration and replay are this same execution.
func (f *forkDriver) run(ops []fOp, heavy bool) (res forkRes) {
	d := f.d
	st := f.initial()
	last := fOp{Op: "none"}
	if len(ops) > 0 {
		last = ops[len(ops)-1]
	}
	who := "operated-on"
	bad := func(kind, format string, a ...interface{}) {
		res.viols = append(res.viols, viol{
			sig:    map[string]string{"part": f.part, "kind": kind, "op": last.Op, "copy": who},
			detail: fmt.Sprintf("[%s] after %q: ", f.part, fHistString(ops)) + fmt.Sprintf(format, a...),
		})
	}
	panicked, pv, stack := core.Try(func() {
		var in [2]*trieInst
		in[0] = newInTrie(d.secure)
		for i, o := range ops {
			isLast := i == len(ops)-1
			if !st.enabled(o) {
				core.Fatal("history %q contains a disabled op", fHistString(ops))
			}
			eff := f.apply(st, o)
			if isLast {
				res.class = eff
			}
			if o.Op == "fork" {
				in[1] = in[0].fork()
				continue
			}
			t, key := in[o.T], d.keys[o.K]
			switch o.Op {
			case "update":
				if err := t.update(key, trieVals[o.V]); err != nil && isLast {
					bad("op-error", "TryUpdate(k%d, %s) returned %v", o.K, short(trieVals[o.V]), err)
				}
			case "delete":
				if err := t.del(key); err != nil && isLast {
					bad("op-error", "TryDelete(k%d) returned %v", o.K, err)
				}
			case "hash", "commit", "reopen":
				var r [32]byte
				var err error
				switch o.Op {
				case "hash":
					r = t.hash()
				case "commit":
					r, err = t.commit()
				default:
					r, err = t.reopen(o.V)
				}
				if err != nil {
					if isLast {
						bad("op-error", "%s failed: %v", o.String(), err)
					}
					if o.Op == "reopen" {
						return
					}
				} else if rr := f.refRoot(st.s[o.T]); isLast && r != rr {
					bad("root-differs-from-reference", "%s returned root %x, reference root of this copy's content %x", o.String(), r[:6], rr[:6])
				}
			}
		}
		// The copy that the last op did NOT work on is examined first: it is
		// the one whose content the op must not have touched.
		order := []int{1 - last.T, last.T}
		for _, c := range order {
			if in[c] == nil {
				continue
			}
			who = "operated-on"
			if st.forked && c != last.T {
				who = "not-operated-on"
			}
			rr := f.refRoot(st.s[c])
			var cr trieRes
			d.checkState(in[c], nil, &rr, st.s[c], &cr, heavy, func(kind, format string, a ...interface{}) {
				bad(kind, "copy %c: "+format, append([]interface{}{'A' + c}, a...)...)
			})
			res.roots[c] = cr.root
		}
		who = "operated-on"
	})
	if panicked {
		site := core.PanicSite(stack)
		if site == "unknown" {
			core.Fatal("panic outside the code under test in history %q: %v\n%s", fHistString(ops), pv, stack)
		}
		res.viols = append(res.viols, viol{
			sig:    map[string]string{"part": f.part, "kind": "panic", "op": last.Op, "site": site},
			detail: fmt.Sprintf("[%s] after %q: panic in %s: %s", f.part, fHistString(ops), site, core.FirstLine(pv)),
		})
	}
	res.key = st.key()
	if len(ops) == 0 {
		res.class = "initial||"
	}
	return
}

// ------------------------------------------------------------------ BFS

type fNode struct {
	hist []uint8
	key  uint64
}

func (f *forkDriver) opsOf(hist []uint8, extra int) []fOp {
	ops := make([]fOp, 0, len(hist)+1)
	for _, i := range hist {
		ops = append(ops, f.alpha[i])
	}
	if extra >= 0 {
		ops = append(ops, f.alpha[extra])
	}
	return ops
}

type forkStats struct {
	partStats
	PostFork       int            `json:"executions_after_fork"`
	DeletesByShape map[string]int `json:"post_fork_deletes_by_shape"`
}

// exploreFork: BFS to the given depth over the fork alphabet.  The successor's
// canonical key is known from the model alone, so which executions discover a
// state (and get the full state oracle) is decided in enumeration order.
func (c *ctx) exploreFork(f *forkDriver, depth int) forkStats {
	st := forkStats{partStats: partStats{Alphabet: len(f.alpha)}, DeletesByShape: map[string]int{}}
	visited := map[uint64]bool{}
	roots := map[[32]byte]bool{}
	nk := len(f.d.keys)

	absorb := func(hist []uint8, op int, heavy bool, r *forkRes) {
		st.Transitions++
		c.nth++
		ops := f.opsOf(hist, op)
		if len(r.viols) > 0 || c.nth%50021 == 1 {
			k := kase{Part: f.part, History: fHistString(ops), FOps: ops, Heavy: heavy}
			if len(r.viols) > 0 {
				c.report(k, r.viols)
			}
			if c.nth%50021 == 1 {
				c.samples.Add(k)
			}
		}
		c.classes.Add(f.part + ":" + r.class)
		c.coarse.Add(coarseForkClass(f.part, r.class))
		forked := false
		for _, o := range ops[:len(ops)-boolInt(len(ops) > 0)] {
			forked = forked || o.Op == "fork"
		}
		if forked {
			st.PostFork++
			if lo := ops[len(ops)-1]; lo.Op == "delete" {
				st.DeletesByShape[splitClass(r.class, 2)]++
			}
		}
		for _, rt := range r.roots {
			if rt != ([32]byte{}) {
				roots[rt] = true
			}
		}
		if heavy {
			st.States++
		} else {
			st.Merges++
		}
	}

	s0 := f.initial()
	r0 := f.run(nil, true)
	visited[s0.key()] = true
	absorb(nil, -1, true, &r0)
	frontier := []fNode{{nil, s0.key()}}
	st.PerLevel = append(st.PerLevel, 1)
	type task struct {
		node, op int
		heavy    bool
	}
	const chunk = 512
	for level := 1; level <= depth; level++ {
		var next []fNode
		newStates := 0
		for lo := 0; lo < len(frontier); lo += chunk {
			hi := lo + chunk
			if hi > len(frontier) {
				hi = len(frontier)
			}
			var tasks []task
			for n := lo; n < hi; n++ {
				for oi, o := range f.alpha {
					s := fStateOfKey(frontier[n].key, nk)
					if !s.enabled(o) {
						continue
					}
					f.apply(s, o)
					k := s.key()
					t := task{n, oi, false}
					if !visited[k] {
						visited[k] = true
						t.heavy = true
						newStates++
						if level < depth {
							h := make([]uint8, len(frontier[n].hist)+1)
							copy(h, frontier[n].hist)
							h[len(h)-1] = uint8(oi)
							next = append(next, fNode{h, k})
						}
					}
					tasks = append(tasks, t)
				}
			}
			results := make([]forkRes, len(tasks))
			core.Par(len(tasks), func(i int) {
				results[i] = f.run(f.opsOf(frontier[tasks[i].node].hist, tasks[i].op), tasks[i].heavy)
			})
			for i := range results {
				if !visited[results[i].key] {
					core.Fatal("fork model key prediction diverged")
				}
				absorb(frontier[tasks[i].node].hist, tasks[i].op, tasks[i].heavy, &results[i])
			}
		}
		st.PerLevel = append(st.PerLevel, newStates)
		st.Depth = level
		frontier = next
	}
	st.Roots = len(roots)
	return st
}

func boolInt(b bool) int {
	if b {
		return 1
	}
	return 0
}

func splitClass(class string, i int) string {
	p := bytes.Split([]byte(class), []byte("|"))
	if i < len(p) {
		return string(p[i])
	}
	return ""
}

// coarseForkClass drops the residency component: op / effect / relation to the other copy.
func coarseForkClass(part, class string) string {
	p := bytes.Split([]byte(class), []byte("|"))
	out := part + ":" + string(p[0])
	for _, x := range p[2:] {
		if len(x) > 0 {
			out += "/" + string(x)
		}
	}
	return out
}
