// C08 — no peer input can crash or wedge an honest node (part i: everything
// that reaches the consensus goroutine).  The receiver is one real
// ConsensusState of a 4-validator CONSNET network, brought into each of eight
// states; inputs go through the real ConsensusReactor.Receive (wire decode,
// peer-state update, peerMsgQueue) and the real receiveRoutine.  DESIGN §5 C08.
package main

import (
	"encoding/json"
	"fmt"
	"os"
	"regexp"
	"strconv"
	"strings"
	"sync"
	"time"
	"verif/c08net"

	"verif/consnet"
	"verif/core"
)

type stateCfg struct {
	state string
	node  int
	rules []consnet.Rule
}

var states = []stateCfg{
	{"start", 1, nil},
	{"propose-no-proposal", 1, nil},
	{"proposal-no-block", 1, nil},
	{"prevote", 1, nil},
	{"precommit", 1, nil},
	{"commit-wait-block", 1, []consnet.Rule{{Kind: "hold", Node: 1, Msg: "proposal", Round: 0}}},
	{"locked-round1", 2, []consnet.Rule{{Kind: "hold", Node: 1, Msg: "proposal", Round: 0}, {Kind: "hold", Node: 3, Msg: "prevote", Round: 0}}},
	{"new-height-2", 2, nil},
}

var injRe = regexp.MustCompile(`##INJ (\d+) ([^|]*)\|([^|]*)\|(.*)`)

type chain struct {
	st     stateCfg
	family string
	shard  int
	shards int
}

func main() {
	if c08net.IsWorker() {
		c08net.WorkerMain()
		return
	}
	if consnet.IsWorker() {
		consnet.WorkerMain(os.Getenv("VERIF_WORKER_DIR"), consnet.DefaultRun)
		return
	}
	run := core.Start("C08", "exploration", "CONSNET")
	if run.ReplayPath != "" && c08net.IsReplayCase(run.ReplayPath) {
		c08net.Replay(run)
		run.Finish(nil, nil)
	}
	if run.ReplayPath != "" {
		var sc consnet.Scenario
		if err := run.ReplayCase(&sc); err != nil {
			core.Fatal("replay: %v", err)
		}
		// a replay artefact of a crashing case points at exactly that case: run only it
		if sc.Inject != nil && sc.Inject.Shards == -1 {
			sc.Inject.Shards = 0
		}
		var got consnet.CaseOutcome
		consnet.RunPool([]*consnet.Scenario{&sc}, consnet.PoolOpts{Workers: 1, WorkBase: run.WorkDir() + "/replay"}, func(o consnet.CaseOutcome) { got = o })
		if got.Died && got.PanicLine != "" {
			run.Report(map[string]string{"kind": "node-goroutine-panic", "site": got.PanicSite}, &sc, got.PanicLine)
		} else if got.Res != nil {
			for _, v := range got.Res.Viols {
				if v.Prop == "C08" || v.Prop == "C12" {
					run.Report(v.Sig, &sc, v.Detail)
				}
			}
		}
		run.Finish(nil, nil)
	}
	var chains []chain
	fams := []string{"structured", "bytes"}
	for _, st := range states {
		for _, f := range fams {
			sh := 2
			for s := 0; s < sh; s++ {
				chains = append(chains, chain{st, f, s, sh})
			}
		}
	}
	if !run.Quick() {
		for s := 0; s < 16; s++ {
			chains = append(chains, chain{states[3], "bytes2", s, 16})
		}
	}
	deadline := time.Now().Add(time.Duration(run.Pick(420, 780)) * time.Second) // quick: a safety net, the chains finish in about a minute on an idle machine
	var mu sync.Mutex
	total, rejected, accepted, contained, executions, deaths, unfinished := 0, 0, 0, 0, 0, 0, 0
	classes := core.NewCounter()
	byType := map[string]int{}
	samples := core.NewSampler(6, run.Seed)
	notTriggered := []string{}
	var wg sync.WaitGroup
	sem := make(chan struct{}, 16)
	for ci, ch := range chains {
		wg.Add(1)
		go func(ci int, ch chain) {
			defer wg.Done()
			sem <- struct{}{}
			defer func() { <-sem }()
			skip := 0
			for iter := 0; iter < 400; iter++ {
				if time.Now().After(deadline) {
					mu.Lock()
					unfinished++
					mu.Unlock()
					return
				}
				sc := &consnet.Scenario{ID: ci*1000 + iter, Powers: []int64{1, 1, 1, 1}, Byz: 0, Heights: 2, Mode: "nohash", Rules: ch.st.rules,
					Inject: &consnet.InjectSpec{Node: ch.st.node, State: ch.st.state, Family: ch.family, Shard: ch.shard, Shards: ch.shards, Skip: skip}}
				var out consnet.CaseOutcome
				consnet.RunPool([]*consnet.Scenario{sc}, consnet.PoolOpts{Workers: 1, WorkBase: fmt.Sprintf("%s/c%d", run.WorkDir(), ci), PerCase: 300 * time.Second}, func(o consnet.CaseOutcome) { out = o })
				mu.Lock()
				executions++
				mu.Unlock()
				if out.Died {
					// attribute the death to the last injected case
					m := injRe.FindAllStringSubmatch(out.Stderr, -1)
					if len(m) == 0 || out.PanicLine == "" {
						mu.Lock()
						deaths++
						run.Notes = append(run.Notes, fmt.Sprintf("worker died without an attributable case in state %s family %s: %s", ch.st.state, ch.family, out.PanicLine))
						mu.Unlock()
						return
					}
					last := m[len(m)-1]
					idx, _ := strconv.Atoi(last[1])
					one := *sc
					inj := *sc.Inject
					inj.Skip, inj.Shards, inj.Shard = idx, 0, 0
					one.Inject = &inj
					mu.Lock()
					deaths++
					total += idx - skip + 1
					classes.Add(last[2] + "|" + last[3] + "|PANIC")
					run.Report(map[string]string{"kind": "node-goroutine-panic", "site": out.PanicSite, "type": last[2], "field": strings.TrimSpace(last[3])}, &one,
						fmt.Sprintf("receiver in state %q: %s  ==> %s (site %s)", ch.st.state, last[4], out.PanicLine, out.PanicSite))
					mu.Unlock()
					skip = idx + 1
					continue
				}
				if out.TimedOut || out.Res == nil {
					mu.Lock()
					unfinished++
					run.Notes = append(run.Notes, fmt.Sprintf("chain %s/%s timed out; inconclusive", ch.st.state, ch.family))
					mu.Unlock()
					return
				}
				var st consnet.InjStats
				json.Unmarshal([]byte(out.Res.Extra["inj"]), &st)
				mu.Lock()
				if !st.Triggered {
					notTriggered = append(notTriggered, ch.st.state)
					mu.Unlock()
					return
				}
				total += st.Ran
				rejected += st.Rejected
				accepted += st.Accepted
				contained += st.ReceivePanics
				for k, v := range st.ByType {
					byType[k] += v
					classes.Add(ch.st.state + "|" + k)
				}
				for _, a := range st.AcceptedSample {
					samples.Add(map[string]string{"state": ch.st.state, "accepted": a})
				}
				for _, v := range out.Res.Viols {
					if v.Prop == "C08" {
						run.Report(v.Sig, sc, v.Detail)
					}
					if v.Prop == "C12" {
						v.Sig["after"] = "injection"
						run.Report(v.Sig, sc, "after the injected inputs the node no longer reaches the next height: "+v.Detail)
					}
				}
				mu.Unlock()
				if st.NextSkip < 0 {
					return
				}
				skip = st.NextSkip
			}
		}(ci, ch)
	}
	wg.Wait()
	// phase 2: whole blocks from a Byzantine proposer, each with one malformed part
	// (the C02 mutant list): neither a panic nor a stall is acceptable
	var blockScs []*consnet.Scenario
	type site struct {
		byz    int
		height int64
	}
	for _, st := range []site{{0, 1}, {1, 2}} {
		for _, mut := range consnet.BlockMutations(st.height) {
			blockScs = append(blockScs, &consnet.Scenario{ID: len(blockScs), Powers: []int64{1, 1, 1, 1}, Byz: st.byz, Heights: st.height + 1, Mode: "nohash",
				Rules: []consnet.Rule{{Kind: "byz-mutate", Height: st.height, Round: 0, Alt: mut}}})
		}
	}
	blockDeaths := 0
	consnet.RunPool(blockScs, consnet.PoolOpts{WorkBase: run.WorkDir() + "/blocks"}, func(o consnet.CaseOutcome) {
		total++
		mut := o.Sc.Rules[0].Alt
		classes.Add("block|" + mut)
		if o.Died && o.PanicLine != "" {
			blockDeaths++
			run.Report(map[string]string{"kind": "node-goroutine-panic", "site": o.PanicSite, "type": "Block", "field": strings.TrimSuffix(mut, "+fix")}, o.Sc,
				fmt.Sprintf("a block from the round's (Byzantine) proposer with mutation %q ==> %s (site %s)", mut, o.PanicLine, o.PanicSite))
			return
		}
		if o.Res == nil {
			unfinished++
			return
		}
		for _, v := range o.Res.Viols {
			if v.Prop == "C12" {
				v.Sig["after"] = "mutant-block"
				run.Report(v.Sig, o.Sc, "after a malformed block the network no longer terminates: "+v.Detail)
			}
		}
	})
	if len(notTriggered) > 0 {
		core.Fatal("receiver states never reached: %v", notTriggered)
	}
	samples.Add(map[string]string{"state": "prevote", "case": "VoteMessage.Vote.ValidatorIndex=-1 (re-signed by the Byzantine validator)"})
	// part (ii): peer-state poisoning and the block-sync / mempool / pex channels on a live node
	netCov := c08net.Run(run)
	if ev, ok := netCov["evaluations"].(int); ok {
		total += ev
	}
	// part (iii): a peer's stray vote of a far future round, then the node walks through that round
	strayCov := core.Coverage{}
	consnet.RunSoloStrayVoteDriver(run, strayCov)
	run.Finish(core.Coverage{
		"part_iii_stray_future_round_votes": strayCov,
		"part_ii_live_node":                 netCov,
		"evaluations":                       total,
		"distinct_nontrivial":               classes.Len(),
		"rule":                              "receiver = one real ConsensusState in each of 8 states (start, Propose without proposal, proposal without block, Prevote, Precommit, Commit waiting for the block, locked in round 1, NewHeight of height 2); inputs through the real ConsensusReactor.Receive: every one of the 9 registered consensus messages (valid instance taken from the live execution or signed by the Byzantine validator) with every exported field, recursively, set in turn to each boundary value (15 integers, 5 byte-slice shapes, 3 bit-array shapes, nil pointers, 3 signature shapes), each also re-signed by the Byzantine validator where it is the legitimate signer; every valid message on every wrong channel; every single-byte substitution {00,01,7f,80,ff} and every truncation of every valid encoding; every 1-byte string on every channel (thorough: every 2-byte string); plus every single-mutation block of the C02 list proposed by the round's Byzantine proposer. distinct_nontrivial = distinct (state, message type) classes exercised",
		"executions":                        executions,
		"rejected_state_unchanged":          rejected,
		"accepted_state_changed":            accepted,
		"panics_contained_in_receive":       contained,
		"node_goroutine_deaths":             deaths,
		"malformed_blocks_proposed":         len(blockScs),
		"malformed_block_deaths":            blockDeaths,
		"chains_cut_by_deadline":            unfinished,
		"cases_by_message_type":             byType,
		"exhaustive":                        unfinished == 0,
		"samples":                           samples.List(),
	}, []string{"a panic inside Reactor.Receive is contained by MConnection._recover in a real node (peer disconnected) and is allowed (DESIGN §6.3); a panic on the consensus goroutine kills the process and is a violation",
		"'fails validation' is decided by a reference predicate (decodes; signature verifies for the claimed validator / the round's proposer; part proof verifies); only then must the round state stay exactly as it was",
		"part (ii) runs a live single-validator node with real goroutines: its scenario space is enumerated exhaustively, the in-process schedule is not controlled; oracles are progress-based, a missed deadline is inconclusive, a candidate is reported only when it reproduces 5/5 alone"})
}
