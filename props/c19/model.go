package main

// Reference model of an account/nonce transaction pool, written from the
// statement of C19 plus the pool rules that the code documents in comments:
//
//   - two queues, "pending" (processable) and "waiting" (queued, not
//     processable), each with a configured limit; a third list for admin-op
//     ("ext") transactions, limit = pending limit, oldest removed at the limit;
//   - a tx whose nonce is below the account's state nonce is refused (stale);
//   - an exact duplicate of a tx the pool holds is refused;
//   - a second tx for an occupied (account, nonce) may be refused or may
//     replace the first: both are legitimate policies, the property only
//     forbids offering both;
//   - when the waiting queue is full a new tx is either refused or replaces a
//     larger-nonce waiting tx of the same account ("try to replace a big nonce
//     tx to a small nonce tx");
//   - promotion into the offered set may be delayed until the next commit
//     (the property forbids *dropping*, not delaying), so loss is judged by
//     draining the pool: reap everything / commit everything until the pool
//     offers nothing more.
//
// The model is deliberately an *obligation tracker*, not a second pool: it
// records what the pool accepted and what a committed block contained, and from
// that it derives what the pool must / must not do.  It never looks at pool
// internals.

import (
	"fmt"
	"sort"
)

// txid names a transaction inside one history: eth "A0a" (account letter,
// nonce, payload letter) or ext "X0".
type txid string

type ethID struct {
	Acct    int // index into the history's account list
	Nonce   uint64
	Payload int
}

func (e ethID) id() txid {
	return txid(fmt.Sprintf("%c%d%c", acctLetter(e.Acct), e.Nonce, 'a'+rune(e.Payload)))
}

func acctLetter(i int) rune { return rune("ABFGHIJK"[i]) }

type slot struct {
	cands map[txid]bool // accepted, not committed, not flushed candidates for this (account, nonce)
	must  bool          // the pool is obliged to still hold one of cands
}

type poolModel struct {
	nAcct        int
	pendingLimit int
	waitingLimit int

	nonce     []uint64           // state nonce per account, as reported by the application
	slots     []map[uint64]*slot // per account
	ext       []txid             // accepted ext txs in acceptance order
	extMust   map[txid]bool      // ext tx certainly held
	committed map[txid]bool      // contained in a committed block
	submitted map[txid]bool      // ever handed to ReceiveTx
	resub     map[txid]bool      // accepted by ReceiveTx after a block that contained it
	ethOf     map[txid]ethID     // decoding of eth ids
}

func newPoolModel(nAcct, pendingLimit, waitingLimit int) *poolModel {
	m := &poolModel{nAcct: nAcct, pendingLimit: pendingLimit, waitingLimit: waitingLimit,
		nonce: make([]uint64, nAcct), extMust: map[txid]bool{}, committed: map[txid]bool{},
		submitted: map[txid]bool{}, resub: map[txid]bool{}, ethOf: map[txid]ethID{}}
	for i := 0; i < nAcct; i++ {
		m.slots = append(m.slots, map[uint64]*slot{})
	}
	return m
}

// held is an upper bound on the number of eth txs the pool holds.
func (m *poolModel) held() int {
	n := 0
	for _, s := range m.slots {
		for _, sl := range s {
			n += len(sl.cands) // pending and waiting may each hold one tx of a nonce
		}
	}
	return n
}

// receiveEth is told the verdict of the real pool for ReceiveTx(e) and
// returns a violation kind ("" = fine).
func (m *poolModel) receiveEth(e ethID, accepted bool) string {
	id := e.id()
	m.ethOf[id] = e
	m.submitted[id] = true
	sl := m.slots[e.Acct][e.Nonce]
	stale := e.Nonce < m.nonce[e.Acct]
	// the pool may be at its waiting capacity: the documented replacement rule
	// may evict a larger-nonce tx of this account whether or not the new tx is
	// taken.  held() over-approximates the waiting occupancy.
	if m.held() >= m.waitingLimit {
		for n, s := range m.slots[e.Acct] {
			if n > e.Nonce {
				s.must = false
			}
		}
	}
	if sl != nil && sl.must && len(sl.cands) == 1 && sl.cands[id] {
		if accepted {
			return "exact-duplicate-accepted"
		}
		return ""
	}
	if !accepted {
		return ""
	}
	if m.committed[id] {
		m.resub[id] = true
	}
	if stale {
		// accepting a stale tx is not forbidden as such; offering it is
		// (nonce-order / committed oracles).  No obligation arises.
		return ""
	}
	if sl == nil {
		m.slots[e.Acct][e.Nonce] = &slot{cands: map[txid]bool{id: true}, must: true}
		return ""
	}
	sl.cands[id] = true // either policy: keep the old one or replace
	return ""
}

func (m *poolModel) receiveExt(id txid, accepted bool) string {
	m.submitted[id] = true
	if m.extMust[id] {
		if accepted {
			return "exact-duplicate-accepted"
		}
		return ""
	}
	if !accepted {
		return ""
	}
	if m.committed[id] {
		m.resub[id] = true
	}
	if len(m.ext) >= m.pendingLimit && len(m.ext) > 0 {
		// documented: "remove oldest extTx if reach size limit"
		delete(m.extMust, m.ext[0])
		m.ext = m.ext[1:]
	}
	present := false
	for _, x := range m.ext {
		if x == id {
			present = true
		}
	}
	if !present {
		m.ext = append(m.ext, id)
	}
	m.extMust[id] = true
	return ""
}

func (m *poolModel) flush() {
	for i := range m.slots {
		m.slots[i] = map[uint64]*slot{}
	}
	m.ext = nil
	m.extMust = map[txid]bool{}
}

// commit is told the content of a committed block and the state nonces the
// application reports afterwards.
func (m *poolModel) commit(block []txid, nonces []uint64) {
	for _, id := range block {
		m.committed[id] = true
		m.resub[id] = false
		if m.extMust[id] {
			delete(m.extMust, id)
		}
		for i, x := range m.ext {
			if x == id {
				m.ext = append(append([]txid{}, m.ext[:i]...), m.ext[i+1:]...)
				break
			}
		}
	}
	copy(m.nonce, nonces)
	for a := range m.slots {
		for n := range m.slots[a] {
			if n < m.nonce[a] {
				delete(m.slots[a], n) // consumed or invalidated by the state advance
			}
		}
	}
}

// reapView is one Reap output translated to ids; Unknown counts txs that were
// never submitted in this history.
type reapView struct {
	Limit   int
	IDs     []txid
	Unknown int
}

// checkReap evaluates the safety clauses of the property on one Reap output.
// Returned strings are "kind|shape|detail".
func (m *poolModel) checkReap(v reapView) []string {
	var out []string
	if v.Unknown > 0 {
		out = append(out, fmt.Sprintf("offers-unknown-tx||%d offered txs were never submitted", v.Unknown))
	}
	if v.Limit >= 0 && len(v.IDs) > v.Limit {
		// (also for the harness's own Reap(1024))
		out = append(out, fmt.Sprintf("reap-exceeds-limit||Reap(%d) returned %d txs", v.Limit, len(v.IDs)))
	}
	seen := map[txid]bool{}
	next := map[int]uint64{}
	started := map[int]bool{}
	for _, id := range v.IDs {
		if seen[id] {
			out = append(out, fmt.Sprintf("same-tx-offered-twice||%s twice in one Reap", id))
			continue
		}
		seen[id] = true
		if m.committed[id] {
			shape := "not-removed-by-commit"
			if m.resub[id] {
				shape = "resubmitted-after-commit"
			}
			class := "eth"
			if _, ok := m.ethOf[id]; !ok {
				class = "admin-op"
			}
			out = append(out, fmt.Sprintf("committed-tx-offered-again|%s/%s|%s was in a committed block and is offered by Reap(%d)", class, shape, id, v.Limit))
		}
		e, ok := m.ethOf[id]
		if !ok {
			continue
		}
		if !started[e.Acct] {
			started[e.Acct] = true
			next[e.Acct] = m.nonce[e.Acct]
		}
		want := next[e.Acct]
		switch {
		case e.Nonce == want:
			next[e.Acct] = want + 1
		case e.Nonce+1 == want && want > m.nonce[e.Acct]:
			out = append(out, fmt.Sprintf("same-account-nonce-offered-twice||account %c nonce %d offered twice (%s)", acctLetter(e.Acct), e.Nonce, id))
		default:
			shape := "gap-or-disorder"
			if want == m.nonce[e.Acct] {
				shape = "does-not-start-at-state-nonce"
				if e.Nonce < want {
					shape = "below-state-nonce"
				}
			}
			out = append(out, fmt.Sprintf("nonce-order|%s|account %c: offered nonce %d where %d is due (state nonce %d)", shape, acctLetter(e.Acct), e.Nonce, want, m.nonce[e.Acct]))
			next[e.Acct] = e.Nonce + 1
		}
	}
	return out
}

// dueAfterDrain: after the pool has been drained (reap all / commit all until
// nothing is offered) no account may be left with an obligatory tx at its
// state nonce: that tx is executable, was accepted, was never committed,
// flushed or legitimately evicted, and the pool is empty of offers, hence below
// capacity.
func (m *poolModel) dueAfterDrain() []string {
	var out []string
	for a := range m.slots {
		if s := m.slots[a][m.nonce[a]]; s != nil && s.must {
			out = append(out, fmt.Sprintf("executable-dropped||account %c: accepted tx %v at state nonce %d is never offered although the pool offers nothing else", acctLetter(a), keys(s.cands), m.nonce[a]))
		}
	}
	ids := make([]string, 0)
	for id := range m.extMust {
		ids = append(ids, string(id))
	}
	sort.Strings(ids)
	for _, id := range ids {
		out = append(out, fmt.Sprintf("executable-dropped|admin-op|accepted admin-op tx %s is never offered", id))
	}
	sort.Strings(out)
	return out
}

func keys(m map[txid]bool) []string {
	var o []string
	for k := range m {
		o = append(o, string(k))
	}
	sort.Strings(o)
	return o
}

// key is the model's own memory in canonical form.  It is part of the state
// key: two histories may be merged only if the oracle will also judge their
// futures alike.
func (m *poolModel) key() string {
	var parts []string
	for a := range m.slots {
		for n, s := range m.slots[a] {
			parts = append(parts, fmt.Sprintf("%c%d%v/%v", acctLetter(a), n, keys(s.cands), s.must))
		}
	}
	sort.Strings(parts)
	var em []string
	for id, v := range m.extMust {
		if v {
			em = append(em, string(id))
		}
	}
	sort.Strings(em)
	var rs []string
	for id, v := range m.resub {
		if v {
			rs = append(rs, string(id))
		}
	}
	sort.Strings(rs)
	return fmt.Sprintf("slots%v ext%v must%v committed%v resub%v", parts, m.ext, em, keys(m.committed), rs)
}

// clone is a deep copy (the model is plain data).
func (m *poolModel) clone() *poolModel {
	c := newPoolModel(m.nAcct, m.pendingLimit, m.waitingLimit)
	copy(c.nonce, m.nonce)
	for a := range m.slots {
		for n, s := range m.slots[a] {
			ns := &slot{cands: map[txid]bool{}, must: s.must}
			for k, v := range s.cands {
				ns.cands[k] = v
			}
			c.slots[a][n] = ns
		}
	}
	c.ext = append([]txid(nil), m.ext...)
	for k, v := range m.extMust {
		c.extMust[k] = v
	}
	for k, v := range m.committed {
		c.committed[k] = v
	}
	for k, v := range m.submitted {
		c.submitted[k] = v
	}
	for k, v := range m.resub {
		c.resub[k] = v
	}
	for k, v := range m.ethOf {
		c.ethOf[k] = v
	}
	return c
}
