package main

import (
	"os"
	"runtime"
	"runtime/debug"
	"testing"
	"time"
)

var ballast []byte

func TestBenchMp(t *testing.T) {
	switch os.Getenv("BMODE") {
	case "ballast":
		ballast = make([]byte, 512<<20)
	case "gcoff":
		debug.SetGCPercent(-1)
		debug.SetMemoryLimit(2 << 30)
	}
	w := &mpWorker{}
	c := mpCfg{Name: "A", BlockSize: 1, NTx: 4}
	for _, h := range [][]string{{"R:0", "F", "R:1"}, {"R:0", "F", "R:1"}, {"R:0", "F", "R:1"}} {
		t0 := time.Now()
		for i := 0; i < 300; i++ {
			runMp(w, c, h, "step")
		}
		var ms runtime.MemStats
		runtime.ReadMemStats(&ms)
		t.Logf("%v: %v per exec; numgc=%d sys=%dMB released=%dMB", h, time.Since(t0)/300, ms.NumGC, ms.Sys>>20, ms.HeapReleased>>20)
	}
	runtime.KeepAlive(ballast)
}
