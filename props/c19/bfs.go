package main

// Explicit-state BFS over operation histories (DESIGN §4.2 XSTATE).  A state is
// the history that reaches it; a successor is executed as: fresh instance +
// replay of the history + one more letter, on the real code.  Canonical keys
// deduplicate; the merge oracle re-expands alternative histories that reached an
// already known key and compares their next-letter observations with those of
// the key's representative.

import (
	"fmt"
	"strings"
	"sync/atomic"
	"time"

	"verif/core"
)

type sysDef struct {
	Pool     string // "ethTxPool" | "gemmill-mempool"
	Cfg      string
	Alphabet []string
	Depth    int
	Workers  int
	// Exec runs st.hist+suffix.  literal=false allows the system to start from a
	// rebuilt copy of st (st.snap) instead of replaying st.hist.
	Exec     func(worker int, st *stateRec, suffix []string, mode string, literal bool) *execResult
	Deadline time.Time // zero = none; reaching it stops the exploration (exhaustive:false)
	MergeObs  bool // merge oracle: re-expand, per key, the first alternative history that ends in the observer letter
	MergeAlts int  // merge oracle: and this many other alternative histories per key
}

type poolCase struct {
	Pool string   `json:"pool"`
	Cfg  string   `json:"cfg"`
	Mode string   `json:"mode"` // step | drain
	Hist []string `json:"history"`
	Note string   `json:"note,omitempty"`
}

type stateRec struct {
	key   string
	snap  interface{} // system-specific recipe for rebuilding the state (may be nil)
	hist  []string
	depth int
	obs   []string // per letter: digest of (observation, successor key) from the representative
	alts  int      // alternative histories already scheduled for a merge check
	altsO bool     // an alternative ending in "O" has been scheduled
}

type task struct {
	st     *stateRec // representative (expand/drain) or the representative to compare with (merge)
	hist   []string
	letter int // index into the alphabet; -1 = drain
	merge  bool
	res    *execResult
}

type bfsStats struct {
	States, Transitions, Merges, MergeChecks, MergeMismatch, Drains, Executions, PartialTransitions int64
	Reaps, Blocks                                                                 int64
	PerDepth                                                                      []int
	DepthDone                                                                     int
	Capped                                                                        bool
	Wall                                                                          float64
}

type reporter struct {
	run     *core.Run
	classes *core.Counter
	obsSet  *core.Counter
	finds   *core.Counter
	samples *core.Sampler
}

func (r *reporter) report(pool, cfg, mode string, hist []string, f finding) {
	sig := map[string]string{"pool": pool, "site": f.Site, "kind": f.Kind}
	if f.Shape != "" {
		sig["shape"] = f.Shape
	}
	r.finds.Add(fmt.Sprintf("%s/%s/%s/%s", pool, f.Site, f.Kind, f.Shape))
	r.run.Report(sig, poolCase{Pool: pool, Cfg: cfg, Mode: mode, Hist: hist},
		fmt.Sprintf("[%s cfg %s] history %v (failing at letter index %d, mode %s): %s", pool, cfg, hist, f.Step, mode, f.Detail))
}

func letterKind(l string) string {
	f := strings.Split(l, ":")
	switch f[0] {
	case "R":
		if len(f) == 4 {
			return "R-eth"
		}
		return "R-opaque"
	case "C", "CF":
		return l
	}
	return f[0]
}

func outcomeOf(obs string) string {
	o := obs
	if i := strings.Index(o, " | "); i >= 0 {
		o = o[:i]
	}
	if strings.HasPrefix(o, "blk[") {
		n := 0
		if len(o) > 5 {
			n = strings.Count(o, ",") + 1
		}
		return fmt.Sprintf("blk/%d", n)
	}
	if strings.HasPrefix(o, "obs:") {
		return "obs"
	}
	return o
}

func explore(sys sysDef, rep *reporter) bfsStats {
	t0 := time.Now()
	var st bfsStats
	wk := make(chan int, sys.Workers)
	for i := 0; i < sys.Workers; i++ {
		wk <- i
	}
	exec := func(s *stateRec, suffix []string, mode string, literal bool) *execResult {
		w := <-wk
		defer func() { wk <- w }()
		r := sys.Exec(w, s, suffix, mode, literal)
		atomic.AddInt64(&st.Executions, 1)
		atomic.AddInt64(&st.Reaps, int64(r.Reaps))
		atomic.AddInt64(&st.Blocks, int64(r.Blocks))
		return r
	}
	// determinism self-check (DESIGN §1.2): the empty history and one fixed
	// history are executed twice; keys and observations must agree.
	probe := [][]string{{}, {sys.Alphabet[0], "O", sys.Alphabet[len(sys.Alphabet)/2], sys.Alphabet[0]}}
	for _, h := range probe {
		a, b := exec(&stateRec{hist: h}, nil, "step", true), exec(&stateRec{hist: h}, nil, "step", true)
		if a.Key != b.Key || a.Obs != b.Obs {
			core.Fatal("%s/%s: execution of %v is not deterministic:\n %s | %s\n %s | %s", sys.Pool, sys.Cfg, h, a.Key, a.Obs, b.Key, b.Obs)
		}
	}
	root := exec(&stateRec{}, nil, "step", true)
	for _, f := range root.Findings {
		rep.report(sys.Pool, sys.Cfg, "step", nil, f)
	}
	if root.Key == "" {
		return st
	}
	states := map[string]*stateRec{}
	r0 := &stateRec{hist: nil, depth: 0, key: root.Key, snap: root.Snap}
	states[root.Key] = r0
	st.States = 1
	st.PerDepth = []int{1}
	frontier := []*stateRec{r0}
	var pendingMerge []task
	for d := 0; d <= sys.Depth; d++ {
		if !sys.Deadline.IsZero() && time.Now().After(sys.Deadline) && d < sys.Depth {
			st.Capped = true
			break
		}
		var tasks []task
		for _, s := range frontier {
			tasks = append(tasks, task{st: s, hist: s.hist, letter: -1})
			if d < sys.Depth {
				s.obs = make([]string, len(sys.Alphabet))
				for i := range sys.Alphabet {
					tasks = append(tasks, task{st: s, hist: s.hist, letter: i})
				}
			}
		}
		if d < sys.Depth {
			tasks = append(tasks, pendingMerge...)
		}
		pendingMerge = nil
		var skipped int64
		core.Par(len(tasks), func(i int) {
			t := &tasks[i]
			if !sys.Deadline.IsZero() && time.Now().After(sys.Deadline) {
				atomic.AddInt64(&skipped, 1)
				return
			}
			if t.letter < 0 {
				t.res = exec(t.st, nil, "drain", true) // literal: also re-validates the state's key
				return
			}
			if t.merge {
				t.res = exec(&stateRec{hist: t.hist}, []string{sys.Alphabet[t.letter]}, "step", true)
				return
			}
			t.res = exec(t.st, []string{sys.Alphabet[t.letter]}, "step", false)
		})
		var next []*stateRec
		if skipped > 0 {
			// time cap reached inside this level: verdicts of the executed cases
			// still count, the level does not
			st.Capped = true
			for i := range tasks {
				t := &tasks[i]
				if t.res == nil {
					continue
				}
				h, mode := t.hist, "drain"
				if t.letter >= 0 {
					h, mode = append(append([]string{}, t.hist...), sys.Alphabet[t.letter]), "step"
					st.PartialTransitions++
				}
				for _, f := range t.res.Findings {
					rep.report(sys.Pool, sys.Cfg, mode, h, f)
				}
			}
			break
		}
		// pass 1: representatives' observations
		for i := range tasks {
			t := &tasks[i]
			if t.letter >= 0 && !t.merge {
				t.st.obs[t.letter] = core.Hash(t.res.Obs, t.res.Key)
			}
		}
		for i := range tasks {
			t := &tasks[i]
			if t.letter < 0 {
				st.Drains++
				for _, f := range t.res.Findings {
					rep.report(sys.Pool, sys.Cfg, "drain", t.hist, f)
				}
				if len(t.res.Findings) == 0 && t.res.Key != t.st.key {
					core.Fatal("%s/%s: the literal replay of %v reaches key\n  %s\nbut the state was recorded with key\n  %s", sys.Pool, sys.Cfg, t.hist, t.res.Key, t.st.key)
				}
				continue
			}
			h := append(append([]string{}, t.hist...), sys.Alphabet[t.letter])
			for _, f := range t.res.Findings {
				rep.report(sys.Pool, sys.Cfg, "step", h, f)
			}
			if t.merge {
				st.MergeChecks++
				if len(t.res.Findings) == 0 && t.st.obs != nil && t.st.obs[t.letter] != core.Hash(t.res.Obs, t.res.Key) {
					st.MergeMismatch++
					rep.run.Notes = append(rep.run.Notes, fmt.Sprintf("MERGE MISMATCH %s/%s: histories %v and %v have the same canonical key but letter %s gives different observations (%s)", sys.Pool, sys.Cfg, t.st.hist, t.hist, sys.Alphabet[t.letter], t.res.Obs))
				}
				continue
			}
			st.Transitions++
			rep.classes.Add(sys.Pool + " " + letterKind(sys.Alphabet[t.letter]) + "→" + outcomeOf(t.res.Obs))
			rep.obsSet.Add(core.Hash(t.res.Obs))
			if (st.Transitions % 4099) == 1 {
				rep.samples.Add(poolCase{Pool: sys.Pool, Cfg: sys.Cfg, Mode: "step", Hist: h, Note: t.res.Obs})
			}
			if t.res.Key == "" {
				continue
			}
			if s, ok := states[t.res.Key]; ok {
				st.Merges++
				// merge oracle: schedule the alternative history for expansion
				// (observations only).  Always for the first alternative that
				// ends in an observer letter (hidden sort cache), plus one other.
				if d+1 < sys.Depth && len(s.hist) <= d+1 {
					isO := sys.Alphabet[t.letter] == "O"
					if (isO && !s.altsO && sys.MergeObs) || (!isO && s.alts < sys.MergeAlts) {
						if isO {
							s.altsO = true
						} else {
							s.alts++
						}
						for li := range sys.Alphabet {
							pendingMerge = append(pendingMerge, task{st: s, hist: h, letter: li, merge: true})
						}
					}
				}
				continue
			}
			ns := &stateRec{hist: h, depth: d + 1, key: t.res.Key, snap: t.res.Snap}
			states[t.res.Key] = ns
			next = append(next, ns)
			st.States++
		}
		st.DepthDone = d
		if d < sys.Depth {
			st.PerDepth = append(st.PerDepth, len(next))
		}
		frontier = next
	}
	st.Wall = time.Since(t0).Seconds()
	return st
}
