package main

// Explicit-state BFS over operation histories (DESIGN §4.2 XSTATE).  A state is
// the history that reaches it; a successor is executed as: fresh instance +
// replay of the history + one more letter, on the real code.  Canonical keys
// deduplicate; the merge oracle re-expands alternative histories that reached an
// already known key and compares their next-letter observations with those of
// the key's representative.

import (
	"fmt"
	"strings"
	"sync"
	"sync/atomic"
	"time"

	"verif/core"
)

type sysDef struct {
	Pool     string // "ethTxPool" | "gemmill-mempool"
	Cfg      string
	Alphabet []string
	Depth    int
	Workers  int
	// Exec runs st.hist+suffix.  literal=false allows the system to start from a
	// rebuilt copy of st (st.snap) instead of replaying st.hist.
	Exec      func(worker int, st *stateRec, suffix []string, mode string, literal bool) *execResult
	Deadline  time.Time // zero = none; reaching it stops the exploration (exhaustive:false)
	MergeObs  bool      // merge oracle: re-expand, per key, the first alternative history that ends in the observer letter
	MergeAlts int       // merge oracle: and this many other alternative histories per key
}

type poolCase struct {
	Pool string   `json:"pool"`
	Cfg  string   `json:"cfg"`
	Mode string   `json:"mode"` // step | drain
	Hist []string `json:"history"`
	Note string   `json:"note,omitempty"`
}

type stateRec struct {
	key   string
	snap  interface{} // system-specific recipe for rebuilding the state (may be nil)
	hist  []string
	depth int
	obs   []string // per letter: digest of (observation, successor key) from the representative
	alts  int      // alternative histories already scheduled for a merge check
	altsO bool     // an alternative ending in "O" has been scheduled
}

type task struct {
	st     *stateRec // representative (expand/drain) or the representative to compare with (merge)
	hist   []string
	letter int // index into the alphabet; -1 = drain
	merge  bool
	done   bool
	kh     string // digest of the successor key ("" = run cut by a finding)
	oh     string // digest of (observation, successor key)
	finds  []finding
	class  string
	sample string
}

// provisional new state of the level being executed: the task with the lowest
// index wins, so the representative history does not depend on scheduling
type prov struct {
	idx  int
	key  string
	snap interface{}
}

type bfsStats struct {
	States, Transitions, Merges, MergeChecks, MergeMismatch, Drains, Executions, PartialTransitions int64
	Reaps, Blocks                                                                                   int64
	PerDepth                                                                                        []int
	DepthDone                                                                                       int
	Capped                                                                                          bool
	Wall                                                                                            float64
}

type reporter struct {
	run     *core.Run
	classes *core.Counter
	obsSet  *core.Counter
	finds   *core.Counter
	samples *core.Sampler
}

func (r *reporter) report(pool, cfg, mode string, hist []string, f finding) {
	sig := map[string]string{"pool": pool, "site": f.Site, "kind": f.Kind}
	if f.Shape != "" {
		sig["shape"] = f.Shape
	}
	r.finds.Add(fmt.Sprintf("%s/%s/%s/%s", pool, f.Site, f.Kind, f.Shape))
	r.run.Report(sig, poolCase{Pool: pool, Cfg: cfg, Mode: mode, Hist: hist},
		fmt.Sprintf("[%s cfg %s] history %v (failing at letter index %d, mode %s): %s", pool, cfg, hist, f.Step, mode, f.Detail))
}

func letterKind(l string) string {
	f := strings.Split(l, ":")
	switch f[0] {
	case "R":
		if len(f) == 4 {
			return "R-eth"
		}
		return "R-opaque"
	case "C", "CF":
		return l
	}
	return f[0]
}

func outcomeOf(obs string) string {
	o := obs
	if i := strings.Index(o, " | "); i >= 0 {
		o = o[:i]
	}
	if strings.HasPrefix(o, "blk[") {
		n := 0
		if len(o) > 5 {
			n = strings.Count(o, ",") + 1
		}
		return fmt.Sprintf("blk/%d", n)
	}
	if strings.HasPrefix(o, "obs:") {
		return "obs"
	}
	return o
}

func explore(sys sysDef, rep *reporter) bfsStats {
	t0 := time.Now()
	var st bfsStats
	wk := make(chan int, sys.Workers)
	for i := 0; i < sys.Workers; i++ {
		wk <- i
	}
	exec := func(s *stateRec, suffix []string, mode string, literal bool) *execResult {
		w := <-wk
		defer func() { wk <- w }()
		r := sys.Exec(w, s, suffix, mode, literal)
		atomic.AddInt64(&st.Executions, 1)
		atomic.AddInt64(&st.Reaps, int64(r.Reaps))
		atomic.AddInt64(&st.Blocks, int64(r.Blocks))
		return r
	}
	// determinism self-check (DESIGN §1.2): the empty history and one fixed
	// history are executed twice; keys and observations must agree.
	probe := [][]string{{}, {sys.Alphabet[0], "O", sys.Alphabet[len(sys.Alphabet)/2], sys.Alphabet[0]}}
	for _, h := range probe {
		a, b := exec(&stateRec{hist: h}, nil, "step", true), exec(&stateRec{hist: h}, nil, "step", true)
		if a.Key != b.Key || a.Obs != b.Obs {
			core.Fatal("%s/%s: execution of %v is not deterministic:\n %s | %s\n %s | %s", sys.Pool, sys.Cfg, h, a.Key, a.Obs, b.Key, b.Obs)
		}
	}
	root := exec(&stateRec{}, nil, "step", true)
	for _, f := range root.Findings {
		rep.report(sys.Pool, sys.Cfg, "step", nil, f)
	}
	if root.Key == "" {
		return st
	}
	states := map[string]*stateRec{}
	r0 := &stateRec{hist: nil, depth: 0, key: root.Key, snap: root.Snap}
	states[core.Hash(root.Key)] = r0
	st.States = 1
	st.PerDepth = []int{1}
	frontier := []*stateRec{r0}
	var pendingMerge []task
	for d := 0; d <= sys.Depth; d++ {
		if !sys.Deadline.IsZero() && time.Now().After(sys.Deadline) && d < sys.Depth {
			st.Capped = true
			break
		}
		var tasks []task
		for _, s := range frontier {
			tasks = append(tasks, task{st: s, hist: s.hist, letter: -1})
			if d < sys.Depth {
				s.obs = make([]string, len(sys.Alphabet))
				for i := range sys.Alphabet {
					tasks = append(tasks, task{st: s, hist: s.hist, letter: i})
				}
			}
		}
		if d < sys.Depth {
			tasks = append(tasks, pendingMerge...)
		}
		pendingMerge = nil
		var skipped int64
		var pmu sync.Mutex
		provs := map[string]*prov{}
		core.Par(len(tasks), func(i int) {
			t := &tasks[i]
			if !sys.Deadline.IsZero() && time.Now().After(sys.Deadline) {
				atomic.AddInt64(&skipped, 1)
				return
			}
			var r *execResult
			switch {
			case t.letter < 0:
				r = exec(t.st, nil, "drain", true) // literal: also re-validates the state's key
				if len(r.Findings) == 0 && r.Key != t.st.key {
					core.Fatal("%s/%s: the literal replay of %v reaches key\n  %s\nbut the state was recorded with key\n  %s", sys.Pool, sys.Cfg, t.hist, r.Key, t.st.key)
				}
			case t.merge:
				r = exec(&stateRec{hist: t.hist}, []string{sys.Alphabet[t.letter]}, "step", true)
			default:
				r = exec(t.st, []string{sys.Alphabet[t.letter]}, "step", false)
			}
			t.done, t.finds = true, r.Findings
			if t.letter < 0 {
				return
			}
			t.oh = core.Hash(r.Obs, r.Key)
			t.class = sys.Pool + " " + letterKind(sys.Alphabet[t.letter]) + "→" + outcomeOf(r.Obs)
			if i%4099 == 1 {
				t.sample = r.Obs
			}
			rep.obsSet.Add(core.Hash(r.Obs))
			if r.Key == "" {
				return
			}
			t.kh = core.Hash(r.Key)
			if t.merge {
				return
			}
			pmu.Lock()
			if _, known := states[t.kh]; !known {
				if p, ok := provs[t.kh]; !ok || i < p.idx {
					provs[t.kh] = &prov{idx: i, key: r.Key, snap: r.Snap}
				}
			}
			pmu.Unlock()
		})
		var next []*stateRec
		if skipped > 0 {
			// time cap reached inside this level: verdicts of the executed cases
			// still count, the level does not
			st.Capped = true
			for i := range tasks {
				t := &tasks[i]
				if !t.done {
					continue
				}
				h, mode := t.hist, "drain"
				if t.letter >= 0 {
					h, mode = append(append([]string{}, t.hist...), sys.Alphabet[t.letter]), "step"
					st.PartialTransitions++
				}
				for _, f := range t.finds {
					rep.report(sys.Pool, sys.Cfg, mode, h, f)
				}
			}
			break
		}
		// pass 1: representatives' observations
		for i := range tasks {
			t := &tasks[i]
			if t.letter >= 0 && !t.merge {
				t.st.obs[t.letter] = t.oh
			}
		}
		for i := range tasks {
			t := &tasks[i]
			if t.letter < 0 {
				st.Drains++
				for _, f := range t.finds {
					rep.report(sys.Pool, sys.Cfg, "drain", t.hist, f)
				}
				continue
			}
			h := append(append([]string{}, t.hist...), sys.Alphabet[t.letter])
			for _, f := range t.finds {
				rep.report(sys.Pool, sys.Cfg, "step", h, f)
			}
			if t.merge {
				st.MergeChecks++
				if len(t.finds) == 0 && t.st.obs != nil && t.st.obs[t.letter] != t.oh {
					// two histories with one key behave differently: either the key is unsound
					// (machinery error) or the pool's future depends on something no clause lets
					// it depend on (e.g. whether an observer ran).  The drain probe of the
					// alternative decides: if it loses or mis-offers a transaction, that is the finding.
					if dr := exec(&stateRec{hist: h}, nil, "drain", true); len(dr.Findings) > 0 {
						for _, f := range dr.Findings {
							rep.report(sys.Pool, sys.Cfg, "drain", h, f)
						}
						continue
					}
					st.MergeMismatch++
					rep.run.Notes = append(rep.run.Notes, fmt.Sprintf("MERGE MISMATCH %s/%s: histories %v and %v have the same canonical key but letter %s gives different observations", sys.Pool, sys.Cfg, t.st.hist, t.hist, sys.Alphabet[t.letter]))
				}
				continue
			}
			st.Transitions++
			rep.classes.Add(t.class)
			if t.sample != "" {
				rep.samples.Add(poolCase{Pool: sys.Pool, Cfg: sys.Cfg, Mode: "step", Hist: h, Note: t.sample})
			}
			if t.kh == "" {
				continue
			}
			if s, ok := states[t.kh]; ok {
				st.Merges++
				// merge oracle: schedule the alternative history for expansion
				// (observations only).  Always for the first alternative that
				// ends in an observer letter (hidden sort cache), plus MergeAlts others.
				if d+1 < sys.Depth {
					isO := sys.Alphabet[t.letter] == "O"
					if (isO && !s.altsO && sys.MergeObs) || (!isO && s.alts < sys.MergeAlts) {
						if isO {
							s.altsO = true
						} else {
							s.alts++
						}
						for li := range sys.Alphabet {
							pendingMerge = append(pendingMerge, task{st: s, hist: h, letter: li, merge: true})
						}
					}
				}
				continue
			}
			p := provs[t.kh]
			ns := &stateRec{hist: h, depth: d + 1, key: p.key, snap: p.snap}
			states[t.kh] = ns
			next = append(next, ns)
			st.States++
		}
		st.DepthDone = d
		if d < sys.Depth {
			st.DepthDone = d + 1
		}
		if d < sys.Depth {
			st.PerDepth = append(st.PerDepth, len(next))
		}
		frontier = next
	}
	st.Wall = time.Since(t0).Seconds()
	return st
}
