// C19 — transaction pools: per-account nonce order, no duplicates, no loss,
// bounded.  Part (a) of DESIGN §5 C19: explicit-state exploration of the real
// chain/app/evm ethTxPool (inside a real EVMApp) and of the real
// gemmill/mempool.Mempool against a reference model written from the property.
// Part (b) for the gemmill mempool (SCHED: interleavings of concurrent
// submitters with the commit path) is a separate binary (props/c19sched, built
// with the import-rewriting overlay by prebuild.sh); runSchedPart runs it and
// merges its evidence and violations.  Not built: part (b) for ethTxPool and
// its evictions under virtual time; the evidence says so.
package main

import (
	"encoding/json"
	"fmt"
	"io/ioutil"
	"os"
	"os/exec"
	"path/filepath"
	"runtime/debug"
	"runtime/pprof"
	"strings"
	"sync"
	"sync/atomic"
	"time"

	"verif/core"
	"verif/evmkit"

	"github.com/dappledger/AnnChain/chain/app/evm"
)

func evmConfigs(quick bool) []evmCfg {
	full := func(int) int { return 2 }
	low := func(n int) int {
		if n <= 1 {
			return 2
		}
		return 1
	}
	a := evmCfg{Name: "A", BlockSize: 1, NAcct: 2, Nonces: 4, Payloads: full}
	// B: same (smallest configurable) limits 10/10, but the history starts from
	// a pool that is one short of both limits: account F holds 9 gapped txs
	// (waiting), account G 9 consecutive txs sent in descending order (pending).
	b := evmCfg{Name: "B", BlockSize: 1, NAcct: 4, Nonces: 3, Payloads: low}
	for n := 8; n >= 0; n-- { // first: the waiting queue is shared, G must pass through it while it is empty
		b.Prefill = append(b.Prefill, fmt.Sprintf("R:G:%d:a", n))
	}
	for n := 1; n <= 9; n++ {
		b.Prefill = append(b.Prefill, fmt.Sprintf("R:F:%d:a", n))
	}
	// C: pending one short of its limit (account G: 9 consecutive txs), waiting empty: a promotion that
	// finds a longer consecutive run than there is room must stop at the limit
	c := evmCfg{Name: "C", BlockSize: 1, NAcct: 4, Nonces: 3, Payloads: low}
	for n := 8; n >= 0; n-- {
		c.Prefill = append(c.Prefill, fmt.Sprintf("R:G:%d:a", n))
	}
	allC := []string{"C:E", "C:X", "C:A1", "C:A2", "C:B1", "C:A1B1", "C:ALL"}
	a.Commits, b.Commits, c.Commits = allC, allC, []string{"C:E", "C:A1", "C:ALL"}
	if quick {
		// shrink payload variants (second payload only for nonces 0 and 1) and the
		// commit selections before shrinking the depth
		a.Payloads = low
		a.Commits = []string{"C:E", "C:X", "C:A1", "C:A2", "C:ALL"}
		b.Commits = a.Commits
	}
	return []evmCfg{a, b, c}
}

type evmPoolOfWorkers struct {
	mu sync.Mutex
	ws map[int]*evmWorker
}

var stopProfile = func() {}

var rebuilt, fallbacks, literals, confirmed, unconfirmed int64

func main() {
	run := core.Start("C19", "model_checking", "XSTATE")
	debug.SetMemoryLimit(3 << 30)
	// small collection window: first-touch page faults are very expensive in the
	// sandbox, so garbage should be recycled from warm memory
	debug.SetGCPercent(10)
	evmkit.Silence()
	// one signature-checking goroutine per block instead of NumCPU spinning ones:
	// 16 pools are exercised in parallel and block execution is not the subject here
	evm.SetVerifValidateRoutineCount(1)
	if p := os.Getenv("VERIF_C19_CPUPROFILE"); p != "" {
		f, _ := os.Create(p)
		pprof.StartCPUProfile(f)
		defer pprof.StopCPUProfile()
		stopProfile = func() {
			pprof.StopCPUProfile()
			g, _ := os.Create(p + ".allocs")
			pprof.Lookup("allocs").WriteTo(g, 0)
			g.Close()
		}
	}
	rep := &reporter{run: run, classes: core.NewCounter(), obsSet: core.NewCounter(), finds: core.NewCounter(), samples: core.NewSampler(8, run.Seed)}
	os.RemoveAll(run.WorkDir())

	cfgs := evmConfigs(run.Quick())
	mpCfgs := []mpCfg{{Name: "A", Limits: false, BlockSize: 1, NTx: 4, Foreign: true}, {Name: "B", Limits: true, BlockSize: 1, NTx: 4}}

	// one application instance per worker slot, shared by both configurations
	// (they have the same block_size, i.e. the same application configuration;
	// they differ in the letters applied before a history)
	pw := &evmPoolOfWorkers{ws: map[int]*evmWorker{}}
	evmExecFor := func(cfg evmCfg) (func(int, *stateRec, []string, string, bool) *execResult, func()) {
		get := func(i int) *evmWorker {
			pw.mu.Lock()
			defer pw.mu.Unlock()
			if w, ok := pw.ws[i]; ok {
				if w.cfg.BlockSize != cfg.BlockSize {
					core.Fatal("worker shared across different block sizes")
				}
				w.cfg = cfg
				return w
			}
			w := newEvmWorker(cfg, evmWorkDir(run, "w", i))
			pw.ws[i] = w
			return w
		}
		return func(i int, st *stateRec, suffix []string, mode string, literal bool) *execResult {
			w := get(i)
			full := append(append([]string{}, st.hist...), suffix...)
			if s, ok := st.snap.(*evmState); ok && s != nil && !literal {
				if r := runEvm(w, s, full, len(suffix), mode); r != nil {
					atomic.AddInt64(&rebuilt, 1)
					if len(r.Findings) == 0 {
						return r
					}
					// confirm by the literal replay before anything is reported;
					// several attempts, because what the pool offers may depend on
					// Go's randomised map iteration
					for try := 0; try < 8; try++ {
						lit := runEvm(w, nil, full, 0, mode)
						if len(lit.Findings) > 0 && lit.Findings[0].Kind == r.Findings[0].Kind {
							atomic.AddInt64(&confirmed, 1)
							return lit
						}
					}
					// observed on the real pool in a state whose key equals the
					// recorded one, but not reproduced literally: reported as such
					atomic.AddInt64(&unconfirmed, 1)
					for i := range r.Findings {
						r.Findings[i].Detail += " [observed after rebuilding the parent state; 8 literal replays of the history did not show it — order-dependent output]"
					}
					return r
				}
				atomic.AddInt64(&fallbacks, 1)
			}
			atomic.AddInt64(&literals, 1)
			return runEvm(w, nil, full, 0, mode)
		}, func() {}
	}
	closeWorkers := func() {
		for _, w := range pw.ws {
			w.c.Close()
		}
	}

	if run.ReplayPath != "" {
		if replaySched(run) {
			return
		}
		var k poolCase
		if err := run.ReplayCase(&k); err != nil {
			core.Fatal("cannot load replay: %v", err)
		}
		var res *execResult
		if k.Pool == "gemmill-mempool" {
			for _, c := range mpCfgs {
				if c.Name == k.Cfg {
					res = runMp(&mpWorker{}, c, k.Hist, k.Mode)
				}
			}
		} else {
			for _, c := range evmConfigs(false) {
				if c.Name == k.Cfg {
					ex, closeAll := evmExecFor(c)
					for try := 0; try < 16 && (res == nil || len(res.Findings) == 0); try++ {
						res = ex(0, &stateRec{hist: k.Hist}, nil, k.Mode, true)
					}
					closeAll()
				}
			}
		}
		if res == nil {
			core.Fatal("replay: unknown pool/cfg %s/%s", k.Pool, k.Cfg)
		}
		for _, f := range res.Findings {
			rep.report(k.Pool, k.Cfg, k.Mode, k.Hist, f)
		}
		if os.Getenv("VERIF_C19_SHOWOBS") != "" {
			fmt.Printf("OBS %v => %s\n", k.Hist, res.Obs)
		}
		closeWorkers()
		os.RemoveAll(run.WorkDir())
		run.Finish(nil, nil)
	}

	start := time.Now()
	budget := time.Duration(run.Pick(420, 780)) * time.Second // a safety net in quick: the quick depths finish well inside it on an idle machine
	stats := map[string]bfsStats{}
	bounds := map[string]interface{}{}
	exhaustive := true

	// ---- gemmill mempool (cheap) ----
	mpw := make([]*mpWorker, 16)
	for i := range mpw {
		mpw[i] = &mpWorker{}
	}
	only := os.Getenv("VERIF_C19_ONLY") // development aid: restrict to one system (evidence is then partial)
	for _, c := range mpCfgs {
		c := c
		if only != "" && only != "mp" {
			continue
		}
		sys := sysDef{Pool: "gemmill-mempool", Cfg: c.Name, Alphabet: mpAlphabet(c), Depth: run.Pick(5, 7), Workers: 16, MergeObs: true, MergeAlts: 1,
			Deadline: deadlineFor(run, start, budget, map[string]float64{"A": 0.15, "B": 0.25}[c.Name]),
			Exec: func(i int, st *stateRec, suffix []string, mode string, _ bool) *execResult {
				return runMp(mpw[i], c, append(append([]string{}, st.hist...), suffix...), mode)
			}}
		s := explore(sys, rep)
		stats["gemmill-mempool/"+c.Name] = s
		if s.Capped {
			exhaustive = false
		}
		bounds["gemmill-mempool/"+c.Name] = map[string]interface{}{"depth": sys.Depth, "alphabet": sys.Alphabet}
	}

	// ---- ethTxPool ----
	depths := map[string]int{"A": run.Pick(4, 7), "B": run.Pick(4, 5), "C": run.Pick(3, 4)}
	share := map[string]float64{"A": 0.60, "B": 0.85, "C": 0.95}
	for _, c := range cfgs {
		if only != "" && only != "evm"+c.Name {
			continue
		}
		ex, closeAll := evmExecFor(c)
		sys := sysDef{Pool: "ethTxPool", Cfg: c.Name, Alphabet: evmAlphabet(c), Depth: depths[c.Name], Workers: 16, Exec: ex, MergeObs: true, MergeAlts: run.Pick(0, 1),
			Deadline: deadlineFor(run, start, budget, share[c.Name])}
		s := explore(sys, rep)
		closeAll()
		stats["ethTxPool/"+c.Name] = s
		bounds["ethTxPool/"+c.Name] = map[string]interface{}{"depth": sys.Depth, "alphabet": sys.Alphabet, "prefill": c.Prefill, "block_size": c.BlockSize}
		if s.Capped {
			exhaustive = false
		}
	}

	// ---- growth probe: k distinct txs for one (account, nonce) ----
	growth := map[string]interface{}{}
	if only == "" || only == "growth" {
		c := cfgs[0]
		ex, closeAll := evmExecFor(c)
		for _, slot := range []string{"A:0", "A:1"} {
			var h []string
			firstBad := -1
			for k := 0; k < 36 && firstBad < 0; k++ {
				h = append(h, fmt.Sprintf("G:%s:%d", slot, k))
				r := ex(0, &stateRec{hist: h}, nil, "step", true)
				for _, f := range r.Findings {
					rep.report("ethTxPool", c.Name, "step", h, f)
					firstBad = k + 1
				}
				rep.obsSet.Add(core.Hash(r.Obs))
			}
			growth[slot] = map[string]interface{}{"distinct_txs_sent": len(h), "first_violation_at": firstBad}
			rep.samples.Add(poolCase{Pool: "ethTxPool", Cfg: c.Name, Mode: "step", Hist: h[:3], Note: "growth probe prefix"})
		}
		closeAll()
	}

	var states, trans, execs, merges, mchecks, mmis, drains, reaps, blocks int64
	statOut := map[string]interface{}{}
	for k, s := range stats {
		states += s.States
		trans += s.Transitions
		execs += s.Executions
		merges += s.Merges
		mchecks += s.MergeChecks
		mmis += s.MergeMismatch
		drains += s.Drains
		reaps += s.Reaps
		blocks += s.Blocks
		statOut[k] = map[string]interface{}{"states": s.States, "transitions": s.Transitions, "merges": s.Merges, "merge_checks": s.MergeChecks,
			"drains": s.Drains, "executions": s.Executions, "new_states_per_depth": s.PerDepth, "max_depth_completed": s.DepthDone, "capped_by_time": s.Capped, "transitions_in_unfinished_level": s.PartialTransitions, "wall_s": int(s.Wall*10) / 10.0}
	}
	closeWorkers()
	os.RemoveAll(run.WorkDir())
	stopProfile()
	cov := core.Coverage{
		"states":                                states,
		"transitions":                           trans,
		"traces_validated_against_impl":         execs,
		"evaluations":                           execs,
		"reap_outputs_checked":                  reaps,
		"blocks_committed":                      blocks,
		"merges":                                merges,
		"merge_oracle_checks":                   mchecks,
		"merge_oracle_mismatches":               mmis,
		"drain_probes":                          drains,
		"evm_runs_from_rebuilt_state":           rebuilt,
		"evm_rebuild_fallbacks":                 fallbacks,
		"evm_literal_replays":                   literals,
		"evm_findings_confirmed_literally":      confirmed,
		"evm_findings_not_reproduced_literally": unconfirmed,
		"distinct_nontrivial":                   rep.classes.Len(),
		"distinct_observations":                 rep.obsSet.Len(),
		"outcome_classes":                       rep.classes.Map(),
		"finding_classes":                       rep.finds.Map(),
		"per_system":                            statOut,
		"growth_probe":                          growth,
		"bounds":                                bounds,
		"exhaustive":                            exhaustive,
		"samples":                               rep.samples.List(),
		"rule": "BFS over histories of letters (ReceiveTx of each tx of the alphabet, commit selections of the pool's own Reap(-1) executed as a real block + Update + OnCommit, Flush, observer letter) up to the stated depth per system/configuration; " +
			"every (unique state, letter) pair is executed on a real instance (replay + letter) and followed by the observers Reap(0|1|2|-1), Size, GetPendingMaxNonce; every unique state additionally gets a drain probe (reap all/commit all until nothing is offered) that decides the no-loss clause; " +
			"states are deduplicated by the canonical key (see canon in evmpool.go / mpool.go), merged alternatives are re-expanded for the merge oracle (first observer-ending alternative + one other per key); distinct_nontrivial counts distinct (pool, letter kind, outcome) classes, distinct_observations distinct canonical observation texts",
		"not_covered": "part (b) of DESIGN C19 is built for the gemmill mempool only (coverage.sched): interleavings of concurrent submitters with the commit path of ethTxPool and the waiting-queue evictions of ethTxPool.loop (one-minute ticker, reachable only under virtual time) are NOT explored by this driver; admin-op list at its size limit (needs 10 admin-op txs); tx filters (RegisterFilter) and the mempool WAL; txs that are invalid for the application for reasons other than the nonce",
	}
	if mmis > 0 && run.Violations() == 0 {
		core.Fatal("merge oracle failed %d times: the canonical key is unsound: %v", mmis, run.Notes[0])
	}
	schedAssumptions := runSchedPart(run, cov)
	run.Finish(cov, append([]string{
		"each history runs with fresh account keys on a long-lived application instance whose pool is brought back to empty with Flush and verified empty through the read-only snapshot (a new application instance is opened otherwise): the pool uses addresses only as map keys",
		"accounts are unfunded (the chain has no balances); txs are zero-value calls of a code-less address with gas price 0, so a tx is executable iff its nonce is the state nonce",
		"ethTxPool limits are those the configuration yields (block_size=1 ⇒ 10 pending, 10 waiting, 10 admin-op); configuration B reaches them by starting every history from a pre-filled pool (18 real ReceiveTx calls), because no smaller positive limit can be configured",
		"no-loss is judged by draining (delayed promotion is not a drop); where the model cannot exclude that the documented capacity rule evicted a tx (pool possibly at its waiting limit) the obligation for larger-nonce txs of that account is lifted",
		"gemmill mempool: order clause read as acceptance order (the pool cannot see accounts or nonces)",
	}, schedAssumptions...))
}

// runSchedPart runs part (b), the controlled-scheduler exploration of the
// gemmill mempool (props/c19sched, a separate binary because it is built with
// the import-rewriting overlay), in a private root and merges its evidence and
// violations into this run.  Returns the assumptions of that part.
func runSchedPart(run *core.Run, cov core.Coverage) []string {
	if only := os.Getenv("VERIF_C19_ONLY"); only != "" && only != "sched" {
		return nil
	}
	bin := schedBin()
	if alt := os.Getenv("VERIF_C19SCHED_BIN"); alt != "" {
		bin = alt
	}
	if _, err := os.Stat(bin); err != nil {
		core.Fatal("the SCHED binary %s is missing (props/c19/prebuild.sh builds it)", bin)
	}
	sub := filepath.Join(run.WorkDir(), "schedroot")
	os.RemoveAll(sub)
	os.MkdirAll(sub, 0755)
	if b, err := ioutil.ReadFile(filepath.Join(core.Root, "known_findings.txt")); err == nil {
		ioutil.WriteFile(filepath.Join(sub, "known_findings.txt"), b, 0644)
	}
	cmd := exec.Command(bin, run.Tier)
	cmd.Env = append(os.Environ(), "VERIF_ROOT="+sub, "VERIF_TIER="+run.Tier, "C19B_RACE_BIN="+filepath.Join(filepath.Dir(bin), "c19race"))
	out, err := cmd.CombinedOutput()
	code := 0
	if ee, ok := err.(*exec.ExitError); ok {
		code = ee.ExitCode()
	} else if err != nil {
		core.Fatal("cannot run the SCHED part (%s): %v", bin, err)
	}
	if code != 0 && code != 1 {
		tail := string(out)
		if len(tail) > 3000 {
			tail = tail[len(tail)-3000:]
		}
		core.Fatal("SCHED part failed with exit %d:\n%s", code, tail)
	}
	var ev struct {
		Coverage    map[string]interface{} `json:"coverage"`
		Assumptions []string               `json:"assumptions"`
	}
	if b, err := ioutil.ReadFile(filepath.Join(sub, "evidence", "C19.json")); err == nil {
		json.Unmarshal(b, &ev)
	}
	if ev.Coverage == nil {
		core.Fatal("SCHED part left no evidence (exit %d)", code)
	}
	cov["sched"] = ev.Coverage
	for _, k := range []string{"states", "transitions", "traces_validated_against_impl", "evaluations"} {
		a, ok1 := cov[k].(int64)
		b, ok2 := ev.Coverage[k].(float64)
		if ok1 && ok2 {
			cov[k] = a + int64(b)
		}
	}
	if ex, ok := ev.Coverage["exhaustive"].(bool); ok && !ex {
		cov["sched_exhaustive"] = false
	}
	for _, l := range strings.Split(string(out), "\n") {
		if strings.HasPrefix(l, "KNOWN-FINDING:") {
			fmt.Println(l)
		}
	}
	arts, _ := filepath.Glob(filepath.Join(sub, "replays", "C19", "*.json"))
	for _, a := range arts {
		b, err := ioutil.ReadFile(a)
		if err != nil {
			continue
		}
		var art struct {
			Sig    map[string]string `json:"sig"`
			Case   json.RawMessage   `json:"case"`
			Detail string            `json:"detail"`
		}
		if json.Unmarshal(b, &art) != nil {
			continue
		}
		if art.Sig == nil {
			art.Sig = map[string]string{}
		}
		art.Sig["part"] = "sched"
		run.Report(art.Sig, map[string]interface{}{"engine": "SCHED", "sched_case": art.Case}, art.Detail)
	}
	if code == 1 && len(arts) == 0 {
		core.Fatal("SCHED part reported a violation but left no artefact")
	}
	if os.Getenv("VERIF_MUT_ROOT") != "" && os.Getenv("VERIF_C19SCHED_BIN") == "" && os.Getenv("SEED_KEEP") == "" && strings.HasPrefix(filepath.Base(filepath.Dir(bin)), "c19sched-mut-") {
		// single-use build of a seeded run (kept with SEED_KEEP=1 so that its artefacts can be replayed)
		os.RemoveAll(filepath.Dir(bin))
	}
	return ev.Assumptions
}

// replaySched hands a SCHED artefact to the SCHED binary.
func replaySched(run *core.Run) bool {
	b, err := ioutil.ReadFile(run.ReplayPath)
	if err != nil {
		return false
	}
	var art struct {
		Case struct {
			Engine    string          `json:"engine"`
			SchedCase json.RawMessage `json:"sched_case"`
		} `json:"case"`
		Sig    map[string]string `json:"sig"`
		Detail string            `json:"detail"`
	}
	if json.Unmarshal(b, &art) != nil || art.Case.Engine != "SCHED" {
		return false
	}
	tmp := filepath.Join(run.WorkDir(), "sched-replay.json")
	nb, _ := json.Marshal(map[string]interface{}{"property": "C19", "engine": "SCHED", "sig": art.Sig, "case": art.Case.SchedCase, "detail": art.Detail})
	ioutil.WriteFile(tmp, nb, 0644)
	bin := schedBin()
	cmd := exec.Command(bin, "replay", tmp)
	cmd.Stdout, cmd.Stderr = os.Stdout, os.Stderr
	err = cmd.Run()
	if ee, ok := err.(*exec.ExitError); ok {
		os.Exit(ee.ExitCode())
	}
	os.Exit(0)
	return true
}

// schedBin locates the SCHED binary that props/c19/prebuild.sh built: below
// the .work directory this binary itself lives in (VERIF_ROOT may be a private
// root), in a directory of its own for seeded runs (VERIF_MUT_ROOT).
func schedBin() string {
	work := filepath.Join("/verif", ".work")
	if self, err := os.Executable(); err == nil {
		if d := filepath.Dir(filepath.Dir(self)); filepath.Base(d) == ".work" {
			work = d
		}
	}
	dir := "c19sched"
	if m := os.Getenv("VERIF_MUT_ROOT"); m != "" {
		dir += "-mut-" + filepath.Base(m)
	}
	return filepath.Join(work, dir, "bin-for-c19")
}

// deadlineFor: in the thorough tier the systems share one budget; in the quick
// tier the bounds are meant to be completed and every system gets the whole
// safety net for itself.
func deadlineFor(run *core.Run, start time.Time, budget time.Duration, share float64) time.Time {
	if run.Quick() {
		return time.Now().Add(budget)
	}
	return start.Add(time.Duration(float64(budget) * share))
}
