package main

// Harness for the REAL ethTxPool (chain/app/evm/tx_pool.go, tx_sort.go) inside a
// REAL EVMApp driven through verif/evmkit.

import (
	"fmt"
	"path/filepath"
	"sort"
	"strconv"
	"strings"
	"sync/atomic"

	"verif/core"
	"verif/evmkit"

	"github.com/dappledger/AnnChain/chain/app/evm"
	"github.com/dappledger/AnnChain/eth/common"
	gtypes "github.com/dappledger/AnnChain/gemmill/types"
)

// ---------------------------------------------------------------- alphabet
//
// Letters (strings, JSON friendly):
//   R:<acct>:<nonce>:<payload>   ReceiveTx of an eth tx         e.g. R:A:0:a
//   RX:<k>                       ReceiveTx of a tagged admin-op tx ("zaop"…)
//   C:<sel>                      commit: R := Reap(1024); block := selection of R
//                                (E empty, X all ext, A1/A2 first 1/2 txs of
//                                account A, B1, A1B1, ALL) in R's own order;
//                                Execute, pool.Update(height, block), Commit —
//                                the order of gemmill/state/execution.go
//   F                            Flush
//   O                            observers: Reap(0) Reap(1) Reap(2) Reap(-1)
//                                Size GetPendingMaxNonce(every account)
//   G:<acct>:<nonce>:<k>         (growth probe only) k-th payload variant

type evmCfg struct {
	Name      string
	BlockSize int
	Prefill   []string // letters applied before the history (part of the case)
	NAcct     int
	Nonces    int
	Payloads  func(nonce int) int // payload variants per nonce
	Commits   []string
}

func evmAlphabet(cfg evmCfg) []string {
	var a []string
	for acct := 0; acct < 2; acct++ {
		for n := 0; n < cfg.Nonces; n++ {
			for p := 0; p < cfg.Payloads(n); p++ {
				a = append(a, fmt.Sprintf("R:%c:%d:%c", acctLetter(acct), n, 'a'+rune(p)))
			}
		}
	}
	a = append(a, "RX:0", "RX:1")
	a = append(a, cfg.Commits...)
	a = append(a, "F", "O")
	return a
}

// ---------------------------------------------------------------- worker

var acctCounter int64

// acctRec is one key pair with the txs already signed for it.  After an
// execution an account goes back to the worker's bucket for its current state
// nonce and is handed to a later execution that needs an account with exactly
// that state nonce (the pool is emptied in between, nothing else remembers it).
type acctRec struct {
	acc  *evmkit.Account
	raws map[[2]uint64][]byte // (nonce, payload) → signed tx
}

type evmWorker struct {
	cfg       evmCfg
	dir       string
	c         *evmkit.Chain
	reopens   int
	buckets   map[uint64][]*acctRec
	provision int // blocks executed only to bring an account to a wanted state nonce
}

// take returns an account whose state nonce is n.
func (w *evmWorker) take(n uint64) *acctRec {
	if b := w.buckets[n]; len(b) > 0 {
		a := b[len(b)-1]
		w.buckets[n] = b[:len(b)-1]
		return a
	}
	if n == 0 {
		return &acctRec{acc: evmkit.Key(1000 + int(atomic.AddInt64(&acctCounter, 1))), raws: map[[2]uint64][]byte{}}
	}
	a := w.take(n - 1)
	// advance by one filler tx in a block of its own (not through the pool)
	res, err := w.c.ExecBlock([][]byte{evmkit.Call(a.acc, n-1, payloadTo, []byte{0xff})})
	if err != nil || len(res.Valid) != 1 {
		core.Fatal("cannot provision an account at nonce %d: %v", n, err)
	}
	w.provision++
	return a
}

func (w *evmWorker) giveBack(a *acctRec) {
	n := uint64(99)
	core.Try(func() { n = w.c.Nonce(a.acc.Addr) })
	if n <= 8 && len(w.buckets[n]) < 64 {
		w.buckets[n] = append(w.buckets[n], a)
	}
}

func newEvmWorker(cfg evmCfg, dir string) *evmWorker {
	w := &evmWorker{cfg: cfg, dir: dir, buckets: map[uint64][]*acctRec{}}
	c, err := evmkit.Open(evmkit.Options{Dir: dir, BlockSize: cfg.BlockSize})
	if err != nil {
		core.Fatal("evmkit.Open(%s): %v", dir, err)
	}
	w.c = c
	return w
}

// fresh brings the worker's pool back to the empty state.  Flush is the cheap
// way; it is itself under test, so the result is verified through the
// read-only snapshot and a new application instance (new pool object) is used
// whenever anything is left.
func (w *evmWorker) fresh(force bool) {
	if !force {
		ok := false
		core.Try(func() {
			w.c.App.GetTxPool().Flush()
			s := w.c.App.VerifPoolSnapshot()
			ok = len(s.Pending)+len(s.Waiting)+len(s.All)+len(s.Ext)+len(s.PendingIndex)+len(s.WaitingIndex) == 0
		})
		if ok {
			return
		}
	}
	w.reopens++
	if p, v, _ := core.Try(func() {
		if err := w.c.Reopen(); err != nil {
			panic(err)
		}
	}); p {
		core.Fatal("cannot reopen chain %s: %v", w.dir, v)
	}
}

// ---------------------------------------------------------------- one execution

type finding struct {
	Site   string
	Kind   string
	Shape  string
	Detail string
	Step   int
}

type execResult struct {
	Key      string // canonical key after the last letter ("" if the run was cut by a finding)
	Obs      string // canonical observation of the last letter (verdict/outcome + observers after it)
	Findings []finding
	Classes  []string // outcome classes seen (for the histogram)
	Reaps    int
	Blocks   int
	State    *evmState // recipe of the resulting pool state (nil: not reconstructible)
	Snap     interface{}
	Restored bool // the run started from a reconstructed state instead of a literal replay
}

type evmExec struct {
	w     *evmWorker
	pool  gtypes.TxPool
	accts []*acctRec
	addrI map[common.Address]int
	raw   map[txid][]byte
	idOf  map[string]txid
	m     *poolModel
	res   *execResult
	step  int
	bound int
	dead  bool // a panic happened inside the pool: instance unusable
	prior map[txid]string // last ReceiveTx verdict per tx in the literally executed part of the history
}

const reapAll = 1 << 10

var payloadTo = common.HexToAddress("0x00000000000000000000000000000000000c1900")

func (x *evmExec) ethRaw(e ethID) []byte {
	id := e.id()
	if r, ok := x.raw[id]; ok {
		return r
	}
	a := x.accts[e.Acct]
	r, ok := a.raws[[2]uint64{e.Nonce, uint64(e.Payload)}]
	if !ok {
		r = evmkit.Call(a.acc, e.Nonce, payloadTo, []byte{byte(e.Payload)})
		a.raws[[2]uint64{e.Nonce, uint64(e.Payload)}] = r
	}
	x.raw[id] = r
	x.idOf[string(r)] = id
	x.m.ethOf[id] = e
	return r
}

func (x *evmExec) extRaw(k int) (txid, []byte) {
	id := txid("X" + strconv.Itoa(k))
	if r, ok := x.raw[id]; ok {
		return id, r
	}
	// unique per history, so that nothing a previous history committed on this
	// worker's chain can be confused with it
	r := gtypes.TagAdminOPTx([]byte(fmt.Sprintf("{\"c19\":%d,\"serial\":%d}", k, atomic.AddInt64(&acctCounter, 1))))
	x.raw[id] = r
	x.idOf[string(r)] = id
	return id, r
}

func (x *evmExec) find(site, kind, shape, detail string) {
	x.res.Findings = append(x.res.Findings, finding{Site: site, Kind: kind, Shape: shape, Detail: detail, Step: x.step})
}

func (x *evmExec) findAll(site string, packed []string) {
	for _, p := range packed {
		f := strings.SplitN(p, "|", 3)
		x.find(site, f[0], f[1], f[2])
	}
}

func (x *evmExec) guard(site string, f func()) bool {
	if p, v, st := core.Try(f); p {
		x.find(core.PanicSite(st), "panic", "in-"+site, fmt.Sprintf("%s panicked: %v", site, core.FirstLine(v)))
		x.dead = true
		return false
	}
	return true
}

func (x *evmExec) reap(n int) (reapView, [][]byte, bool) {
	var out []gtypes.Tx
	if !x.guard("Reap", func() { out = x.pool.Reap(n) }) {
		return reapView{}, nil, false
	}
	x.res.Reaps++
	v := reapView{Limit: n}
	raws := make([][]byte, 0, len(out))
	for _, t := range out {
		raws = append(raws, []byte(t))
		if id, ok := x.idOf[string(t)]; ok {
			v.IDs = append(v.IDs, id)
		} else {
			v.Unknown++
			v.IDs = append(v.IDs, txid("?"+core.Hash(string(t))[:6]))
		}
	}
	x.findAll("ethTxPool.Reap", x.m.checkReap(v))
	return v, raws, true
}

// canonical text of a Reap(-1) output: ext ids in order, then per account
// (sorted) the offered ids in order — insensitive to the order in which the
// pool iterates accounts, sensitive to the order within an account.
func (x *evmExec) canonReap(v reapView) string {
	var ext []string
	per := map[int][]string{}
	for _, id := range v.IDs {
		if e, ok := x.m.ethOf[id]; ok {
			per[e.Acct] = append(per[e.Acct], string(id))
		} else {
			ext = append(ext, string(id))
		}
	}
	var b strings.Builder
	b.WriteString("x[" + strings.Join(ext, ",") + "]")
	for a := 0; a < len(x.accts); a++ {
		if len(per[a]) > 0 {
			fmt.Fprintf(&b, "%c[%s]", acctLetter(a), strings.Join(per[a], ","))
		}
	}
	return b.String()
}

func (x *evmExec) sizeCheck() int {
	sz := -1
	if !x.guard("Size", func() { sz = x.pool.Size() }) {
		return sz
	}
	if sz > x.bound {
		x.find("ethTxPool.Size", "size-exceeds-bound", "", fmt.Sprintf("Size()=%d > pending limit %d + waiting limit %d + admin-op limit %d", sz, x.m.pendingLimit, x.m.waitingLimit, x.m.pendingLimit))
	}
	if sz < 0 {
		x.find("ethTxPool.Size", "size-negative", "", fmt.Sprintf("Size()=%d", sz))
	}
	// each queue has its own configured bound (read through the read-only snapshot)
	snap := x.w.c.App.VerifPoolSnapshot()
	if len(snap.Pending) > snap.PendingLimit {
		x.find("ethTxPool.promoteExecutables", "queue-exceeds-bound", "pending", fmt.Sprintf("%d transactions pending, configured limit %d", len(snap.Pending), snap.PendingLimit))
	}
	if len(snap.Waiting) > snap.WaitingLimit {
		x.find("ethTxPool.addWaiting", "queue-exceeds-bound", "waiting", fmt.Sprintf("%d transactions waiting, configured limit %d", len(snap.Waiting), snap.WaitingLimit))
	}
	return sz
}

// observe runs every observer once and returns a canonical text.
func (x *evmExec) observe() string {
	var b strings.Builder
	for _, n := range []int{0, 1, 2} {
		v, _, ok := x.reap(n)
		if !ok {
			return "dead"
		}
		fmt.Fprintf(&b, "r%d=%d;", n, len(v.IDs))
	}
	v, _, ok := x.reap(-1)
	if !ok {
		return "dead"
	}
	if len(v.IDs) >= x.m.pendingLimit {
		// cut by Reap(-1)'s own cap: which account is cut is iteration order
		fmt.Fprintf(&b, "rall=capped/%d;", len(v.IDs))
	} else {
		b.WriteString("rall=" + x.canonReap(v) + ";")
	}
	fmt.Fprintf(&b, "size=%d;", x.sizeCheck())
	for a := range x.accts {
		var pn uint64
		var err error
		if !x.guard("GetPendingMaxNonce", func() { pn, err = x.pool.GetPendingMaxNonce(x.accts[a].acc.Addr.Bytes()) }) {
			return "dead"
		}
		if err == nil {
			hi := x.m.nonce[a]
			for n := range x.m.slots[a] {
				if n >= hi {
					hi = n + 1
				}
			}
			if pn < x.m.nonce[a] || pn > hi {
				x.find("ethTxPool.GetPendingMaxNonce", "pending-nonce-out-of-range", "", fmt.Sprintf("account %c: GetPendingMaxNonce=%d, state nonce %d, largest accepted nonce+1 = %d", acctLetter(a), pn, x.m.nonce[a], hi))
			}
		}
		fmt.Fprintf(&b, "pn%c=%d/%v;", acctLetter(a), pn-x.m.nonce[a], err != nil)
	}
	return b.String()
}

func (x *evmExec) appNonces() []uint64 {
	out := make([]uint64, len(x.accts))
	for i, a := range x.accts {
		out[i] = x.w.c.Nonce(a.acc.Addr)
	}
	return out
}

// commit = what gemmill/state/execution.go does around one block.
func (x *evmExec) commit(sel string) string {
	// Reap with a limit above everything the pool can hold: Reap(-1) is capped
	// at the pending limit, and which account gets cut by the cap depends on
	// Go's map iteration order — the block content must not
	v, raws, ok := x.reap(reapAll)
	if !ok || len(x.res.Findings) > 0 {
		return "cut"
	}
	quota := map[int]int{}
	takeExt, all := false, false
	switch sel {
	case "E":
	case "X":
		takeExt = true
	case "A1":
		quota[0] = 1
	case "A2":
		quota[0] = 2
	case "B1":
		quota[1] = 1
	case "A1B1":
		quota[0], quota[1] = 1, 1
	case "ALL":
		takeExt, all = true, true
	default:
		core.Fatal("bad commit selector %q", sel)
	}
	var txs, ext [][]byte
	var ids []txid
	for i, id := range v.IDs {
		if e, isEth := x.m.ethOf[id]; isEth {
			if all || quota[e.Acct] > 0 {
				quota[e.Acct]--
				txs = append(txs, raws[i])
				ids = append(ids, id)
			}
		} else if takeExt {
			ext = append(ext, raws[i])
			ids = append(ids, id)
		}
	}
	// block.Txs go to the application, block.ExTxs (admin ops) do not; the pool
	// is told about both (CommitStateUpdateMempool).
	blk := x.w.c.MakeBlock(txs)
	var invalid int
	if !x.guard("OnExecute", func() {
		er, err := x.w.c.Execute(blk)
		if err != nil {
			panic(err)
		}
		invalid = len(er.InvalidTxs)
	}) {
		return "dead"
	}
	upd := make([]gtypes.Tx, 0, len(txs)+len(ext))
	for _, t := range txs {
		upd = append(upd, gtypes.Tx(t))
	}
	for _, t := range ext {
		upd = append(upd, gtypes.Tx(t))
	}
	if !x.guard("Update", func() { x.pool.Update(blk.Height, upd) }) {
		return "dead"
	}
	if !x.guard("OnCommit", func() {
		if _, err := x.w.c.Commit(blk); err != nil {
			panic(err)
		}
	}) {
		return "dead"
	}
	x.res.Blocks++
	if invalid > 0 {
		// the selection is a per-account prefix of an output that passed the
		// nonce-order oracle, so every tx must have been executable
		core.Fatal("harness assumption broken: %d txs of an in-order block were invalid (letters so far: step %d)", invalid, x.step)
	}
	x.m.commit(ids, x.appNonces())
	strs := make([]string, len(ids))
	for i, id := range ids {
		strs[i] = string(id)
	}
	sort.Strings(strs)
	return "blk[" + strings.Join(strs, ",") + "]"
}

// drain: reap everything / commit everything until the pool offers nothing.
func (x *evmExec) drain() {
	for i := 0; i < 40; i++ {
		v, _, ok := x.reap(-1)
		if !ok || len(x.res.Findings) > 0 {
			return
		}
		if len(v.IDs) == 0 {
			x.findAll("ethTxPool", x.m.dueAfterDrain())
			return
		}
		if x.commit("ALL") == "dead" || len(x.res.Findings) > 0 {
			return
		}
	}
	x.find("ethTxPool.Reap", "drain-does-not-terminate", "", "the pool still offers txs after 40 rounds of reap-all/commit-all")
}

func (x *evmExec) apply(letter string) string {
	f := strings.Split(letter, ":")
	switch f[0] {
	case "R", "G":
		n, _ := strconv.Atoi(f[2])
		var p int
		if f[0] == "G" {
			p, _ = strconv.Atoi(f[3])
		} else {
			p = int(f[3][0] - 'a')
		}
		e := ethID{Acct: strings.IndexRune("ABFGHIJK", rune(f[1][0])), Nonce: uint64(n), Payload: p}
		if f[0] == "G" {
			e.Payload = 100 + p
		}
		raw := x.ethRaw(e)
		before := x.w.c.App.VerifPoolSnapshot()
		var err error
		if !x.guard("ReceiveTx", func() { err = x.pool.ReceiveTx(gtypes.Tx(raw)) }) {
			return "dead"
		}
		x.refusalOracle(e, raw, before, err == nil)
		if k := x.m.receiveEth(e, err == nil); k != "" {
			x.find("ethTxPool.ReceiveTx", k, "eth", fmt.Sprintf("ReceiveTx(%s) returned nil although the pool already holds exactly this tx", e.id()))
		}
		if err == nil {
			return "acc"
		}
		return "rej"
	case "RX":
		k, _ := strconv.Atoi(f[1])
		id, raw := x.extRaw(k)
		var err error
		if !x.guard("ReceiveTx", func() { err = x.pool.ReceiveTx(gtypes.Tx(raw)) }) {
			return "dead"
		}
		if kd := x.m.receiveExt(id, err == nil); kd != "" {
			x.find("ethTxPool.ReceiveTx", kd, "admin-op", fmt.Sprintf("ReceiveTx(%s) returned nil although the pool already holds exactly this tx", id))
		}
		if err == nil {
			return "acc"
		}
		return "rej"
	case "C":
		return x.commit(f[1])
	case "F":
		if !x.guard("Flush", func() { x.pool.Flush() }) {
			return "dead"
		}
		x.m.flush()
		// "Remove all transactions from tx and cache": checked at once (an
		// emptied pool has no sort caches an observer could fill)
		var sz int
		var left []gtypes.Tx
		if !x.guard("Size", func() { sz = x.pool.Size(); left = x.pool.Reap(-1) }) {
			return "dead"
		}
		if sz != 0 || len(left) != 0 {
			x.find("ethTxPool.Flush", "flush-incomplete", "", fmt.Sprintf("right after Flush: Size()=%d, Reap(-1) offers %d txs", sz, len(left)))
		}
		return "flushed"
	case "O":
		return "obs"
	}
	core.Fatal("unknown letter %q", letter)
	return ""
}

// canon is the canonical key of the instance.
//
// Why two instances with equal keys have equal futures under the alphabet:
// every letter's effect and every observer's result is a function of
//
//	(1) pending and waiting: per account the nonce→tx maps and their nonce heaps,
//	(2) the lookup map `all` (duplicate test, Size),
//	(3) the ext list (order matters: reap order, oldest-first eviction),
//	(4) the two limits (constant per configuration),
//	(5) the state nonce of the accounts in the application state,
//
// all of which are in the key, expressed with history-local names (account
// letter, nonce, payload letter) because each history uses fresh keys and the
// pool uses an address only as a map key.  Not in the key, with the reason:
// broadcastQueue and height (read only by TxsFrontWait/broadcastNewTx — gossip,
// not in the alphabet), waitingBeats (read only by the one-minute eviction loop;
// a history lives milliseconds and Flush resets it), txSortedMap.cache (a pure
// function of items when non-nil; whether it is filled depends on whether an
// observer ran — histories that differ only by "O" letters get the same key and
// the merge oracle compares their next-letter observations, so a stale cache
// shows up as a failed merge), everything else in the application state (the
// txs call a code-less address: only the sender nonce changes), chain height.
func (x *evmExec) canon() (string, *evmState) {
	var s struct {
		P, W []string
		PI   []string
		All  []string
		Ext  []string
		N    []uint64
	}
	snap := x.w.c.App.VerifPoolSnapshot()
	n := len(x.accts)
	rec := &evmState{Nonces: append([]uint64(nil), x.m.nonce...), P: make([][]ethID, n), W: make([][]ethID, n), L: make([][]ethID, n)}
	ok := true
	hashName := map[[32]byte]txid{}
	for id, raw := range x.raw {
		if _, isEth := x.m.ethOf[id]; isEth {
			var h [32]byte
			copy(h[:], gtypes.Tx(raw).Hash()) // keccak of the rlp bytes = etypes tx hash
			hashName[h] = id
		}
	}
	queued := map[txid]bool{}
	entry := func(addr [20]byte, nonce uint64, h [32]byte, dst [][]ethID) string {
		a, okA := x.addrI[common.Address(addr)]
		an := "?"
		if okA {
			an = string(acctLetter(a))
		}
		id, okH := hashName[h]
		hn := string(id)
		if !okH {
			hn = fmt.Sprintf("?%x", h[:4])
		}
		if okA && okH && x.m.ethOf[id].Acct == a && x.m.ethOf[id].Nonce == nonce {
			dst[a] = append(dst[a], x.m.ethOf[id])
			queued[id] = true
		} else {
			ok = false
		}
		return fmt.Sprintf("%s/%d=%s", an, nonce, hn)
	}
	for _, e := range snap.Pending {
		s.P = append(s.P, entry(e.Addr, e.Nonce, e.Hash, rec.P))
	}
	for _, e := range snap.Waiting {
		s.W = append(s.W, entry(e.Addr, e.Nonce, e.Hash, rec.W))
	}
	idx := func(tag string, m map[[20]byte][]uint64) {
		for addr, ns := range m {
			c := append([]uint64(nil), ns...)
			sort.Slice(c, func(i, j int) bool { return c[i] < c[j] })
			a, okA := x.addrI[common.Address(addr)]
			an := "?"
			if okA {
				an = string(acctLetter(a))
			}
			s.PI = append(s.PI, fmt.Sprintf("%s%s%v", tag, an, c))
		}
	}
	idx("p", snap.PendingIndex)
	idx("w", snap.WaitingIndex)
	for h, raw := range snap.All {
		id, known := x.idOf[string(raw)]
		if !known {
			ok = false
			s.All = append(s.All, fmt.Sprintf("?%x", h[:4]))
			continue
		}
		s.All = append(s.All, string(id))
		if !queued[id] {
			if e, isEth := x.m.ethOf[id]; isEth {
				rec.L[e.Acct] = append(rec.L[e.Acct], e)
			} else {
				ok = false
			}
		}
	}
	for id := range queued {
		if _, in := snap.All[hashOf(x.raw[id])]; !in {
			ok = false // queued but missing from the lookup map: no recipe for that
		}
	}
	for _, raw := range snap.Ext {
		id, known := x.idOf[string(raw)]
		if !known {
			ok = false
			id = txid(fmt.Sprintf("?%x", gtypes.Tx(raw).Hash()[:4]))
		}
		s.Ext = append(s.Ext, string(id))
		rec.Ext = append(rec.Ext, id)
	}
	sort.Strings(s.P)
	sort.Strings(s.W)
	sort.Strings(s.PI)
	sort.Strings(s.All)
	s.N = x.m.nonce
	key := fmt.Sprintf("P%v W%v I%v all%v ext%v n%v | model %s", s.P, s.W, s.PI, s.All, s.Ext, s.N, x.m.key())
	if !ok {
		return key, nil
	}
	for a := 0; a < n; a++ {
		for _, l := range [][]ethID{rec.P[a], rec.W[a], rec.L[a]} {
			sort.Slice(l, func(i, j int) bool {
				if l[i].Nonce != l[j].Nonce {
					return l[i].Nonce < l[j].Nonce
				}
				return l[i].Payload < l[j].Payload
			})
		}
	}
	rec.Model = x.m.clone()
	rec.Key = key
	return key, rec
}

func hashOf(raw []byte) [32]byte {
	var h [32]byte
	copy(h[:], gtypes.Tx(raw).Hash())
	return h
}

// evmState is a recipe for rebuilding a pool state on another instance
// without replaying the history that produced it (in particular without
// re-executing its blocks): accounts whose state nonce already has the wanted
// value are taken from the worker's stock, and the pool content is re-submitted
// through ReceiveTx in an order that yields the same pending / waiting / lookup
// sets.  The rebuilt instance is accepted only if its canonical key EQUALS the
// recorded one (pool part through the read-only snapshot, model part copied);
// otherwise the caller falls back to the literal replay.  By the argument at
// canon, equal keys have equal futures; on top of that every finding of a
// rebuilt run is confirmed by a literal replay before it is reported, every
// unique state is reached once more literally by its drain probe (keys are
// compared), and the merge oracle executes literally.
type evmState struct {
	Nonces  []uint64
	P, W, L [][]ethID // per account: pending, waiting, in the lookup map only
	Ext     []txid
	Model   *poolModel
	Key     string
}

func (x *evmExec) submit(raw []byte) {
	core.Try(func() { x.pool.ReceiveTx(gtypes.Tx(raw)) })
}

// rebuild re-creates st on the (emptied) pool; reports whether the key matches.
func (x *evmExec) rebuild(st *evmState) bool {
	x.m = st.Model.clone()
	for _, id := range st.Ext {
		k, _ := strconv.Atoi(string(id[1:]))
		_, raw := x.extRaw(k)
		x.submit(raw)
	}
	// phase 1, all accounts: the pending runs (they pass through the shared
	// waiting queue, so they go first, while it is empty)
	for a := range x.accts {
		p := st.P[a]
		for i := len(p) - 1; i >= 1; i-- { // everything but the head waits
			x.submit(x.ethRaw(p[i]))
		}
		if len(p) > 0 {
			x.submit(x.ethRaw(p[0])) // the head promotes the whole run
		}
	}
	// phase 2: lookup-only entries — a tx that lost a same-nonce race leaves
	// such an entry; larger nonces first (they wait), the one at the state nonce
	// last (its arrival promotes — and drops — the consecutive run)
	for a := range x.accts {
		l := st.L[a]
		for i := len(l) - 1; i >= 0; i-- {
			x.submit(x.ethRaw(l[i]))
		}
	}
	// phase 3: the waiting queue
	for a := range x.accts {
		for _, e := range st.W[a] {
			x.submit(x.ethRaw(e))
		}
	}
	var key string
	if p, _, _ := core.Try(func() { key, _ = x.canon() }); p {
		return false
	}
	return key == st.Key
}

func (x *evmExec) begin(nonces []uint64) {
	w := x.w
	w.fresh(false)
	for i := 0; i < w.cfg.NAcct; i++ {
		var n uint64
		if nonces != nil {
			n = nonces[i]
		}
		a := w.take(n)
		x.accts = append(x.accts, a)
		x.addrI[a.acc.Addr] = i
	}
	w.fresh(false) // provisioning blocks call updateToState; empty the pool afterwards
	x.pool = w.c.App.GetTxPool()
	snap := w.c.App.VerifPoolSnapshot()
	x.m = newPoolModel(w.cfg.NAcct, snap.PendingLimit, snap.WaitingLimit)
	if snap.PendingLimit != 10*w.cfg.BlockSize || snap.WaitingLimit != 10*w.cfg.BlockSize {
		// "configured bounds" = 10 × block_size for each queue (tx_pool.go NewEthTxPool)
		x.find("NewEthTxPool", "limits-not-from-config", "", fmt.Sprintf("block_size=%d gives limits %d/%d", w.cfg.BlockSize, snap.PendingLimit, snap.WaitingLimit))
	}
	x.bound = 10 * w.cfg.BlockSize * 3
	copy(x.m.nonce, x.appNonces())
}

// runEvm executes letters on the worker's real application and pool.
//
//	from == nil: literal run of prefill + hist (fresh accounts at nonce 0);
//	from != nil: rebuild that state, then run hist[len(hist)-suffix:]; returns
//	nil when the state cannot be rebuilt (caller falls back to the literal run).
//
// mode: "step" (key + observers after the last letter), "drain" (then drain).
func runEvm(w *evmWorker, from *evmState, hist []string, suffix int, mode string) *execResult {
	res := &execResult{Restored: from != nil}
	x := &evmExec{w: w, addrI: map[common.Address]int{}, raw: map[txid][]byte{}, idOf: map[string]txid{}, res: res}
	defer func() {
		if x.dead {
			w.fresh(true)
		}
		for _, a := range x.accts {
			w.giveBack(a)
		}
	}()
	letters := append(append([]string{}, w.cfg.Prefill...), hist...)
	first := -len(w.cfg.Prefill)
	if from != nil {
		x.begin(from.Nonces)
		if len(res.Findings) > 0 || !x.rebuild(from) {
			return nil
		}
		letters = hist[len(hist)-suffix:]
		first = len(hist) - suffix
	} else {
		x.begin(nil)
	}
	last := ""
	for i, l := range letters {
		x.step = first + i
		last = x.apply(l)
		if !x.dead {
			x.sizeCheck()
		}
		if x.dead || len(res.Findings) > 0 {
			return res
		}
		if l == "O" {
			last = "obs:" + x.observe()
			if x.dead || len(res.Findings) > 0 {
				return res
			}
		}
	}
	x.step = len(hist)
	x.guard("snapshot", func() {
		res.Key, res.State = x.canon()
		if res.State != nil {
			res.Snap = res.State
		}
	})
	if mode == "drain" {
		x.drain()
		res.Obs = last
	} else {
		res.Obs = last + " | " + x.observe()
	}
	if x.dead || len(res.Findings) > 0 {
		res.Key, res.State, res.Snap = "", nil, nil
	}
	return res
}

func evmWorkDir(run *core.Run, cfg string, i int) string {
	return filepath.Join(run.WorkDir(), fmt.Sprintf("evm-%s-%d", cfg, i))
}

// refusalOracle decides the clause "never drops an executable transaction while
// below its capacity" for a REFUSED submission.  A refusal is legitimate when the
// tx is stale, when the pool holds this very tx (exact duplicate) or another tx
// of the same (account, nonce) (either replacement policy), when a committed
// block contained it, or when a queue is at its limit.  Occupancy is read from
// the real pool (read-only snapshot taken before the call), so the rule needs no
// approximation of where the pool keeps what.  Anything else is a drop: the tx is
// executable right now, the pool has room, and the pool does not have it.
func (x *evmExec) refusalOracle(e ethID, raw []byte, before evm.VerifPoolSnapshot, accepted bool) {
	id := e.id()
	if x.prior == nil {
		x.prior = map[txid]string{}
	}
	was, seen := x.prior[id]
	if accepted {
		x.prior[id] = "accepted"
		return
	}
	x.prior[id] = "refused"
	if e.Nonce != x.m.nonce[e.Acct] || x.m.committed[id] {
		return
	}
	if len(before.Waiting) >= before.WaitingLimit || len(before.Pending) >= before.PendingLimit {
		return
	}
	addr := x.accts[e.Acct].acc.Addr
	for _, q := range [][]evm.VerifPoolEntry{before.Pending, before.Waiting} {
		for _, en := range q {
			if common.Address(en.Addr) == addr && en.Nonce == e.Nonce {
				return // the slot is taken (by this tx or by a rival)
			}
		}
	}
	shape := "never-submitted-before"
	if seen {
		shape = "earlier-submission-" + was
	}
	if x.res.Restored && !seen {
		shape = "history-prefix-not-executed-literally"
	}
	x.find("ethTxPool.ReceiveTx", "executable-refused-below-capacity", shape, fmt.Sprintf("ReceiveTx(%s) is refused although the tx is executable now (account nonce %d), no tx of that account and nonce is queued, no block contained it, and the queues hold %d/%d pending and %d/%d waiting", id, x.m.nonce[e.Acct], len(before.Pending), before.PendingLimit, len(before.Waiting), before.WaitingLimit))
}
