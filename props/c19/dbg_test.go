package main

import (
	"testing"

	"verif/evmkit"

	"github.com/dappledger/AnnChain/chain/app/evm"
)

func TestDbgB(t *testing.T) {
	evmkit.Silence()
	evm.SetVerifValidateRoutineCount(1)
	cfg := evmConfigs(true)[1]
	w := newEvmWorker(cfg, t.TempDir())
	r := runEvm(w, nil, nil, 0, "step")
	t.Logf("root key: %s\nobs: %s\nfind: %+v state=%v", r.Key, r.Obs, r.Findings, r.State != nil)
	if r.State != nil {
		r2 := runEvm(w, r.State, []string{"R:A:1:a"}, 1, "step")
		t.Logf("rebuilt ok: %v", r2 != nil)
	}
	r3 := runEvm(w, nil, []string{"C:ALL"}, 0, "step")
	t.Logf("C:ALL obs: %s\nkey %s", r3.Obs, r3.Key)
}
