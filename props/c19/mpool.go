package main

// Harness + reference model for the REAL gemmill/mempool.Mempool (opaque txs,
// FIFO list + dedup cache).  A fresh Mempool per execution (NewMempool is cheap).
//
// Letters:
//   R:<k>    ReceiveTx(tx k)                         k = 0..3
//   C:<j>    R := Reap(-1); Update(height, first j of R)   j = 0,1,2,ALL
//   CF:<k>   Update(height, [tx k]) — a block proposed by another node (the
//            pool may or may not hold tx k)
//   F        Flush
//   O        observers Reap(0) Reap(1) Reap(2) Reap(-1) Size
//
// Interpretation for opaque txs (no account/nonce visible to this pool): the
// only way a nonce-agnostic FIFO can keep "each account's transactions in nonce
// order" is to keep the order of acceptance, so the order clause is checked as
// "Reap offers held txs in acceptance order".

import (
	"fmt"
	"sort"
	"strconv"
	"strings"

	"github.com/spf13/viper"

	"verif/core"

	"github.com/dappledger/AnnChain/gemmill/mempool"
	gtypes "github.com/dappledger/AnnChain/gemmill/types"
)

type mpCfg struct {
	Name      string
	Limits    bool
	BlockSize int
	NTx       int
	Foreign   bool // also blocks proposed elsewhere: a commit of a tx this node never received (configuration A)
}

func mpAlphabet(cfg mpCfg) []string {
	var a []string
	for k := 0; k < cfg.NTx; k++ {
		a = append(a, fmt.Sprintf("R:%d", k))
	}
	a = append(a, "C:0", "C:1", "C:2", "C:ALL", "F", "O")
	if cfg.Foreign {
		a = append(a, fmt.Sprintf("CF:%d", cfg.NTx-1))
	}
	return a
}

type mpExec struct {
	cfg       mpCfg
	mp        *mempool.Mempool
	res       *execResult
	step      int
	dead      bool
	height    int64
	held      []string        // model: accepted, not committed, not flushed, in acceptance order
	committed map[string]bool // model
	resub     map[string]bool
	flushed   map[string]bool // committed txs whose dedup-cache entry a later Flush has removed
}

func mpTx(k int) []byte { return []byte(fmt.Sprintf("c19-opaque-tx-%d", k)) }

func mpName(raw []byte) string {
	s := string(raw)
	if strings.HasPrefix(s, "c19-opaque-tx-") {
		return "t" + s[len("c19-opaque-tx-"):]
	}
	return "?" + core.Hash(s)[:6]
}

func (x *mpExec) find(site, kind, shape, detail string) {
	x.res.Findings = append(x.res.Findings, finding{Site: site, Kind: kind, Shape: shape, Detail: detail, Step: x.step})
}

func (x *mpExec) guard(site string, f func()) bool {
	if p, v, st := core.Try(f); p {
		x.find(core.PanicSite(st), "panic", "in-"+site, fmt.Sprintf("%s panicked: %v", site, core.FirstLine(v)))
		x.dead = true
		return false
	}
	return true
}

func (x *mpExec) isHeld(n string) bool {
	for _, h := range x.held {
		if h == n {
			return true
		}
	}
	return false
}

func (x *mpExec) reap(n int) ([]string, [][]byte, bool) {
	var out []gtypes.Tx
	if !x.guard("Reap", func() { out = x.mp.Reap(n) }) {
		return nil, nil, false
	}
	x.res.Reaps++
	names := make([]string, len(out))
	raws := make([][]byte, len(out))
	for i, t := range out {
		names[i], raws[i] = mpName(t), []byte(t)
	}
	if n >= 0 && len(out) > n {
		x.find("Mempool.Reap", "reap-exceeds-limit", "", fmt.Sprintf("Reap(%d) returned %d txs", n, len(out)))
	}
	seen := map[string]bool{}
	pos := -1
	for _, nm := range names {
		if seen[nm] {
			x.find("Mempool.Reap", "same-tx-offered-twice", "", nm+" twice in one Reap")
			continue
		}
		seen[nm] = true
		if x.committed[nm] {
			shape := "not-removed-by-commit"
			if x.resub[nm] {
				shape = "resubmitted-after-commit"
				if x.flushed[nm] {
					// Flush "removes all transactions from mempool and cache": the record that the
					// tx was committed is gone with the cache
					shape = "resubmitted-after-commit-and-flush"
				}
			}
			x.find("Mempool.Reap", "committed-tx-offered-again", "opaque/"+shape, fmt.Sprintf("%s was in a committed block and is offered by Reap(%d)", nm, n))
			continue
		}
		if !x.isHeld(nm) {
			x.find("Mempool.Reap", "offers-unknown-tx", "", nm+" is offered but is not an accepted, uncommitted, unflushed tx")
			continue
		}
		p := 0
		for i, h := range x.held {
			if h == nm {
				p = i
			}
		}
		if p < pos {
			x.find("Mempool.Reap", "acceptance-order", "", fmt.Sprintf("Reap(%d)=%v but acceptance order is %v", n, names, x.held))
		}
		pos = p
	}
	if n < 0 {
		for _, h := range x.held {
			if !seen[h] {
				x.find("Mempool.Reap", "executable-dropped", "opaque", fmt.Sprintf("accepted tx %s is not offered by Reap(-1)=%v (never committed, flushed or refused)", h, names))
			}
		}
	}
	return names, raws, true
}

func (x *mpExec) sizeCheck() int {
	sz := -1
	if !x.guard("Size", func() { sz = x.mp.Size() }) {
		return sz
	}
	if x.cfg.Limits {
		if lim := 2 * x.cfg.BlockSize; sz > lim {
			x.find("Mempool.ReceiveTx", "size-exceeds-bound", "", fmt.Sprintf("Size()=%d > configured limit block_size*2 = %d (mempool_enable_txs_limits=true)", sz, lim))
		}
	}
	return sz
}

func (x *mpExec) observe() string {
	var b strings.Builder
	for _, n := range []int{0, 1, 2, -1} {
		names, _, ok := x.reap(n)
		if !ok {
			return "dead"
		}
		fmt.Fprintf(&b, "r%d=%v;", n, names)
	}
	fmt.Fprintf(&b, "size=%d", x.sizeCheck())
	return b.String()
}

func (x *mpExec) update(names []string, raws [][]byte) {
	x.height++
	txs := make([]gtypes.Tx, len(raws))
	for i, r := range raws {
		txs[i] = gtypes.Tx(r)
	}
	if !x.guard("Update", func() { x.mp.Update(x.height, txs) }) {
		return
	}
	x.res.Blocks++
	for _, nm := range names {
		x.committed[nm] = true
		x.resub[nm] = false
		for i, h := range x.held {
			if h == nm {
				x.held = append(append([]string{}, x.held[:i]...), x.held[i+1:]...)
				break
			}
		}
	}
}

func (x *mpExec) apply(letter string) string {
	f := strings.Split(letter, ":")
	switch f[0] {
	case "R":
		k, _ := strconv.Atoi(f[1])
		raw := mpTx(k)
		nm := mpName(raw)
		var err error
		if !x.guard("ReceiveTx", func() { err = x.mp.ReceiveTx(gtypes.Tx(raw)) }) {
			return "dead"
		}
		if x.isHeld(nm) {
			if err == nil {
				x.find("Mempool.ReceiveTx", "exact-duplicate-accepted", "opaque", "ReceiveTx("+nm+") returned nil although the pool holds exactly this tx")
			}
			return "rej"
		}
		if err != nil {
			return "rej"
		}
		if x.committed[nm] {
			x.resub[nm] = true
		}
		x.held = append(x.held, nm)
		return "acc"
	case "C":
		names, raws, ok := x.reap(-1)
		if !ok || len(x.res.Findings) > 0 {
			return "cut"
		}
		j := len(names)
		if f[1] != "ALL" {
			j, _ = strconv.Atoi(f[1])
		}
		if j > len(names) {
			j = len(names)
		}
		x.update(names[:j], raws[:j])
		return fmt.Sprintf("blk%v", names[:j])
	case "CF":
		k, _ := strconv.Atoi(f[1])
		x.update([]string{mpName(mpTx(k))}, [][]byte{mpTx(k)})
		return "foreign"
	case "F":
		if !x.guard("Flush", func() { x.mp.Flush() }) {
			return "dead"
		}
		x.held = nil
		for k, v := range x.committed {
			if v {
				x.flushed[k] = true
			}
		}
		// "Remove all transactions from mempool and cache": checked at once
		var sz int
		var left []gtypes.Tx
		if !x.guard("Size", func() { sz = x.mp.Size(); left = x.mp.Reap(-1) }) {
			return "dead"
		}
		if sz != 0 || len(left) != 0 {
			x.find("Mempool.Flush", "flush-incomplete", "", fmt.Sprintf("right after Flush: Size()=%d, Reap(-1) offers %d txs", sz, len(left)))
		}
		return "flushed"
	case "O":
		return "obs"
	}
	core.Fatal("unknown mempool letter %q", letter)
	return ""
}

// canon: the FIFO list (through the observable, non-mutating Reap(-1)) and the
// set of keys of the dedup cache (read accessor).  Equal keys ⇒ equal futures:
// ReceiveTx reads only cache membership, the list length (limit) and the
// filters (none registered); Reap/Size read only the list; Update reads the
// list and writes list+cache; Flush resets both.  Not in the key: counter and
// height (copied into TxInPool for gossip only), the cache's eviction list
// (matters only once it holds cacheSize = 100000 entries, unreachable within
// the depth bound; its length is recorded in the evidence maximum), the WAL
// (mempool_wal_dir unset).
func (x *mpExec) canon() string {
	var names []string
	for _, t := range x.mp.Reap(-1) {
		names = append(names, mpName(t))
	}
	var ck []string
	for _, k := range x.mp.VerifCacheKeys() {
		ck = append(ck, mpName([]byte(k)))
	}
	sort.Strings(ck)
	// the oracle's own memory is part of the state: two histories may be merged
	// only if the model would also judge their futures alike
	var cm, rs []string
	for k, v := range x.committed {
		if v {
			cm = append(cm, k)
		}
	}
	for k, v := range x.resub {
		if v {
			rs = append(rs, k)
		}
	}
	var fl []string
	for k, v := range x.flushed {
		if v {
			fl = append(fl, k)
		}
	}
	sort.Strings(cm)
	sort.Strings(rs)
	sort.Strings(fl)
	return fmt.Sprintf("L%v C%v | model held%v committed%v resub%v flushed%v", names, ck, x.held, cm, rs, fl)
}

// mpWorker keeps one Mempool per worker goroutine.  NewMempool and Flush each
// allocate a 100000-entry map, which dominates the cost of an execution, so an
// instance is reused when it can be brought back to the empty state without
// them: Update(everything it offers) — checked afterwards through Reap(-1) and
// the read-only cache accessor; a new instance is made otherwise, and in any
// case after 2000 uses (the cache's eviction list only ever grows).
type mpWorker struct {
	mp   *mempool.Mempool
	uses int
}

func (w *mpWorker) get(cfg mpCfg, x *mpExec) bool {
	if w.mp != nil && w.uses < 2000 {
		ok := false
		core.Try(func() {
			w.mp.Update(0, w.mp.Reap(-1))
			ok = len(w.mp.Reap(-1)) == 0 && w.mp.Size() == 0 && len(w.mp.VerifCacheKeys()) == 0 && w.mp.VerifCacheListLen() < 50000
		})
		if ok {
			w.uses++
			x.mp = w.mp
			return true
		}
	}
	conf := viper.New()
	conf.Set("block_size", cfg.BlockSize)
	conf.Set("mempool_enable_txs_limits", cfg.Limits)
	w.mp, w.uses = nil, 0
	if !x.guard("NewMempool", func() { x.mp = mempool.NewMempool(conf) }) {
		return false
	}
	w.mp = x.mp
	return true
}

func runMp(w *mpWorker, cfg mpCfg, hist []string, mode string) *execResult {
	res := &execResult{}
	x := &mpExec{cfg: cfg, res: res, committed: map[string]bool{}, resub: map[string]bool{}, flushed: map[string]bool{}}
	if !w.get(cfg, x) {
		return res
	}
	defer func() {
		if x.dead {
			w.mp = nil // a panic may have left the mutex locked
		}
	}()
	if cfg.Limits && x.mp.VerifTxLimit() != 2*cfg.BlockSize {
		x.find("NewMempool", "limits-not-from-config", "", fmt.Sprintf("block_size=%d gives limit %d", cfg.BlockSize, x.mp.VerifTxLimit()))
	}
	last := ""
	for i, l := range hist {
		x.step = i
		last = x.apply(l)
		if !x.dead {
			x.sizeCheck()
		}
		if x.dead || len(res.Findings) > 0 {
			return res
		}
		if l == "O" {
			last = "obs:" + x.observe()
			if x.dead || len(res.Findings) > 0 {
				return res
			}
		}
	}
	x.step = len(hist)
	x.guard("snapshot", func() { res.Key = x.canon() })
	if mode == "drain" {
		for i := 0; i < 10 && !x.dead && len(res.Findings) == 0; i++ {
			names, raws, ok := x.reap(-1)
			if !ok || len(names) == 0 {
				break
			}
			x.update(names, raws)
		}
		res.Obs = last
	} else {
		res.Obs = last + " | " + x.observe()
	}
	if x.dead || len(res.Findings) > 0 {
		res.Key = ""
	}
	return res
}
