#!/bin/bash
# Detection demos for C15: builds the driver against mutated copies of the
# anchored files (go build -overlay, /repo itself is never touched) and runs the
# quick tier in a private VERIF_ROOT.  Every mutant must end with exit=1.
#   usage: props/c15/mutants.sh            (all)   |   props/c15/mutants.sh a_no_plus1
set -u
export GOFLAGS=-mod=mod GOPROXY=off GOSUMDB=off GOTOOLCHAIN=local
W=/verif/.work/c15/mut
mkdir -p $W

mut() { # name file old new
  local name=$1 file=$2 old=$3 new=$4
  [ -n "${ONLY:-}" ] && [ "$ONLY" != "$name" ] && return
  local d=$W/$name; rm -rf $d; mkdir -p $d/root
  python3 - "$file" "$old" "$new" "$d" <<'PY' || { echo "== $name PATTERN-NOT-FOUND"; return; }
import sys,json,os
file,old,new,d=sys.argv[1:5]
s=open('/repo/'+file).read()
assert s.count(old)==1, s.count(old)
out=os.path.join(d,os.path.basename(file))
open(out,'w').write(s.replace(old,new))
json.dump({"Replace":{"/repo/"+file:out}},open(os.path.join(d,'overlay.json'),'w'))
PY
  cp /verif/known_findings.txt $d/root/
  # findings of the unchanged tree that are not (yet) in known_findings.txt, so that only the mutant's own effect shows
  echo "known: property=C15 match=powers=overflow2x (demo only) 2*total voting power overflows int64" >> $d/root/known_findings.txt
  ( cd /verif && go build -tags verif -overlay $d/overlay.json -o $d/bin ./props/c15 ) || { echo "== $name BUILD-FAILED"; return; }
  VERIF_ROOT=$d/root $d/bin quick > $d/out.txt 2>&1
  echo "== $name exit=$?"
  grep -A1 "^VIOLATION" $d/out.txt | grep "sig:" | sort | uniq -c
}
ONLY=${1:-}

VS=gemmill/types/vote_set.go
VAL=gemmill/types/validator_set.go
mut unchanged $VS "quorum := voteSet.valSet.TotalVotingPower()*2/3 + 1" "quorum := voteSet.valSet.TotalVotingPower()*2/3 + 1 "
mut a_no_plus1 $VS "quorum := voteSet.valSet.TotalVotingPower()*2/3 + 1" "quorum := voteSet.valSet.TotalVotingPower()*2/3"
mut b_sum_conflict $VS "			conflicting = existing
		}" "			conflicting = existing
			voteSet.sum += votingPower
		}"
mut c_reassign_maj23 $VS "		if voteSet.maj23 == nil {
			maj23BlockID" "		if voteSet.maj23 == nil || true {
			maj23BlockID"
mut d_verify_ge $VAL "if talliedVotingPower > valSet.TotalVotingPower()*2/3 {" "if talliedVotingPower >= valSet.TotalVotingPower()*2/3 {"
mut e_no_addr_check $VS "if !bytes.Equal(valAddr, lookupAddr) {" "if false && !bytes.Equal(valAddr, lookupAddr) {"
mut f_peer_reclaim $VS "			return // TODO bad peer!" "			// mutated: accept the new claim"
mut g_never_accept_conflict $VS "if conflicting != nil && !votesByBlock.peerMaj23 {" "if conflicting != nil {"
mut j_no_copy_over $VS "				if vote != nil {
					voteSet.votes[i] = vote
				}" "				if vote != nil && false {
					voteSet.votes[i] = vote
				}"
mut k_no_round_check $VAL "		if precommit.Round != round {" "		if false && precommit.Round != round {"
