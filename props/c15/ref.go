package main

import (
	"fmt"
	"math/big"
	"sort"
	"strings"
)

// refSet is the reference tally of ONE vote set (one height/round/type),
// written from the property text and the documented behaviour of VoteSet
// (header comment of vote_set.go, DESIGN §6.1):
//
//   - a vote is valid iff it is for this set's height/round/type, carries an
//     index inside the validator set, the address of that validator and a
//     signature by that validator's key;
//   - a validator's first valid vote is accepted;
//   - a further valid vote of the same validator for the same block is a
//     duplicate (not counted again, no error);
//   - a further valid vote for another block is a conflict and is reported as
//     such; it is accepted (counted for that block) only when some peer has
//     claimed a 2/3 majority for that block, each peer's first claim counting;
//   - the majority is the first block whose accepted votes, one per validator,
//     exceed two thirds of the total power; it never changes afterwards.
//
// Which votes were accepted is taken from AddVote's own answer after that
// answer was checked to be one the rules above allow (§6.1): the tally is over
// the votes of the set.  "offered" is kept besides for the unconditional
// soundness check (reported => more than 2/3 of distinct valid signers).
type refSet struct {
	f         *fixture
	st        step
	accepted  [][nBlk]bool
	first     []int
	offered   [][nBlk]bool
	peerClaim map[string]int
	claimed   [nBlk]bool
	maj23     int
}

func newRefSet(f *fixture, st step) *refSet {
	r := &refSet{f: f, st: st, accepted: make([][nBlk]bool, f.n), first: make([]int, f.n), offered: make([][nBlk]bool, f.n), peerClaim: map[string]int{}, maj23: -1}
	for i := range r.first {
		r.first[i] = -1
	}
	return r
}

func (r *refSet) valid(l *letter) bool {
	return l.height == theHeight && l.st == r.st &&
		l.index >= 0 && l.index < r.f.n &&
		l.addrOf == l.index && l.signedBy == l.index
}

func (r *refSet) stepIndexAddressOK(l *letter) bool {
	return l.height == theHeight && l.st == r.st && l.index >= 0 && l.index < r.f.n && l.addrOf == l.index
}

func (r *refSet) hasAny(i int) bool { return r.first[i] >= 0 }

// exceeds reports 3*p > 2*total, exactly.
func (r *refSet) exceeds(p *big.Int) bool {
	l := new(big.Int).Mul(p, big.NewInt(3))
	t := new(big.Int).Mul(r.f.total, big.NewInt(2))
	return l.Cmp(t) > 0
}

func (r *refSet) tally(b int, offered bool) *big.Int {
	s := new(big.Int)
	for i := 0; i < r.f.n; i++ {
		if (offered && r.offered[i][b]) || (!offered && r.accepted[i][b]) {
			s.Add(s, r.f.powers[i])
		}
	}
	return s
}

func (r *refSet) sumAny() *big.Int {
	s := new(big.Int)
	for i := 0; i < r.f.n; i++ {
		if r.hasAny(i) {
			s.Add(s, r.f.powers[i])
		}
	}
	return s
}

// judgeVote decides whether AddVote's answer (added, error class) is allowed for
// this letter in the current state and, if so, updates the tally.  It returns
// the outcome class (for the histogram) and "" or the kind of violation.
func (r *refSet) judgeVote(l *letter, added bool, ec string) (class string, bad string) {
	if !r.valid(l) {
		switch {
		case added:
			return "invalid", "invalid-vote-accepted"
		case ec == "none" && (l.Kind == kBadSig || l.Kind == kNoSig) && r.stepIndexAddressOK(l) && r.accepted[l.index][l.Block]:
			// a mis-signed copy of a vote the set already holds may be answered
			// as something already known
			return "invalid-copy-of-known-vote", ""
		case ec == "none":
			return "invalid", "invalid-vote-not-reported"
		case ec == "conflicting":
			return "invalid", "invalid-vote-reported-as-conflict"
		}
		return "invalid", ""
	}
	i, b := l.index, l.Block
	seenBefore := r.offered[i][b]
	r.offered[i][b] = true
	switch {
	case r.accepted[i][b]:
		class = "duplicate"
		if added {
			return class, "duplicate-vote-counted-again"
		}
		if ec != "none" {
			return class, "duplicate-vote-misreported"
		}
		return class, ""
	case !r.hasAny(i):
		class = "first"
		if !added {
			return class, "valid-first-vote-rejected"
		}
		if ec != "none" {
			return class, "valid-first-vote-misreported"
		}
	default:
		// conflict: the validator already has an accepted vote for another block
		if !added && ec == "none" && seenBefore {
			// the very same vote was offered (and reported) before and is
			// answered as something already known
			return "conflict-reoffered-as-duplicate", ""
		}
		if ec != "conflicting" {
			return "conflict", "conflicting-vote-not-reported-as-such"
		}
		if r.claimed[b] {
			class = "conflict-claimed-accepted"
			if !added {
				return class, "conflicting-vote-for-claimed-block-rejected"
			}
		} else {
			class = "conflict-unclaimed-rejected"
			if added {
				return class, "conflicting-vote-for-unclaimed-block-accepted"
			}
		}
	}
	if added {
		r.accepted[i][b] = true
		if r.first[i] < 0 {
			r.first[i] = b
		}
		if r.maj23 < 0 && r.exceeds(r.tally(b, false)) {
			r.maj23 = b
			class += "+maj23"
		}
	}
	return class, ""
}

func (r *refSet) claim(peer string, b int) string {
	if _, ok := r.peerClaim[peer]; ok {
		return "claim-ignored"
	}
	r.peerClaim[peer] = b
	r.claimed[b] = true
	return "claim"
}

// key is the canonical form of the reference state.
func (r *refSet) key() string {
	var s strings.Builder
	fmt.Fprintf(&s, "%d/%d m%d", r.st.Round, r.st.Type, r.maj23)
	for i := 0; i < r.f.n; i++ {
		fmt.Fprintf(&s, "|f%d ", r.first[i])
		for b := 0; b < nBlk; b++ {
			c := byte('.')
			if r.accepted[i][b] {
				c = 'a'
			} else if r.offered[i][b] {
				c = 'o'
			}
			s.WriteByte(c)
		}
	}
	ps := make([]string, 0, len(r.peerClaim))
	for p, b := range r.peerClaim {
		ps = append(ps, fmt.Sprintf("%s=%d", p, b))
	}
	sort.Strings(ps)
	s.WriteString("|" + strings.Join(ps, ","))
	return s.String()
}
