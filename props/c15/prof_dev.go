package main

import (
	"os"
	"runtime/pprof"
)

func init() {
	if p := os.Getenv("C15_PROF"); p != "" {
		f, _ := os.Create(p)
		pprof.StartCPUProfile(f)
		go func() {
			// stop after a while; the binary exits via os.Exit
			select {}
		}()
		profStop = func() { pprof.StopCPUProfile(); f.Close() }
	}
}

var profStop = func() {}
