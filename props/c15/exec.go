package main

import (
	"bytes"
	"fmt"
	"math/big"
	"sort"
	"strings"
	"sync/atomic"

	"verif/core"

	"github.com/dappledger/AnnChain/gemmill/consensus/pbft"
	"github.com/dappledger/AnnChain/gemmill/types"
)

// ---------------------------------------------------------------- one execution

// kase is the replayable description of one stream.
type kase struct {
	Config  string   `json:"config"`
	Powers  []int64  `json:"powers"`
	Path    string   `json:"path"` // "voteset" | "hvs"
	Letters []string `json:"letters"`
}

// problem is one oracle failure.
type problem struct {
	site, kind, letter, detail string
	// cont: the failure is recorded but the execution may go on (a panic on an
	// invalid vote; an observer that disagrees with the reference)
	cont bool
}

// world = the real object(s) + the reference next to them.
type world struct {
	f    *fixture
	path string
	vs   *types.VoteSet      // path voteset
	hvs  *pbft.HeightVoteSet // path hvs
	val  *types.ValidatorSet // verification copy (never handed to the vote set)
	refs map[step]*refSet
	main step
}

func newWorld(f *fixture, path string) *world {
	w := &world{f: f, path: path, refs: map[step]*refSet{}, main: step{theRound, types.VoteTypePrecommit}}
	vset := f.valSet()
	for i, v := range vset.Validators {
		if !bytes.Equal(v.Address, f.addrs[i]) || v.VotingPower != f.cfg.Powers[i] {
			core.Fatal("validator order of the fixture differs from ValidatorSet order")
		}
	}
	switch path {
	case "voteset":
		w.vs = types.NewVoteSet(chainID, theHeight, w.main.Round, w.main.Type, vset)
	case "hvs":
		w.hvs = pbft.NewHeightVoteSet(chainID, theHeight, vset)
	default:
		core.Fatal("unknown path %q", path)
	}
	w.refs[w.main] = newRefSet(f, w.main)
	return w
}

// verifier returns the validator set used for VerifyCommit (its own copy, never
// handed to the vote set).
func (w *world) verifier() *types.ValidatorSet {
	if w.val == nil {
		w.val = w.f.valSet()
	}
	return w.val
}

// implSet returns the real vote set of a step (nil when it does not exist).
func (w *world) implSet(st step) *types.VoteSet {
	if w.path == "voteset" {
		if st == w.main {
			return w.vs
		}
		return nil
	}
	switch st.Type {
	case types.VoteTypePrevote:
		return w.hvs.Prevotes(st.Round)
	case types.VoteTypePrecommit:
		return w.hvs.Precommits(st.Round)
	}
	return nil
}

// target is the reference set a vote letter is accounted in: a bare VoteSet gets
// every letter; a HeightVoteSet routes by the vote's own round and type.
func (w *world) target(l *letter) *refSet {
	if w.path == "voteset" {
		return w.refs[w.main]
	}
	r, ok := w.refs[l.st]
	if !ok {
		r = newRefSet(w.f, l.st)
		w.refs[l.st] = r
	}
	return r
}

func errClass(err error) string {
	if err == nil {
		return "none"
	}
	if _, ok := err.(*types.ErrVoteConflictingVotes); ok {
		return "conflicting"
	}
	return "invalid"
}

// obs is what one letter produced (used for histograms and for comparing two
// executions that are claimed to be equivalent).
type obs struct {
	class string // outcome class
	resp  string // added/error class or "panic"
}

// opsApplied counts every AddVote / SetPeerMaj23 executed on the real code
// (replayed prefixes included).
var opsApplied int64

const (
	modeReplay = iota // re-establish a state that was checked before: answers are judged, observers are not read
	modeCheck         // all oracles, commit verified untampered
	modeFull          // plus the commit tampering family
)

// apply offers one letter to the real code and checks the oracles.  It returns
// every oracle failure of this step; the execution may only go on when all of
// them are marked cont.
func (w *world) apply(li int, mode int) (o obs, ps []*problem) {
	atomic.AddInt64(&opsApplied, 1)
	l := &w.f.letters[li]
	var p *problem // a panic on an invalid vote (execution goes on if nothing changed)
	if l.Kind == kClaim {
		pan, v, st := core.Try(func() {
			if w.path == "voteset" {
				w.vs.SetPeerMaj23(l.Peer, w.f.blocks[l.Block])
			} else {
				w.hvs.SetPeerMaj23(w.main.Round, w.main.Type, l.Peer, w.f.blocks[l.Block])
			}
		})
		if pan {
			return o, []*problem{{site: core.PanicSite(st), kind: "panic", letter: l.Kind, detail: fmt.Sprintf("SetPeerMaj23 panicked: %v", core.FirstLine(v))}}
		}
		o.class = w.refs[w.main].claim(l.Peer, l.Block)
		o.resp = "claim"
	} else {
		var added bool
		var err error
		vote := l.vote.Copy() // the set keeps the pointer: never share one between executions
		pan, v, st := core.Try(func() {
			if w.path == "voteset" {
				added, err = w.vs.AddVote(vote)
			} else {
				added, err = w.hvs.AddVote(vote, hvsPeerKey)
			}
		})
		if !pan && w.path == "hvs" && l.st != w.main && w.implSet(l.st) == nil {
			// HeightVoteSet declined to track that round/type at all (its
			// catch-up policy is not part of this property): the vote must not
			// have been counted anywhere.
			o.class, o.resp = "hvs-step-not-tracked", fmt.Sprintf("added=%v/err=%s", added, errClass(err))
			if added {
				return o, []*problem{{site: "HeightVoteSet.AddVote", kind: "vote-for-untracked-step-added", letter: l.Kind, detail: fmt.Sprintf("AddVote(%s) returned added=true but no vote set exists for round %d type %d", l.Name, l.st.Round, l.st.Type)}}
			}
			if mode != modeReplay {
				ps = w.checkAll(l, mode == modeFull)
			}
			return o, ps
		}
		r := w.target(l)
		if pan {
			// A panic on an offered vote is itself a failure (reported under the
			// letter kind); the reference treats the vote as rejected and goes on
			// to demand that nothing changed.
			o.class, o.resp = "panic", "panic"
			p = &problem{site: core.PanicSite(st), kind: "panic", letter: l.Kind, detail: fmt.Sprintf("AddVote(%s) panicked: %v", l.Name, core.FirstLine(v))}
			if r.valid(l) {
				return o, []*problem{p} // a panic on a valid vote: nothing sensible to continue with
			}
		} else {
			ec := errClass(err)
			o.resp = fmt.Sprintf("added=%v/err=%s", added, ec)
			var bad string
			o.class, bad = r.judgeVote(l, added, ec)
			if bad != "" {
				return o, []*problem{{site: "VoteSet.AddVote", kind: bad, letter: l.Kind,
					detail: fmt.Sprintf("AddVote(%s) returned added=%v err=%v (class %s) in reference state [%s]; reference classification: %s", l.Name, added, err, ec, r.key(), o.class)}}
			}
		}
	}
	if mode != modeReplay {
		// An observer failure ends the execution: the wrong state would be seen
		// again after every further letter.  Only in the overflow class, where
		// already the empty set is observed wrongly, the execution goes on (the
		// reference is driven by the judged AddVote answers only and stays
		// meaningful), so that all consequences are listed.
		ps = w.checkAll(l, mode == modeFull)
		for _, q := range ps {
			q.cont = w.f.cfg.Class == "overflow2x"
		}
	}
	if p != nil {
		p.cont = true
		ps = append([]*problem{p}, ps...)
	}
	return o, ps
}

func stops(ps []*problem) bool {
	for _, p := range ps {
		if !p.cont {
			return true
		}
	}
	return false
}

func (w *world) steps() []step {
	steps := make([]step, 0, len(w.refs))
	for st := range w.refs {
		steps = append(steps, st)
	}
	sort.Slice(steps, func(i, j int) bool {
		if steps[i].Round != steps[j].Round {
			return steps[i].Round < steps[j].Round
		}
		return steps[i].Type < steps[j].Type
	})
	return steps
}

// checkAll compares every existing real set with its reference.
func (w *world) checkAll(l *letter, full bool) (ps []*problem) {
	for _, st := range w.steps() {
		vs := w.implSet(st)
		if vs == nil {
			continue
		}
		var q []*problem
		pan, v, stack := core.Try(func() { q = w.checkSet(vs, w.refs[st], l, full) })
		if pan {
			q = []*problem{{site: core.PanicSite(stack), kind: "panic-in-observer", letter: l.Kind, detail: fmt.Sprintf("observer panicked after %s: %v", l.Name, core.FirstLine(v))}}
		}
		ps = append(ps, q...)
	}
	return ps
}

func bits(n int, get func(i int) bool) string {
	b := make([]byte, n)
	for i := 0; i < n; i++ {
		if get(i) {
			b[i] = 'x'
		} else {
			b[i] = '_'
		}
	}
	return string(b)
}

// checkSet evaluates the observer groups (majority; counted power; who voted;
// commit) independently and returns one failure per group at most.
func (w *world) checkSet(vs *types.VoteSet, r *refSet, l *letter, full bool) (ps []*problem) {
	f := w.f
	fail := func(site, kind, format string, a ...interface{}) *problem {
		return &problem{site: site, kind: kind, letter: l.Kind, detail: fmt.Sprintf("after %s, reference [%s]: ", l.Name, r.key()) + fmt.Sprintf(format, a...)}
	}
	// --- the majority
	majority := func() *problem {
		id, ok := vs.TwoThirdsMajority()
		got := -1
		if ok {
			got = f.blockIndex(id)
			if got < 0 {
				return fail("VoteSet.TwoThirdsMajority", "maj23-unknown-block", "reports a majority for a block nobody voted for: %v", id)
			}
			// soundness, unconditionally over everything that was offered
			if !r.exceeds(r.tally(got, true)) {
				return fail("VoteSet.TwoThirdsMajority", "maj23-without-two-thirds", "reports %s but validly signed votes for it from distinct validators carry %v of %v", blkName[got], r.tally(got, true), f.total)
			}
		}
		if vs.HasTwoThirdsMajority() != ok {
			return fail("VoteSet.HasTwoThirdsMajority", "maj23-observers-disagree", "HasTwoThirdsMajority=%v TwoThirdsMajority ok=%v", !ok, ok)
		}
		if got != r.maj23 {
			name := func(b int) string {
				if b < 0 {
					return "none"
				}
				return blkName[b]
			}
			kind := "maj23-changed"
			switch {
			case r.maj23 < 0:
				kind = "maj23-reported-too-early"
			case got < 0:
				kind = "maj23-missing"
			}
			return fail("VoteSet.TwoThirdsMajority", kind, "reports %s, reference %s (accepted power A=%v B=%v nil=%v of %v)", name(got), name(r.maj23), r.tally(blkA, false), r.tally(blkB, false), r.tally(blkNil, false), f.total)
		}
		return nil
	}
	mp := majority()
	if mp != nil {
		ps = append(ps, mp)
	}
	// --- each validator's power counts once
	sum := r.sumAny()
	if g, want := vs.HasTwoThirdsAny(), r.exceeds(sum); g != want {
		ps = append(ps, fail("VoteSet.HasTwoThirdsAny", "two-thirds-any", "HasTwoThirdsAny=%v, distinct voters carry %v of %v", g, sum, f.total))
	} else if g, want := vs.HasAll(), sum.Cmp(f.total) == 0; g != want {
		ps = append(ps, fail("VoteSet.HasAll", "has-all", "HasAll=%v, distinct voters carry %v of %v", g, sum, f.total))
	}
	// --- who voted
	who := func() *problem {
		ba := vs.BitArray()
		gotBits := bits(f.n, func(i int) bool { return ba != nil && ba.GetIndex(i) })
		wantBits := bits(f.n, r.hasAny)
		if gotBits != wantBits || (ba != nil && ba.Size() != f.n) {
			return fail("VoteSet.BitArray", "bit-array", "BitArray=%s want %s", gotBits, wantBits)
		}
		for b := 0; b < nBlk; b++ {
			bb := vs.BitArrayByBlockID(f.blocks[b])
			g := bits(f.n, func(i int) bool { return bb != nil && bb.GetIndex(i) })
			want := bits(f.n, func(i int) bool { return r.accepted[i][b] })
			if g != want {
				return fail("VoteSet.BitArrayByBlockID", "bit-array-by-block", "BitArrayByBlockID(%s)=%s want %s", blkName[b], g, want)
			}
		}
		return nil
	}
	if p := who(); p != nil {
		ps = append(ps, p)
	}
	// --- the commit
	if mp == nil && r.st == w.main && r.maj23 >= 0 && r.maj23 != blkNil {
		if p := w.checkCommit(vs, r, l, full); p != nil {
			ps = append(ps, p)
		}
	}
	return ps
}

// implKey is the part of the canonical state that only the implementation
// knows: which vote of each validator is the primary one (it decides what
// MakeCommit hands out) and for which blocks a tally exists.
func (w *world) implKey() string {
	var s strings.Builder
	for _, st := range w.steps() {
		s.WriteString(w.refs[st].key())
		vs := w.implSet(st)
		if vs == nil {
			s.WriteString("#absent;")
			continue
		}
		s.WriteString("#p")
		for i := 0; i < w.f.n; i++ {
			v := vs.GetByIndex(i)
			if v == nil {
				s.WriteString("-")
			} else {
				fmt.Fprintf(&s, "%d", w.f.blockIndex(v.BlockID))
			}
		}
		s.WriteString(" t")
		for b := 0; b < nBlk; b++ {
			if vs.BitArrayByBlockID(w.f.blocks[b]) != nil {
				s.WriteString("1")
			} else {
				s.WriteString("0")
			}
		}
		s.WriteString(";")
	}
	return s.String()
}

// ---------------------------------------------------------------- commit

func (w *world) checkCommit(vs *types.VoteSet, r *refSet, l *letter, full bool) *problem {
	f := w.f
	maj := f.blocks[r.maj23]
	fail := func(site, kind, format string, a ...interface{}) *problem {
		return &problem{site: site, kind: kind, letter: l.Kind, detail: fmt.Sprintf("after %s, reference [%s]: ", l.Name, r.key()) + fmt.Sprintf(format, a...)}
	}
	var commit *types.Commit
	var err error
	pan, v, st := core.Try(func() {
		commit = vs.MakeCommit()
		err = w.verifier().VerifyCommit(chainID, maj, theHeight, commit)
	})
	if pan {
		return fail(core.PanicSite(st), "panic-commit", "MakeCommit/VerifyCommit panicked: %v", core.FirstLine(v))
	}
	if err != nil {
		return fail("ValidatorSet.VerifyCommit", "commit-of-majority-fails-verification", "commit assembled for %s fails: %v", blkName[r.maj23], err)
	}
	if !commit.BlockID.Equals(maj) || len(commit.Precommits) != f.n {
		return fail("VoteSet.MakeCommit", "commit-for-other-block", "commit is for %v with %d precommits", commit.BlockID, len(commit.Precommits))
	}
	if !full {
		return nil
	}
	// the tampering family: change exactly one vote (or one argument of the
	// verification); verification must fail unless more than 2/3 of the power
	// still stands behind the block with untouched, validly signed votes.
	blockOf := make([]int, f.n)
	for j, pc := range commit.Precommits {
		blockOf[j] = -1
		if pc != nil {
			blockOf[j] = f.blockIndex(pc.BlockID)
		}
	}
	type tamper struct {
		name string
		k    int
		repl *types.Vote
		cnt  int // round in which the replacement is a validly signed precommit of k for the majority block (-1: none)
	}
	var ts []tamper
	otherKey := func(k int) *types.Vote {
		c := commit.Precommits[k].Copy()
		if f.n > 1 {
			signVote(f.privs[(k+1)%f.n], c)
		} else {
			signVote(f.outsider, c)
		}
		return c
	}
	for k, pc := range commit.Precommits {
		if pc == nil || blockOf[k] < 0 {
			continue
		}
		ts = append(ts, tamper{"drop", k, nil, -1})
		ts = append(ts, tamper{"re-sign-other-key", k, otherKey(k), -1})
		if blockOf[k] == r.maj23 {
			// a validly signed precommit for the same block in the next round: it
			// belongs to another (possible) commit, not to this one
			ts = append(ts, tamper{"other-round", k, f.validRound[k][blockOf[k]], 1})
		} else {
			ts = append(ts, tamper{"other-round", k, f.validRound[k][blockOf[k]], -1})
		}
		for b := 0; b < nBlk; b++ {
			if b != blockOf[k] {
				c := -1
				if b == r.maj23 {
					c = 0
				}
				ts = append(ts, tamper{"other-block", k, f.valid[k][b], c})
			}
		}
	}
	for _, t := range ts {
		pcs := make([]*types.Vote, f.n)
		copy(pcs, commit.Precommits)
		pcs[t.k] = t.repl
		// a commit is more than 2/3 of precommits for the block in ONE round
		remaining, nextRound := new(big.Int), new(big.Int)
		for j := 0; j < f.n; j++ {
			if (j != t.k && blockOf[j] == r.maj23) || (j == t.k && t.cnt == 0) {
				remaining.Add(remaining, f.powers[j])
			}
		}
		if t.cnt == 1 {
			nextRound.Set(f.powers[t.k])
		}
		var verr error
		pan, v, st := core.Try(func() {
			verr = w.verifier().VerifyCommit(chainID, maj, theHeight, &types.Commit{BlockID: commit.BlockID, Precommits: pcs})
		})
		if pan {
			shape := "some-votes-left"
			allNil := true
			for _, x := range pcs {
				if x != nil {
					allNil = false
				}
			}
			if allNil {
				shape = "no-votes-left"
			}
			return &problem{site: core.PanicSite(st), kind: "panic-tampered-commit", letter: t.name + "/" + shape,
				detail: fmt.Sprintf("after %s, reference [%s]: VerifyCommit panicked on the commit with vote %d tampered (%s): %v", l.Name, r.key(), t.k, t.name, core.FirstLine(v))}
		}
		if !r.exceeds(remaining) && !r.exceeds(nextRound) && verr == nil {
			return &problem{site: "ValidatorSet.VerifyCommit", kind: "tampered-commit-verifies", letter: t.name,
				detail: fmt.Sprintf("after %s, reference [%s]: commit with vote %d tampered (%s) verifies although only %v of %v stands behind %s", l.Name, r.key(), t.k, t.name, remaining, f.total, blkName[r.maj23])}
		}
	}
	// one argument of the verification changed
	inCommit := func(b int) *big.Int {
		s := new(big.Int)
		for j := 0; j < f.n; j++ {
			if blockOf[j] == b {
				s.Add(s, f.powers[j])
			}
		}
		return s
	}
	type argt struct {
		name   string
		chain  string
		block  int
		height int64
		must   bool // must fail
	}
	var as []argt
	for b := 0; b < nBlk; b++ {
		if b != r.maj23 {
			as = append(as, argt{"verify-for-other-block", chainID, b, theHeight, !r.exceeds(inCommit(b))})
		}
	}
	as = append(as, argt{"verify-for-other-chain", chainID + "x", r.maj23, theHeight, true})
	as = append(as, argt{"verify-for-other-height", chainID, r.maj23, theHeight + 1, true})
	for _, a := range as {
		var verr error
		pan, v, st := core.Try(func() {
			pcs := make([]*types.Vote, f.n)
			copy(pcs, commit.Precommits)
			verr = w.verifier().VerifyCommit(a.chain, f.blocks[a.block], a.height, &types.Commit{BlockID: commit.BlockID, Precommits: pcs})
		})
		if pan {
			return &problem{site: core.PanicSite(st), kind: "panic-tampered-commit", letter: a.name,
				detail: fmt.Sprintf("after %s: VerifyCommit (%s) panicked: %v", l.Name, a.name, core.FirstLine(v))}
		}
		if a.must && verr == nil {
			return &problem{site: "ValidatorSet.VerifyCommit", kind: "tampered-commit-verifies", letter: a.name,
				detail: fmt.Sprintf("after %s, reference [%s]: the commit for %s verifies under %s", l.Name, r.key(), blkName[r.maj23], a.name)}
		}
	}
	return nil
}

// checkSubsetCommits decides ValidatorSet.VerifyCommit's own arithmetic
// exhaustively: for every non-empty subset S of the validators, the commit made
// of their valid precommits for block A (everybody else absent, or everybody
// else precommitting B) verifies for A iff S carries more than 2/3 of the power.
func checkSubsetCommits(f *fixture, report func(p *problem, desc string)) int {
	val := f.valSet()
	n := 0
	for mask := 1; mask < 1<<uint(f.n); mask++ {
		for _, rest := range []int{-1, blkB} {
			pcs := make([]*types.Vote, f.n)
			power := new(big.Int)
			for i := 0; i < f.n; i++ {
				if mask&(1<<uint(i)) != 0 {
					pcs[i] = f.valid[i][blkA].Copy()
					power.Add(power, f.powers[i])
				} else if rest >= 0 {
					pcs[i] = f.valid[i][rest].Copy()
				}
			}
			want := new(big.Int).Mul(power, big.NewInt(3)).Cmp(new(big.Int).Mul(f.total, big.NewInt(2))) > 0
			var err error
			desc := fmt.Sprintf("precommits for A by validator subset %0*b (power %v of %v), others %d", f.n, mask, power, f.total, rest)
			pan, v, st := core.Try(func() {
				err = val.VerifyCommit(chainID, f.blocks[blkA], theHeight, &types.Commit{BlockID: f.blocks[blkA], Precommits: pcs})
			})
			n++
			switch {
			case pan:
				report(&problem{site: core.PanicSite(st), kind: "panic-commit", letter: "subset-commit", detail: fmt.Sprintf("VerifyCommit panicked: %v", core.FirstLine(v))}, desc)
			case want && err != nil:
				report(&problem{site: "ValidatorSet.VerifyCommit", kind: "commit-with-two-thirds-fails", letter: "subset-commit", detail: fmt.Sprintf("%s: %v", desc, err)}, desc)
			case !want && err == nil:
				report(&problem{site: "ValidatorSet.VerifyCommit", kind: "commit-without-two-thirds-verifies", letter: "subset-commit", detail: desc + ": verifies"}, desc)
			}
		}
	}
	return n
}
