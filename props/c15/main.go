// C15 — vote accounting: a 2/3 majority is reported exactly when it exists.
//
// Explicit-state exhaustive enumeration of vote / peer-majority-claim streams on
// the real gemmill/types.VoteSet (and through pbft.HeightVoteSet) next to a
// reference tally (ref.go), DESIGN §5 C15 / §6.1.
//
// A state is the operation history that reaches it; real vote sets cannot be
// cloned, so a successor is "fresh set + replay of the history + one letter".
// Histories are merged on a canonical key:
//
//	reference state  (per validator: blocks with an accepted vote, blocks with
//	                  an offered valid vote, first block; each peer's claim;
//	                  the majority)
//	+ what only the implementation decides: the primary vote of every
//	  validator (GetByIndex) and whether a per-block tally exists
//	  (BitArrayByBlockID != nil).
//
// Why merged histories have equal futures: signatures are deterministic, so
// the set of stored (validator, block) votes determines the stored vote
// objects; VoteSet's fields are votes[] (= primary votes), votesBitArray and
// sum (functions of "has any vote"), maj23, votesByBlock (stored votes per
// block + its peerMaj23 flag = "some peer's first claim names the block") and
// peerMaj23s (= each peer's first claim); all of them are in the key.  The
// argument is additionally tested: for every merged state a second history is
// kept and expanded as well, and both must give the same answers and successor
// keys for every letter (a failed merge is an internal error, not a verdict).
package main

import (
	"fmt"
	"sort"
	"strings"
	"sync"
	"sync/atomic"
	"time"

	"verif/core"
)

// Stream length bounds (Len: bare VoteSet quick/thorough, HeightVoteSet
// quick/thorough).  Sets of up to 3 validators run to length 4 (quick) / 6
// (thorough).  Signature verification in the replays makes a level of a
// 4-validator set about five times as expensive as the one before, so the
// 4-validator sets run to 4 ([1,2,3,4]) or 3 (the others) / 5 and, in the
// thorough tier, the two sets of
// DESIGN C15 ([1,2,3,4] first, then [1,1,1,1]) get their sixth letter as an
// extension under a time cap (extStartCap/extCutCap): on an otherwise idle
// machine both complete within two minutes; on a crowded one they are skipped
// and reported as such.  The additional sets (same-hash block ids, exact 2/3
// boundary below the overflow) and the overflow set are about arithmetic and
// block identity rather than long histories.  The same streams through
// HeightVoteSet run shorter (the routing layer adds no accounting of its own).
const (
	extStartCap = 6 * time.Minute  // an extension level is not started later than this
	extCutCap   = 11 * time.Minute // a running extension level takes no new states after this
)

var configs = []config{
	{Name: "n1", Powers: []int64{1}, Class: "small", Len: [4]int{4, 6, 3, 5}},
	{Name: "n2", Powers: []int64{1, 1}, Class: "small", Len: [4]int{4, 6, 3, 5}},
	{Name: "n3", Powers: []int64{1, 1, 1}, Class: "small", Len: [4]int{4, 6, 3, 5}},
	{Name: "n3-same-hash", Powers: []int64{1, 1, 1}, Class: "small", SameHash: true, Len: [4]int{3, 6, 2, 5}},
	{Name: "n4-1234", Powers: []int64{1, 2, 3, 4}, Class: "small", Len: [4]int{4, 5, 3, 4}, Ext: true},
	{Name: "n4", Powers: []int64{1, 1, 1, 1}, Class: "small", Len: [4]int{3, 5, 2, 4}, Ext: true},
	// the same sets as they stand after a block with validator changes / after a reload (cached fields unset or stale)
	{Name: "n3-built-by-add-update", Powers: []int64{1, 1, 1}, Class: "small", Build: "add-update", Len: [4]int{3, 5, 2, 4}},
	{Name: "n4-1234-reloaded-then-updated", Powers: []int64{1, 2, 3, 4}, Class: "small", Build: "reload-update", Len: [4]int{3, 4, 2, 3}},
	// total = 2^62-1 = 3k: 2*total is the largest such product that still fits
	// int64; {k,k} is exactly 2/3 (no majority), {k,k,1} exceeds it by one.
	{Name: "n4-boundary", Powers: []int64{1537228672809129301, 1537228672809129301, 1537228672809129300, 1}, Class: "boundary", Len: [4]int{3, 5, 2, 4}},
	// total fits int64, 2*total does not (DESIGN: overflow boundary of *2/3)
	{Name: "n4-overflow2x", Powers: []int64{1 << 62, 1 << 60, 1 << 60, 1}, Class: "overflow2x", Len: [4]int{3, 5, 2, 4}},
}

type node struct {
	hist []uint8
	alt  []uint8 // another history with the same canonical key (nil: none seen)
	key  string
}

func lessHist(a, b []uint8) bool {
	for i := 0; i < len(a) && i < len(b); i++ {
		if a[i] != b[i] {
			return a[i] < b[i]
		}
	}
	return len(a) < len(b)
}

type stats struct {
	Config       string         `json:"config"`
	Path         string         `json:"path"`
	Letters      int            `json:"letters"`
	MaxLen       int            `json:"max_stream_length"`
	States       int            `json:"states"`
	StatesByLen  []int          `json:"new_states_by_length"`
	Transitions  int64          `json:"transitions"`
	Merges       int64          `json:"merges"`
	MergeChecks  int64          `json:"merge_checks"`
	MergesFailed int64          `json:"merges_failed"`
	CommitStates int64          `json:"states_with_commit_tamper_family"`
	Streams      string         `json:"streams_covered"`
	WallS        float64        `json:"wall_s"`
	Extension    string         `json:"extension,omitempty"` // one more level under a time cap: "completed" | "not started (time cap)" | "cut (time cap)"
	ExtExpanded  int            `json:"extension_states_expanded,omitempty"`
	ExtSkipped   int            `json:"extension_states_skipped,omitempty"`
	Outcomes     map[string]int `json:"-"`
}

type explorer struct {
	run     *core.Run
	f       *fixture
	path    string
	classes *core.Counter
	samples *core.Sampler
	st      *stats
	execs   *int64
	// failure classes whose minimal stream has been looked for
	minimized *core.Counter

	seen     map[string]*node
	frontier []*node
}

func (e *explorer) kase(hist []uint8) kase {
	return kase{Config: e.f.cfg.Name, Powers: e.f.cfg.Powers, Path: e.path, Letters: e.f.names(hist)}
}

func (e *explorer) report(hist []uint8, p *problem) {
	sig := map[string]string{"site": p.site, "kind": p.kind, "letter": p.letter}
	if e.f.cfg.Class == "overflow2x" && !strings.HasPrefix(p.kind, "panic") {
		// a separate input class: 2*total does not fit int64; which letter
		// exposes it is irrelevant
		sig = map[string]string{"site": p.site, "kind": p.kind, "powers": "overflow2x"}
	}
	k := e.kase(hist)
	collect(sig, k, fmt.Sprintf("%s powers=%v path=%s stream=%v: %s", k.Config, k.Powers, k.Path, k.Letters, p.detail))
}

// Failures are collected per signature and handed to core.Run at the end, so
// that the recorded exemplar of a class is the same in every run (shortest
// stream, then configuration order, bare VoteSet first, then letter names)
// whatever the scheduling of the workers was.
type finding struct {
	sig    map[string]string
	k      kase
	detail string
	n      int
	rank   string
}

var findings = struct {
	sync.Mutex
	m map[string]*finding
}{m: map[string]*finding{}}

func collect(sig map[string]string, k kase, detail string) {
	ks := make([]string, 0, len(sig))
	for a, b := range sig {
		ks = append(ks, a+"="+b)
	}
	sort.Strings(ks)
	key := strings.Join(ks, ";")
	ci := 0
	for i := range configs {
		if configs[i].Name == k.Config {
			ci = i
		}
	}
	pi := 1
	if k.Path == "voteset" {
		pi = 0
	}
	rank := fmt.Sprintf("%03d/%02d/%d/%s", len(k.Letters), ci, pi, strings.Join(k.Letters, ","))
	findings.Lock()
	defer findings.Unlock()
	f, ok := findings.m[key]
	if !ok {
		findings.m[key] = &finding{sig: sig, k: k, detail: detail, n: 1, rank: rank}
		return
	}
	f.n++
	if rank < f.rank {
		f.k, f.detail, f.rank = k, detail, rank
	}
}

func flush(run *core.Run) {
	findings.Lock()
	defer findings.Unlock()
	keys := make([]string, 0, len(findings.m))
	for k := range findings.m {
		keys = append(keys, k)
	}
	sort.Strings(keys)
	for _, k := range keys {
		f := findings.m[k]
		for i := 0; i < f.n; i++ {
			run.Report(f.sig, f.k, f.detail)
		}
	}
	findings.m = map[string]*finding{}
}

// result of offering one letter in a state
type result struct {
	ok     bool   // false: an oracle failure that ends the execution was reported
	key    string // canonical key of the successor
	o      obs
	w      *world // live world (successor states only)
	last   *letter
	actual []uint8 // the letters this world really saw
}

// start builds a fresh world and replays hist.  A failure while replaying is
// a failure of a real stream and is reported like any other.
func (e *explorer) start(hist []uint8) *world {
	atomic.AddInt64(e.execs, 1)
	w := newWorld(e.f, e.path)
	for i, h := range hist {
		if _, ps := w.apply(int(h), modeReplay); stops(ps) {
			for _, p := range ps {
				e.report(hist[:i+1], p)
			}
			return nil
		}
	}
	return w
}

// walk offers every letter of the alphabet in the state reached by hist (whose
// canonical key is parentKey).  Every letter is applied with all oracles.  A
// letter that leaves the canonical state unchanged (a self-loop: rejected
// votes, duplicates, ignored claims) does not use up the instance: the next
// letter is offered to the same real object, which is the stream
// hist+noop+...+letter - by the merge argument (main.go header) equivalent to
// hist+letter, and itself a real stream whose every step is checked.  A letter
// that changes the state gets the instance for itself (succ is called with
// the live world) and the next letter starts from a fresh replay.
func (e *explorer) walk(hist []uint8, parentKey string, succ func(li uint8, r result)) []result {
	L := len(e.f.letters)
	out := make([]result, L)
	var w *world
	var actual []uint8
	for li := 0; li < L; li++ {
		if w == nil {
			w = e.start(hist)
			if w == nil {
				return out // reported
			}
			actual = append(make([]uint8, 0, len(hist)+4), hist...)
		}
		actual = append(actual, uint8(li))
		o, ps := w.apply(li, modeCheck)
		atomic.AddInt64(&e.st.Transitions, 1)
		e.classes.Add(e.f.letters[li].Kind + " -> " + o.class + " (" + o.resp + ")")
		for _, p := range ps {
			if len(actual) > len(hist)+1 && e.minimized.Add(e.f.cfg.Name+"/"+e.path+"/"+p.site+"/"+p.kind+"/"+p.letter) {
				// first failure of this class seen behind self-loop letters: record
				// the minimal stream (history + this letter alone) if it fails alike
				if e.reportMinimal(hist, uint8(li), p) {
					continue
				}
			}
			e.report(actual, p)
		}
		if stops(ps) {
			w = nil
			continue
		}
		r := result{ok: true, key: w.implKey(), o: o, last: &e.f.letters[li]}
		if r.key != parentKey {
			r.w = w
			r.actual = append([]uint8{}, actual...)
			w = nil
		}
		out[li] = result{ok: true, key: r.key, o: r.o}
		if succ != nil {
			succ(uint8(li), r)
		}
	}
	return out
}

// reportMinimal executes hist+letter on a fresh instance and reports the failure
// of the same class from there; false if it does not fail alike.
func (e *explorer) reportMinimal(hist []uint8, li uint8, p *problem) bool {
	w := e.start(hist)
	if w == nil {
		return false
	}
	_, ps := w.apply(int(li), modeCheck)
	for _, q := range ps {
		if q.site == p.site && q.kind == p.kind && q.letter == p.letter {
			e.report(append(append([]uint8{}, hist...), li), q)
			return true
		}
	}
	return false
}

// tamper runs the commit tampering family on the live world of a result.
func (e *explorer) tamper(hist []uint8, r result) {
	w := r.w
	ref := w.refs[w.main]
	if ref.maj23 < 0 || ref.maj23 == blkNil {
		return
	}
	vs := w.implSet(w.main)
	if id, ok := vs.TwoThirdsMajority(); !ok || e.f.blockIndex(id) != ref.maj23 {
		return // already reported by the majority oracle
	}
	atomic.AddInt64(&e.st.CommitStates, 1)
	var p *problem
	pan, v, st := core.Try(func() { p = w.checkCommit(vs, ref, r.last, true) })
	if pan {
		p = &problem{site: core.PanicSite(st), kind: "panic-commit", letter: r.last.Kind, detail: core.FirstLine(v)}
	}
	if p != nil {
		e.report(hist, p)
	}
}

// bfs explores all streams up to maxLen letters.
func (e *explorer) bfs(maxLen int) {
	f := e.f
	if len(f.letters) > 250 {
		core.Fatal("alphabet too large")
	}
	root := newWorld(f, e.path)
	e.seen = map[string]*node{root.implKey(): {hist: []uint8{}, key: root.implKey()}}
	e.frontier = []*node{e.seen[root.implKey()]}
	e.st.StatesByLen = []int{1}
	for depth := 0; depth < maxLen && len(e.frontier) > 0; depth++ {
		// the merge argument is tested on all but the last (largest) level
		e.level(depth <= maxLen-2 || maxLen <= 3, nil)
	}
	e.st.MaxLen = maxLen
	e.finish()
}

func (e *explorer) finish() {
	e.st.States = len(e.seen)
	// number of raw streams of length <= MaxLen that the merged search stands for
	tot, pw := 0.0, 1.0
	for d := 0; d <= e.st.MaxLen; d++ {
		tot += pw
		pw *= float64(len(e.f.letters))
	}
	e.st.Streams = fmt.Sprintf("%.0f", tot)
}

// level expands every state of the frontier by every letter.  expired (may be
// nil) is polled before each state; once it reports true the remaining states
// are skipped and the level counts as incomplete (returns false).
func (e *explorer) level(mergeCheck bool, expired func() bool) bool {
	f := e.f
	L := len(f.letters)
	frontier, seen := e.frontier, e.seen
	next := map[string]*node{}
	var mu sync.Mutex
	var skipped int64
	core.Par(len(frontier), func(ix int) {
		if expired != nil && expired() {
			atomic.AddInt64(&skipped, 1)
			return
		}
		n := frontier[ix]
		rs := e.walk(n.hist, n.key, func(li uint8, r result) {
			if (ix*L+int(li)+1)%997 == 0 {
				e.samples.Add(e.kase(append(append([]uint8{}, n.hist...), li)))
			}
			h := append(append(make([]uint8, 0, len(n.hist)+1), n.hist...), li)
			mu.Lock()
			if _, old := seen[r.key]; old {
				e.st.Merges++
				mu.Unlock()
				return
			}
			nn, ok := next[r.key]
			if !ok {
				next[r.key] = &node{hist: h, key: r.key}
				mu.Unlock()
				// first visit of this canonical state: the commit tampering family
				e.tamper(r.actual, r)
				return
			}
			e.st.Merges++
			// deterministic representatives: smallest and largest history
			switch {
			case lessHist(h, nn.hist):
				if nn.alt == nil {
					nn.alt = nn.hist
				}
				nn.hist = h
			case nn.alt == nil || lessHist(nn.alt, h):
				nn.alt = h
			}
			mu.Unlock()
		})
		if n.alt != nil && mergeCheck {
			// the merge argument, tested: the other history must behave alike
			rs2 := e.walk(n.alt, n.key, nil)
			for li := 0; li < L; li++ {
				r, r2 := rs[li], rs2[li]
				atomic.AddInt64(&e.st.MergeChecks, 1)
				if r.ok && r2.ok && (r.key != r2.key || r.o != r2.o) {
					atomic.AddInt64(&e.st.MergesFailed, 1)
					appendNote(e.run, fmt.Sprintf("failed merge %s/%s: %v vs %v + %s: %s %v | %s %v", f.cfg.Name, e.path, f.names(n.hist), f.names(n.alt), f.letters[li].Name, r.key, r.o, r2.key, r2.o))
				}
			}
		}
	})
	if skipped > 0 {
		e.st.ExtSkipped = int(skipped)
		e.st.ExtExpanded = len(frontier) - int(skipped)
		return false
	}
	e.frontier = e.frontier[:0]
	keys := make([]string, 0, len(next))
	for k := range next {
		keys = append(keys, k)
	}
	sort.Strings(keys)
	for _, k := range keys {
		seen[k] = next[k]
		e.frontier = append(e.frontier, next[k])
	}
	e.st.StatesByLen = append(e.st.StatesByLen, len(next))
	return true
}

var noteMu sync.Mutex

func appendNote(r *core.Run, s string) {
	noteMu.Lock()
	defer noteMu.Unlock()
	if len(r.Notes) < 10 {
		r.Notes = append(r.Notes, s)
	}
}

// determinism: the same stream executed twice gives the same observations.
func selfCheck(f *fixture, path string) {
	L := len(f.letters)
	streams := [][]uint8{{}, {}}
	for i := 0; i < 8; i++ {
		streams[0] = append(streams[0], uint8((i*5)%L))
		streams[1] = append(streams[1], uint8((L-1-i*3+4*L)%L))
	}
	for _, s := range streams {
		var dig [2]string
		for rep := 0; rep < 2; rep++ {
			w := newWorld(f, path)
			var b strings.Builder
			for _, h := range s {
				o, ps := w.apply(int(h), modeReplay)
				fmt.Fprintf(&b, "%v|%v|%s;", o, len(ps), w.implKey())
				if stops(ps) {
					break
				}
			}
			dig[rep] = b.String()
		}
		if dig[0] != dig[1] {
			core.Fatal("execution is not deterministic: %s/%s stream %v", f.cfg.Name, path, f.names(s))
		}
	}
}

func findConfig(name string) *config {
	for i := range configs {
		if configs[i].Name == name {
			return &configs[i]
		}
	}
	return nil
}

func main() {
	run := core.Start("C15", "model_checking", "XSTATE")
	classes := core.NewCounter()
	samples := core.NewSampler(8, run.Seed)
	minimized := core.NewCounter()
	var execs int64

	if run.ReplayPath != "" {
		var k kase
		if err := run.ReplayCase(&k); err != nil {
			core.Fatal("cannot load replay: %v", err)
		}
		cfg := findConfig(k.Config)
		if cfg == nil {
			core.Fatal("unknown config %q", k.Config)
		}
		f := newFixture(*cfg)
		e := &explorer{run: run, f: f, path: k.Path, classes: classes, samples: samples, st: &stats{}, execs: &execs, minimized: minimized}
		if k.Path == "subset-commits" {
			checkSubsetCommits(f, func(p *problem, desc string) { e.report(nil, p) })
			flush(run)
			run.Finish(nil, nil)
		}
		w := newWorld(f, k.Path)
		var hist []uint8
		for _, name := range k.Letters {
			li, ok := f.byName[name]
			if !ok {
				core.Fatal("unknown letter %q", name)
			}
			hist = append(hist, uint8(li))
			o, ps := w.apply(li, modeFull)
			fmt.Printf("  %-16s -> %s (%s)\n", name, o.class, o.resp)
			for _, p := range ps {
				e.report(hist, p)
			}
			if stops(ps) {
				break
			}
		}
		flush(run)
		run.Finish(nil, nil)
	}

	// bounds
	t00 := time.Now()
	tier := run.Pick(0, 1)
	bounds := map[string]int{"max_validators": 4}
	var all []*stats
	var exts []*explorer
	totalStates, maxLetters, subsetCommits := 0, 0, 0
	var totalTrans, merges, mergeChecks, mergesFailed, commitStates int64
	for _, cfg := range configs {
		f := newFixture(cfg)
		if len(f.letters) > maxLetters {
			maxLetters = len(f.letters)
		}
		{
			e := &explorer{run: run, f: f, path: "subset-commits", classes: classes, samples: samples, st: &stats{}, execs: &execs, minimized: minimized}
			subsetCommits += checkSubsetCommits(f, func(p *problem, desc string) { e.report(nil, p) })
		}
		for _, path := range []string{"voteset", "hvs"} {
			ml := cfg.Len[tier]
			if path == "hvs" {
				ml = cfg.Len[2+tier]
			}
			selfCheck(f, path)
			st := &stats{Config: cfg.Name, Path: path, Letters: len(f.letters)}
			e := &explorer{run: run, f: f, path: path, classes: classes, samples: samples, st: st, execs: &execs, minimized: minimized}
			t0 := time.Now()
			e.bfs(ml)
			st.WallS = float64(int(time.Since(t0).Seconds()*100)) / 100
			all = append(all, st)
			if cfg.Ext && path == "voteset" && !run.Quick() {
				exts = append(exts, e)
			} else {
				e.seen, e.frontier = nil, nil
			}
		}
	}
	// Extension (thorough only): one more letter for the 4-validator sets of
	// DESIGN C15, as far as the time budget allows.  The cap decides only how
	// much is explored, never a verdict; what was completed is reported.
	extensionsComplete := true
	for _, e := range exts {
		st := e.st
		if time.Since(t00) > extStartCap {
			st.Extension = "not started (time cap)"
			extensionsComplete = false
			continue
		}
		t0 := time.Now()
		if e.level(false, func() bool { return time.Since(t00) > extCutCap }) {
			st.Extension = "completed"
			st.MaxLen++
			e.finish()
		} else {
			st.Extension = "cut (time cap)"
			extensionsComplete = false
		}
		st.WallS = float64(int((st.WallS+time.Since(t0).Seconds())*100)) / 100
		e.seen, e.frontier = nil, nil
	}
	for _, st := range all {
		bounds["max_stream_length/"+st.Config+"/"+st.Path] = st.MaxLen
		totalStates += st.States
		totalTrans += st.Transitions
		merges += st.Merges
		mergeChecks += st.MergeChecks
		mergesFailed += st.MergesFailed
		commitStates += st.CommitStates
	}
	flush(run)
	if mergesFailed > 0 && run.Violations() == 0 {
		core.Fatal("canonical key too coarse: %d merged histories behaved differently: %v", mergesFailed, run.Notes)
	}
	run.Finish(core.Coverage{
		"states":      totalStates,
		"transitions": int(totalTrans),
		// transitions: letters offered with every oracle evaluated afterwards;
		// traces: fresh real vote sets, each driven through one stream next to
		// the reference; evaluations: every operation executed on the real code
		// (replayed prefixes included) plus the subset commits
		"traces_validated_against_impl": int(execs),
		"evaluations":                   int(atomic.LoadInt64(&opsApplied)) + subsetCommits,
		"distinct_nontrivial":           classes.Len(),
		"rule":                          "per validator set and path (bare VoteSet | HeightVoteSet): breadth-first over ALL streams of letters up to the length bound of that set; a transition is: fresh real vote set + replay of the history + one letter with every oracle after that letter (letters that leave the canonical state unchanged are followed by the next letter on the same instance); streams are merged on the canonical key (reference state + primary vote per validator + existing per-block tallies, see main.go); every merged state except those of the last expanded level is expanded from two different histories whose answers must agree; the commit tampering family runs once per canonical state with a non-nil majority; plus VerifyCommit on the commit of every validator subset; distinct_nontrivial counts distinct (letter kind, reference outcome class, AddVote answer) triples observed",
		"alphabet":                      "valid precommit of validator i for block A/B/nil (3n); wrong-signer; no signature; address of another validator; empty address; index -1; index n; validly signed vote for round+1 / prevote / height+1; SetPeerMaj23 by 2 peers x 3 blocks",
		"max_alphabet":                  maxLetters,
		"bounds":                        bounds,
		"per_config":                    all,
		"subset_commit_cases":           subsetCommits,
		"extensions_completed":          extensionsComplete,
		"extension_caps_s":              []int{int(extStartCap.Seconds()), int(extCutCap.Seconds())},
		"merges":                        int(merges),
		"merge_checks":                  int(mergeChecks),
		"merges_failed":                 int(mergesFailed),
		"commit_tamper_family_states":   int(commitStates),
		"outcome_classes":               classes.Map(),
		"samples":                       samples.List(),
		// the space stated in "bounds" (lengths actually completed) was fully
		// enumerated; a length-6 level cut by the time cap is not counted in it
		"exhaustive": true,
	}, []string{
		"ed25519 signatures are unforgeable and deterministic: 'validly signed' is decided by construction of the letter (which key signed which content)",
		"DESIGN §6.1: the tally is over the votes the set accepted; a conflicting vote is accepted only for a block some peer claimed (documented behaviour of VoteSet); soundness (reported => more than 2/3 of distinct valid signers) is checked over all offered votes",
		"a re-offered conflicting vote that was reported as conflicting before may be answered as already known (added=false, no error)",
		"every enumerated stream is executed on the real types.VoteSet / pbft.HeightVoteSet / ValidatorSet.VerifyCommit (traces_validated_against_impl = all executions)",
	})
}
