package main

import (
	"bytes"
	"fmt"
	"math/big"
	"sort"

	crypto "github.com/dappledger/AnnChain/gemmill/go-crypto"
	"github.com/dappledger/AnnChain/gemmill/go-wire"
	"github.com/dappledger/AnnChain/gemmill/types"
)

// ---------------------------------------------------------------- fixed world

const (
	chainID   = "c15-chain"
	theHeight = int64(1)
	theRound  = int64(0)
)

// vote step = which vote set of the height a vote belongs to.
type step struct {
	Round int64
	Type  byte
}

// config is one validator set + block alphabet.
type config struct {
	Name   string
	Powers []int64
	// Class of the power vector: "small", "boundary" (2*total still fits int64),
	// "overflow2x" (total fits int64, 2*total does not).
	Class string
	// SameHash: block A and block B share the block hash and differ only in the
	// part-set header (distinct block ids all the same).
	SameHash bool
	// stream length bounds: bare VoteSet quick/thorough, HeightVoteSet quick/thorough
	Len [4]int
	// Ext: thorough tier, bare VoteSet: one more letter under a time cap
	Ext bool
	// Build: how the validator set handed to the vote sets came about: "" = NewValidatorSet;
	// "add-update" = a set of the first n-1 members (the first with another power), then Add of the
	// last member and Update of the first to its power - the call sequence of a block that carries
	// two validator changes; "reload-update" = the set read back from its wire encoding (as a State
	// loaded from disk holds it), then the same Update.
	Build string
}

const (
	blkA   = 0
	blkB   = 1
	blkNil = 2
	nBlk   = 3
)

var blkName = [nBlk]string{"A", "B", "nil"}

func mkBlocks(sameHash bool) [nBlk]types.BlockID {
	a := types.BlockID{Hash: bytes.Repeat([]byte{0xAA}, 20), PartsHeader: types.PartSetHeader{Total: 1, Hash: bytes.Repeat([]byte{0xA1}, 20)}}
	b := types.BlockID{Hash: bytes.Repeat([]byte{0xBB}, 20), PartsHeader: types.PartSetHeader{Total: 2, Hash: bytes.Repeat([]byte{0xB1}, 20)}}
	if sameHash {
		// A and B are as close as two different block ids can be: same block hash, same
		// part count, part-set hashes that differ only in their last byte
		b.Hash = bytes.Repeat([]byte{0xAA}, 20)
		b.PartsHeader = types.PartSetHeader{Total: 1, Hash: append(bytes.Repeat([]byte{0xA1}, 19), 0xA2)}
	}
	return [nBlk]types.BlockID{a, b, {}}
}

// letter kinds
const (
	kVote      = "vote"             // valid vote of validator Val for Block
	kBadSig    = "wrong-signer"     // content of a vote of Val, signature made by another key
	kNoSig     = "no-signature"     // no signature at all
	kBadAddr   = "address-mismatch" // index Val, address of somebody else, signed by Val
	kNoAddr    = "address-empty"    // index Val, empty address, signed by Val
	kIdxNeg    = "index-negative"   // ValidatorIndex -1
	kIdxBig    = "index-too-large"  // ValidatorIndex n
	kRound     = "wrong-round"      // validly signed vote for round+1
	kType      = "wrong-type"       // validly signed prevote
	kHeight    = "wrong-height"     // validly signed vote for height+1
	kClaim     = "claim"            // SetPeerMaj23(peer, Block)
	peerA      = "peer-a"
	peerB      = "peer-b"
	hvsPeerKey = "peer-x" // origin given to HeightVoteSet.AddVote
)

// letter is one element of the stream alphabet.
type letter struct {
	Name  string
	Kind  string
	Block int    // block index (votes and claims)
	Peer  string // claims
	vote  *types.Vote
	// what the reference is allowed to know about the vote (facts established
	// at construction, by construction):
	index    int // ValidatorIndex carried by the vote
	signedBy int // validator whose key made the signature over exactly this content (-1: nobody)
	addrOf   int // validator whose address the vote carries (-1: none / outsider)
	height   int64
	st       step
}

type fixture struct {
	cfg     config
	n       int
	privs   []crypto.PrivKeyEd25519 // in validator-set (address) order
	pubs    []crypto.PubKey
	addrs   [][]byte
	powers  []*big.Int
	total   *big.Int
	blocks  [nBlk]types.BlockID
	letters []letter
	byName  map[string]int
	// valid precommit of validator i for block b at the main step, and the same
	// for round+1 (used by the commit tampering family)
	valid      [][nBlk]*types.Vote
	validRound [][nBlk]*types.Vote
	outsider   crypto.PrivKeyEd25519
}

func signVote(k crypto.PrivKeyEd25519, v *types.Vote) {
	v.Signature = k.Sign(types.SignBytes(chainID, v))
}

func newFixture(cfg config) *fixture {
	f := &fixture{cfg: cfg, n: len(cfg.Powers), blocks: mkBlocks(cfg.SameHash), byName: map[string]int{}}
	type kp struct {
		k crypto.PrivKeyEd25519
		a []byte
	}
	var ks []kp
	for i := 0; i < f.n; i++ {
		k := crypto.GenPrivKeyEd25519FromSecret([]byte(fmt.Sprintf("c15-validator-%d", i)))
		ks = append(ks, kp{k, k.PubKey().Address()})
	}
	sort.Slice(ks, func(i, j int) bool { return bytes.Compare(ks[i].a, ks[j].a) < 0 })
	f.total = new(big.Int)
	for i, p := range ks {
		f.privs = append(f.privs, p.k)
		f.pubs = append(f.pubs, p.k.PubKey())
		f.addrs = append(f.addrs, p.a)
		f.powers = append(f.powers, big.NewInt(cfg.Powers[i]))
		f.total.Add(f.total, f.powers[i])
	}
	f.outsider = crypto.GenPrivKeyEd25519FromSecret([]byte("c15-outsider"))

	mk := func(idx int, addr []byte, h, r int64, t byte, b int, signer *crypto.PrivKeyEd25519) *types.Vote {
		v := &types.Vote{ValidatorAddress: addr, ValidatorIndex: idx, Height: h, Round: r, Type: t, BlockID: f.blocks[b]}
		if signer != nil {
			signVote(*signer, v)
		}
		return v
	}
	main := step{theRound, types.VoteTypePrecommit}
	add := func(l letter) {
		if _, dup := f.byName[l.Name]; dup {
			return
		}
		if l.vote != nil {
			l.index = l.vote.ValidatorIndex
			l.height = l.vote.Height
			l.st = step{l.vote.Round, l.vote.Type}
		}
		f.byName[l.Name] = len(f.letters)
		f.letters = append(f.letters, l)
	}
	f.valid = make([][nBlk]*types.Vote, f.n)
	f.validRound = make([][nBlk]*types.Vote, f.n)
	for i := 0; i < f.n; i++ {
		for b := 0; b < nBlk; b++ {
			f.valid[i][b] = mk(i, f.addrs[i], theHeight, main.Round, main.Type, b, &f.privs[i])
			f.validRound[i][b] = mk(i, f.addrs[i], theHeight, main.Round+1, main.Type, b, &f.privs[i])
			add(letter{Name: fmt.Sprintf("v%d:%s", i, blkName[b]), Kind: kVote, Block: b, vote: f.valid[i][b], signedBy: i, addrOf: i})
		}
	}
	// "somebody else": the next validator, or an outsider when there is none
	other := func(i int) (int, *crypto.PrivKeyEd25519, []byte) {
		if f.n > 1 {
			j := (i + 1) % f.n
			return j, &f.privs[j], f.addrs[j]
		}
		return -1, &f.outsider, f.outsider.PubKey().Address()
	}
	last := f.n - 1
	oj, okey, oaddr := other(0)
	add(letter{Name: "badsig0:A", Kind: kBadSig, Block: blkA, vote: mk(0, f.addrs[0], theHeight, main.Round, main.Type, blkA, okey), signedBy: oj, addrOf: 0})
	add(letter{Name: fmt.Sprintf("nosig%d:B", last), Kind: kNoSig, Block: blkB, vote: mk(last, f.addrs[last], theHeight, main.Round, main.Type, blkB, nil), signedBy: -1, addrOf: last})
	add(letter{Name: "badaddr0:A", Kind: kBadAddr, Block: blkA, vote: mk(0, oaddr, theHeight, main.Round, main.Type, blkA, &f.privs[0]), signedBy: 0, addrOf: oj})
	add(letter{Name: fmt.Sprintf("noaddr%d:B", last), Kind: kNoAddr, Block: blkB, vote: mk(last, []byte{}, theHeight, main.Round, main.Type, blkB, &f.privs[last]), signedBy: last, addrOf: -1})
	add(letter{Name: "idx-1:A", Kind: kIdxNeg, Block: blkA, vote: mk(-1, f.addrs[0], theHeight, main.Round, main.Type, blkA, &f.privs[0]), signedBy: 0, addrOf: 0})
	add(letter{Name: "idxN:A", Kind: kIdxBig, Block: blkA, vote: mk(f.n, f.addrs[0], theHeight, main.Round, main.Type, blkA, &f.privs[0]), signedBy: 0, addrOf: 0})
	add(letter{Name: "round+1:v0:A", Kind: kRound, Block: blkA, vote: f.validRound[0][blkA], signedBy: 0, addrOf: 0})
	add(letter{Name: "prevote:v0:A", Kind: kType, Block: blkA, vote: mk(0, f.addrs[0], theHeight, main.Round, types.VoteTypePrevote, blkA, &f.privs[0]), signedBy: 0, addrOf: 0})
	add(letter{Name: "height+1:v0:A", Kind: kHeight, Block: blkA, vote: mk(0, f.addrs[0], theHeight+1, main.Round, main.Type, blkA, &f.privs[0]), signedBy: 0, addrOf: 0})
	for _, p := range []string{peerA, peerB} {
		for b := 0; b < nBlk; b++ {
			add(letter{Name: fmt.Sprintf("claim:%s:%s", p, blkName[b]), Kind: kClaim, Block: b, Peer: p})
		}
	}
	return f
}

// valSet builds a fresh real validator set (ValidatorSet caches lazily and is
// not goroutine-safe, so every execution gets its own).
func (f *fixture) valSet() *types.ValidatorSet {
	vals := make([]*types.Validator, f.n)
	for i := 0; i < f.n; i++ {
		vals[i] = types.NewValidator(f.pubs[i], f.cfg.Powers[i], false)
	}
	switch f.cfg.Build {
	case "add-update":
		first := vals[0].Copy()
		first.VotingPower += 4
		vs := types.NewValidatorSet(append([]*types.Validator{first}, vals[1:f.n-1]...))
		if !vs.Add(vals[f.n-1]) || !vs.Update(vals[0].Copy()) {
			panic("harness: cannot build the validator set by Add+Update")
		}
		return vs
	case "reload-update":
		first := vals[0].Copy()
		first.VotingPower += 4
		bz := wire.BinaryBytes(types.NewValidatorSet(append([]*types.Validator{first}, vals[1:]...)))
		var n int
		var err error
		vs := wire.ReadBinary(&types.ValidatorSet{}, bytes.NewReader(bz), 0, &n, &err).(*types.ValidatorSet)
		if err != nil || !vs.Update(vals[0].Copy()) {
			panic(fmt.Sprintf("harness: cannot rebuild the validator set from its encoding: %v", err))
		}
		return vs
	}
	return types.NewValidatorSet(vals)
}

func (f *fixture) blockIndex(id types.BlockID) int {
	for b := 0; b < nBlk; b++ {
		if f.blocks[b].Equals(id) {
			return b
		}
	}
	return -1
}

func (f *fixture) names(hist []uint8) []string {
	o := make([]string, len(hist))
	for i, h := range hist {
		o[i] = f.letters[h].Name
	}
	return o
}
