// C14 — validator-set changes need +2/3 of distinct validators and apply
// uniformly.  Explicit-state exhaustive enumeration on the real
// gemmill/plugin.AdminOp (DESIGN §5 C14):
//
//	part 1 "tally"    every signature list of length ≤ 4 (quick) / ≤ 5 (thorough)
//	                  over 11–13 entry kinds, for 4 validator power vectors,
//	                  offered to AdminOp.ExecTX (tally.go);
//	part 2 "sequence" every sequence of ≤ 3 administrative requests over a request
//	                  alphabet, split into blocks, executed as signed ethereum
//	                  transactions through the real state transition, governance
//	                  contract / precompile 0xfe, Angine.ExecAdminTx, AdminOp,
//	                  State.ApplyBlock on two lock-step replicas and on late
//	                  replicas, against a reference model (seq.go, replica.go);
//	part 3 "query"    the same requests sent as read-only contract queries to one
//	                  of two replicas running the real EVMApp (query.go).
//
// Parts 2 and 3 run in worker subprocesses (this binary re-executed with
// "seqworker"): the AdminOP precompile (vm.DefaultAdminContract), its callback
// and the StateDB it remembers are process-global in the repository, so one
// process can execute only one EVM at a time.
//
// props/c14/mutants.sh builds the check against mutated repository files
// (go build -overlay) and shows that the quick tier exits 1 on each of them.
package main

import (
	"encoding/json"
	"fmt"
	"os"
	"os/exec"
	"path/filepath"
	"runtime"
	"sort"
	"strconv"
	"strings"
	"sync"
	"time"

	"verif/core"
)

// ---------------------------------------------------------------- part 1 driver

type tallyStats struct {
	cases    int
	accepted int
	classes  *core.Counter
}

// tallyIndex decodes case number i (shortest lists first) of a set.
func tallyListAt(ts *tallySet, i int, maxLen int) []string {
	k := len(ts.Kinds)
	l, span := 0, 1
	for i >= span {
		i -= span
		l++
		span *= k
	}
	if l > maxLen {
		return nil
	}
	out := make([]string, l)
	for p := l - 1; p >= 0; p-- {
		out[p] = ts.Kinds[i%k].Name
		i /= k
	}
	return out
}

func tallyCount(k, maxLen int) int {
	n, span := 0, 1
	for l := 0; l <= maxLen; l++ {
		n += span
		span *= k
	}
	return n
}

type foundViol struct {
	Index  int               `json:"index"`
	Sig    map[string]string `json:"sig"`
	Case   json.RawMessage   `json:"case"`
	Detail string            `json:"detail"`
	Count  int               `json:"count"`
}

func sigKey(sig map[string]string) string {
	ks := make([]string, 0, len(sig))
	for k := range sig {
		ks = append(ks, k)
	}
	sort.Strings(ks)
	var b strings.Builder
	for _, k := range ks {
		fmt.Fprintf(&b, "%s=%s;", k, sig[k])
	}
	return b.String()
}

// violSet keeps, per signature, the violating case with the lowest index and a count.
type violSet struct {
	mu sync.Mutex
	m  map[string]*foundViol
}

func newViolSet() *violSet { return &violSet{m: map[string]*foundViol{}} }

func (v *violSet) add(index int, sig map[string]string, kase interface{}, detail string, count int) {
	k := sigKey(sig)
	v.mu.Lock()
	defer v.mu.Unlock()
	f := v.m[k]
	if f == nil {
		f = &foundViol{Index: -1, Sig: sig}
		v.m[k] = f
	}
	f.Count += count
	if f.Index < 0 || index < f.Index {
		b, _ := json.Marshal(kase)
		f.Index, f.Case, f.Detail, f.Sig = index, b, detail, sig
	}
}

func (v *violSet) sorted() []*foundViol {
	var out []*foundViol
	for _, f := range v.m {
		out = append(out, f)
	}
	sort.Slice(out, func(i, j int) bool {
		if out[i].Index != out[j].Index {
			return out[i].Index < out[j].Index
		}
		return sigKey(out[i].Sig) < sigKey(out[j].Sig)
	})
	return out
}

// report hands the violations to the framework in a deterministic order; the
// count makes the "matched N cases" figure of a known finding the true one.
func (v *violSet) report(run *core.Run) {
	for _, f := range v.sorted() {
		var kase interface{}
		json.Unmarshal(f.Case, &kase)
		for i := 0; i < f.Count; i++ {
			run.Report(f.Sig, kase, f.Detail)
		}
	}
}

// ---------------------------------------------------------------- part 2 case lists

func seqCases(quick bool) []seqCase {
	var out []seqCase
	full := make([]*letter, len(alphabet))
	var corel, mini, blk, unb []*letter
	for i := range alphabet {
		full[i] = &alphabet[i]
		if alphabet[i].Core {
			corel = append(corel, &alphabet[i])
		}
		if alphabet[i].Mini {
			mini = append(mini, &alphabet[i])
		}
		if alphabet[i].Blk {
			blk = append(blk, &alphabet[i])
		}
		if alphabet[i].Unb {
			unb = append(unb, &alphabet[i])
		}
	}
	if len(mini) != len(miniLetters) || len(blk) != len(blkLetters) || len(unb) != len(unbLetters) {
		core.Fatal("mini/block/unbound alphabets have %d/%d/%d of %d/%d/%d letters", len(mini), len(blk), len(unb), len(miniLetters), len(blkLetters), len(unbLetters))
	}
	emit := func(base string, letters []*letter, length int, comps [][]int, replicas []string) {
		idx := make([]int, length)
		for {
			seq := make([]*letter, length)
			names := make([]string, length)
			for i, x := range idx {
				seq[i] = letters[x]
				names[i] = letters[x].Name
			}
			if validSeq(seq) {
				for _, c := range comps {
					out = append(out, seqCase{Part: "sequence", Base: base, Letters: names, Blocks: c, Replicas: replicas})
				}
			}
			p := length - 1
			for p >= 0 {
				idx[p]++
				if idx[p] < len(letters) {
					break
				}
				idx[p] = 0
				p--
			}
			if p < 0 {
				break
			}
		}
	}
	r3 := []string{"pbft", "pbft", "inplace"}
	r4 := []string{"pbft", "pbft", "inplace", "restart"}
	ends := [][]int{{1, 1, 1}, {3}}
	if quick {
		for _, base := range []string{"A1,B1,C1,D0", "A1"} {
			emit(base, full, 1, compositions(1), r3)
		}
		emit("A1,B1,C1,D0", full, 2, [][]int{{1, 1}}, r3)
		emit("A1,B1,C1,D0", corel, 2, [][]int{{2}}, r3)
		emit("A1", mini, 2, compositions(2), r3)
		emit("A1,B1,C1,D0", mini, 3, [][]int{{1, 1, 1}}, r3)
		emit("A1,B1,C1,D0", blk, 3, [][]int{{3}, {2, 1}, {1, 2}}, r3)
		emit("A1,B1,C1,D0", unb, 3, [][]int{{1, 1, 1}}, r3)
		return out
	}
	for _, base := range []string{"A1,B1,C1,D0", "A1"} {
		emit(base, full, 1, compositions(1), r4)
		emit(base, full, 2, compositions(2), r4)
	}
	emit("A1,B1,C1,D0", corel, 3, [][]int{{1, 1, 1}}, r4)
	emit("A1,B1,C1,D0", corel, 3, [][]int{{3}, {1, 2}, {2, 1}}, r3)
	emit("A1", mini, 3, ends, r3)
	emit("A1,B1,C1,D0", blk, 3, compositions(3), r4)
	emit("A1,B1,C1,D0", unb, 3, compositions(3), r4)
	return out
}

// ---------------------------------------------------------------- part 2 worker

type workerOut struct {
	Cases   int            `json:"cases"`
	Execs   int            `json:"execs"`
	Blocks  int            `json:"blocks"`
	Classes map[string]int `json:"classes"`
	States  map[string]int `json:"states"`
	Viols   []*foundViol   `json:"viols"`
	Samples []seqCase      `json:"samples"`

	QueryCases   int         `json:"query_cases"`
	QuerySamples []queryCase `json:"query_samples"`
}

func workerMain() {
	silence()
	installCallback()
	parts := strings.Split(os.Getenv("C14_SHARD"), "/")
	if len(parts) != 2 {
		core.Fatal("worker: bad C14_SHARD")
	}
	shard, _ := strconv.Atoi(parts[0])
	of, _ := strconv.Atoi(parts[1])
	cases := seqCases(os.Getenv("C14_TIER") != "thorough")
	out := workerOut{Classes: map[string]int{}, States: map[string]int{}}
	vs := newViolSet()
	for i, k := range cases {
		if i%of != shard {
			continue
		}
		r := runSequence(k)
		out.Cases++
		out.Execs += r.Execs
		out.Blocks += len(k.Blocks) * len(k.Replicas)
		for _, c := range r.Classes {
			out.Classes[c]++
		}
		for _, s := range r.States {
			out.States[s]++
		}
		for _, v := range r.Viols {
			vs.add(i, v.Sig, k, v.Detail, 1)
		}
		if i%4999 == shard {
			out.Samples = append(out.Samples, k)
		}
	}
	// part 3: query cases (indices continue after the sequence cases)
	qc := queryCases(os.Getenv("C14_TIER") != "thorough")
	for j, k := range qc {
		if j%of != shard {
			continue
		}
		dir := filepath.Join(core.Root, ".work", "c14", "run", fmt.Sprintf("q-%d-%d", os.Getpid(), j))
		r := runQuery(k, dir)
		out.QueryCases++
		for _, c := range r.Classes {
			out.Classes[c]++
		}
		for _, v := range r.Viols {
			vs.add(len(cases)+j, v.Sig, k, v.Detail, 1)
		}
		if j == 1 {
			out.QuerySamples = append(out.QuerySamples, k)
		}
	}
	out.Viols = vs.sorted()
	b, _ := json.Marshal(out)
	os.Stdout.Write(b)
}

func runWorkers(tier string) workerOut {
	w := runtime.GOMAXPROCS(0)
	if w > 16 {
		w = 16
	}
	outs := make([]workerOut, w)
	var wg sync.WaitGroup
	var failed []string
	var mu sync.Mutex
	for i := 0; i < w; i++ {
		wg.Add(1)
		go func(i int) {
			defer wg.Done()
			cmd := exec.Command(os.Args[0], "seqworker")
			cmd.Env = append(os.Environ(), fmt.Sprintf("C14_SHARD=%d/%d", i, w), "C14_TIER="+tier, "GOMAXPROCS=2")
			cmd.Stderr = os.Stderr
			b, err := cmd.Output()
			if err == nil {
				err = json.Unmarshal(b, &outs[i])
			}
			if err != nil {
				mu.Lock()
				failed = append(failed, fmt.Sprintf("worker %d: %v", i, err))
				mu.Unlock()
			}
		}(i)
	}
	wg.Wait()
	if len(failed) > 0 {
		core.Fatal("part 2 workers failed: %s", strings.Join(failed, "; "))
	}
	total := workerOut{Classes: map[string]int{}, States: map[string]int{}}
	for _, o := range outs {
		total.Cases += o.Cases
		total.Execs += o.Execs
		total.Blocks += o.Blocks
		for k, v := range o.Classes {
			total.Classes[k] += v
		}
		for k, v := range o.States {
			total.States[k] += v
		}
		total.Viols = append(total.Viols, o.Viols...)
		total.Samples = append(total.Samples, o.Samples...)
		total.QueryCases += o.QueryCases
		total.QuerySamples = append(total.QuerySamples, o.QuerySamples...)
	}
	return total
}

// ---------------------------------------------------------------- main

func main() {
	if len(os.Args) > 1 && os.Args[1] == "seqworker" {
		workerMain()
		return
	}
	run := core.Start("C14", "model_checking", "XSTATE")
	silence()

	if run.ReplayPath != "" {
		var probe struct {
			Part string `json:"part"`
		}
		if err := run.ReplayCase(&probe); err != nil {
			core.Fatal("cannot load replay: %v", err)
		}
		switch probe.Part {
		case "tally":
			var k tallyCase
			run.ReplayCase(&k)
			r := newTallySet(k.Set, false).run(k)
			if r.Viol {
				run.Report(r.Sig, k, r.Detail)
			}
		case "sequence":
			var k seqCase
			run.ReplayCase(&k)
			installCallback()
			for _, v := range runSequence(k).Viols {
				run.Report(v.Sig, k, v.Detail)
			}
		case "query":
			var k queryCase
			run.ReplayCase(&k)
			installCallback()
			for _, v := range runQuery(k, filepath.Join(run.WorkDir(), "q-replay")).Viols {
				run.Report(v.Sig, k, v.Detail)
			}
		default:
			core.Fatal("replay artefact has unknown part %q", probe.Part)
		}
		run.Finish(nil, nil)
	}

	// ------------------------------------------------ parts 2 and 3 run in worker processes, concurrently with part 1
	t0 := time.Now()
	var w workerOut
	var t2 time.Duration
	workersDone := make(chan struct{})
	go func() {
		w = runWorkers(run.Tier)
		t2 = time.Since(t0)
		close(workersDone)
	}()

	// ------------------------------------------------ part 1
	maxLen := run.Pick(4, 5)
	viols := newViolSet()
	tallyClasses := core.NewCounter()
	samples := core.NewSampler(3, run.Seed)
	tallyCases, tallyAccepted := 0, 0
	perSet := map[string]int{}
	var cmu sync.Mutex
	base := 0
	for _, name := range tallySetNames {
		ts := newTallySet(name, run.Quick())
		n := tallyCount(len(ts.Kinds), maxLen)
		perSet[name] = n
		acc := 0
		core.Par(n, func(i int) {
			k := tallyCase{Part: "tally", Set: name, List: tallyListAt(ts, i, maxLen)}
			r := ts.run(k)
			tallyClasses.Add(name + "/" + r.Class)
			if r.Viol {
				viols.add(base+i, r.Sig, k, r.Detail, 1)
			}
			if r.Accepted {
				cmu.Lock()
				acc++
				cmu.Unlock()
			}
			if i%7919 == 11 {
				samples.Add(k)
			}
		})
		tallyCases += n
		tallyAccepted += acc
		base += n
	}

	t1 := time.Since(t0)
	<-workersDone
	run.Notes = append(run.Notes, fmt.Sprintf("wall (informational; the parts run concurrently): part 1 %.1fs, parts 2+3 %.1fs", t1.Seconds(), t2.Seconds()))
	for _, f := range w.Viols {
		var k interface{}
		json.Unmarshal(f.Case, &k)
		viols.add(base+f.Index, f.Sig, k, f.Detail, f.Count)
	}
	seqSamples := core.NewSampler(3, run.Seed)
	for _, s := range w.Samples {
		seqSamples.Add(s)
	}
	allSamples := append(samples.List(), seqSamples.List()...)
	for i, q := range w.QuerySamples {
		if i == 0 {
			allSamples = append(allSamples, q)
		}
	}
	viols.report(run)

	names := make([]string, len(alphabet))
	nCore, nMini, nBlk, nUnb := 0, 0, 0, 0
	for i, l := range alphabet {
		names[i] = l.Name
		if l.Core {
			nCore++
		}
		if l.Mini {
			nMini++
		}
		if l.Blk {
			nBlk++
		}
		if l.Unb {
			nUnb++
		}
	}
	tierRule := "thorough: EVERY sequence of length ≤2 over the full alphabet on both base sets in every split into blocks; EVERY sequence of length 3 over the core alphabet on {A1,B1,C1,D0} in every split into blocks (1|1|1, 1|2, 2|1, 3) and over the mini alphabet on {A1} split 1|1|1 and as one block; EVERY sequence of length 3 over the block alphabet and over the unbound alphabet on {A1,B1,C1,D0} in every split into blocks"
	if run.Quick() {
		tierRule = "quick: EVERY sequence of length 1 over the full alphabet on both base sets; of length 2 on {A1,B1,C1,D0} over the full alphabet in two blocks and over the core alphabet in one block, and on {A1} over the mini alphabet in both splits; of length 3 over the mini alphabet on {A1,B1,C1,D0} in three blocks, over the block alphabet in the splits 3, 2|1, 1|2 and over the unbound alphabet in three blocks"
	}
	distinct := tallyClasses.Len() + len(w.Classes)
	run.Finish(core.Coverage{
		"states":                        len(w.States) + tallyClasses.Len(),
		"transitions":                   tallyCases + w.Execs,
		"traces_validated_against_impl": tallyCases + w.Cases + w.QueryCases,
		"evaluations":                   tallyCases + w.Cases + w.QueryCases,
		"distinct_nontrivial":           distinct,
		"rule": "part 1 (tally): for each validator power vector, EVERY ordered list of length 0.." + strconv.Itoa(maxLen) + " over the entry kinds (thorough: all; quick: all but X01) {Vi = valid signature of validator i over the request (one kind per validator, incl. the zero-power one), W0 = V0's key with V0's signature over a different message, N = genuine signature of a non-validator key, X01 = V0's key with V1's signature, PS/PL = V0's key one byte short/long, SS/SL = V0's signature halved/one byte long, E = empty entry}; duplicates are repeated letters; each list is put into an add_peer request and offered to the real AdminOp.ExecTX. " +
			"part 2 (sequence): requests = {add, update, remove, unknown command, unknown type} × targets {new key K, validator B, signer A, zero-power D} × nonce {n−1,n,n+1} × {bound sender, other sender, second administrator Y} × signature lists {all validators, exactly 2/3, one validator ×3, foreign keys, other message} × channel {governance contract, precompile 0xfe called directly with forged sender bytes} + a request signed by all validators whose attributes name NO account (empty addr) + literal replays of earlier requests by the first submitter, the second administrator Y and a third fresh account Z + replays by the first submitter whose unsigned envelope field AdminOPCmd.Nonce is set to its current account nonce (" + strconv.Itoa(len(alphabet)) + " letters; core " + strconv.Itoa(nCore) + ", mini " + strconv.Itoa(nMini) + "; block alphabet " + strconv.Itoa(nBlk) + " = one change, the same change asked again by the same and by a second administrator, another change of that key, add/update/remove of other keys, all properly authorised, so that one block holds up to three accepted requests of which one asks for the state its key has by then; unbound alphabet " + strconv.Itoa(nUnb) + " = the empty-addr request, bound changes by X and Y, replays by X, Y, Z through both channels); " + tierRule + "; every case runs on 2 lock-step replicas (consensus pattern Copy→ApplyBlock) plus late replicas (in-place ApplyBlock; thorough also Save/LoadState + fresh plugins between blocks); judged per request (accepted iff authorised; a request naming no account may be accepted or not, but the literal bytes of a request that was accepted are never accepted again), per block (next set = reference; a difference on a key named by at most one accepted request is never attributed to the known same-block defect; the set recorded as in force at the height = the set before the block) and across replicas (membership, powers, hash, recorded set in force). " +
			"part 3 (query): the same requests sent as read-only contract queries (current state / state of an earlier height) to one of two replicas running the real EVMApp. " +
			"distinct_nontrivial = distinct (set, verdict, entitled power, list shape) classes of part 1 + distinct (command, channel, model verdict, implementation verdict, recorded) and block-outcome classes of parts 2/3; states = distinct (validator set, account nonces) model states reached + tally classes",
		"exhaustive":         true,
		"bounds":             map[string]interface{}{"max_signature_list_length": maxLen, "max_requests_per_sequence": 3, "validator_sets_part1": tallySetNames, "base_sets_part2": []string{"A1,B1,C1,D0", "A1"}},
		"tally_cases":        tallyCases,
		"tally_cases_by_set": perSet,
		"tally_accepted":     tallyAccepted,
		"sequence_cases":     w.Cases,
		"query_cases":        w.QueryCases,
		"sequence_request_executions_all_replicas": w.Execs,
		"sequence_blocks_all_replicas":             w.Blocks,
		"request_alphabet":                         names,
		"outcome_classes_part2":                    w.Classes,
		"tally_outcome_classes":                    tallyClasses.Len(),
		"outcome_classes_part1":                    tallyClasses.Map(),
		"samples":                                  allSamples,
	}, []string{
		"ed25519 / secp256k1 unforgeability: a validator 'really signed' iff the harness produced the signature with that key over exactly the request message",
		"parts 2 and 3 run the real eth state transition, governance contract, AdminOP precompile, Angine.ExecAdminTx/BeginBlock/ExecBlock/EndBlock (plugins wired by the real InitPlugins), plugin.AdminOp and State.ApplyBlock; consensus, p2p, mempool and block validation are not running (BlockVerifier stub accepts every block; block validity is C02); in part 2 the application is a stand-in that calls core.ApplyTransaction per block transaction the way chain/app/evm does, in part 3 it is the real chain/app/evm.EVMApp",
		"every harness transaction carries the sender's correct ethereum nonce (a transaction with a wrong ethereum nonce never reaches the precompile; that is C09)",
	})
}
