package main

// Part 3 — the read-only query channel.  The application answers contract
// queries (EVMApp.Query → queryContract) by running the EVM on a copy of the
// state; the AdminOP precompile's callback is the same one block execution
// uses.  A query is not a transaction of any block, so whatever it carries it
// must leave the validator set of the queried replica equal to everybody
// else's.  Here the application is the REAL chain/app/evm.EVMApp (LevelDB under
// the work directory) wired to the same real State/Angine/AdminOp as part 2.

import (
	"encoding/binary"
	"fmt"
	"os"
	"path/filepath"
	"strings"

	"github.com/spf13/viper"

	"verif/core"

	"github.com/dappledger/AnnChain/chain/app/evm"
	rtypes "github.com/dappledger/AnnChain/chain/types"
	"github.com/dappledger/AnnChain/eth/common"
	gtypes "github.com/dappledger/AnnChain/gemmill/types"
)

type queryCase struct {
	Part  string     `json:"part"`  // "query"
	Setup [][]string `json:"setup"` // blocks (request letters) executed on both replicas first; at least one block
	Query string     `json:"query"` // request letter sent as a QUERY to replica 1 only
	At    int        `json:"at"`    // 0: QueryType_Contract (current state); h>0: QueryTypeContractByHeight h
}

// blockMetaCore is the gtypes.Core the application asks for block headers
// (in production the Angine, which reads its block store).
type blockMetaCore struct{ blocks map[int64]*gtypes.Block }

func (c *blockMetaCore) Query(byte, []byte) (interface{}, error) {
	return nil, fmt.Errorf("not available")
}
func (c *blockMetaCore) GetBlockMeta(h int64) (*gtypes.BlockMeta, error) {
	b, ok := c.blocks[h]
	if !ok {
		return nil, fmt.Errorf("no block %d", h)
	}
	return &gtypes.BlockMeta{Hash: b.Hash(), Header: b.Header}, nil
}

func newRealAppReplica(name, dir string, g genesisSpec) (*replica, error) {
	r := newReplica(name, "pbft", g)
	conf := viper.New()
	conf.Set("db_dir", dir)
	conf.Set("block_size", 5000)
	if err := os.MkdirAll(dir, 0755); err != nil {
		return nil, err
	}
	app, err := evm.NewEVMApp(conf)
	if err != nil {
		return nil, err
	}
	if err := app.Start(); err != nil {
		return nil, err
	}
	r.real = app
	r.meta = &blockMetaCore{blocks: map[int64]*gtypes.Block{}}
	app.SetCore(r.meta)
	return r, nil
}

type queryResult struct {
	Viols   []seqViol
	Classes []string
}

func runQuery(kase queryCase, dir string) queryResult {
	var res queryResult
	g := baseSets["A1,B1,C1,D0"]
	defer os.RemoveAll(dir)
	ra, err := newRealAppReplica("r1", filepath.Join(dir, "a"), g)
	if err != nil {
		core.Fatal("query replica: %v", err)
	}
	defer ra.real.Stop()
	rb, err := newRealAppReplica("r2", filepath.Join(dir, "b"), g)
	if err != nil {
		core.Fatal("query replica: %v", err)
	}
	defer rb.real.Stop()
	nonce := map[string]uint64{}
	var payloads []*payload
	var earlier []*submission
	build := func(l *letter) (*submission, error) {
		var p *payload
		if l.Replay > 0 {
			if l.Replay > len(payloads) {
				return nil, fmt.Errorf("replay of request %d which does not exist", l.Replay)
			}
			p = payloads[l.Replay-1]
			if l.EnvNonce {
				p = p.withEnvelopeNonce(nonce[l.Sender])
			}
			if o := earlier[l.Replay-1]; o.Sender == l.Sender && o.Chan == l.Chan && !l.EnvNonce {
				// the very transaction bytes that were in the block: anybody who saw the block has them
				return &submission{Letter: l.Name, Sender: o.Sender, Chan: o.Chan, EthNonc: o.EthNonc, P: p, Raw: o.Raw}, nil
			}
		} else {
			p = l.concretise(nonce)
		}
		s := &submission{Letter: l.Name, Sender: l.Sender, Chan: l.Chan, EthNonc: nonce[l.Sender], P: p}
		switch l.Chan {
		case "contract":
			s.Raw = signTx(acct(l.Sender), s.EthNonc, adminTo(), contractCalldata(p.Tagged)).raw
		case "direct":
			s.Raw = signTx(acct(l.Sender), s.EthNonc, precompileAddr, directInput(common.BytesToAddress(acct(p.Addr).addr.Bytes()), p.Tagged)).raw
		}
		return s, nil
	}
	both := func(raws [][]byte) (blockObs, blockObs) {
		blk, ps := ra.makeBlock(raws)
		ra.meta.blocks[blk.Height], rb.meta.blocks[blk.Height] = blk, blk
		return ra.apply(blk, ps.Header()), rb.apply(blk, ps.Header())
	}
	var log strings.Builder
	for bi, names := range kase.Setup {
		var raws [][]byte
		for _, n := range names {
			l := letterByName(n)
			if l == nil {
				core.Fatal("unknown letter %q", n)
			}
			s, err := build(l)
			if err != nil {
				core.Fatal("setup: %v", err)
			}
			payloads = append(payloads, s.P)
			earlier = append(earlier, s)
			nonce[l.Sender]++
			raws = append(raws, s.Raw)
		}
		oa, ob := both(raws)
		fmt.Fprintf(&log, "height %d %v: both replicas hold {%s}\n", bi+1, names, setString(oa.Set))
		if oa.Err != "" || oa.Panic != "" || diffObs(oa, ob) != "" {
			core.Fatal("query case setup block %d failed or diverged (%s %s %s) — setup letters must be plain authorised requests", bi+1, oa.Err, oa.Panic, diffObs(oa, ob))
		}
	}
	l := letterByName(kase.Query)
	if l == nil {
		core.Fatal("unknown letter %q", kase.Query)
	}
	s, err := build(l)
	if err != nil {
		core.Fatal("query: %v", err)
	}
	before := changedString(ra.plug)
	var q []byte
	if kase.At == 0 {
		q = append([]byte{byte(rtypes.QueryType_Contract)}, s.Raw...)
	} else {
		q = append([]byte{byte(rtypes.QueryTypeContractByHeight)}, s.Raw...)
		var h [8]byte
		binary.BigEndian.PutUint64(h[:], uint64(kase.At))
		q = append(q, h[:]...)
	}
	curReplica = ra
	var calls txObs
	ra.curTx = &calls
	if p, v, st := core.Try(func() { ra.real.Query(q) }); p {
		res.Viols = append(res.Viols, seqViol{Sig: map[string]string{"part": "query", "site": core.PanicSite(st), "kind": "panic"}, Detail: fmt.Sprintf("query panicked: %v", core.FirstLine(v))})
		return res
	}
	ra.curTx = nil
	after := changedString(ra.plug)
	accepted := false
	for _, c := range calls.Calls {
		if c.Accepted {
			accepted = true
		}
	}
	oa, ob := both(nil)
	res.Classes = append(res.Classes, fmt.Sprintf("query/%s/at=%v/reached-plugin=%v/accepted=%v/recorded=%v/diverged=%v", s.Chan, kase.At != 0, len(calls.Calls) > 0, accepted, before != after, diffObs(oa, ob) != ""))
	via := "current-state"
	if kase.At != 0 {
		via = "state-of-earlier-height"
	}
	if d := diffObs(oa, ob); d != "" || before != after {
		res.Viols = append(res.Viols, seqViol{
			Sig: map[string]string{"part": "query", "site": "vm.AdminOP.Run", "kind": "query-records-validator-change", "via": via, "channel": s.Chan},
			Detail: fmt.Sprintf("a read-only QUERY (EVMApp.Query, %s) sent to replica 1 only reached AdminOp.ExecTX (accepted=%v) and recorded a validator change; after the next (empty) block replica 1 holds {%s}, replica 2 {%s} (%s)\n%squery [%s] sent by %s via %s: %s; ChangedValidators of replica 1 before %q after %q",
				via, accepted, setString(oa.Set), setString(ob.Set), d, log.String(), s.Letter, s.Sender, s.Chan, s.P.Describe, before, after)})
	}
	return res
}

func queryCases(quick bool) []queryCase {
	var out []queryCase
	for _, q := range []string{"add(K,0)", "upd(B,5)", "rm(B)", "upd(B,5)/under", "upd(B,5)@n-1", "upd(B,5)@n+1", "Y>X:upd(B,5)", "Y~X:upd(B,5)@n-1", "direct:upd(B,5)"} {
		out = append(out, queryCase{Part: "query", Setup: [][]string{{}}, Query: q})
	}
	hist := [][]string{{}, {"upd(B,5)"}, {"Y:upd(B,1)"}}
	for _, q := range []string{"replay#1", "Y~:replay#1", "upd(B,5)", "rm(B)"} {
		for _, at := range []int{0, 1, 2} {
			if quick && at == 2 {
				continue
			}
			out = append(out, queryCase{Part: "query", Setup: hist, Query: q, At: at})
		}
	}
	return out
}
