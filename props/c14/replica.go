package main

// One replica = the REAL gemmill/state.State (ApplyBlock/ExecBlock), the REAL
// gemmill.Angine block-execution methods (BeginBlock/ExecBlock/EndBlock/
// ExecAdminTx, plugin wiring by InitPlugins) and the REAL plugin.AdminOp.
//
// The application side is a stand-in of ~40 lines that does what
// chain/app/evm's OnExecute/executeOriginTx/OnCommit do with a block's
// transactions: REAL eth/core.ApplyTransaction on a REAL eth StateDB
// (in-memory database, repository genesis = governance contract at
// 0x02000000), so an admin request travels: signed eth tx → state transition
// (nonce check, nonce++) → governance contract byte code → CALL 0xfe → REAL
// vm.AdminOP.Run → callback (installed like chain/core.NewNode does) → REAL
// Angine.ExecAdminTx → plugin.AdminOp.ExecTX.
//
// Not running: consensus, p2p, block store, mempool, block validation (the
// BlockVerifier is a stub that accepts; block validity is property C02).

import (
	"fmt"
	"math"
	"math/big"
	"sort"
	"strings"

	"github.com/spf13/viper"
	"go.uber.org/zap"

	"verif/core"

	"github.com/dappledger/AnnChain/chain/app/evm"
	"github.com/dappledger/AnnChain/eth/common"
	ecore "github.com/dappledger/AnnChain/eth/core"
	estate "github.com/dappledger/AnnChain/eth/core/state"
	etypes "github.com/dappledger/AnnChain/eth/core/types"
	"github.com/dappledger/AnnChain/eth/core/vm"
	"github.com/dappledger/AnnChain/eth/ethdb"
	"github.com/dappledger/AnnChain/eth/params"
	"github.com/dappledger/AnnChain/gemmill"
	crypto "github.com/dappledger/AnnChain/gemmill/go-crypto"
	dbm "github.com/dappledger/AnnChain/gemmill/modules/go-db"
	glog "github.com/dappledger/AnnChain/gemmill/modules/go-log"
	"github.com/dappledger/AnnChain/gemmill/p2p"
	"github.com/dappledger/AnnChain/gemmill/plugin"
	"github.com/dappledger/AnnChain/gemmill/refuse_list"
	"github.com/dappledger/AnnChain/gemmill/state"
	gtypes "github.com/dappledger/AnnChain/gemmill/types"
)

const chainID = "verif-c14"

func silence() { glog.SetLog(zap.NewNop()) }

// ---------------------------------------------------------------- observations

type member struct {
	Key   string `json:"key"` // name of the node key (or hex if unknown)
	Power int64  `json:"power"`
}

type callObs struct {
	Accepted bool   `json:"accepted"`
	Err      string `json:"err,omitempty"`
	Before   string `json:"-"` // ChangedValidators before the call
	After    string `json:"-"`
	Grew     int    `json:"grew"` // entries appended by this call
}

type txObs struct {
	EthErr string    `json:"eth_err,omitempty"` // transaction invalid at the eth level (never reached the EVM)
	Failed bool      `json:"failed"`            // receipt status
	Calls  []callObs `json:"calls"`
}

type blockObs struct {
	Err       string   `json:"err,omitempty"` // error of ApplyBlock
	Panic     string   `json:"panic,omitempty"`
	PanicSite string   `json:"panic_site,omitempty"`
	Height    int64    `json:"height"` // state.LastBlockHeight afterwards
	Set       []member `json:"set"`    // state.Validators afterwards, in the set's own order
	Sorted    bool     `json:"sorted"` // strictly ascending by address (⇒ no duplicates)
	Hash      string   `json:"hash"`   // ValidatorSet.Hash()
	Last      []member `json:"last"`   // state.LastValidators afterwards: the set the replica records as having been in force at the block's height
	Pending   int      `json:"pending"`
	Txs       []txObs  `json:"txs"`
}

func keyName(pub []byte) string {
	nodeKeysMu.Lock()
	defer nodeKeysMu.Unlock()
	for n, k := range nodeKeys {
		if string(k.pub) == string(pub) {
			return n
		}
	}
	return fmt.Sprintf("%x", pub)
}

func describeSet(vs *gtypes.ValidatorSet) (ms []member, sorted bool) {
	sorted = true
	for i, v := range vs.Validators {
		pk, _ := v.PubKey.(crypto.PubKeyEd25519)
		ms = append(ms, member{Key: keyName(pk[:]), Power: v.VotingPower})
		if i > 0 && strings.Compare(string(vs.Validators[i-1].Address), string(v.Address)) >= 0 {
			sorted = false
		}
	}
	return
}

func setString(ms []member) string {
	c := append([]member(nil), ms...)
	sort.Slice(c, func(i, j int) bool { return c[i].Key < c[j].Key })
	var b strings.Builder
	for _, m := range c {
		fmt.Fprintf(&b, "%s=%d ", m.Key, m.Power)
	}
	return strings.TrimSpace(b.String())
}

func changedString(p *plugin.AdminOp) string {
	var b strings.Builder
	for _, c := range p.ChangedValidators {
		fmt.Fprintf(&b, "%s/%x/%d/%x/%d;", c.Cmd, c.PubKey, c.Power, c.Addr, c.Nonce)
	}
	return b.String()
}

// ---------------------------------------------------------------- replica

type okVerifier struct{}

func (okVerifier) ValidateBlock(*gtypes.Block) error { return nil }

type nopMempool struct{}

func (nopMempool) Lock()                     {}
func (nopMempool) Unlock()                   {}
func (nopMempool) Update(int64, []gtypes.Tx) {}

type nopChain struct{}

func (nopChain) GetHeader(common.Hash, uint64) *etypes.Header { return nil }

type replica struct {
	name string
	mode string // "pbft": Copy→ApplyBlock→adopt (consensus/pbft finalizeCommit); "inplace": ApplyBlock on the state itself (fast sync / crash recovery); "restart": inplace + Save/LoadState and fresh plugins between blocks

	st   *state.State
	ang  *gemmill.Angine
	plug *plugin.AdminOp
	evsw gtypes.EventSwitch
	sdb  dbm.DB
	sw   *p2p.Switch
	rl   *refuse_list.RefuseList
	pv   *gtypes.PrivValidator
	conf *viper.Viper

	// application stand-in
	edb     *ethdb.MemDatabase
	appRoot common.Hash
	cur     *estate.StateDB
	txs     []txObs
	curTx   *txObs
	dead    bool

	// part 3 only: the real application instead of the stand-in
	real *evm.EVMApp
	meta *blockMetaCore
}

// curReplica is the replica whose block is executing: the AdminOP precompile
// (vm.DefaultAdminContract) and its callback are process-global in the
// repository, so one process executes one EVM at a time.
var curReplica *replica

func installCallback() {
	vm.DefaultAdminContract.SetCallback(func(app *vm.AdminDBApp, data []byte) error {
		r := curReplica
		before := changedString(r.plug)
		n0 := len(r.plug.ChangedValidators)
		err := r.ang.ExecAdminTx(app, data) // what chain/core.Node.ExecAdminTx does
		c := callObs{Accepted: err == nil, Before: before, After: changedString(r.plug), Grew: len(r.plug.ChangedValidators) - n0}
		if err != nil {
			c.Err = err.Error()
		}
		if r.curTx != nil {
			r.curTx.Calls = append(r.curTx.Calls, c)
		}
		return err
	})
}

type genesisSpec struct {
	Names  []string
	Powers []int64
}

func (g genesisSpec) doc() *gtypes.GenesisDoc {
	d := &gtypes.GenesisDoc{GenesisTime: fixedTime, ChainID: chainID, Plugins: "adminOp"}
	for i, n := range g.Names {
		d.Validators = append(d.Validators, gtypes.GenesisValidator{PubKey: nk(n).priv.PubKey(), Amount: g.Powers[i], Name: n, IsCA: g.Powers[i] > 0})
	}
	return d
}

// Per-process caches of inert construction work (nothing here is observed by
// a check): the p2p switch has no peers and is only read (Peers().List()),
// the node's own key is not used by AdminOp, and the application genesis
// (repository DefaultGenesis: governance contract) is the same byte-for-byte
// for every replica, so its database is copied instead of rebuilt.
var (
	sharedConf   = viper.New()
	sharedSwitch *p2p.Switch
	pvCache      = map[string]*gtypes.PrivValidator{}
	genesisKV    map[string][]byte
	genesisRoot  common.Hash
)

func newReplica(name, mode string, g genesisSpec) *replica {
	r := &replica{name: name, mode: mode, sdb: dbm.NewMemDB(), conf: sharedConf}
	if sharedSwitch == nil {
		sharedSwitch = p2p.NewSwitch(sharedConf)
	}
	r.sw = sharedSwitch
	r.rl = refuse_list.NewRefuseList(dbm.MemDBBackendStr, "")
	pv := pvCache[name]
	if pv == nil {
		var err error
		pv, err = gtypes.GenPrivValidator(crypto.CryptoTypeZhongAn, nk("self-"+name).priv)
		if err != nil {
			core.Fatal("GenPrivValidator: %v", err)
		}
		pvCache[name] = pv
	}
	r.pv = pv
	st := state.MakeGenesisState(r.sdb, g.doc())
	r.wire(st)
	r.st = st

	r.evsw = gtypes.NewEventSwitch()
	r.evsw.Start()
	gtypes.AddListenerForEvent(r.evsw, "app", gtypes.EventStringHookExecute(), func(ed gtypes.TMEventData) {
		r.onExecute(ed.(gtypes.EventDataHookExecute))
	})
	gtypes.AddListenerForEvent(r.evsw, "app", gtypes.EventStringHookCommit(), func(ed gtypes.TMEventData) {
		r.onCommit(ed.(gtypes.EventDataHookCommit))
	})

	// application genesis: the repository's (governance contract at core.AdminTo)
	if genesisKV == nil {
		db := ethdb.NewMemDatabase()
		gen := ecore.DefaultGenesis()
		genesisRoot = gen.ToBlock(db).Root()
		genesisKV = map[string][]byte{}
		for _, k := range db.Keys() {
			v, _ := db.Get(k)
			genesisKV[string(k)] = v
		}
	}
	r.edb = ethdb.NewMemDatabase()
	for k, v := range genesisKV {
		r.edb.Put([]byte(k), v)
	}
	r.appRoot = genesisRoot
	return r
}

// wire builds the angine around st exactly as assembleStateMachine does for
// the parts that matter here: SetBlockExecutable(angine), InitPlugins()
// (plugin.InitParams{Validators: &ang.stateMachine.Validators, …}).
func (r *replica) wire(st *state.State) {
	st.SetBlockVerifier(okVerifier{})
	r.ang = gemmill.VerifBlockExecAngine(st, r.pv, r.sw, r.rl, r.sdb, r.conf)
	st.SetBlockExecutable(r.ang)
	r.ang.InitPlugins()
	r.plug = nil
	for _, p := range r.ang.VerifPlugins() {
		if ap, ok := p.(*plugin.AdminOp); ok {
			r.plug = ap
		}
	}
	if r.plug == nil {
		core.Fatal("InitPlugins installed no plugin.AdminOp")
	}
}

var evmCfg = vm.Config{EVMGasLimit: 100000000}

func (r *replica) onExecute(ed gtypes.EventDataHookExecute) {
	var res gtypes.ExecuteResult
	curReplica = r
	if r.real != nil {
		r.txs = append(r.txs, txObs{})
		r.curTx = &r.txs[0]
		out, err := r.real.OnExecute(ed.Block.Height, ed.Round, ed.Block)
		r.curTx = nil
		if er, ok := out.(gtypes.ExecuteResult); ok {
			res = er
		}
		if err != nil {
			res.Error = err
		}
		ed.ResCh <- res
		return
	}
	st, err := estate.New(r.appRoot, estate.NewDatabase(r.edb))
	if err != nil {
		res.Error = err
		ed.ResCh <- res
		return
	}
	r.cur = st
	blk := ed.Block
	header := &etypes.Header{
		ParentHash: common.BytesToHash(blk.Header.LastBlockID.Hash),
		Difficulty: big.NewInt(0),
		GasLimit:   math.MaxUint64,
		Time:       big.NewInt(blk.Header.Time.Unix()),
		Number:     big.NewInt(blk.Header.Height),
	}
	bhash := common.BytesToHash(blk.Hash())
	for i, raw := range blk.Data.Txs {
		r.txs = append(r.txs, txObs{})
		r.curTx = &r.txs[len(r.txs)-1]
		tx, err := lookupTx(raw)
		if err != nil {
			r.curTx.EthErr = err.Error()
			res.InvalidTxs = append(res.InvalidTxs, gtypes.ExecuteInvalidTx{Bytes: raw, Error: err})
			continue
		}
		snap := st.Snapshot()
		st.Prepare(common.BytesToHash(gtypes.Tx(raw).Hash()), bhash, i)
		gp := new(ecore.GasPool).AddGas(math.MaxUint64)
		receipt, _, err := ecore.ApplyTransaction(params.MainnetChainConfig, nopChain{}, nil, gp, st, header, tx, new(uint64), evmCfg)
		if err != nil {
			st.RevertToSnapshot(snap)
			r.curTx.EthErr = err.Error()
			res.InvalidTxs = append(res.InvalidTxs, gtypes.ExecuteInvalidTx{Bytes: raw, Error: err})
			continue
		}
		r.curTx.Failed = receipt.Status == etypes.ReceiptStatusFailed
		res.ValidTxs = append(res.ValidTxs, raw)
	}
	r.curTx = nil
	ed.ResCh <- res
}

func (r *replica) onCommit(ed gtypes.EventDataHookCommit) {
	if r.real != nil {
		out, err := r.real.OnCommit(ed.Block.Height, ed.Round, ed.Block)
		if err != nil {
			core.Fatal("EVMApp.OnCommit: %v", err)
		}
		ed.ResCh <- out.(gtypes.CommitResult)
		return
	}
	root, err := r.cur.Commit(true)
	if err == nil {
		err = r.cur.Database().TrieDB().Commit(root, false)
	}
	if err != nil {
		core.Fatal("application stand-in commit: %v", err)
	}
	r.appRoot = root
	ed.ResCh <- gtypes.CommitResult{AppHash: root.Bytes()}
}

// makeBlock is what pbft's createProposalBlock does with reaped txs.
func (r *replica) makeBlock(txs [][]byte) (*gtypes.Block, *gtypes.PartSet) {
	gt := make([]gtypes.Tx, len(txs))
	for i, t := range txs {
		gt[i] = gtypes.Tx(t)
	}
	return gtypes.MakeBlock(r.st.LastBlockHeight+1, r.st.ChainID, gt, []gtypes.Tx{}, &gtypes.Commit{}, r.pv.GetAddress(),
		r.st.LastBlockID, r.st.Validators.Hash(), r.st.AppHash, r.st.ReceiptsHash, 65536)
}

// apply executes one block on this replica.
func (r *replica) apply(blk *gtypes.Block, ph gtypes.PartSetHeader) blockObs {
	var o blockObs
	r.txs = nil
	var err error
	p, v, stack := core.Try(func() {
		switch r.mode {
		case "pbft":
			cp := r.st.Copy()
			err = cp.ApplyBlock(r.evsw, blk, ph, nopMempool{}, 0)
			if err == nil {
				cp.Save()
				r.st = cp
				r.ang.UpdateStateMachine(cp)
			}
		case "inplace":
			err = r.st.ApplyBlock(r.evsw, blk, ph, nopMempool{}, -1)
			if err == nil {
				r.st.Save()
			}
		case "restart":
			err = r.st.ApplyBlock(r.evsw, blk, ph, nopMempool{}, -1)
			if err == nil {
				r.st.Save()
				st2 := state.LoadState(r.sdb)
				r.wire(st2)
				r.st = st2
			}
		}
	})
	if p {
		o.Panic = core.FirstLine(v)
		o.PanicSite = core.PanicSite(stack)
		r.dead = true
	}
	if err != nil {
		o.Err = err.Error()
		r.dead = true
	}
	o.Txs = r.txs
	o.Height = r.st.LastBlockHeight
	o.Set, o.Sorted = describeSet(r.st.Validators)
	o.Hash = fmt.Sprintf("%x", r.st.Validators.Hash())
	if err == nil && !p && r.st.LastValidators != nil {
		o.Last, _ = describeSet(r.st.LastValidators)
	}
	o.Pending = len(r.plug.ChangedValidators)
	return o
}
