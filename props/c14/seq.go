package main

// Part 2 — sequences of administrative requests, executed block by block on
// several replicas (see replica.go for what is real), judged against a plain
// reference model written from the property.

import (
	"encoding/json"
	"fmt"
	"sort"
	"strings"

	"verif/core"

	"github.com/dappledger/AnnChain/eth/common"
	gtypes "github.com/dappledger/AnnChain/gemmill/types"
)

// ---------------------------------------------------------------- alphabet

// letter is one request of the alphabet.  Nonces are relative: the concrete
// request is built when it is submitted, bound to account Addr with nonce
// (Addr's account nonce at that moment)+Delta, signed over exactly that
// message by Signers — the way an administrator's client builds it.  A replay
// letter re-submits the literal payload bytes of an earlier request of the
// same sequence.
type letter struct {
	Name     string
	Sender   string // account that signs and sends the ethereum transaction
	Chan     string // "contract": changenode() of the governance contract; "direct": the precompile 0xfe called directly, the 20 sender bytes chosen by the caller
	Replay   int    // k>0: literal payload of the k-th request of the sequence
	EnvNonce bool   // replay whose UNSIGNED envelope field AdminOPCmd.Nonce is set to the sender's current account nonce (message and signatures untouched)
	CmdType  string
	VCmd     string
	Target   string
	Power    int64
	Addr     string // account the request is bound to (ValidatorAttr.Addr); also the forged sender bytes of a direct call; "" = the signed request names NO account (empty addr)
	NonceOf  string // account whose nonce the client puts into the request (default: Addr)
	Delta    int    // nonce offset relative to that account's nonce
	Signers  []string
	WrongMsg bool   // signatures are over a different message
	SelfSign string // "ok" | "bad" | "" (only add_peer carries one)
	Core     bool   // member of the core alphabet (21 letters)
	Mini     bool   // member of the mini alphabet (10 letters; quick tier, length 3)
	Blk      bool   // member of the block alphabet (several accepted requests in ONE block: same-state requests, second administrator)
	Unb      bool   // member of the unbound alphabet (requests whose signed attributes name no account, and their literal replays by other accounts)
}

// blkLetters: every request is properly authorised at the start of the block;
// the alphabet holds, for one key, a change, the SAME change asked again (by
// the same and by a second administrator: a request for the state the key has
// by then), a different change, and changes of other keys (add, update, remove).
var blkLetters = map[string]bool{
	"upd(B,5)": true, "Y:upd(B,5)": true, "upd(B,1)": true, "add(K,0)": true, "Y:add(K,0)": true, "upd(D,1)": true, "rm(A)": true,
}

// unbLetters: a request signed by all validators whose attributes carry an
// empty addr, proper (bound) changes by X and Y, and literal replays by the
// first submitter, by Y and by a third account Z, through both channels.
var unbLetters = map[string]bool{
	"noaddr:upd(B,5)": true, "upd(B,5)": true, "upd(B,1)": true, "Y:upd(B,1)": true,
	"replay#1": true, "Y:replay#1": true, "Z:replay#1": true, "Z~:replay#1": true, "Z:replay#2": true,
}

var miniLetters = map[string]bool{
	"add(K,0)": true, "upd(B,5)": true, "rm(B)": true, "Y:upd(B,1)": true,
	"upd(B,5)@n-1": true, "upd(B,5)@n+1": true, "Y>X:upd(B,5)": true, "upd(B,5)/dup": true,
	"replay#1": true, "Y~:replay#1": true, "renonce:replay#1": true,
}

const (
	cAdd = string(gtypes.ValidatorCmdAddPeer)
	cUpd = string(gtypes.ValidatorCmdUpdateNode)
	cRm  = string(gtypes.ValidatorCmdRemoveNode)
)

var (
	sigFull    = []string{"A", "B", "C"}
	sigUnder   = []string{"A", "B"}
	sigDup     = []string{"A", "A", "A"}
	sigForeign = []string{"N", "A", "N"}
)

func buildAlphabet() []letter {
	var ls []letter
	eff := func(name, vcmd, target string, power int64, corel bool) letter {
		l := letter{Name: name, Sender: "X", Chan: "contract", CmdType: gtypes.AdminOpChangeValidator, VCmd: vcmd, Target: target, Power: power, Addr: "X", Signers: sigFull, Core: corel}
		if vcmd == cAdd {
			l.SelfSign = "ok"
		}
		return l
	}
	add := func(l letter) {
		l.Mini = miniLetters[l.Name]
		if l.Mini && !l.Core {
			panic("mini letter outside the core alphabet: " + l.Name)
		}
		l.Blk, l.Unb = blkLetters[l.Name], unbLetters[l.Name]
		ls = append(ls, l)
	}
	// properly authorised requests of account X (as long as A,B,C hold > 2/3)
	add(eff("add(K,0)", cAdd, "K", 0, true))
	add(eff("add(K,5)", cAdd, "K", 5, false))
	add(eff("add(B,0)", cAdd, "B", 0, true))
	add(eff("upd(K,1)", cUpd, "K", 1, true))
	add(eff("upd(B,0)", cUpd, "B", 0, true))
	add(eff("upd(B,1)", cUpd, "B", 1, true))
	add(eff("upd(B,5)", cUpd, "B", 5, true))
	add(eff("upd(D,1)", cUpd, "D", 1, false))
	add(eff("upd(A,0)", cUpd, "A", 0, false))
	add(eff("rm(B)", cRm, "B", 0, true))
	add(eff("rm(K)", cRm, "K", 0, false))
	add(eff("rm(A)", cRm, "A", 0, true))
	add(eff("rm(D)", cRm, "D", 0, false))
	add(eff("bogus(B)", "frobnicate_node", "B", 3, true))
	bt := eff("badtype:upd(B,5)", cUpd, "B", 5, false)
	bt.CmdType = "changeSomethingElse"
	add(bt)
	// the same kind of request from a second administrator account Y
	for _, l := range []letter{eff("Y:upd(B,1)", cUpd, "B", 1, true), eff("Y:add(B,0)", cAdd, "B", 0, true), eff("Y:rm(B)", cRm, "B", 0, true),
		eff("Y:upd(B,5)", cUpd, "B", 5, false), eff("Y:add(K,0)", cAdd, "K", 0, false)} {
		l.Sender, l.Addr = "Y", "Y"
		add(l)
	}
	// a request whose signed attributes name NO account (empty addr): bound to nobody, it carries
	// the nonce the submitting client read from its own account
	na := eff("noaddr:upd(B,5)", cUpd, "B", 5, false)
	na.Addr, na.NonceOf = "", "X"
	add(na)
	// wrong nonce
	for _, d := range []int{-1, +1} {
		for _, b := range []letter{eff("upd(B,5)", cUpd, "B", 5, true), eff("rm(B)", cRm, "B", 0, d == -1)} {
			b.Delta = d
			b.Name = fmt.Sprintf("%s@n%+d", b.Name, d)
			add(b)
		}
	}
	// submitted by an account the request is not bound to
	for _, b := range []letter{eff("upd(B,5)", cUpd, "B", 5, true), eff("rm(B)", cRm, "B", 0, false)} {
		b.Sender = "Y"
		b.Name = "Y>X:" + b.Name
		add(b)
	}
	// signature lists that do not carry > 2/3 of distinct validators
	for _, v := range []struct {
		tag     string
		signers []string
		wrong   bool
	}{{"under", sigUnder, false}, {"dup", sigDup, false}, {"foreign", sigForeign, false}, {"wrongmsg", sigFull, true}} {
		for _, b := range []letter{eff("upd(B,5)", cUpd, "B", 5, v.tag == "under" || v.tag == "dup"), eff("rm(B)", cRm, "B", 0, false)} {
			if b.VCmd == cRm && (v.tag == "foreign" || v.tag == "wrongmsg") {
				continue
			}
			b.Signers, b.WrongMsg = v.signers, v.wrong
			b.Name = b.Name + "/" + v.tag
			add(b)
		}
	}
	// the threshold must follow a power change: after upd(B,3) validator B alone holds 3 of 5
	// (not more than 2/3), after upd(B,5) it holds 5 of 7 (more than 2/3)
	add(eff("upd(B,3)", cUpd, "B", 3, false))
	for _, b := range []letter{eff("upd(A,0)", cUpd, "A", 0, false), eff("rm(C)", cRm, "C", 0, false)} {
		b.Signers = []string{"B"}
		b.Name = b.Name + "/onlyB"
		add(b)
	}
	bs := eff("add(K,0)/badself", cAdd, "K", 0, false)
	bs.SelfSign = "bad"
	add(bs)
	// the precompile called directly
	d1 := eff("direct:upd(B,5)", cUpd, "B", 5, false) // by X itself, sender bytes = X
	d1.Chan = "direct"
	add(d1)
	for _, d := range []int{0, -1} {
		f := eff("Y~X:upd(B,5)", cUpd, "B", 5, d == -1) // by Y, sender bytes forged = X
		f.Sender, f.Chan, f.Delta = "Y", "direct", d
		if d != 0 {
			f.Name = fmt.Sprintf("%s@n%+d", f.Name, d)
		}
		add(f)
	}
	// literal replays of earlier requests of the sequence
	add(letter{Name: "replay#1", Sender: "X", Chan: "contract", Replay: 1, Core: true})
	add(letter{Name: "Y:replay#1", Sender: "Y", Chan: "contract", Replay: 1, Core: false})
	add(letter{Name: "renonce:replay#1", Sender: "X", Chan: "contract", Replay: 1, EnvNonce: true, Core: true})
	add(letter{Name: "renonce:replay#2", Sender: "X", Chan: "contract", Replay: 2, EnvNonce: true, Core: true})
	add(letter{Name: "Y~:replay#1", Sender: "Y", Chan: "direct", Replay: 1, Core: true})
	add(letter{Name: "Y~:replay#2", Sender: "Y", Chan: "direct", Replay: 2, Core: false})
	add(letter{Name: "Z:replay#1", Sender: "Z", Chan: "contract", Replay: 1, Core: false})
	add(letter{Name: "Z~:replay#1", Sender: "Z", Chan: "direct", Replay: 1, Core: false})
	add(letter{Name: "Z:replay#2", Sender: "Z", Chan: "contract", Replay: 2, Core: false})
	return ls
}

var alphabet = buildAlphabet()

func letterByName(n string) *letter {
	for i := range alphabet {
		if alphabet[i].Name == n {
			return &alphabet[i]
		}
	}
	return nil
}

// ---------------------------------------------------------------- base sets

var baseSets = map[string]genesisSpec{
	"A1,B1,C1,D0": {Names: []string{"A", "B", "C", "D"}, Powers: []int64{1, 1, 1, 0}},
	"A1":          {Names: []string{"A"}, Powers: []int64{1}},
}

// ---------------------------------------------------------------- concrete requests

// payload is a concrete request with its ground truth.
type payload struct {
	Tagged   []byte // TagAdminOPTx(json(AdminOPCmd))
	CmdType  string
	VCmd     string
	Target   string
	Power    int64
	Addr     string
	Nonce    uint64
	Genuine  []string // node keys with a genuine signature over exactly Msg among the entries (with repetitions)
	Entries  []string
	SelfOK   bool
	Describe string
}

func (l *letter) concretise(nonces map[string]uint64) *payload {
	of := l.NonceOf
	if of == "" {
		of = l.Addr
	}
	n := nonces[of] + uint64(int64(l.Delta)) // wraps for −1 at nonce 0
	var addr []byte                          // stays empty for a request that names no account
	if l.Addr != "" {
		addr = acct(l.Addr).addr.Bytes()
	}
	msg := attrMsg(l.VCmd, nk(l.Target).pub, l.Power, addr, n)
	signed := msg
	if l.WrongMsg {
		signed = attrMsg(l.VCmd, nk(l.Target).pub, l.Power+1, addr, n)
	}
	p := &payload{CmdType: l.CmdType, VCmd: l.VCmd, Target: l.Target, Power: l.Power, Addr: l.Addr, Nonce: n, Entries: l.Signers}
	var si []gtypes.SigInfo
	for _, s := range l.Signers {
		si = append(si, gtypes.SigInfo{PubKey: nk(s).pub, Signature: nodeSign(s, signed)})
		if !l.WrongMsg {
			p.Genuine = append(p.Genuine, s)
		}
	}
	var self []byte
	switch l.SelfSign {
	case "ok":
		self = nodeSign(l.Target, msg)
		p.SelfOK = true
	case "bad":
		self = nodeSign(l.Target, append([]byte("x"), msg...))
	}
	p.Tagged = tagged(opData(l.CmdType, msg, self, si))
	bound := l.Addr
	if bound == "" {
		bound = "NO account (empty addr)"
	}
	p.Describe = fmt.Sprintf("%s %s power=%d bound to %s nonce %d, entries %v", l.VCmd, l.Target, l.Power, bound, n, l.Signers)
	if l.WrongMsg {
		p.Describe += " (signed over another message)"
	}
	return p
}

// withEnvelopeNonce: the same signed message and signatures, the unsigned envelope field
// AdminOPCmd.Nonce set to n.  The ground truth (signed nonce, signers) is unchanged.
func (p *payload) withEnvelopeNonce(n uint64) *payload {
	var cmd gtypes.AdminOPCmd
	if err := json.Unmarshal(p.Tagged[len(gtypes.AdminTag):], &cmd); err != nil {
		panic(err)
	}
	cmd.Nonce = n
	b, err := json.Marshal(&cmd)
	if err != nil {
		panic(err)
	}
	q := *p
	q.Tagged = tagged(b)
	q.Describe += fmt.Sprintf(" [unsigned envelope nonce set to %d]", n)
	return &q
}

// submission is one ethereum transaction carrying a payload.
type submission struct {
	Letter  string
	Sender  string
	Chan    string
	EthNonc uint64
	P       *payload
	Raw     []byte
}

// ---------------------------------------------------------------- case

type seqCase struct {
	Part     string   `json:"part"` // "sequence"
	Base     string   `json:"base"`
	Letters  []string `json:"letters"`
	Blocks   []int    `json:"blocks"`   // sizes of the consecutive blocks (sum = len(letters))
	Replicas []string `json:"replicas"` // modes: the first two run in lock-step, the others execute the same blocks afterwards
}

type seqViol struct {
	Sig    map[string]string
	Detail string
}

type seqResult struct {
	Viols   []seqViol
	Classes []string
	States  []string
	Execs   int // request executions on real code (all replicas)
}

// reference model ------------------------------------------------------------

type refModel struct {
	set      map[string]int64 // validator set of the current height
	nonce    map[string]uint64
	accepted map[string]bool // literal payloads the implementation has accepted so far
}

func (m *refModel) total() (t int64) {
	for _, p := range m.set {
		t += p
	}
	return
}

// authorised: the property's conditions for a request submitted by `sender`
// whose account nonce (before this transaction) is m.nonce[sender].
//
// A request whose signed attributes name no account (p.Addr == "") is bound to
// nobody: the property neither obliges a node to honour it nor forbids it when
// the submitter's nonce and the signatures are right (verdict "either": the
// model follows the implementation) — but once it has been accepted, the same
// literal bytes submitted again (by whichever account) are a replay.
func (m *refModel) authorised(sender string, p *payload) (auth bool, reason string, either bool) {
	if p.Addr != "" && p.Addr != sender {
		return false, "sender-not-the-bound-account", false
	}
	if p.Nonce != m.nonce[sender] {
		if p.Nonce < m.nonce[sender] {
			return false, "stale-nonce", false
		}
		return false, "future-nonce", false
	}
	distinct := map[string]bool{}
	var tally, withDup int64
	for _, s := range p.Genuine {
		pw, ok := m.set[s]
		if !ok || pw <= 0 {
			continue
		}
		withDup += pw
		if !distinct[s] {
			distinct[s] = true
			tally += pw
		}
	}
	if !moreThanTwoThirds(tally, m.total()) {
		switch {
		case moreThanTwoThirds(withDup, m.total()):
			return false, "duplicate-signer-counted-repeatedly", false
		case len(p.Genuine) == 0 && len(p.Entries) > 0:
			return false, "signature-over-other-message-counted", false
		default:
			return false, "insufficient-signatures-accepted", false
		}
	}
	if p.Addr == "" {
		return false, "request-bound-to-no-account", true
	}
	return true, "", false
}

func copySet(s map[string]int64) map[string]int64 {
	c := map[string]int64{}
	for k, v := range s {
		c[k] = v
	}
	return c
}

func setMapString(s map[string]int64) string {
	ks := make([]string, 0, len(s))
	for k := range s {
		ks = append(ks, k)
	}
	sort.Strings(ks)
	var b strings.Builder
	for _, k := range ks {
		fmt.Fprintf(&b, "%s=%d ", k, s[k])
	}
	return strings.TrimSpace(b.String())
}

// applyEffect: the reference set algebra for an authorised, accepted request,
// applied to the set as the previous requests of the block left it.
func applyEffect(next map[string]int64, p *payload) {
	if p.CmdType != gtypes.AdminOpChangeValidator {
		return
	}
	switch p.VCmd {
	case cAdd:
		if _, ok := next[p.Target]; !ok {
			next[p.Target] = p.Power
		}
	case cUpd:
		next[p.Target] = p.Power
	case cRm:
		delete(next, p.Target)
	}
}

// runSequence executes one case and judges it.  Only the first violation of a
// case is reported (later differences would be consequences).
func runSequence(kase seqCase) seqResult {
	var res seqResult
	g, ok := baseSets[kase.Base]
	if !ok {
		core.Fatal("unknown base set %q", kase.Base)
	}
	if len(kase.Replicas) < 2 {
		core.Fatal("need at least two replicas")
	}
	sum := 0
	for _, b := range kase.Blocks {
		sum += b
	}
	if sum != len(kase.Letters) {
		core.Fatal("blocks %v do not cover %d letters", kase.Blocks, len(kase.Letters))
	}
	reps := make([]*replica, len(kase.Replicas))
	for i, mode := range kase.Replicas {
		reps[i] = newReplica(fmt.Sprintf("r%d", i+1), mode, g)
	}
	m := &refModel{set: map[string]int64{}, nonce: map[string]uint64{}, accepted: map[string]bool{}}
	for i, n := range g.Names {
		m.set[n] = g.Powers[i]
	}
	// viol records a violation; the caller decides whether the case can go on
	// (it can when the model is able to follow what the implementation did).
	viol := func(sig map[string]string, format string, a ...interface{}) seqResult {
		sig["part"] = "sequence"
		k := sigKey(sig)
		for _, v := range res.Viols {
			if sigKey(v.Sig) == k {
				return res
			}
		}
		res.Viols = append(res.Viols, seqViol{Sig: sig, Detail: fmt.Sprintf(format, a...)})
		return res
	}
	res.States = append(res.States, kase.Base+"|"+setMapString(m.set))

	type storedBlock struct {
		blk  *gtypes.Block
		ph   gtypes.PartSetHeader
		subs []*submission
		obs  blockObs // of replica 1
		want map[string]int64
	}
	var stored []storedBlock
	var payloads []*payload // by position in the sequence
	pos := 0
	for bi, size := range kase.Blocks {
		// ---- build the block's transactions (client side) and the model's verdicts
		var subs []*submission
		var raws [][]byte
		next := copySet(m.set)
		type verdict struct {
			auth   bool
			reason string
			either bool
		}
		var verdicts []verdict
		for k := 0; k < size; k++ {
			l := letterByName(kase.Letters[pos])
			if l == nil {
				core.Fatal("unknown letter %q", kase.Letters[pos])
			}
			var p *payload
			if l.Replay > 0 {
				if l.Replay > len(payloads) {
					core.Fatal("letter %s at position %d refers to a later request", l.Name, pos+1)
				}
				p = payloads[l.Replay-1]
				if l.EnvNonce {
					p = p.withEnvelopeNonce(m.nonce[l.Sender])
				}
			} else {
				p = l.concretise(m.nonce)
			}
			payloads = append(payloads, p)
			s := &submission{Letter: l.Name, Sender: l.Sender, Chan: l.Chan, EthNonc: m.nonce[l.Sender], P: p}
			switch l.Chan {
			case "contract":
				s.Raw = signTx(acct(l.Sender), s.EthNonc, adminTo(), contractCalldata(p.Tagged)).raw
			case "direct":
				s.Raw = signTx(acct(l.Sender), s.EthNonc, precompileAddr, directInput(senderBytes(p, l.Sender), p.Tagged)).raw
			}
			a, why, either := m.authorised(l.Sender, p)
			verdicts = append(verdicts, verdict{a, why, either})
			m.nonce[l.Sender]++ // every transaction here is valid at the ethereum level and consumes the sender's nonce
			subs = append(subs, s)
			raws = append(raws, s.Raw)
			pos++
		}
		// ---- execute on the lock-step replicas
		blk, ps := reps[0].makeBlock(raws)
		ph := ps.Header()
		o1 := reps[0].apply(blk, ph)
		o2 := reps[1].apply(blk, ph)
		res.Execs += 2 * size
		describe := func() string {
			var b strings.Builder
			fmt.Fprintf(&b, "base set {%s}, height %d, set at this height {%s}; block of %d request(s):", kase.Base, bi+1, setMapString(m.set), size)
			for i, s := range subs {
				acc := "?"
				if i < len(o1.Txs) {
					acc = fmt.Sprintf("%+v", o1.Txs[i])
				}
				fmt.Fprintf(&b, "\n   [%s] sent by %s via %s (account nonce %d): %s → model authorised=%v %s; implementation: %s", s.Letter, s.Sender, s.Chan, s.EthNonc, s.P.Describe, verdicts[i].auth, verdicts[i].reason, acc)
			}
			return b.String()
		}
		if len(o1.Txs) != size && o1.Err == "" && o1.Panic == "" {
			core.Fatal("replica executed %d of %d transactions", len(o1.Txs), size)
		}
		// ---- per request: verdict of the implementation against the property
		sameKey := map[string]int{}
		opsOn := map[string][]string{}
		for i, s := range subs {
			if i >= len(o1.Txs) {
				break
			}
			t := o1.Txs[i]
			if t.EthErr != "" {
				core.Fatal("harness transaction invalid at the ethereum level: %s (%s)", t.EthErr, s.Letter)
			}
			accepted, grew, changed := false, 0, false
			for _, c := range t.Calls {
				if c.Accepted {
					accepted = true
				} else if c.Before != c.After {
					changed = true
				}
				grew += c.Grew
			}
			if (verdicts[i].auth || verdicts[i].either) && m.accepted[string(s.P.Tagged)] {
				// the same literal request was accepted before (in an earlier block or earlier in this one)
				verdicts[i] = verdict{false, "replay-of-an-accepted-request", false}
			}
			if verdicts[i].either {
				verdicts[i].auth = accepted // the model follows the implementation
			}
			v := verdicts[i]
			if accepted {
				m.accepted[string(s.P.Tagged)] = true
			}
			res.Classes = append(res.Classes, fmt.Sprintf("req/%s/%s/auth=%v(%s)/accepted=%v/recorded=%d", s.P.VCmd, s.Chan, v.auth, v.reason, accepted, grew))
			if !accepted && (changed || grew != 0) {
				return viol(map[string]string{"site": "AdminOp.ExecTX", "kind": "rejected-request-recorded-a-change"}, "a REJECTED request altered ChangedValidators.\n%s", describe())
			}
			if accepted && !v.auth && grew > 0 {
				site := "AdminOp.ProcessAdminOP"
				switch v.reason {
				case "duplicate-signer-counted-repeatedly", "signature-over-other-message-counted", "insufficient-signatures-accepted":
					site = "AdminOp.CheckMajor23"
				case "sender-not-the-bound-account":
					if s.Chan == "direct" {
						site = "vm.AdminOP.Run"
					}
				}
				sig := map[string]string{"site": site, "kind": v.reason, "channel": s.Chan}
				if l := letterByName(s.Letter); l != nil && l.Replay > 0 {
					sig["replay"] = "literal-replay"
				}
				viol(sig, "a request the property does not authorise (%s) was ACCEPTED and recorded a validator change.\n%s", v.reason, describe())
				// the model follows the implementation so that the rest of the case stays meaningful
				applyEffect(next, s.P)
				if s.P.CmdType == gtypes.AdminOpChangeValidator {
					sameKey[s.P.Target]++
					opsOn[s.P.Target] = append(opsOn[s.P.Target], s.P.VCmd)
				}
			}
			if accepted && v.auth {
				applyEffect(next, s.P)
				if s.P.CmdType == gtypes.AdminOpChangeValidator {
					sameKey[s.P.Target]++
					opsOn[s.P.Target] = append(opsOn[s.P.Target], s.P.VCmd)
				}
			}
		}
		several, ops := false, ""
		for k, n := range sameKey {
			if n > 1 {
				several = true
				if o := distinctSorted(opsOn[k]); ops == "" || o < ops {
					ops = o
				}
			}
		}
		if o1.Panic != "" {
			shape := "other"
			if len(next) == 0 {
				shape = "next-set-empty"
			}
			return viol(map[string]string{"site": o1.PanicSite, "kind": "panic", "shape": shape}, "panic while executing the block: %s\n%s", o1.Panic, describe())
		}
		// ---- the block as a whole
		if o1.Err != "" {
			shape := "single-request-per-key"
			if several {
				shape = "several-requests-same-key-in-one-block"
			}
			sig := map[string]string{"site": "AdminOp.EndBlock", "kind": "accepted-requests-make-block-fail", "shape": shape}
			if ops != "" {
				sig["ops"] = ops
			}
			return viol(sig,
				"every request was answered, but applying the block fails (%s): the height never completes.\n%s", o1.Err, describe())
		}
		if d := diffObs(o1, o2); d != "" {
			return viol(map[string]string{"site": "State.ExecBlock", "kind": "replicas-diverge", "between": "lock-step-replicas"}, "replica 1 and replica 2 differ after height %d: %s\n%s", bi+1, d, describe())
		}
		if o1.Height != int64(bi+1) {
			return viol(map[string]string{"site": "State.ExecBlock", "kind": "height-not-advanced"}, "height after the block is %d, want %d\n%s", o1.Height, bi+1, describe())
		}
		got := map[string]int64{}
		dupMember := false
		for _, mm := range o1.Set {
			if _, ok := got[mm.Key]; ok {
				dupMember = true
			}
			got[mm.Key] = mm.Power
		}
		if dupMember || !o1.Sorted {
			return viol(map[string]string{"site": "AdminOp.updateValidators", "kind": "set-not-sorted-or-has-duplicates"}, "validator set after height %d: %v\n%s", bi+1, o1.Set, describe())
		}
		if o1.Last != nil {
			gotLast := map[string]int64{}
			for _, mm := range o1.Last {
				gotLast[mm.Key] = mm.Power
			}
			if setMapString(gotLast) != setMapString(m.set) {
				return viol(map[string]string{"site": "State.ExecBlock", "kind": "last-validators-not-the-set-in-force"}, "after height %d the replica records {%s} as the set that was in force at that height; it was {%s}\n%s", bi+1, setMapString(gotLast), setMapString(m.set), describe())
			}
		}
		if o1.Pending != 0 {
			return viol(map[string]string{"site": "AdminOp.EndBlock", "kind": "changes-left-pending-after-block"}, "%d entries left in ChangedValidators after the block\n%s", o1.Pending, describe())
		}
		if setMapString(got) != setMapString(next) {
			// the known same-block defect (requests judged against the block-start set) can only
			// explain differences on keys that several accepted requests of this block name
			onlySeveral := true
			for _, k := range diffKeys(got, next) {
				if sameKey[k] < 2 {
					onlySeveral = false
				}
			}
			if several && onlySeveral {
				viol(map[string]string{"site": "AdminOp.ProcessAdminOP", "kind": "same-block-requests-evaluated-against-stale-set", "ops": ops},
					"several accepted requests on one key in one block: next set is {%s}, applying the accepted requests in order gives {%s}\n%s", setMapString(got), setMapString(next), describe())
			} else {
				kind := "next-set-differs-from-reference"
				if len(sameKey) == 0 {
					kind = "set-changed-without-accepted-request"
				}
				sig := map[string]string{"site": "AdminOp.updateValidators", "kind": kind}
				if several {
					sig["shape"] = "key-named-once-in-a-block-with-a-key-named-several-times"
				}
				viol(sig, "next set is {%s}, reference {%s} (differing keys: %v)\n%s", setMapString(got), setMapString(next), diffKeys(got, next), describe())
			}
			next = got // resynchronise: later blocks are judged from what the replicas really hold
		}
		res.Classes = append(res.Classes, fmt.Sprintf("block/requests=%d/applied=%d/members=%d/total=%d", size, len(sameKey), len(got), sumPowers(got)))
		m.set = next
		res.States = append(res.States, kase.Base+"|"+setMapString(m.set)+"|"+fmt.Sprint(m.nonce["X"], m.nonce["Y"]))
		stored = append(stored, storedBlock{blk: blk, ph: ph, subs: subs, obs: o1, want: next})
	}
	// ---- the replicas that execute the same blocks later
	for ri := 2; ri < len(reps); ri++ {
		for bi, sb := range stored {
			o := reps[ri].apply(sb.blk, sb.ph)
			res.Execs += len(sb.subs)
			if o.Panic != "" {
				return viol(map[string]string{"site": o.PanicSite, "kind": "panic", "shape": "late-replica-" + kase.Replicas[ri]}, "panic on the late replica: %s", o.Panic)
			}
			if d := diffObs(sb.obs, o); d != "" {
				return viol(map[string]string{"site": "State.ExecBlock", "kind": "replicas-diverge", "between": "late-replica-" + kase.Replicas[ri]},
					"replica %d (%s, executing the same blocks later) differs from replica 1 after height %d: %s", ri+1, kase.Replicas[ri], bi+1, d)
			}
		}
	}
	return res
}

// senderBytes: the 20 "sender" bytes of a direct call to the precompile: the
// account the request is bound to (forged when that is not the caller); for a
// request bound to nobody, the caller's own address.
func senderBytes(p *payload, sender string) common.Address {
	if p.Addr == "" {
		return common.BytesToAddress(acct(sender).addr.Bytes())
	}
	return common.BytesToAddress(acct(p.Addr).addr.Bytes())
}

// distinctSorted: the distinct commands, sorted, joined with "+".
func distinctSorted(xs []string) string {
	seen := map[string]bool{}
	var o []string
	for _, x := range xs {
		if !seen[x] {
			seen[x] = true
			o = append(o, x)
		}
	}
	sort.Strings(o)
	return strings.Join(o, "+")
}

// diffKeys: the keys on which two sets differ (membership or power), sorted.
func diffKeys(a, b map[string]int64) []string {
	var out []string
	for k, v := range a {
		if w, ok := b[k]; !ok || w != v {
			out = append(out, k)
		}
	}
	for k := range b {
		if _, ok := a[k]; !ok {
			out = append(out, k)
		}
	}
	sort.Strings(out)
	return out
}

func sumPowers(s map[string]int64) (t int64) {
	for _, p := range s {
		t += p
	}
	return
}

// diffObs compares what two replicas report for the same block.
func diffObs(a, b blockObs) string {
	switch {
	case a.Err != b.Err:
		return fmt.Sprintf("error %q vs %q", a.Err, b.Err)
	case a.Panic != b.Panic:
		return fmt.Sprintf("panic %q vs %q", a.Panic, b.Panic)
	case a.Height != b.Height:
		return fmt.Sprintf("height %d vs %d", a.Height, b.Height)
	case setString(a.Set) != setString(b.Set):
		return fmt.Sprintf("membership/powers {%s} vs {%s}", setString(a.Set), setString(b.Set))
	case a.Hash != b.Hash:
		return fmt.Sprintf("ValidatorSet.Hash %s vs %s (same membership and powers)", a.Hash, b.Hash)
	case setString(a.Last) != setString(b.Last):
		return fmt.Sprintf("set recorded as in force at this height (LastValidators) {%s} vs {%s}", setString(a.Last), setString(b.Last))
	case len(a.Txs) != len(b.Txs):
		return fmt.Sprintf("%d vs %d transactions executed", len(a.Txs), len(b.Txs))
	}
	for i := range a.Txs {
		x, y := a.Txs[i], b.Txs[i]
		if x.Failed != y.Failed || len(x.Calls) != len(y.Calls) {
			return fmt.Sprintf("transaction %d: failed=%v calls=%d vs failed=%v calls=%d", i, x.Failed, len(x.Calls), y.Failed, len(y.Calls))
		}
		for j := range x.Calls {
			if x.Calls[j].Accepted != y.Calls[j].Accepted {
				return fmt.Sprintf("transaction %d: request accepted=%v vs %v", i, x.Calls[j].Accepted, y.Calls[j].Accepted)
			}
		}
	}
	return ""
}

// ---------------------------------------------------------------- enumeration

func compositions(n int) [][]int {
	if n == 0 {
		return [][]int{{}}
	}
	var out [][]int
	for first := 1; first <= n; first++ {
		for _, rest := range compositions(n - first) {
			out = append(out, append([]int{first}, rest...))
		}
	}
	return out
}

// validSeq: a replay letter must refer to an earlier position.
func validSeq(ls []*letter) bool {
	for i, l := range ls {
		if l.Replay > i {
			return false
		}
	}
	return true
}
