package main

// Keys, accounts, request construction.  Everything here only BUILDS inputs
// (the way cmd/client/commands/admin_op.go does) — nothing judges.

import (
	"crypto/ecdsa"
	"encoding/binary"
	"encoding/hex"
	"encoding/json"
	"fmt"
	"math/big"
	"strings"
	"sync"
	"time"

	"github.com/dappledger/AnnChain/eth/accounts/abi"
	"github.com/dappledger/AnnChain/eth/common"
	ecore "github.com/dappledger/AnnChain/eth/core"
	etypes "github.com/dappledger/AnnChain/eth/core/types"
	ecrypto "github.com/dappledger/AnnChain/eth/crypto"
	"github.com/dappledger/AnnChain/eth/rlp"
	crypto "github.com/dappledger/AnnChain/gemmill/go-crypto"
	gtypes "github.com/dappledger/AnnChain/gemmill/types"
)

// ---------------------------------------------------------------- node keys (ed25519)

type nodeKey struct {
	name string
	priv crypto.PrivKeyEd25519
	pub  []byte // 32 bytes, as the client puts it into SigInfo.PubKey / ValidatorAttr.PubKey
}

var (
	nodeKeys   = map[string]*nodeKey{}
	nodeKeysMu sync.Mutex
)

// nk returns the deterministic node key with the given name.
func nk(name string) *nodeKey {
	nodeKeysMu.Lock()
	defer nodeKeysMu.Unlock()
	if k, ok := nodeKeys[name]; ok {
		return k
	}
	priv := crypto.GenPrivKeyEd25519FromSecret([]byte("verif-c14-node-" + name))
	k := &nodeKey{name: name, priv: priv, pub: append([]byte(nil), crypto.GetNodePubkeyBytes(priv.PubKey())...)}
	nodeKeys[name] = k
	return k
}

var (
	sigMemo   = map[string][]byte{}
	sigMemoMu sync.Mutex
)

// nodeSign signs msg with the named node key (memoised: ed25519 is deterministic).
func nodeSign(name string, msg []byte) []byte {
	key := name + "|" + string(msg)
	sigMemoMu.Lock()
	if s, ok := sigMemo[key]; ok {
		sigMemoMu.Unlock()
		return s
	}
	sigMemoMu.Unlock()
	s := append([]byte(nil), crypto.GetNodeSigBytes(nk(name).priv.Sign(msg))...)
	sigMemoMu.Lock()
	sigMemo[key] = s
	sigMemoMu.Unlock()
	return s
}

// ---------------------------------------------------------------- accounts (secp256k1)

type account struct {
	name string
	priv *ecdsa.PrivateKey
	addr common.Address
}

var (
	accounts   = map[string]*account{}
	accountsMu sync.Mutex
)

func acct(name string) *account {
	accountsMu.Lock()
	defer accountsMu.Unlock()
	if a, ok := accounts[name]; ok {
		return a
	}
	k, err := ecrypto.ToECDSA(ecrypto.Keccak256([]byte("verif-c14-account-" + name)))
	if err != nil {
		panic(err)
	}
	a := &account{name: name, priv: k, addr: ecrypto.PubkeyToAddress(k.PublicKey)}
	accounts[name] = a
	return a
}

// ---------------------------------------------------------------- admin request payload

var fixedTime = time.Unix(1600000000, 0).UTC()

// attrMsg is AdminOPCmd.Msg: the JSON of the ValidatorAttr (what every
// signature is over), exactly as the client's ContractsAdminCmd produces it.
func attrMsg(vcmd string, pub []byte, power int64, addr []byte, nonce uint64) []byte {
	b, err := json.Marshal(&gtypes.ValidatorAttr{PubKey: pub, Cmd: gtypes.ValidatorCmd(vcmd), Power: power, Nonce: nonce, Addr: addr})
	if err != nil {
		panic(err)
	}
	return b
}

// opData is the JSON of the AdminOPCmd.
func opData(cmdType string, msg, selfSign []byte, sinfos []gtypes.SigInfo) []byte {
	b, err := json.Marshal(&gtypes.AdminOPCmd{CmdType: cmdType, Msg: msg, SelfSign: selfSign, Time: fixedTime, SInfos: sinfos})
	if err != nil {
		panic(err)
	}
	return b
}

// tagged = TagAdminOPTx(opData) without touching the shared AdminTag slice.
func tagged(op []byte) []byte {
	return append(append(make([]byte, 0, len(op)+4), gtypes.AdminTag...), op...)
}

// ---------------------------------------------------------------- ethereum transactions

var adminABI = func() abi.ABI {
	a, err := abi.JSON(strings.NewReader(ecore.AdminABI))
	if err != nil {
		panic(err)
	}
	return a
}()

var precompileAddr = common.BytesToAddress([]byte{0xfe})

const txGas uint64 = 10000000

// contractCalldata = changenode(bytes) of the governance contract at core.AdminTo.
func contractCalldata(taggedOp []byte) []byte {
	b, err := adminABI.Pack(ecore.AdminMethod, taggedOp)
	if err != nil {
		panic(err)
	}
	return b
}

// directInput is the input the governance contract hands to the precompile at
// 0xfe: 32-byte length word ‖ msg.sender (20) ‖ txdata.  Sent directly to
// 0xfe the 20 "sender" bytes are chosen by the caller.
func directInput(from common.Address, taggedOp []byte) []byte {
	n := 20 + len(taggedOp)
	in := make([]byte, 32, 32+n)
	binary.BigEndian.PutUint64(in[24:], uint64(n))
	in = append(in, from.Bytes()...)
	return append(in, taggedOp...)
}

var (
	txMemo   = map[string]*signedTx{}
	txByRaw  = map[string]*signedTx{}
	txMemoMu sync.Mutex
)

type signedTx struct {
	raw []byte
	tx  *etypes.Transaction // decoded from raw (sender cached after first recovery)
}

// signTx signs like cmd/client/commands SignTx (HomesteadSigner), gas price 0.
func signTx(a *account, nonce uint64, to common.Address, data []byte) *signedTx {
	key := fmt.Sprintf("%s|%d|%x|%s", a.name, nonce, to.Bytes(), hex.EncodeToString(ecrypto.Keccak256(data)))
	txMemoMu.Lock()
	if t, ok := txMemo[key]; ok {
		txMemoMu.Unlock()
		return t
	}
	txMemoMu.Unlock()
	tx := etypes.NewTransaction(nonce, to, big.NewInt(0), txGas, big.NewInt(0), data)
	signer := etypes.HomesteadSigner{}
	sig, err := ecrypto.Sign(signer.Hash(tx).Bytes(), a.priv)
	if err != nil {
		panic(err)
	}
	stx, err := tx.WithSignature(signer, sig)
	if err != nil {
		panic(err)
	}
	raw, err := rlp.EncodeToBytes(stx)
	if err != nil {
		panic(err)
	}
	dec := new(etypes.Transaction)
	if err := rlp.DecodeBytes(raw, dec); err != nil {
		panic(err)
	}
	t := &signedTx{raw: raw, tx: dec}
	txMemoMu.Lock()
	txMemo[key] = t
	txByRaw[string(raw)] = t
	txMemoMu.Unlock()
	return t
}

// lookupTx returns the decoded form of raw tx bytes produced by signTx
// (decoding is what the application does with block bytes; the memo only
// avoids repeating the secp256k1 recovery for identical bytes).
func lookupTx(raw []byte) (*etypes.Transaction, error) {
	txMemoMu.Lock()
	t, ok := txByRaw[string(raw)]
	txMemoMu.Unlock()
	if ok {
		return t.tx, nil
	}
	dec := new(etypes.Transaction)
	if err := rlp.DecodeBytes(raw, dec); err != nil {
		return nil, err
	}
	return dec, nil
}

func adminTo() common.Address { return ecore.AdminTo }
