#!/bin/bash
# Detection demos for C14: builds the check against mutated copies of repository
# files through `go build -overlay` (the repository itself is never touched) and
# runs the quick tier with VERIF_ROOT pointing to a scratch root.
#   usage: props/c14/mutants.sh [name ...]      (no name = all)
# Prints, per mutant, the exit code and the NEW violation signatures (the scratch
# root's known_findings.txt holds KNOWN_LINES below, i.e. the findings of the
# unchanged tree, so only what the mutation adds is "new").
set -u
cd "$(dirname "$0")/../.."
ROOT=$(pwd)
REPO=${VERIF_REPO:-/repo}
W=$ROOT/.work/c14/mut
export GOFLAGS=-mod=mod GOPROXY=off GOSUMDB=off GOTOOLCHAIN=local
mkdir -p "$W"

KNOWN_LINES='known: property=C14 match=site=AdminOp.CheckMajor23;kind=duplicate-signer-counted-repeatedly dup
known: property=C14 match=site=vm.AdminOP.Run;kind=sender-not-the-bound-account forged
known: property=C14 match=kind=same-block-requests-evaluated-against-stale-set stale
known: property=C14 match=kind=accepted-requests-make-block-fail;shape=several-requests-same-key-in-one-block blockfail
known: property=C14 match=kind=panic;shape=next-set-empty emptyset
known: property=C14 match=part=query;kind=query-records-validator-change query'

# name | file (relative to repo) | python expression old -> new
mutants() {
cat <<'EOF'
a_ge_instead_of_gt|gemmill/plugin/admin_op.go|return major23 > (*s.validators).TotalVotingPower()*2/3|return major23 >= (*s.validators).TotalVotingPower()*2/3
b1_signer_need_not_be_validator|gemmill/plugin/admin_op.go|if validator != nil && validator.VotingPower > 0 {|if validator == nil { validator = &agtypes.Validator{VotingPower: 1} }; if validator.VotingPower > 0 {
b2_no_sender_binding|gemmill/plugin/admin_op.go|if !bytes.Equal(app.From(), vAttr.Addr) {|if false && !bytes.Equal(app.From(), vAttr.Addr) {
b3_no_nonce_check|gemmill/plugin/admin_op.go|if vAttr.Nonce+1 != nonce {|if false && vAttr.Nonce+1 != nonce {
b4_signature_not_verified|gemmill/plugin/admin_op.go|if sigPubKey.VerifyBytes(msg, sig64) {|if sigPubKey.VerifyBytes(msg, sig64) \|\| len(sig.Signature) == 64 {
c1_endblock_keeps_pending_changes|gemmill/plugin/admin_op.go|	defer s.Reset()\n	changedValidators := make(|	changedValidators := make(
c2_next_set_is_old_set|gemmill/state/execution.go|s.SetBlockAndValidators(block.Header, blockPartsHeader, valSet, nextValSet)|s.SetBlockAndValidators(block.Header, blockPartsHeader, valSet, valSet)
c3_record_before_checking|gemmill/plugin/admin_op.go|	if !s.CheckMajor23(cmd) {\n		log.Error("need more than 2/3 total voting power")\n		return fmt.Errorf(|	if va, e := s.ParseValidator(cmd); e == nil { s.ChangedValidators = append(s.ChangedValidators, va) }\n	if !s.CheckMajor23(cmd) {\n		log.Error("need more than 2/3 total voting power")\n		return fmt.Errorf(
c4_remove_of_non_member_recorded|gemmill/plugin/admin_op.go|		if !(*s.validators).HasAddress(msgPubKey.Address()) {\n			return nil\n		}|
c5_update_ignores_power|gemmill/plugin/admin_op.go|					val.VotingPower = vAttr.GetPower()\n					val.IsCA|					val.IsCA
c6_angine_endblock_fresh_set|gemmill/angine.go|		NextValidatorSet:  nextVS,|		NextValidatorSet:  nextVS.Copy(),
d1_same_state_entry_ends_the_loop|gemmill/plugin/admin_op.go|				if val.VotingPower != vAttr.GetPower() {|				if val.VotingPower == vAttr.GetPower() {\n					return nil\n				}\n				if val.VotingPower != vAttr.GetPower() {
d2_unbound_request_needs_no_binding|gemmill/plugin/admin_op.go|if !bytes.Equal(app.From(), vAttr.Addr) {|if len(vAttr.Addr) != 0 && !bytes.Equal(app.From(), vAttr.Addr) {
d3_last_validators_read_after_endblock|gemmill/state/execution.go|	s.SetBlockAndValidators(block.Header, blockPartsHeader, valSet, nextValSet)|	valSet = s.Validators.Copy()\n	s.SetBlockAndValidators(block.Header, blockPartsHeader, valSet, nextValSet)
EOF
}

want=("$@")
rc_all=0
while IFS='|' read -r name file old new; do
  [ -z "$name" ] && continue
  if [ ${#want[@]} -gt 0 ]; then
    keep=0; for w in "${want[@]}"; do [ "$w" = "$name" ] && keep=1; done
    [ $keep = 1 ] || continue
  fi
  d=$W/$name; rm -rf "$d"; mkdir -p "$d/root"
  python3 - "$REPO/$file" "$d/mut.go" "$old" "$new" <<'PY' || { echo "$name: PATTERN NOT FOUND"; rc_all=2; continue; }
import sys
src, dst, old, new = sys.argv[1:5]
old = old.replace('\\n', '\n').replace('\\|', '|'); new = new.replace('\\n', '\n').replace('\\|', '|')
s = open(src).read()
if s.count(old) != 1:
    sys.exit(1)
open(dst, 'w').write(s.replace(old, new))
PY
  printf '{"Replace": {"%s": "%s"}}\n' "$REPO/$file" "$d/mut.go" > "$d/overlay.json"
  if ! go build -tags verif -overlay "$d/overlay.json" -o "$d/bin" ./props/c14 2> "$d/build.log"; then
    echo "$name: BUILD FAILED (see $d/build.log)"; rc_all=2; continue
  fi
  echo "$KNOWN_LINES" > "$d/root/known_findings.txt"
  VERIF_ROOT=$d/root VERIF_TIER=quick "$d/bin" quick > "$d/out.txt" 2>&1
  rc=$?
  echo "== $name: exit $rc"
  grep -A1 '^VIOLATION' "$d/out.txt" | grep 'sig:' | sed 's/^ */     new: /'
  tail -1 "$d/out.txt" | sed 's/^/     /'
done < <(mutants)
exit $rc_all
