package main

// Part 1 — the signature tally.  Every list (length ≤ 4 quick / ≤ 5 thorough)
// over an alphabet of signature-entry kinds, for each validator set, is put
// into a request and offered to the REAL plugin.AdminOp.ExecTX (the acceptance
// entry point; CheckMajor23 is also called directly, only to name the site).

import (
	"fmt"
	"strconv"
	"strings"

	"verif/core"

	"github.com/dappledger/AnnChain/gemmill/plugin"
	gtypes "github.com/dappledger/AnnChain/gemmill/types"
)

// entryKind is one letter of the signature-list alphabet with its ground
// truth, fixed by construction (never derived from the implementation).
type entryKind struct {
	Name string
	Pub  []byte
	Sig  []byte
	// Signer is the index of the validator whose key REALLY produced Sig over
	// exactly the request message, provided Pub is (a length-mangled form of)
	// that validator's key; −1 if no current validator is entitled to be
	// counted for this entry.
	Signer int
	// WellFormed: Pub is exactly the 32-byte key and Sig exactly 64 bytes.  An
	// entry with Signer ≥ 0 that is not well formed may be counted or ignored
	// (the property does not say how malformed encodings are read).
	WellFormed bool
	// Claims ≥ 0: Pub is a validator's key but the signature does not entitle
	// it (other message / somebody else's signature) — used only to classify.
	Claims   int
	WrongMsg bool
	Foreign  bool // genuine signature of a key that is not a validator
}

type tallySet struct {
	Name    string
	Powers  []int64
	Names   []string // node key names V0..
	Kinds   []entryKind
	ByName  map[string]*entryKind
	Msg     []byte
	SelfSig []byte
	Vals    *gtypes.ValidatorSet
	Total   int64
	From    []byte
}

type tallyCase struct {
	Part string   `json:"part"` // "tally"
	Set  string   `json:"set"`  // e.g. "1,1,1"
	List []string `json:"list"` // entry kinds in order
}

var tallySetNames = []string{"1,1,1", "1,1,2", "3,1,1,1", "1,1,1,0"}

func parsePowers(s string) []int64 {
	var ps []int64
	for _, f := range strings.Split(s, ",") {
		n, err := strconv.ParseInt(strings.TrimSpace(f), 10, 64)
		if err != nil {
			core.Fatal("bad set %q", s)
		}
		ps = append(ps, n)
	}
	return ps
}

// the request every tally case carries: add_peer of the new key K, bound to
// account X with nonce 0 (X's account nonce is 1 when the precompile runs).
func newTallySet(name string, quick bool) *tallySet {
	ts := &tallySet{Name: name, Powers: parsePowers(name), ByName: map[string]*entryKind{}}
	X := acct("X")
	ts.From = X.addr.Bytes()
	ts.Msg = attrMsg(string(gtypes.ValidatorCmdAddPeer), nk("K").pub, 0, X.addr.Bytes(), 0)
	other := attrMsg(string(gtypes.ValidatorCmdAddPeer), nk("K").pub, 0, X.addr.Bytes(), 7)
	ts.SelfSig = nodeSign("K", ts.Msg)
	var vals []*gtypes.Validator
	for i, p := range ts.Powers {
		n := fmt.Sprintf("V%d", i)
		ts.Names = append(ts.Names, n)
		vals = append(vals, gtypes.NewValidator(nk(n).priv.PubKey(), p, p > 0))
		ts.Total += p
	}
	ts.Vals = gtypes.NewValidatorSet(vals)
	add := func(k entryKind) { ts.Kinds = append(ts.Kinds, k) }
	for i, n := range ts.Names {
		add(entryKind{Name: n, Pub: nk(n).pub, Sig: nodeSign(n, ts.Msg), Signer: i, WellFormed: true, Claims: -1})
	}
	v0 := nk("V0")
	s0 := nodeSign("V0", ts.Msg)
	add(entryKind{Name: "W0", Pub: v0.pub, Sig: nodeSign("V0", other), Signer: -1, WellFormed: true, Claims: 0, WrongMsg: true})
	add(entryKind{Name: "N", Pub: nk("N").pub, Sig: nodeSign("N", ts.Msg), Signer: -1, WellFormed: true, Claims: -1, Foreign: true})
	if !quick {
		add(entryKind{Name: "X01", Pub: v0.pub, Sig: nodeSign("V1", ts.Msg), Signer: -1, WellFormed: true, Claims: 0})
	}
	if v0.pub[31] == 0 || s0[63] == 0 {
		core.Fatal("fixture keys unsuitable: a trailing zero byte would make a truncated encoding equal to the genuine one after zero padding")
	}
	add(entryKind{Name: "PS", Pub: v0.pub[:31], Sig: s0, Signer: -1, Claims: -1})                           // pubkey one byte short: not V0's key
	add(entryKind{Name: "PL", Pub: append(append([]byte{}, v0.pub...), 0), Sig: s0, Signer: 0, Claims: -1}) // pubkey one byte long
	add(entryKind{Name: "SS", Pub: v0.pub, Sig: s0[:32], Signer: -1, Claims: 0})                            // half a signature
	add(entryKind{Name: "SL", Pub: v0.pub, Sig: append(append([]byte{}, s0...), 0), Signer: 0, Claims: -1}) // signature one byte long
	add(entryKind{Name: "E", Pub: nil, Sig: nil, Signer: -1, Claims: -1})                                   // empty entry
	for i := range ts.Kinds {
		ts.ByName[ts.Kinds[i].Name] = &ts.Kinds[i]
	}
	return ts
}

// tallyModel: what the property demands for one list.
type tallyModel struct {
	Lower int64 // Σ power over distinct validators (power>0) with ≥1 well-formed genuine entry
	Upper int64 // … with ≥1 genuine entry in any encoding
	// hypotheses used only to NAME the defect when the implementation over-accepts
	Dup                              int64 // genuine entries counted with multiplicity
	WrongMsg                         int64 // distinct, entries over another message counted too
	AnySig                           int64 // distinct, every entry whose key is a validator's counted whatever the signature
	HasForeign, HasMalformed, HasDup bool
}

func (ts *tallySet) model(list []*entryKind) tallyModel {
	var m tallyModel
	lower, upper, wrong, anysig := map[int]bool{}, map[int]bool{}, map[int]bool{}, map[int]bool{}
	seen := map[string]int{}
	for _, e := range list {
		seen[e.Name]++
		if seen[e.Name] > 1 {
			m.HasDup = true
		}
		if e.Foreign {
			m.HasForeign = true
		}
		if !e.WellFormed {
			m.HasMalformed = true
		}
		if e.Signer >= 0 {
			upper[e.Signer] = true
			wrong[e.Signer] = true
			anysig[e.Signer] = true
			if e.WellFormed {
				lower[e.Signer] = true
			}
			m.Dup += ts.Powers[e.Signer]
		}
		if e.Claims >= 0 {
			anysig[e.Claims] = true
			if e.WrongMsg {
				wrong[e.Claims] = true
			}
		}
	}
	sum := func(s map[int]bool) (t int64) {
		for i := range s {
			t += ts.Powers[i]
		}
		return
	}
	m.Lower, m.Upper, m.WrongMsg, m.AnySig = sum(lower), sum(upper), sum(wrong), sum(anysig)
	return m
}

func moreThanTwoThirds(t, total int64) bool { return 3*t > 2*total }

type tallyResult struct {
	Class    string
	Viol     bool
	Sig      map[string]string
	Detail   string
	Accepted bool
}

// stubApp is the plugin.AdminApp of part 1 (in production vm.AdminDBApp: the
// sender bytes the precompile was handed and the sender's account nonce).
type stubApp struct {
	from  []byte
	nonce uint64
}

func (a stubApp) From() []byte     { return a.from }
func (a stubApp) GetNonce() uint64 { return a.nonce }

func (ts *tallySet) run(kase tallyCase) tallyResult {
	list := make([]*entryKind, len(kase.List))
	var sinfos []gtypes.SigInfo
	for i, n := range kase.List {
		e := ts.ByName[n]
		if e == nil {
			core.Fatal("unknown entry kind %q for set %s", n, ts.Name)
		}
		list[i] = e
		sinfos = append(sinfos, gtypes.SigInfo{PubKey: e.Pub, Signature: e.Sig})
	}
	m := ts.model(list)
	op := opData(gtypes.AdminOpChangeValidator, ts.Msg, ts.SelfSig, sinfos)
	tx := tagged(op)
	vs := ts.Vals.Copy()
	p := &plugin.AdminOp{}
	p.Init(&plugin.InitParams{Validators: &vs})
	var err error
	var direct bool
	if pn, v, st := core.Try(func() {
		err = p.ExecTX(stubApp{from: ts.From, nonce: 1}, tx)
	}); pn {
		shape := "well-formed-entries"
		if m.HasMalformed {
			shape = "malformed-length-entry"
		}
		return tallyResult{Class: "panic", Viol: true, Sig: map[string]string{"part": "tally", "site": core.PanicSite(st), "kind": "panic", "shape": shape},
			Detail: fmt.Sprintf("set [%s] list %v: panic: %v", ts.Name, kase.List, core.FirstLine(v))}
	}
	accepted := err == nil
	recorded := len(p.ChangedValidators)
	// CheckMajor23 is called directly only to name the site of a violation (never part of the verdict)
	checkDirect := func() {
		core.Try(func() {
			direct = p.CheckMajor23(&gtypes.AdminOPCmd{CmdType: gtypes.AdminOpChangeValidator, Msg: ts.Msg, SelfSign: ts.SelfSig, Time: fixedTime, SInfos: sinfos})
		})
	}
	must := moreThanTwoThirds(m.Lower, ts.Total)
	may := moreThanTwoThirds(m.Upper, ts.Total)
	class := fmt.Sprintf("acc=%v/lower=%d/upper=%d/of=%d/dup=%v/foreign=%v/malformed=%v", accepted, m.Lower, m.Upper, ts.Total, m.HasDup, m.HasForeign, m.HasMalformed)
	res := tallyResult{Class: class, Accepted: accepted}
	site := "AdminOp.ExecTX"
	if (accepted && !may) || (!accepted && must) {
		checkDirect()
		if direct == accepted {
			site = "AdminOp.CheckMajor23"
		}
	}
	describe := func() string {
		e := "<nil>"
		if err != nil {
			e = err.Error()
		}
		return fmt.Sprintf("validator powers [%s] (total %d), signature list %v: ExecTX error=%s, CheckMajor23=%v, recorded changes=%d; distinct entitled signers hold %d (counting length-mangled encodings too: %d), more than 2/3 needs 3*t > %d",
			ts.Name, ts.Total, kase.List, e, direct, recorded, m.Lower, m.Upper, 2*ts.Total)
	}
	switch {
	case accepted && !may:
		kind := "insufficient-signatures-accepted"
		top := m.Upper
		if m.Dup > top {
			top = m.Dup
		}
		switch {
		case moreThanTwoThirds(m.Dup, ts.Total):
			kind = "duplicate-signer-counted-repeatedly"
		case 3*top >= 2*ts.Total || top >= 2*ts.Total/3:
			kind = "exactly-two-thirds-accepted"
		case moreThanTwoThirds(m.WrongMsg, ts.Total):
			kind = "signature-over-other-message-counted"
		case moreThanTwoThirds(m.AnySig, ts.Total):
			kind = "unverified-signature-counted"
		case m.HasForeign:
			kind = "non-validator-signer-counted"
		}
		res.Viol = true
		res.Sig = map[string]string{"part": "tally", "site": site, "kind": kind}
		res.Detail = "ACCEPTED without more than 2/3 of the power having signed: " + describe()
	case !accepted && must:
		shape := "only-distinct-valid-entries"
		if m.HasDup || m.HasForeign || m.HasMalformed || len(list) > len(ts.Powers) {
			shape = "valid-majority-plus-other-entries"
		}
		res.Viol = true
		res.Sig = map[string]string{"part": "tally", "site": site, "kind": "sufficient-distinct-signatures-rejected", "shape": shape}
		res.Detail = "REJECTED although more than 2/3 of the power signed: " + describe()
	case accepted && recorded != 1:
		res.Viol = true
		res.Sig = map[string]string{"part": "tally", "site": "AdminOp.ProcessAdminOP", "kind": "accepted-request-not-recorded"}
		res.Detail = describe()
	case !accepted && recorded != 0:
		res.Viol = true
		res.Sig = map[string]string{"part": "tally", "site": "AdminOp.ProcessAdminOP", "kind": "rejected-request-recorded-a-change"}
		res.Detail = describe()
	}
	return res
}
