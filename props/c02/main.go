// C02 — every committed block is valid and carries a verifiable +2/3 commit.
// (a) every commit of every explored CONSNET execution is audited from scratch;
// (b) a Byzantine proposer offers an otherwise valid block with exactly one
// mutation from a generated list (header fields, data, embedded last commit),
// alone and combined with one network rule.  DESIGN §5 C02.
package main

import (
	"time"

	"verif/consnet"
	"verif/core"
)

func main() {
	(&consnet.StdCheck{
		ID: "C02", Level: "model_checking", Focus: []string{"C02"},
		Build: func(run *core.Run) ([]*consnet.Scenario, string, map[string]interface{}) {
			var scs, later []*consnet.Scenario
			nm := 0
			type site struct {
				byz    int
				height int64
			}
			for _, st := range []site{{0, 1}, {1, 2}} {
				for _, mut := range consnet.BlockMutations(st.height) {
					nm++
					base := consnet.Scenario{Powers: []int64{1, 1, 1, 1}, Byz: st.byz, Heights: st.height + 1,
						Rules: []consnet.Rule{{Kind: "byz-mutate", Height: st.height, Round: 0, Alt: mut}}}
					b := base
					scs = append(scs, &b)
					// the same mutant while one honest node does not see the proposal before the others decide,
					// and with the Byzantine node voting for its own block towards everybody
					for j := 0; j < 4; j++ {
						if j == st.byz {
							continue
						}
						if run.Quick() && j != (st.byz+1)%4 {
							continue
						}
						c := base
						c.Rules = append(append([]consnet.Rule{}, base.Rules...), consnet.Rule{Kind: "hold", Node: j, Msg: "proposal", Height: st.height, Round: 0})
						later = append(later, &c)
						if !run.Quick() {
							d := base
							d.Rules = append(append([]consnet.Rule{}, base.Rules...), consnet.Rule{Kind: "early", Node: j, Step: "propose", Height: st.height, Round: 0})
							later = append(later, &d)
						}
					}
				}
			}
			// the same height-2 mutants when block 1 changed the validator set: the embedded last commit must
			// be judged by the set of height 1, the header by the set of height 2.  The Byzantine validator is
			// whoever proposes height 2 round 0 under that history, provided it holds < 1/3 of the power.
			vcs := 0
			for _, c := range []consnet.Scenario{
				{Powers: []int64{2, 2, 3, 2}, ValChange: &consnet.ValChange{Height: 1, Index: 2, Power: 1}},
				{Powers: []int64{2, 3, 2, 2}, ValChange: &consnet.ValChange{Height: 1, Index: 1, Power: 1}},
				{Powers: []int64{3, 2, 2, 2}, ValChange: &consnet.ValChange{Height: 1, Index: 0, Power: 1}},
				{Powers: []int64{1, 1, 1, 1}, ValChange: &consnet.ValChange{Height: 1, Index: 3, Power: 10}},
				{Powers: []int64{2, 2, 2, 1}, ValChange: &consnet.ValChange{Height: 1, Index: 3, Power: 3}},
				{Powers: []int64{1, 1, 1, 1}, ValChange: &consnet.ValChange{Height: 1, Index: 0, Power: 0}},
			} {
				c.Heights = 3
				b := consnet.ProposerAt(&c, 2, 0)
				var t1, t2 int64
				for i, p := range c.Powers {
					t1 += p
					if i == c.ValChange.Index {
						t2 += c.ValChange.Power
					} else {
						t2 += p
					}
				}
				p2 := c.Powers[b]
				if b == c.ValChange.Index {
					p2 = c.ValChange.Power
				}
				if b < 0 || c.Powers[b]*3 >= t1 || p2*3 >= t2 {
					continue
				}
				c.Byz = b
				vcs++
				for _, mut := range consnet.BlockMutations(2) {
					vc := c
					vc.Rules = []consnet.Rule{{Kind: "byz-mutate", Height: 2, Round: 0, Alt: mut}}
					scs = append(scs, &vc)
				}
			}
			// one real validator against a fully adversarial environment, round 0 on three power vectors whose totals
			// cover every residue mod 3: commits reached with exactly-2/3 patterns are audited like all others
			for _, pw := range [][]int64{{1, 1, 1, 1}, {1, 1, 1, 2}, {1, 1, 2, 2}} {
				for _, sc := range consnet.SoloRoundScripts(0, false) {
					commits := false
					for _, st := range sc {
						if st.Kind == "precommits" && (st.Arg[0] == 'A' || st.Arg[0] == 'B') {
							commits = true // only scripts that can end in a commit matter for the audit
						}
					}
					if commits {
						scs = append(scs, &consnet.Scenario{Powers: pw, Byz: -1, Heights: 1, Mode: "nohash", Solo: &consnet.SoloSpec{Node: 2, Steps: sc}})
					}
				}
			}
			scs = append(scs, later...)
			// (a) audit over ordinary adversarial executions as well
			cfg := []consnet.Scenario{{Powers: []int64{1, 1, 1, 1}, Byz: 0, Heights: 2},
				{Powers: []int64{1, 1, 1, 1}, Byz: 0, Heights: 3, ValChange: &consnet.ValChange{Height: 1, Index: 3, Power: 5}}}
			menu := func(c consnet.Scenario) []consnet.Rule {
				return consnet.BuildMenu(consnet.MenuOpts{N: 4, Byz: c.Byz, Rounds: []int64{0, 1}, Heights: []int64{1}, Hold: true, Early: true, ByzBasic: true, ByzSplit: true, SplitAlt: []string{"nil", "alt"}})
			}
			scs = append(scs, consnet.Product(cfg, menu, run.Pick(1, 2))...)
			return scs, "a Byzantine proposer (real state machine, proposal replaced by the harness) offers a block built like an honest one with exactly ONE mutation from a generated list (" +
					"header: chain id, height±1, time, NumTxs±1, LastBlockID hash/parts/zero, LastCommitHash, DataHash, ValidatorsHash (flipped/nil), AppHash (flipped/empty), ReceiptsHash, proposer other/non-validator/empty, Extra; " +
					"data: tx added/removed, extx added, each raw and with DataHash recomputed; embedded last commit: one/two votes dropped, duplicated entry, foreign height, foreign round, nil-block vote(s), bad signature, wrong index field, truncated, extended, all nil, other block id, votes for another block, prevote type, empty — each raw and with LastCommitHash recomputed) " +
					"at height 1 round 0 and at height 2 round 0, alone and with one hold/early-timeout rule; plus every execution of the C01 rule menu (depth 1 quick / 2 thorough). Every block any honest node stores is audited from scratch (DESIGN §5 C02 'Audit'); distinct = distinct outcomes",
				map[string]interface{}{"mutants": nm, "validators": 4, "validator_change_histories": vcs}
		},
		Budget: func(run *core.Run) time.Duration {
			if run.Quick() {
				return 600 * time.Second // a safety net: the quick list completes in 1-3 minutes unless the machine is heavily loaded
			}
			return 12 * time.Minute
		},
		Assume: []string{"the audit's reference validator sets are the monitor's own replica: genesis set, the scenario's validator-power change applied where the application applies it, accumulators advanced once per block",
			"toy application: app hash after block b = H(b), receipts hash empty",
			"a panic caused by a mutant block is counted under C08, here the case is inconclusive"},
	}).Main()
}
