package main

// Part (c): admission.  The real Switch.AddPeerWithConnection with the real
// refuseListFilter / authByCA closures (wired exactly as angine.go does) against
// a scripted dialer over net.Pipe.

import (
	"encoding/hex"
	"fmt"
	"net"
	"strings"
	"sync"
	"sync/atomic"
	"time"

	"verif/core"

	"github.com/spf13/viper"

	"github.com/dappledger/AnnChain/gemmill"
	crypto "github.com/dappledger/AnnChain/gemmill/go-crypto"
	wire "github.com/dappledger/AnnChain/gemmill/go-wire"
	dbm "github.com/dappledger/AnnChain/gemmill/modules/go-db"
	"github.com/dappledger/AnnChain/gemmill/p2p"
	"github.com/dappledger/AnnChain/gemmill/plugin"
	"github.com/dappledger/AnnChain/gemmill/refuse_list"
	"github.com/dappledger/AnnChain/gemmill/state"
	"github.com/dappledger/AnnChain/gemmill/types"
)

type admitCase struct {
	Outbound        bool   `json:"outbound"`          // the switch under test dialed out (AddPeerWithConnection(conn, true)) instead of accepting the connection
	PKFilter        string `json:"pubkey_filter"`     // none | rejects-peer-key : the switch's pub-key filter hook
	Phase           string `json:"phase"`             // genesis | ca-removed | peer-removed
	Refused         bool   `json:"refused"`           // authenticated key is on the refuse list
	Mismatch        string `json:"mismatch"`          // none | other | other-validator : announced NodeInfo.PubKey vs authenticated key
	AuthByCA        bool   `json:"auth_by_ca"`        // config auth_by_ca
	PeerIsValidator bool   `json:"peer_is_validator"` // the peer's key is in the current validator set
	NonValAuth      bool   `json:"non_validator_node_auth"`
	Sig             string `json:"sig"`  // who produced NodeInfo.SigndPubKey
	Self            bool   `json:"self"` // the dialer authenticates with the node's own key
}

var (
	admitDirections = []string{"inbound", "outbound"}
	admitPKFilters  = []string{"none", "rejects-peer-key"}
	admitPhases     = []string{"genesis", "ca-removed", "peer-removed"}
	admitMismatches = []string{"none", "other", "other-validator"}
	admitSigs       = []string{"current-ca", "ca-removed-in-changed-phase", "non-ca-validator", "outsider", "current-ca-over-other-key", "garbage-hex", "empty", "non-hex"}

	kNode     = detKey("admit-node")
	kPeer     = detKey("admit-peer")
	kOther    = detKey("admit-other")
	kOtherVal = detKey("admit-other-validator")
	kCA1      = detKey("admit-ca1") // the authority that is removed in phase "ca-removed"
	kCA2      = detKey("admit-ca2") // authority in every phase
	kV3       = detKey("admit-v3")  // validator, never an authority
	kOutsider = detKey("admit-outsider")
)

func rawPub(k crypto.PrivKeyEd25519) []byte {
	p := k.PubKey().(crypto.PubKeyEd25519)
	return p[:]
}

func caSignature(signer crypto.PrivKeyEd25519, over []byte) string {
	s := signer.Sign(over).(crypto.SignatureEd25519)
	return strings.ToUpper(hex.EncodeToString(s[:]))
}

// reference predicate, written from the property statement
func (a admitCase) want() (admit bool, failing []string) {
	peerValNow := a.PeerIsValidator
	caRequired := a.AuthByCA && !(peerValNow && !a.NonValAuth)
	sigOK := false
	switch a.Sig {
	case "current-ca":
		sigOK = true
	case "ca-removed-in-changed-phase":
		sigOK = a.Phase != "ca-removed" // still an authority unless removed
	}
	if a.Refused {
		failing = append(failing, "refuse-list")
	}
	if a.PKFilter == "rejects-peer-key" {
		failing = append(failing, "pubkey-filter")
	}
	if a.Mismatch != "none" {
		failing = append(failing, "announced-key-differs")
	}
	if a.Self {
		failing = append(failing, "self")
	}
	if caRequired && !sigOK {
		failing = append(failing, "ca-signature")
	}
	return len(failing) == 0, failing
}

type admitResult struct {
	timeout  bool // the handshake deadline of the switch / of the scripted peer expired
	admitted bool
	err      error
	peers    int
	pan      string
	site     string
}

func runAdmission(a admitCase) admitResult {
	var res admitResult
	identity := kPeer
	if a.Self {
		identity = kNode
	}
	announced := identity
	switch a.Mismatch {
	case "other":
		announced = kOther
	case "other-validator":
		announced = kOtherVal
	}

	// genesis validator set
	gvs := []types.GenesisValidator{
		{PubKey: kCA1.PubKey(), Amount: 10, IsCA: true, Name: "ca1"},
		{PubKey: kCA2.PubKey(), Amount: 10, IsCA: true, Name: "ca2"},
		{PubKey: kV3.PubKey(), Amount: 10, IsCA: false, Name: "v3"},
		{PubKey: kOtherVal.PubKey(), Amount: 10, IsCA: false, Name: "other-validator"},
	}
	peerValAtGenesis := a.PeerIsValidator || a.Phase == "peer-removed"
	if peerValAtGenesis {
		gvs = append(gvs, types.GenesisValidator{PubKey: identity.PubKey(), Amount: 10, IsCA: false, Name: "peer"})
	}
	genDoc := &types.GenesisDoc{GenesisTime: time.Unix(1500000000, 0), ChainID: "verif-c20", Validators: gvs, Plugins: "adminOp"}
	stateM := state.MakeGenesisState(dbm.NewMemDB(), genDoc)

	conf := viper.New()
	conf.Set("auth_by_ca", a.AuthByCA)
	conf.Set("non_validator_node_auth", a.NonValAuth)

	rl := refuse_list.NewRefuseList(dbm.MemDBBackendStr, "")
	defer rl.Stop()

	// exactly the wiring of gemmill/angine.go prepareP2P + assembleStateMachine
	sw := p2p.NewSwitch(conf)
	sw.SetNodeInfo(&p2p.NodeInfo{PubKey: kNode.PubKey(), Moniker: "node", Network: "verif-c20", Version: "0.9.0", ListenAddr: "127.0.0.1:1"})
	sw.SetNodePrivKey(kNode)
	sw.SetAddToRefuselist(gemmill.VerifAddToRefuselist(rl))
	sw.SetRefuseListFilter(gemmill.VerifRefuseListFilter(rl))
	if conf.GetBool("auth_by_ca") {
		sw.SetAuthByCA(gemmill.VerifAuthByCA(conf, &stateM.Validators))
	}
	if a.PKFilter == "rejects-peer-key" {
		reject := identity.PubKey()
		sw.SetPubKeyFilter(func(pk crypto.PubKey) error {
			if pk != nil && pk.Equals(reject) {
				return fmt.Errorf("key rejected by the pub-key filter")
			}
			return nil
		})
	}
	admin := &plugin.AdminOp{}
	admin.Init(&plugin.InitParams{Switch: sw, PrivKey: kNode, RefuseList: rl, Validators: &stateM.Validators})

	// what happened since start-up: the real AdminOp.EndBlock + the state update of State.ExecBlock
	if a.Phase == "genesis" {
		if a.Refused {
			rl.AddRefuseKey(identity.PubKey().Bytes())
		}
	} else {
		var removed []byte
		if a.Phase == "ca-removed" {
			removed = rawPub(kCA1)
		} else {
			removed = rawPub(identity)
		}
		admin.ChangedValidators = append(admin.ChangedValidators, &types.ValidatorAttr{PubKey: removed, Cmd: types.ValidatorCmdRemoveNode})
		if a.Refused {
			admin.AddRefuseKeys = append(admin.AddRefuseKeys, identity.PubKey())
		}
		valSet := stateM.Validators.Copy()
		next := valSet.Copy()
		if _, err := admin.EndBlock(&plugin.EndBlockParams{NextValidatorSet: next}); err != nil {
			core.Fatal("AdminOp.EndBlock: %v", err)
		}
		next.IncrementAccum(1)
		hdr := &types.Header{ChainID: genDoc.ChainID, Height: 1, Time: time.Unix(1500000001, 0), ValidatorsHash: valSet.Hash()}
		stateM.SetBlockAndValidators(hdr, types.PartSetHeader{}, valSet, next)
		// sanity of the harness itself: the node's current validator set is what the case says
		cur := stateM.Validators
		if cur.HasAddress(identity.PubKey().Address()) != a.PeerIsValidator {
			core.Fatal("harness: validator membership of the peer is %v, case says %v", !a.PeerIsValidator, a.PeerIsValidator)
		}
		if cur.HasAddress(kCA1.PubKey().Address()) != (a.Phase != "ca-removed") {
			core.Fatal("harness: CA1 membership wrong in phase %s", a.Phase)
		}
	}

	// the signature the peer presents, over the key it announces
	over := rawPub(announced)
	ni := &p2p.NodeInfo{PubKey: announced.PubKey(), Moniker: "dialer", Network: "verif-c20", Version: "0.9.0", ListenAddr: "127.0.0.1:2"}
	switch a.Sig {
	case "current-ca":
		ni.SigndPubKey = caSignature(kCA2, over)
	case "ca-removed-in-changed-phase":
		ni.SigndPubKey = caSignature(kCA1, over)
	case "non-ca-validator":
		ni.SigndPubKey = caSignature(kV3, over)
	case "outsider":
		ni.SigndPubKey = caSignature(kOutsider, over)
	case "current-ca-over-other-key":
		ni.SigndPubKey = caSignature(kCA2, rawPub(kOutsider))
	case "garbage-hex":
		ni.SigndPubKey = strings.Repeat("AB", 64)
	case "empty":
		ni.SigndPubKey = ""
	case "non-hex":
		ni.SigndPubKey = "this is not a hexadecimal signature"
	default:
		core.Fatal("unknown signature kind %q", a.Sig)
	}

	c1, c2 := net.Pipe()
	var wg sync.WaitGroup
	wg.Add(1)
	go func() {
		defer wg.Done()
		dialerScript(c2, identity, ni)
	}()
	var peer *p2p.Peer
	started := time.Now()
	p, v, st := core.Try(func() { peer, res.err = sw.AddPeerWithConnection(c1, a.Outbound) })
	c1.Close()
	c2.Close()
	wg.Wait()
	if p {
		res.pan, res.site = core.FirstLine(v), core.PanicSite(st)
		return res
	}
	if te, ok := res.err.(interface{ Timeout() bool }); ok && te.Timeout() || time.Since(started) > 15*time.Second {
		res.timeout = true
	}
	res.peers = sw.Peers().Size()
	res.admitted = res.peers > 0 || peer != nil
	return res
}

// dialerScript is the remote side: real secret-connection handshake with the
// chosen identity, then the node-info and exchange-data rounds of the protocol.
func dialerScript(conn net.Conn, identity crypto.PrivKey, ni *p2p.NodeInfo) {
	core.Try(func() {
		conn.SetDeadline(time.Now().Add(20 * time.Second))
		sc, err := p2p.MakeSecretConnection(conn, identity)
		if err != nil || sc == nil {
			return
		}
		round := func(out interface{}, in interface{}) bool {
			var w sync.WaitGroup
			var e1, e2 error
			w.Add(1)
			go func() {
				defer w.Done()
				var n int
				wire.WriteBinary(out, sc, &n, &e1)
			}()
			var n int
			wire.ReadBinary(in, sc, 10240, &n, &e2)
			w.Wait()
			return e1 == nil && e2 == nil
		}
		if !round(ni, new(p2p.NodeInfo)) {
			return
		}
		round(&p2p.ExchangeData{}, new(p2p.ExchangeData))
		// stay until the other side closes
		buf := make([]byte, 1)
		conn.Read(buf)
	})
}

func (c *ctx) runAdmit(k kase) {
	atomic.AddInt64(&c.evals, 1)
	a := *k.Admit
	want, failing := a.want()
	fl := c.begin(k, map[string]string{"part": "admission"})
	defer c.end(fl)
	var res admitResult
	for attempt := 1; attempt <= 3; attempt++ {
		// (a handshake that runs into the 20 s deadlines is repeated; 3 of 3: the peer counts as not admitted)
		fl.tick()
		res = runAdmission(a)
		if !res.timeout || res.pan != "" {
			break
		}
	}
	valset := "genesis"
	if a.Phase != "genesis" {
		valset = "changed-after-startup"
	}
	direction := admitDirections[0]
	if a.Outbound {
		direction = admitDirections[1]
	}
	if res.pan != "" {
		c.report(map[string]string{"part": "admission", "kind": "panic", "site": res.site, "valset": valset, "direction": direction}, k, "AddPeerWithConnection panicked: "+res.pan)
		return
	}
	c.classes.Add(fmt.Sprintf("admit/%s/%s/admitted=%v/failing=%s", direction, valset, res.admitted, strings.Join(failing, "+")))
	if res.admitted == want {
		return
	}
	if res.admitted {
		c.report(map[string]string{"part": "admission", "kind": "admitted-but-forbidden", "cause": strings.Join(failing, "+"), "valset": valset, "direction": direction}, k,
			fmt.Sprintf("peer admitted (Switch.Peers().Size()=%d, err=%v) although: %s; case %+v", res.peers, res.err, strings.Join(failing, ", "), a))
		return
	}
	c.report(map[string]string{"part": "admission", "kind": "legitimate-peer-refused", "valset": valset, "direction": direction}, k,
		fmt.Sprintf("peer satisfies every admission rule but was refused: %v (handshake deadline hit 3 times out of 3: %v); case %+v", res.err, res.timeout, a))
}

func admitCases() []kase {
	var out []kase
	bools := []bool{false, true}
	for _, outbound := range bools {
		for _, pkf := range admitPKFilters {
			out = append(out, admitCasesOf(outbound, pkf)...)
		}
	}
	return out
}

func admitCasesOf(outbound bool, pkf string) []kase {
	var out []kase
	bools := []bool{false, true}
	for _, ph := range admitPhases {
		for _, refused := range bools {
			for _, mm := range admitMismatches {
				for _, abc := range bools {
					for _, pv := range bools {
						if ph == "peer-removed" && pv {
							continue // in this phase the peer WAS a validator at start-up and is none now
						}
						for _, nva := range bools {
							for _, sg := range admitSigs {
								for _, self := range bools {
									a := admitCase{Outbound: outbound, PKFilter: pkf, Phase: ph, Refused: refused, Mismatch: mm, AuthByCA: abc, PeerIsValidator: pv, NonValAuth: nva, Sig: sg, Self: self}
									out = append(out, kase{Part: "admit", Admit: &a})
								}
							}
						}
					}
				}
			}
		}
	}
	return out
}
