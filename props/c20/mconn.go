package main

type mconnCase struct {
	Name string `json:"name"`
}

func (c *ctx) runMConnSubset() map[string]interface{} { return map[string]interface{}{"scenarios": 0} }
func (c *ctx) runMConnCase(k kase, replay bool)       {}
