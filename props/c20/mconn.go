package main

// Part (b'): conformance subset.  Two real, started MConnections over
// net.Pipe + real SecretConnections; the send/recv routines, the priority rule,
// the flush timer and the bufio layering all run for real.  Real goroutines and
// timers, therefore: progress-based (a scenario ends when a sentinel message
// sent last on every channel has arrived, or the receiver reported an error),
// a deadline yields "inconclusive" (never a violation), and a violation
// candidate is only reported if it reproduces 5 times out of 5.

import (
	"bytes"
	"fmt"
	"net"
	"reflect"
	"sync"
	"sync/atomic"
	"time"

	"verif/core"

	"github.com/spf13/viper"

	crypto "github.com/dappledger/AnnChain/gemmill/go-crypto"
	"github.com/dappledger/AnnChain/gemmill/p2p"
)

type mconnSend struct {
	Ch   int `json:"ch"`
	Size int `json:"size"`
}

type mconnCase struct {
	Name       string      `json:"name"`
	Sends      []mconnSend `json:"sends"`
	Concurrent bool        `json:"concurrent"` // one sending goroutine per channel instead of one in total
}

const mconnSentinel = 7

var byteType = reflect.TypeOf(byte(0))

// rawMsg returns a value whose wire encoding is exactly the given bytes (a
// byte array is written without length prefix).
func rawMsg(b []byte) interface{} {
	v := reflect.New(reflect.ArrayOf(len(b), byteType)).Elem()
	reflect.Copy(v, reflect.ValueOf(b))
	return v.Interface()
}

func mconnScenarios() []mconnCase {
	var out []mconnCase
	for _, s := range msgSizes {
		if s > chanRecvMsgCap {
			continue
		}
		out = append(out, mconnCase{Name: fmt.Sprintf("single-%d", s), Sends: []mconnSend{{0, s}}})
	}
	n := len(msgSizes) - 1 // without the oversize one
	for i := 1; i < n; i++ {
		out = append(out, mconnCase{Name: fmt.Sprintf("pair-%d-%d", msgSizes[i], msgSizes[n-i]), Concurrent: true,
			Sends: []mconnSend{{0, msgSizes[i]}, {1, msgSizes[n-i]}}})
	}
	mixA := []mconnSend{{0, 1024}, {1, 2048}, {0, 1025}, {1, 1}, {0, 1}, {1, 1023}, {0, 4096}, {1, 4096}}
	mixB := []mconnSend{{0, 4096}, {0, 4096}, {0, 4096}, {1, 1}, {1, 1}, {1, 1}, {0, 1}, {1, 4096}}
	mixC := []mconnSend{{1, 2048}, {1, 2048}, {1, 2048}, {1, 2048}, {0, 1023}, {0, 1025}, {0, 1024}, {0, 2048}}
	mixD := []mconnSend{{0, 1}, {0, 0}, {0, 1}, {0, 0}, {0, 1024}, {0, 0}}
	for i, m := range [][]mconnSend{mixA, mixB, mixC} {
		out = append(out, mconnCase{Name: fmt.Sprintf("mix%c-serial", 'A'+i), Sends: m})
		out = append(out, mconnCase{Name: fmt.Sprintf("mix%c-concurrent", 'A'+i), Sends: m, Concurrent: true})
	}
	out = append(out, mconnCase{Name: "zero-length-one-channel", Sends: mixD})
	// (zero-length messages on two busy channels are deliberately absent: whether
	// MConnection.sendMsgPacket calls isSendPending twice on a zero-length message
	// before writing it - and thereby drops it, see part (b) - depends on timing,
	// so such a scenario would make the verdict of this subset vary from run to run)
	out = append(out, mconnCase{Name: "priority-starvation", Concurrent: true, Sends: []mconnSend{{1, 4096}, {1, 4096}, {1, 4096}, {1, 4096}, {1, 4096}, {1, 4096}, {0, 1}, {0, 1023}}})
	out = append(out, mconnCase{Name: "boundaries-ch1", Sends: []mconnSend{{1, 1023}, {1, 1024}, {1, 1025}, {1, 2047}, {1, 2048}, {1, 2049}, {1, 4095}, {1, 4096}}})
	out = append(out, mconnCase{Name: "oversize-first", Sends: []mconnSend{{0, 4097}}})
	out = append(out, mconnCase{Name: "oversize-after-legit", Sends: []mconnSend{{0, 1024}, {0, 4096}, {0, 4097}}})
	out = append(out, mconnCase{Name: "oversize-other-channel-busy", Concurrent: true, Sends: []mconnSend{{1, 1024}, {0, 4097}}})
	out = append(out, mconnCase{Name: "burst-small", Sends: []mconnSend{{0, 1}, {0, 1}, {0, 1}, {0, 1}, {0, 1}, {0, 1}, {1, 1}, {1, 1}, {1, 1}, {1, 1}}})
	out = append(out, mconnCase{Name: "burst-capacity", Concurrent: true, Sends: []mconnSend{{0, 4096}, {0, 4096}, {0, 4096}, {0, 4096}, {1, 4096}, {1, 4096}, {1, 4096}, {1, 4096}}})
	return out
}

type mconnOutcome struct {
	verdict string // ok | inconclusive | <violation kind>
	detail  string
	size    string
}

var mconnChIDs = []byte{0x20, 0x21}

func mconnDescs() []*p2p.ChannelDescriptor {
	return []*p2p.ChannelDescriptor{
		{ID: mconnChIDs[0], Priority: 1, SendQueueCapacity: chanSendQueueCap, RecvMessageCapacity: chanRecvMsgCap},
		{ID: mconnChIDs[1], Priority: 5, SendQueueCapacity: chanSendQueueCap, RecvMessageCapacity: chanRecvMsgCap},
	}
}

// mconnRun executes one scenario once.
func mconnRun(mc mconnCase, deadline time.Duration) (o mconnOutcome) {
	start := time.Now()
	inconclusive := func(why string) mconnOutcome {
		return mconnOutcome{verdict: "inconclusive", detail: fmt.Sprintf("%s after %.1fs", why, time.Since(start).Seconds())}
	}
	c1, c2 := net.Pipe()
	defer c1.Close()
	defer c2.Close()
	var sc [2]*p2p.SecretConnection
	var herr [2]error
	var wg sync.WaitGroup
	keys := []crypto.PrivKey{keyA, keyB}
	for i, c := range []net.Conn{c1, c2} {
		wg.Add(1)
		go func(i int, c net.Conn) {
			defer wg.Done()
			c.SetDeadline(time.Now().Add(deadline))
			sc[i], herr[i] = p2p.MakeSecretConnection(c, keys[i])
			c.SetDeadline(time.Time{})
		}(i, c)
	}
	wg.Wait()
	if herr[0] != nil || herr[1] != nil {
		return inconclusive(fmt.Sprintf("handshake failed (%v / %v)", herr[0], herr[1]))
	}

	conf := viper.New()
	p2p.NewSwitch(conf) // only to install the package's configuration defaults (send/recv rate)

	var mu sync.Mutex
	var received [2][][]byte
	var recvErr interface{}
	event := make(chan struct{}, 1024)
	notify := func() {
		select {
		case event <- struct{}{}:
		default:
		}
	}
	onReceive := func(chID byte, msg []byte) {
		mu.Lock()
		idx := int(chID) - int(mconnChIDs[0])
		if idx >= 0 && idx < 2 {
			received[idx] = append(received[idx], append([]byte(nil), msg...)) // copy at the callback
		}
		mu.Unlock()
		notify()
	}
	onRecvErr := func(r interface{}) {
		mu.Lock()
		if recvErr == nil {
			recvErr = r
		}
		mu.Unlock()
		notify()
	}
	var sendErr atomic.Value
	sender := p2p.NewMConnection(conf, sc[0], mconnDescs(), func(byte, []byte) {}, func(r interface{}) { sendErr.Store(fmt.Sprint(r)); notify() })
	receiver := p2p.NewMConnection(conf, sc[1], mconnDescs(), onReceive, onRecvErr)
	sender.Start()
	receiver.Start()
	defer sender.Stop()
	defer receiver.Stop()

	// what was accepted, per channel, in order
	var accepted [2][][]byte
	var amu sync.Mutex
	seq := [2]int{}
	sendOne := func(ch, size int, salt uint64) {
		body := pattern(size, salt)
		ok := sender.Send(mconnChIDs[ch], rawMsg(body))
		if ok {
			amu.Lock()
			accepted[ch] = append(accepted[ch], body)
			amu.Unlock()
		}
	}
	var swg sync.WaitGroup
	if mc.Concurrent {
		for ch := 0; ch < 2; ch++ {
			swg.Add(1)
			go func(ch int) {
				defer swg.Done()
				k := 0
				for _, s := range mc.Sends {
					if s.Ch == ch {
						sendOne(ch, s.Size, uint64(5000+ch*100+k))
						k++
					}
				}
				sendOne(ch, mconnSentinel, uint64(9000+ch))
			}(ch)
		}
	} else {
		swg.Add(1)
		go func() {
			defer swg.Done()
			for _, s := range mc.Sends {
				sendOne(s.Ch, s.Size, uint64(5000+s.Ch*100+seq[s.Ch]))
				seq[s.Ch]++
			}
			for ch := 0; ch < 2; ch++ {
				sendOne(ch, mconnSentinel, uint64(9000+ch))
			}
		}()
	}
	sendersDone := make(chan struct{})
	go func() { swg.Wait(); close(sendersDone) }()

	sentinel := [2][]byte{pattern(mconnSentinel, 9000), pattern(mconnSentinel, 9001)}
	timeout := time.After(deadline)
	finished := false
	for !finished {
		select {
		case <-event:
		case <-sendersDone:
			sendersDone = nil
		case <-timeout:
			return inconclusive("deadline")
		}
		mu.Lock()
		got := 0
		for ch := 0; ch < 2; ch++ {
			if n := len(received[ch]); n > 0 && bytes.Equal(received[ch][n-1], sentinel[ch]) {
				got++
			}
		}
		if recvErr != nil || got == 2 {
			finished = sendersDone == nil || recvErr != nil
		}
		mu.Unlock()
	}
	if sendersDone != nil {
		// receiver failed: the senders may be blocked in Send (queue full, 10 s timeout); do not wait for them
		sender.Stop()
	}
	mu.Lock()
	defer mu.Unlock()
	amu.Lock()
	defer amu.Unlock()

	// oracle: per channel, what arrived is a prefix of what was accepted, each
	// message byte-equal; an oversize message never arrives, its channel's
	// traffic ends there with an error; without error everything arrives.
	for ch := 0; ch < 2; ch++ {
		for i, m := range received[ch] {
			if i >= len(accepted[ch]) {
				return mconnOutcome{verdict: "extra-message", size: sizeClass(len(m)), detail: fmt.Sprintf("channel %d delivered %d messages, only %d were accepted", ch, len(received[ch]), len(accepted[ch]))}
			}
			want := accepted[ch][i]
			if len(want) > chanRecvMsgCap {
				return mconnOutcome{verdict: "oversize-delivered", size: "oversize", detail: fmt.Sprintf("channel %d message #%d: a %d-byte message was delivered (%d bytes) through capacity %d", ch, i, len(want), len(m), chanRecvMsgCap)}
			}
			if !bytes.Equal(m, want) {
				kind := "corrupted"
				if len(m) < len(want) && bytes.HasPrefix(want, m) {
					kind = "truncated"
				} else if i+1 < len(accepted[ch]) && bytes.Equal(m, accepted[ch][i+1]) {
					kind = "message-lost"
				}
				return mconnOutcome{verdict: kind, size: sizeClass(len(want)), detail: fmt.Sprintf("channel %d message #%d: delivered %d bytes, accepted message has %d bytes", ch, i, len(m), len(want))}
			}
		}
	}
	if recvErr != nil {
		// legitimate only if some accepted-but-undelivered message is oversize
		for ch := 0; ch < 2; ch++ {
			for i := len(received[ch]); i < len(accepted[ch]); i++ {
				if len(accepted[ch][i]) > chanRecvMsgCap {
					return mconnOutcome{verdict: "ok", detail: "overflow error"}
				}
			}
		}
		return mconnOutcome{verdict: "error-on-legit-message", size: "any", detail: fmt.Sprintf("receiver stopped with %v although no oversize message was outstanding", core.FirstLine(recvErr))}
	}
	for ch := 0; ch < 2; ch++ {
		if len(received[ch]) != len(accepted[ch]) {
			return mconnOutcome{verdict: "message-lost", size: "any", detail: fmt.Sprintf("channel %d: %d accepted, %d delivered although the sentinel arrived", ch, len(accepted[ch]), len(received[ch]))}
		}
	}
	return mconnOutcome{verdict: "ok"}
}

func (c *ctx) runMConnCase(k kase, replay bool) (verdict string) {
	atomic.AddInt64(&c.evals, 1)
	mc := *k.MConn
	var o mconnOutcome
	p, v, st := core.Try(func() { o = mconnRun(mc, 30*time.Second) })
	if p {
		c.report(map[string]string{"part": "mconn", "kind": "panic", "site": core.PanicSite(st)}, k, "panic in harness goroutine: "+core.FirstLine(v))
		return "panic"
	}
	if o.verdict == "ok" || o.verdict == "inconclusive" {
		return o.verdict
	}
	// real goroutines: report only what reproduces 5 times out of 5
	for i := 0; i < 4; i++ {
		var o2 mconnOutcome
		if p, _, _ := core.Try(func() { o2 = mconnRun(mc, 30*time.Second) }); p || o2.verdict != o.verdict {
			return "inconclusive"
		}
	}
	c.report(map[string]string{"part": "mconn", "kind": o.verdict, "size": o.size}, k, fmt.Sprintf("scenario %s (reproduced 5/5): %s", mc.Name, o.detail))
	return o.verdict
}

func (c *ctx) runMConnSubset(skip bool) map[string]interface{} {
	scen := mconnScenarios()
	if skip {
		scen = nil
	}
	verdicts := make([]string, len(scen))
	core.Par(len(scen), func(i int) {
		verdicts[i] = c.runMConnCase(kase{Part: "mconn", MConn: &scen[i]}, false)
		c.classes.Add("mconn/" + verdicts[i])
	})
	hist := map[string]int{}
	var inconcl []string
	for i, v := range verdicts {
		hist[v]++
		if v == "inconclusive" {
			inconcl = append(inconcl, scen[i].Name)
		}
	}
	return map[string]interface{}{"scenarios": len(scen), "verdicts": hist, "inconclusive": inconcl}
}
