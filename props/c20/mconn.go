package main

// Part (b'): conformance subset.  Two real, started MConnections over
// net.Pipe + real SecretConnections; the send/recv routines, the priority rule,
// the flush timer and the bufio layering all run for real.  Real goroutines and
// timers, therefore: progress-based (a scenario ends when every accepted
// message has been delivered - by count -, when the receiver reported an error,
// or when something arrived that was never handed to Send), and a violation
// candidate is only reported if it reproduces 5 times out of 5.  A run in which
// nothing happens any more for mconnIdleDeadline although an accepted message
// of legitimate size is still undelivered is repeated; 3 such runs out of 3 are
// the violation "accepted-never-delivered" (anything else: inconclusive).

import (
	"bytes"
	"fmt"
	"net"
	"reflect"
	"sync"
	"sync/atomic"
	"time"

	"verif/core"

	"github.com/spf13/viper"

	crypto "github.com/dappledger/AnnChain/gemmill/go-crypto"
	wire "github.com/dappledger/AnnChain/gemmill/go-wire"
	"github.com/dappledger/AnnChain/gemmill/p2p"
)

type mconnSend struct {
	Ch   int `json:"ch"`
	Size int `json:"size"`
}

type mconnCase struct {
	Name       string      `json:"name"`
	Sends      []mconnSend `json:"sends"`
	Concurrent bool        `json:"concurrent"` // one sending goroutine per channel instead of one in total
	// NoFollower: nothing is sent after the scenario's own messages (otherwise a
	// 7-byte message follows on every channel)
	NoFollower bool `json:"no_follower,omitempty"`
	// IdleBefore: indices of Sends that are handed to Send only when everything
	// accepted before has been delivered, i.e. on an idle connection (serial scenarios only)
	IdleBefore []int `json:"idle_before,omitempty"`
	// Large: the channels have receive capacity mconnLargeCap instead of chanRecvMsgCap
	Large bool `json:"large,omitempty"`
	// SwapPrio: the FIRST channel of the connection has the high priority (5) and the second the low one (1)
	SwapPrio bool `json:"swap_prio,omitempty"`
	// Words: the messages of mconnLargeMin bytes and more are arrays of 16-bit
	// words (encoded element by element) instead of byte arrays (encoded by one
	// copy); the encoded bytes are the same
	Words bool `json:"words,omitempty"`
}

// the large-message scenarios: channels of 4 MiB receive capacity
const (
	mconnLargeCap = 4 << 20
	mconnLargeMin = 1 << 20
)

// sizeClass of a message of the scenario, relative to the capacity of its channels
func (mc mconnCase) sizeClass(n int) string {
	if !mc.Large {
		return sizeClass(n)
	}
	switch {
	case n > mconnLargeCap:
		return "oversize"
	case n == mconnLargeCap:
		return "at-capacity"
	case n >= mconnLargeMin:
		return "large"
	case n > chanRecvMsgCap:
		return "above-initial-buffer"
	}
	return sizeClass(n)
}

func (mc mconnCase) idleBefore(i int) bool {
	for _, j := range mc.IdleBefore {
		if i == j {
			return true
		}
	}
	return false
}

func (mc mconnCase) capacity() int {
	if mc.Large {
		return mconnLargeCap
	}
	return chanRecvMsgCap
}

const mconnSentinel = 7

// mconnIdleDeadline: a run is given up when nothing at all has happened (no
// message delivered, no error, no Send returned) for this long.  The unchanged
// code needs milliseconds for a scenario.
const mconnIdleDeadline = 30 * time.Second

var (
	byteType = reflect.TypeOf(byte(0))
	wordType = reflect.TypeOf(uint16(0))
)

// wordsMsg returns an array of 16-bit words whose wire encoding is exactly the
// given bytes (an even number of them): the encoder writes such a value element
// by element, as it does for the slices and structs of real reactor messages.
func wordsMsg(b []byte) interface{} {
	n := len(b) / 2
	s := make([]uint16, n)
	for i := range s {
		s[i] = uint16(b[2*i])<<8 | uint16(b[2*i+1])
	}
	v := reflect.New(reflect.ArrayOf(n, wordType)).Elem()
	reflect.Copy(v, reflect.ValueOf(s))
	return v.Interface()
}

func (mc mconnCase) msg(b []byte) interface{} {
	if mc.Words && len(b) >= mconnLargeMin && len(b)%2 == 0 {
		return wordsMsg(b)
	}
	return rawMsg(b)
}

// rawMsg returns a value whose wire encoding is exactly the given bytes (a
// byte array is written without length prefix).
func rawMsg(b []byte) interface{} {
	v := reflect.New(reflect.ArrayOf(len(b), byteType)).Elem()
	reflect.Copy(v, reflect.ValueOf(b))
	return v.Interface()
}

// checkRawMsgEncoding: the sizes of this driver are sizes of the ENCODED
// message (what MConnection.Send hands to the channel).
func checkRawMsgEncoding() {
	for _, n := range msgSizes {
		b := pattern(n, 3)
		if enc := wire.BinaryBytes(rawMsg(b)); !bytes.Equal(enc, b) {
			core.Fatal("harness: wire.BinaryBytes of a %d-byte array has %d bytes", n, len(enc))
		}
	}
	for _, n := range []int{2, 4096, mconnLargeMin} {
		b := pattern(n, 4)
		if enc := wire.BinaryBytes(wordsMsg(b)); !bytes.Equal(enc, b) {
			core.Fatal("harness: wire.BinaryBytes of an array of %d 16-bit words is not the %d bytes it was made from", n/2, n)
		}
	}
}

func mconnScenarios() []mconnCase {
	var out []mconnCase
	var legit []int
	for _, s := range msgSizes {
		if s <= chanRecvMsgCap {
			legit = append(legit, s)
		}
	}
	for _, s := range legit {
		out = append(out, mconnCase{Name: fmt.Sprintf("single-%d", s), Sends: []mconnSend{{0, s}}})
		// the message is the last one of its channel (and of the connection)
		out = append(out, mconnCase{Name: fmt.Sprintf("last-%d", s), Sends: []mconnSend{{s % 2, s}}, NoFollower: true})
	}
	n := len(legit)
	for i := 1; i < n; i++ {
		out = append(out, mconnCase{Name: fmt.Sprintf("pair-%d-%d", legit[i], legit[n-i]), Concurrent: true,
			Sends: []mconnSend{{0, legit[i]}, {1, legit[n-i]}}})
	}
	mixA := []mconnSend{{0, 1024}, {1, 2048}, {0, 1025}, {1, 1}, {0, 1}, {1, 1023}, {0, 4096}, {1, 4096}}
	mixB := []mconnSend{{0, 4096}, {0, 4096}, {0, 4096}, {1, 1}, {1, 1}, {1, 1}, {0, 1}, {1, 4096}}
	mixC := []mconnSend{{1, 2048}, {1, 2048}, {1, 2048}, {1, 2048}, {0, 1023}, {0, 1025}, {0, 1024}, {0, 2048}}
	mixD := []mconnSend{{0, 1}, {0, 0}, {0, 1}, {0, 0}, {0, 1024}, {0, 0}}
	mixE := []mconnSend{{0, 3072}, {1, 3071}, {0, 3073}, {1, 3072}, {0, 2047}, {1, 2049}, {0, 2048}, {1, 1024}}
	for i, m := range [][]mconnSend{mixA, mixB, mixC, mixE} {
		name := []string{"mixA", "mixB", "mixC", "mixE"}[i]
		out = append(out, mconnCase{Name: name + "-serial", Sends: m})
		out = append(out, mconnCase{Name: name + "-concurrent", Sends: m, Concurrent: true})
	}
	out = append(out, mconnCase{Name: "zero-length-one-channel", Sends: mixD})
	// (zero-length messages on two busy channels are deliberately absent: whether
	// MConnection.sendMsgPacket calls isSendPending twice on a zero-length message
	// before writing it - and thereby drops it, see part (b) - depends on timing,
	// so such a scenario would make the verdict of this subset vary from run to run)
	out = append(out, mconnCase{Name: "priority-starvation", Concurrent: true, Sends: []mconnSend{{1, 4096}, {1, 4096}, {1, 4096}, {1, 4096}, {1, 4096}, {1, 4096}, {0, 1}, {0, 1023}}})
	// every non-empty legitimate size in ascending order on one channel, on the other, and on both at once
	var asc0, asc1, desc1 []mconnSend
	for i, s := range legit {
		if s == 0 {
			continue
		}
		asc0 = append(asc0, mconnSend{0, s})
		asc1 = append(asc1, mconnSend{1, s})
		if r := legit[len(legit)-1-i]; r != 0 {
			desc1 = append(desc1, mconnSend{1, r})
		}
	}
	out = append(out, mconnCase{Name: "boundaries-ch0", Sends: asc0})
	out = append(out, mconnCase{Name: "boundaries-ch1", Sends: asc1, NoFollower: true})
	out = append(out, mconnCase{Name: "boundaries-both", Concurrent: true, Sends: append(append([]mconnSend(nil), asc0...), desc1...)})
	out = append(out, mconnCase{Name: "oversize-first", Sends: []mconnSend{{0, 4097}}})
	out = append(out, mconnCase{Name: "oversize-after-legit", Sends: []mconnSend{{0, 1024}, {0, 4096}, {0, 4097}}})
	out = append(out, mconnCase{Name: "oversize-other-channel-busy", Concurrent: true, Sends: []mconnSend{{1, 1024}, {0, 4097}}})
	out = append(out, mconnCase{Name: "burst-small", Sends: []mconnSend{{0, 1}, {0, 1}, {0, 1}, {0, 1}, {0, 1}, {0, 1}, {1, 1}, {1, 1}, {1, 1}, {1, 1}}})
	out = append(out, mconnCase{Name: "burst-capacity", Concurrent: true, Sends: []mconnSend{{0, 4096}, {0, 4096}, {0, 4096}, {0, 4096}, {1, 4096}, {1, 4096}, {1, 4096}, {1, 4096}}})
	// ONE large message and nothing afterwards (no later message, whose Send would
	// make the send routine look at the queues again): as the first thing on the
	// connection, and on an idle connection (after a small message has been
	// delivered); sizes 1 MiB and the channel's capacity (4 MiB), either channel,
	// both ways of encoding
	for _, size := range mconnLargeSizes {
		for ch := 0; ch < 2; ch++ {
			for _, words := range []bool{false, true} {
				enc := "bytes"
				if words {
					enc = "words"
				}
				out = append(out, mconnCase{Name: fmt.Sprintf("large-first-%d-ch%d-%s", size, ch, enc), Large: true, Words: words, NoFollower: true,
					Sends: []mconnSend{{ch, size}}})
				out = append(out, mconnCase{Name: fmt.Sprintf("large-on-idle-%d-ch%d-%s", size, ch, enc), Large: true, Words: words, NoFollower: true,
					Sends: []mconnSend{{ch, mconnSentinel}, {ch, size}}, IdleBefore: []int{1}})
			}
		}
	}
	// two large messages, the second one when the first has arrived; a small one on the idle connection after a large one
	out = append(out, mconnCase{Name: "large-idle-large", Large: true, Words: true, NoFollower: true,
		Sends: []mconnSend{{0, mconnLargeMin}, {1, mconnLargeMin}}, IdleBefore: []int{1}})
	out = append(out, mconnCase{Name: "large-idle-small", Large: true, NoFollower: true,
		Sends: []mconnSend{{0, mconnLargeMin}, {0, 1}, {1, 1024}}, IdleBefore: []int{1, 2}})
	// two messages larger than the channels' initial receive buffers (4096) in flight at the same
	// time, one per channel: the packets of the two interleave, so each channel's partly
	// reassembled message has to survive the other channel's buffer growing
	for _, size := range []int{4097, 12289, mconnLargeMin} {
		out = append(out, mconnCase{Name: fmt.Sprintf("large-pair-concurrent-%d", size), Large: true, Concurrent: true,
			Sends: []mconnSend{{0, size}, {1, size}}})
		out = append(out, mconnCase{Name: fmt.Sprintf("large-pair-concurrent-%d-first-channel-fast", size), Large: true, Concurrent: true, SwapPrio: true,
			Sends: []mconnSend{{0, size}, {1, size}}})
		out = append(out, mconnCase{Name: fmt.Sprintf("large-pair-concurrent-%d-then-again", size), Large: true, Concurrent: true,
			Sends: []mconnSend{{0, size}, {1, size}, {1, size}, {0, size}}})
	}
	for _, swap := range []bool{false, true} {
		for _, small := range []int{1025, 2049, 4096} {
			for _, big := range []int{4097, 6145, 12289} {
				slow, fast := 0, 1 // without SwapPrio channel 1 has the high priority
				if swap {
					slow, fast = 1, 0
				}
				out = append(out, mconnCase{Name: fmt.Sprintf("first-messages-slow-%d-fast-%d-swap-%v", small, big, swap), Large: true, SwapPrio: swap,
					Sends: []mconnSend{{slow, small}, {fast, big}}})
				out = append(out, mconnCase{Name: fmt.Sprintf("first-messages-fast-%d-slow-%d-swap-%v", big, small, swap), Large: true, SwapPrio: swap,
					Sends: []mconnSend{{fast, big}, {slow, small}}})
			}
		}
	}
	out = append(out, mconnCase{Name: "large-oversize-on-idle", Large: true, NoFollower: true,
		Sends: []mconnSend{{0, mconnSentinel}, {0, mconnLargeCap + 1}}, IdleBefore: []int{1}})
	return out
}

var mconnLargeSizes = []int{mconnLargeMin, mconnLargeCap}

type mconnOutcome struct {
	verdict string // ok | inconclusive | timeout | <violation kind>
	detail  string
	size    string
	shape   string
}

var mconnChIDs = []byte{0x20, 0x21}

func mconnDescs(capacity int, swapPrio bool) []*p2p.ChannelDescriptor {
	if swapPrio {
		return []*p2p.ChannelDescriptor{
			{ID: mconnChIDs[0], Priority: 5, SendQueueCapacity: chanSendQueueCap, RecvMessageCapacity: capacity},
			{ID: mconnChIDs[1], Priority: 1, SendQueueCapacity: chanSendQueueCap, RecvMessageCapacity: capacity},
		}
	}
	return []*p2p.ChannelDescriptor{
		{ID: mconnChIDs[0], Priority: 1, SendQueueCapacity: chanSendQueueCap, RecvMessageCapacity: capacity},
		{ID: mconnChIDs[1], Priority: 5, SendQueueCapacity: chanSendQueueCap, RecvMessageCapacity: capacity},
	}
}

// mconnRun executes one scenario once.  The run ends when every Send has
// returned and every accepted message has been delivered (by count), when the
// receiver reported an error, when something was delivered that was never
// handed to Send on that channel, or when nothing has happened for idle.
func mconnRun(mc mconnCase, idle time.Duration, alive func()) (o mconnOutcome) {
	start := time.Now()
	capacity := mc.capacity()
	stop := make(chan struct{})
	defer close(stop)
	inconclusive := func(why string) mconnOutcome {
		return mconnOutcome{verdict: "inconclusive", detail: fmt.Sprintf("%s after %.1fs", why, time.Since(start).Seconds())}
	}
	c1, c2 := net.Pipe()
	// Tearing a connection down is not what is being examined, and it must not be
	// waited for: MConnection.OnStop stops its timers before it closes the
	// connection, and RepeatTimer.Stop never returns once the 2-second statistics
	// ticker has fired while the send routine was busy (blocked in a write to a
	// peer that no longer reads, or itself executing Stop).  So: close the pipe
	// first (which releases a blocked send routine), stop both ends, all of it in
	// the background.
	var toStop []*p2p.MConnection
	defer func() {
		go func() {
			c1.Close()
			c2.Close()
			for _, m := range toStop {
				m.Stop()
			}
		}()
	}()
	var sc [2]*p2p.SecretConnection
	var herr [2]error
	var wg sync.WaitGroup
	keys := []crypto.PrivKey{keyA, keyB}
	for i, c := range []net.Conn{c1, c2} {
		wg.Add(1)
		go func(i int, c net.Conn) {
			defer wg.Done()
			c.SetDeadline(time.Now().Add(idle))
			sc[i], herr[i] = p2p.MakeSecretConnection(c, keys[i])
			c.SetDeadline(time.Time{})
		}(i, c)
	}
	wg.Wait()
	alive()
	if herr[0] != nil || herr[1] != nil {
		return inconclusive(fmt.Sprintf("handshake failed (%v / %v)", herr[0], herr[1]))
	}

	conf := viper.New()
	p2p.NewSwitch(conf) // only to install the package's configuration defaults (send/recv rate)

	var mu sync.Mutex // guards everything below up to "unknown"
	var received [2][][]byte
	var offered, accepted [2][][]byte // handed to Send / accepted by Send, per channel, in order
	var decided [2]int                // number of Sends that have returned, per channel
	var recvErr interface{}
	unknown := false // something was delivered that was never handed to Send on that channel
	event := make(chan struct{}, 1024)
	notify := func() {
		select {
		case event <- struct{}{}:
		default:
		}
	}
	onReceive := func(chID byte, msg []byte) {
		mu.Lock()
		idx := int(chID) - int(mconnChIDs[0])
		if idx >= 0 && idx < 2 {
			m := append([]byte(nil), msg...) // copy at the callback
			received[idx] = append(received[idx], m)
			known := false
			for _, o := range offered[idx] {
				if bytes.Equal(o, m) {
					known = true
					break
				}
			}
			if !known {
				unknown = true
			}
		} else {
			unknown = true
		}
		mu.Unlock()
		notify()
	}
	onRecvErr := func(r interface{}) {
		mu.Lock()
		if recvErr == nil {
			recvErr = r
		}
		mu.Unlock()
		notify()
	}
	var sendErr atomic.Value
	sender := p2p.NewMConnection(conf, sc[0], mconnDescs(capacity, mc.SwapPrio), func(byte, []byte) {}, func(r interface{}) { sendErr.Store(fmt.Sprint(r)); notify() })
	receiver := p2p.NewMConnection(conf, sc[1], mconnDescs(capacity, mc.SwapPrio), onReceive, onRecvErr)
	toStop = []*p2p.MConnection{sender, receiver}
	sender.Start()
	receiver.Start()

	seq := [2]int{}
	sendOne := func(ch, size int, salt uint64) {
		body := pattern(size, salt)
		mu.Lock()
		offered[ch] = append(offered[ch], body)
		mu.Unlock()
		msg := mc.msg(body)
		ok := sender.Send(mconnChIDs[ch], msg)
		mu.Lock()
		decided[ch]++
		if ok {
			accepted[ch] = append(accepted[ch], body)
		}
		mu.Unlock()
		notify()
	}
	// waitIdle: until every message accepted so far has been delivered (false: the run is over)
	waitIdle := func() bool {
		for {
			mu.Lock()
			idleNow := recvErr == nil
			for ch := 0; ch < 2; ch++ {
				idleNow = idleNow && len(received[ch]) >= len(accepted[ch])
			}
			mu.Unlock()
			if idleNow {
				return true
			}
			select {
			case <-stop:
				return false
			case <-time.After(time.Millisecond):
			}
		}
	}
	var swg sync.WaitGroup
	if mc.Concurrent {
		for ch := 0; ch < 2; ch++ {
			swg.Add(1)
			go func(ch int) {
				defer swg.Done()
				k := 0
				for _, s := range mc.Sends {
					if s.Ch == ch {
						sendOne(ch, s.Size, uint64(5000+ch*100+k))
						k++
					}
				}
				if !mc.NoFollower {
					sendOne(ch, mconnSentinel, uint64(9000+ch))
				}
			}(ch)
		}
	} else {
		swg.Add(1)
		go func() {
			defer swg.Done()
			for i, s := range mc.Sends {
				if mc.idleBefore(i) && !waitIdle() {
					return
				}
				sendOne(s.Ch, s.Size, uint64(5000+s.Ch*100+seq[s.Ch]))
				seq[s.Ch]++
			}
			for ch := 0; ch < 2 && !mc.NoFollower; ch++ {
				sendOne(ch, mconnSentinel, uint64(9000+ch))
			}
		}()
	}
	sendersDone := make(chan struct{})
	go func() { swg.Wait(); close(sendersDone) }()

	timedOut := false
	timer := time.NewTimer(idle)
	defer timer.Stop()
	for finished := false; !finished; {
		select {
		case <-event:
		case <-sendersDone:
			sendersDone = nil
		case <-timer.C:
			timedOut = true
		}
		if timedOut {
			break
		}
		alive()
		if !timer.Stop() {
			select {
			case <-timer.C:
			default:
			}
		}
		timer.Reset(idle)
		mu.Lock()
		all := sendersDone == nil
		for ch := 0; ch < 2 && all; ch++ {
			all = len(received[ch]) >= len(accepted[ch])
		}
		finished = recvErr != nil || unknown || all
		mu.Unlock()
	}
	// (if sendersDone != nil the senders may still be blocked in Send - queue full,
	// 10 s timeout -; they are not waited for)
	mu.Lock()
	defer mu.Unlock()

	// oracle: per channel, what arrived is a prefix of what was accepted, each
	// message byte-equal; an oversize message never arrives, its channel's
	// traffic ends there with an error; without error everything arrives.
	// (A message whose Send has not returned yet - at most one per sending
	// goroutine - may already have arrived: it counts as accepted here.)
	for ch := 0; ch < 2; ch++ {
		expect := append(append([][]byte(nil), accepted[ch]...), offered[ch][decided[ch]:]...)
		for i, m := range received[ch] {
			if i >= len(expect) {
				return mconnOutcome{verdict: "extra-message", size: mc.sizeClass(len(m)), shape: shapeClass(len(m)), detail: fmt.Sprintf("channel %d delivered %d messages, only %d were accepted", ch, len(received[ch]), len(expect))}
			}
			want := expect[i]
			if len(want) > capacity {
				return mconnOutcome{verdict: "oversize-delivered", size: "oversize", shape: shapeClass(len(want)), detail: fmt.Sprintf("channel %d message #%d: a %d-byte message was delivered (%d bytes) through capacity %d", ch, i, len(want), len(m), capacity)}
			}
			if !bytes.Equal(m, want) {
				kind := "corrupted"
				if len(m) < len(want) && bytes.HasPrefix(want, m) {
					kind = "truncated"
				} else if i+1 < len(expect) && bytes.Equal(m, expect[i+1]) {
					kind = "message-lost"
				}
				return mconnOutcome{verdict: kind, size: mc.sizeClass(len(want)), shape: shapeClass(len(want)), detail: fmt.Sprintf("channel %d message #%d: delivered %d bytes, accepted message has %d encoded bytes", ch, i, len(m), len(want))}
			}
		}
	}
	if recvErr != nil {
		// legitimate only if some offered-but-undelivered message is oversize
		for ch := 0; ch < 2; ch++ {
			for i := len(received[ch]); i < len(offered[ch]); i++ {
				if len(offered[ch][i]) > capacity {
					return mconnOutcome{verdict: "ok", detail: "overflow error"}
				}
			}
		}
		return mconnOutcome{verdict: "error-on-legit-message", size: "any", detail: fmt.Sprintf("receiver stopped with %v although no oversize message was outstanding", core.FirstLine(recvErr))}
	}
	if unknown {
		return inconclusive("harness: a delivered message was flagged as never offered, yet everything delivered equals the accepted message at its place")
	}
	if timedOut {
		// the oldest accepted message that has not been delivered
		for ch := 0; ch < 2; ch++ {
			if i := len(received[ch]); i < len(accepted[ch]) {
				m := accepted[ch][i]
				if len(m) > capacity {
					return inconclusive("an oversize message is outstanding and the receiver has not reported an error")
				}
				return mconnOutcome{verdict: "timeout", size: mc.sizeClass(len(m)), shape: shapeClass(len(m)),
					detail: fmt.Sprintf("channel %d: message #%d (%d encoded bytes) was accepted by Send and has not been delivered; %d of %d accepted messages of the channel were delivered, then nothing happened for %v (no delivery, no error)", ch, i, len(m), len(received[ch]), len(accepted[ch]), idle)}
			}
		}
		return inconclusive("idle deadline with nothing outstanding")
	}
	for ch := 0; ch < 2; ch++ {
		if len(received[ch]) != len(accepted[ch]) {
			return mconnOutcome{verdict: "message-lost", size: "any", detail: fmt.Sprintf("channel %d: %d accepted, %d delivered", ch, len(accepted[ch]), len(received[ch]))}
		}
	}
	return mconnOutcome{verdict: "ok"}
}

func (c *ctx) runMConnCase(k kase, replay bool) (verdict string) {
	atomic.AddInt64(&c.evals, 1)
	mc := *k.MConn
	fl := c.begin(k, map[string]string{"part": "mconn"})
	defer c.end(fl)
	var o mconnOutcome
	p, v, st := core.Try(func() { o = mconnRun(mc, mconnIdleDeadline, fl.tick) })
	if p {
		c.report(map[string]string{"part": "mconn", "kind": "panic", "site": core.PanicSite(st)}, k, "panic in harness goroutine: "+core.FirstLine(v))
		return "panic"
	}
	if o.verdict == "ok" || o.verdict == "inconclusive" {
		return o.verdict
	}
	// real goroutines: report only what reproduces every time (an idle deadline: 3 of 3; anything else: 5 of 5)
	times := 5
	if o.verdict == "timeout" {
		times = 3
	}
	for i := 1; i < times; i++ {
		fl.tick()
		var o2 mconnOutcome
		if p, _, _ := core.Try(func() { o2 = mconnRun(mc, mconnIdleDeadline, fl.tick) }); p || o2.verdict != o.verdict || o2.size != o.size || o2.shape != o.shape {
			return "inconclusive"
		}
	}
	kind := o.verdict
	if kind == "timeout" {
		kind = "accepted-never-delivered"
	}
	sig := map[string]string{"part": "mconn", "kind": kind, "size": o.size}
	if o.shape != "" {
		sig["shape"] = o.shape
	}
	c.report(sig, k, fmt.Sprintf("scenario %s (reproduced %d/%d): %s", mc.Name, times, times, o.detail))
	return kind
}

func (c *ctx) runMConnSubset(skip bool) map[string]interface{} {
	scen := mconnScenarios()
	if skip {
		scen = nil
	}
	verdicts := make([]string, len(scen))
	core.Par(len(scen), func(i int) {
		verdicts[i] = c.runMConnCase(kase{Part: "mconn", MConn: &scen[i]}, false)
		c.classes.Add("mconn/" + verdicts[i])
	})
	hist := map[string]int{}
	var inconcl []string
	for i, v := range verdicts {
		hist[v]++
		if v == "inconclusive" {
			inconcl = append(inconcl, scen[i].Name)
		}
	}
	return map[string]interface{}{"scenarios": len(scen), "verdicts": hist, "inconclusive": inconcl}
}
